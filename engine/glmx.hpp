// glmx — bounded exhaustive explorer used by every /verif driver.
//
// A driver registers *ops*.  An op is a named check function `fn(case, outcome)`
// together with the domains (finite, explicitly enumerable input spaces) it is
// to be run over in each tier.  The engine enumerates every index of every
// domain (no sampling, no RNG), in parallel chunks, and reduces the results
// deterministically: per (op, violation-class, known-finding) only the witness
// with the smallest (domain, index) is kept, so identical trees give identical
// verdicts.  Every witness is replayed single-threaded before it is reported.
//
// Header-only on purpose: the driver TU is the only thing that is compiled per
// GLM configuration.
#pragma once
#include <algorithm>
#include <atomic>
#include <chrono>
#include <cinttypes>
#include <cmath>
#include <cstdint>
#include <cstdio>
#include <cstdlib>
#include <cstring>
#include <map>
#include <memory>
#include <mutex>
#include <set>
#include <string>
#include <thread>
#include <unordered_set>
#include <vector>

#ifdef GLMX_SANITIZE
// Sanitizer-as-oracle (C20): the UBSan / ASan runtimes call these weak hooks in the thread that executed the
// undefined behaviour; the engine attributes the report to the (op, input) being evaluated.
extern "C" void __ubsan_get_current_report_data(const char** OutIssueKind, const char** OutMessage, const char** OutFilename, unsigned* OutLine, unsigned* OutCol, char** OutMemoryAddr);
namespace glmx { static thread_local int g_san_reports = 0; static thread_local char g_san_msg[200]; static thread_local unsigned g_san_line = 0; }
extern "C" void __ubsan_on_report(void) {
  const char *kind = "", *msg = "", *file = ""; unsigned line = 0, col = 0; char* addr = nullptr;
  __ubsan_get_current_report_data(&kind, &msg, &file, &line, &col, &addr);
  const char* g = std::strstr(file ? file : "", "/glm/"); if (!g) return;                       // only undefined behaviour executed inside GLM sources counts
  if (glmx::g_san_reports++ == 0) { std::snprintf(glmx::g_san_msg, sizeof glmx::g_san_msg, "UB %s at %s:%u:%u: %s", kind, g + 1, line, col, msg); glmx::g_san_line = line; }
}
extern "C" void __asan_on_error(void) { if (glmx::g_san_reports++ == 0) { std::snprintf(glmx::g_san_msg, sizeof glmx::g_san_msg, "AddressSanitizer error (out-of-bounds / misaligned / invalid access)"); glmx::g_san_line = 1; } }
#endif

namespace glmx {

// ---------------------------------------------------------------- bit helpers
static inline float    f32(uint64_t b) { uint32_t u = (uint32_t)b; float f; std::memcpy(&f, &u, 4); return f; }
static inline double   f64(uint64_t b) { double d; std::memcpy(&d, &b, 8); return d; }
static inline uint64_t b32(float f) { uint32_t u; std::memcpy(&u, &f, 4); return u; }
static inline uint64_t b64(double d) { uint64_t u; std::memcpy(&u, &d, 8); return u; }
static inline bool isnan32(uint64_t b) { return ((uint32_t)b & 0x7fffffffu) > 0x7f800000u; }
static inline bool isnan64(uint64_t b) { return (b & 0x7fffffffffffffffull) > 0x7ff0000000000000ull; }
// BITS comparison class: identical bit pattern, all NaNs identified.
static inline bool same32(float a, float b) { uint64_t x = b32(a), y = b32(b); return x == y || (isnan32(x) && isnan32(y)); }
static inline bool same64(double a, double b) { uint64_t x = b64(a), y = b64(b); return x == y || (isnan64(x) && isnan64(y)); }
// VALUE comparison class: equal as reals or both NaN (+0 == -0).
static inline bool value32(float a, float b) { return a == b || (a != a && b != b); }
static inline bool value64(double a, double b) { return a == b || (a != a && b != b); }
// monotone map of float bits onto a signed integer line, +0 and -0 both at 0
static inline int64_t ord32(float f) { uint32_t u = (uint32_t)b32(f); int64_t m = u & 0x7fffffffu; return (u >> 31) ? -m : m; }
static inline int64_t ord64(double d) { uint64_t u = b64(d); int64_t m = (int64_t)(u & 0x7fffffffffffffffull); return (u >> 63) ? -m : m; }
static inline uint64_t mix64(uint64_t h, uint64_t v) { h ^= v + 0x9e3779b97f4a7c15ull + (h << 6) + (h >> 2); h *= 0xff51afd7ed558ccdull; h ^= h >> 33; return h; }

// -------------------------------------------------------------------- domains
enum { MAXW = 40 };
struct Case { uint64_t w[MAXW]; int n = 0; };

struct Domain {
  enum Kind { RANGE, LIST, PRODUCT, FUNC, ZIP };
  std::string name;
  uint64_t size = 0;
  int words = 1;
  Kind kind = RANGE;
  uint64_t base = 0, stride = 1;                 // RANGE: value = base + i*stride
  std::shared_ptr<std::vector<uint64_t>> list;   // LIST (rows of `words` words)
  std::vector<Domain> subs;                      // PRODUCT: first sub varies slowest
  void (*func)(uint64_t, uint64_t*) = nullptr;   // FUNC: writes `words` words
  bool exhaustive = false;                       // the named space is complete (not a lattice of a larger one)
  void at(uint64_t i, uint64_t* w) const {
    switch (kind) {
      case RANGE: w[0] = base + i * stride; break;
      case LIST: { const uint64_t* p = list->data() + i * (uint64_t)words; for (int k = 0; k < words; ++k) w[k] = p[k]; } break;
      case PRODUCT: {
        int off = words;
        for (int k = (int)subs.size() - 1; k >= 0; --k) {
          const Domain& s = subs[k]; off -= s.words;
          s.at(i % s.size, w + off); i /= s.size;
        }
      } break;
      case ZIP: { int off = 0; for (const Domain& s : subs) { s.at(i % s.size, w + off); off += s.words; } } break;
      case FUNC: func(i, w); break;
    }
  }
};
static inline Domain range(const std::string& name, uint64_t base, uint64_t count, bool exhaustive = true, uint64_t stride = 1) {
  Domain d; d.name = name; d.kind = Domain::RANGE; d.base = base; d.size = count; d.stride = stride; d.exhaustive = exhaustive; return d;
}
static inline Domain list(const std::string& name, std::vector<uint64_t> v, bool exhaustive = false) {
  std::vector<uint64_t> u; std::set<uint64_t> seen;                 // de-duplicate, keep order
  for (uint64_t x : v) if (seen.insert(x).second) u.push_back(x);
  Domain d; d.name = name; d.kind = Domain::LIST; d.size = u.size(); d.exhaustive = exhaustive;
  d.list = std::make_shared<std::vector<uint64_t>>(std::move(u)); return d;
}
static inline Domain rows(const std::string& name, int words, std::vector<uint64_t> flat, bool exhaustive = false) {
  Domain d; d.name = name; d.kind = Domain::LIST; d.words = words; d.size = flat.size() / words; d.exhaustive = exhaustive;
  d.list = std::make_shared<std::vector<uint64_t>>(std::move(flat)); return d;
}
static inline Domain product(const std::string& name, std::vector<Domain> subs) {
  Domain d; d.name = name; d.kind = Domain::PRODUCT; d.size = 1; d.words = 0; d.exhaustive = true;
  for (auto& s : subs) { d.size *= s.size; d.words += s.words; d.exhaustive = d.exhaustive && s.exhaustive; }
  d.subs = std::move(subs); return d;
}
static inline Domain func(const std::string& name, uint64_t size, int words, void (*f)(uint64_t, uint64_t*), bool exhaustive = false) {
  Domain d; d.name = name; d.kind = Domain::FUNC; d.size = size; d.words = words; d.func = f; d.exhaustive = exhaustive; return d;
}
// sub-lattice stride of a capped run: the smallest s >= ceil(size/cap) that is coprime to the size of every factor of a product domain,
// so that the strided index sequence still meets every value of every coordinate (a stride sharing a factor with a coordinate's size
// would skip the same residues of that coordinate for ever)
static inline uint64_t gcd64(uint64_t a, uint64_t b) { while (b) { uint64_t t = a % b; a = b; b = t; } return a; }
static inline uint64_t cap_stride(const Domain& d, uint64_t cap) {
  if (!cap || d.size <= cap) return 1;
  uint64_t s = (d.size + cap - 1) / cap;
  if (d.kind != Domain::PRODUCT) return s;
  for (;; ++s) { bool ok = true; for (const Domain& f : d.subs) if (f.size > 1 && gcd64(s, f.size) != 1) { ok = false; break; } if (ok) return s; }
}

// ------------------------------------------------------------------- outcomes
struct Outcome {
  bool fail; int vclass; int kf; bool nontrivial; int oclass;
  int ngot, nwant; uint64_t got[20], want[20]; char msg[160];
  uint64_t state; bool has_state;   // explicit-state ops: canonical hash of the state reached by this case
  uint64_t dig; bool has_dig;       // observation digest of this case (differential configurations compare per-op sums)
  void dg(uint64_t v) { dig = mix64(dig, v); has_dig = true; }
  uint64_t case_digest() const { if (has_dig) return dig; uint64_t h = 0x51ed; for (int i = 0; i < ngot; ++i) h = mix64(h, got[i]); return h; }
  void st(uint64_t h) { state = h; has_state = true; }
  void reset() { has_state = false; has_dig = false; dig = 0x9d1f; fail = false; vclass = 0; kf = -1; nontrivial = true; oclass = -1; ngot = nwant = 0; msg[0] = 0; }
  void res(uint64_t a) { got[0] = a; ngot = 1; }
  void res(uint64_t a, uint64_t b) { got[0] = a; got[1] = b; ngot = 2; }
  void exp(uint64_t a) { want[0] = a; nwant = 1; }
  void exp(uint64_t a, uint64_t b) { want[0] = a; want[1] = b; nwant = 2; }
  void bad(int cls, const char* m) { fail = true; vclass = cls; std::snprintf(msg, sizeof msg, "%s", m); }
  void cls(int c) { oclass = c; }
};

typedef void (*CheckFn)(const Case&, Outcome&);

struct Op {
  std::string name;
  CheckFn fn = nullptr;
  std::vector<Domain> quick, thorough;
  std::vector<std::string> classes;   // outcome classes that must be reached (vacuity guard)
  std::string note;
};

struct Witness {
  std::string op, domain; uint64_t index = 0; Case c; Outcome o; uint64_t count = 0;
};

struct OpStats {
  uint64_t evaluations = 0, nontrivial = 0, outhash = 0, digest = 0; std::vector<uint64_t> cls;
  struct Dom { std::string name; uint64_t size, done; bool complete, exhaustive; double wall; };
  std::vector<Dom> doms;
  std::vector<std::pair<Case, Outcome>> samples;
  std::unordered_set<uint64_t> states;
};

struct Engine {
  std::string property, config = "default";
  std::vector<Op> ops;
  std::vector<std::string> kf_ids;     // known-finding ids this driver can attribute (index = Outcome::kf)
  std::set<std::string> kf_enabled;    // ids listed in known_findings.json (passed with --known)
  std::vector<std::string> assumptions;
  std::map<std::string, std::string> extra_json;  // driver specific evidence keys (raw JSON values)
  double deadline_s = 2400;
  uint64_t cap = 0; bool quiet = false; bool foreign = false;   // foreign: the run serves another property's oracle (cross-build digests, sanitizer reports); this driver's own oracle verdicts are not judged, so they need not replay   // cap: domains larger than this are enumerated on the sub-lattice {0, s, 2s, ...} with s = ceil(size/cap) (differential / sanitizer runs)
  int nthreads = 0;

  Op& add(const std::string& name, CheckFn fn) { ops.emplace_back(); ops.back().name = name; ops.back().fn = fn; return ops.back(); }

  static std::string jesc(const std::string& s) {
    std::string r; for (char ch : s) { if (ch == '"' || ch == '\\') { r += '\\'; r += ch; } else if (ch == '\n') r += "\\n"; else if ((unsigned char)ch < 0x20) r += ' '; else r += ch; } return r;
  }
  static std::string hexes(const uint64_t* w, int n) {
    std::string r = "["; char b[32];
    for (int i = 0; i < n; ++i) { std::snprintf(b, sizeof b, "%s\"0x%" PRIx64 "\"", i ? "," : "", w[i]); r += b; } return r + "]";
  }

  int main(int argc, char** argv) {
    std::string tier = "quick", out = "", rop = "", rwords = "", only = "", dump_op = "", dump_file = "", show_index = "";
    for (int i = 1; i < argc; ++i) {
      std::string a = argv[i];
      auto next = [&]() { return std::string(i + 1 < argc ? argv[++i] : ""); };
      if (a == "--tier") tier = next();
      else if (a == "--out") out = next();
      else if (a == "--known") { std::string s = next(); size_t p = 0; while (p <= s.size()) { size_t q = s.find(',', p); if (q == std::string::npos) q = s.size(); if (q > p) kf_enabled.insert(s.substr(p, q - p)); p = q + 1; } }
      else if (a == "--replay-op") rop = next();
      else if (a == "--replay-words") rwords = next();
      else if (a == "--deadline") deadline_s = std::atof(next().c_str());
      else if (a == "--threads") nthreads = std::atoi(next().c_str());
      else if (a == "--only") only = next();
      else if (a == "--op-exact") only_exact = next();
      else if (a == "--config") config = next();
      else if (a == "--cap") cap = std::strtoull(next().c_str(), nullptr, 10);
      else if (a == "--quiet") quiet = true;
      else if (a == "--foreign-oracle") foreign = true;
      else if (a == "--dump-op") dump_op = next();
      else if (a == "--dump-file") dump_file = next();
      else if (a == "--show-index") show_index = next();
      else if (a == "--list") { for (auto& o : ops) std::printf("%s\n", o.name.c_str()); return 0; }
    }
    if (!nthreads) nthreads = (int)std::thread::hardware_concurrency();
    if (nthreads < 1) nthreads = 1;
    if (!rop.empty()) return replay(rop, rwords);
    if (!dump_op.empty()) return dump(tier, dump_op, dump_file, show_index);
    return run(tier, out, only);
  }

  // differential support: write the per-case digests of one op (in enumeration order), or show one case
  int dump(const std::string& tier, const std::string& name, const std::string& file, const std::string& show) {
    for (auto& op : ops) if (op.name == name) {
      const std::vector<Domain>& doms = (tier == "thorough" && !op.thorough.empty()) ? op.thorough : op.quick;
      if (!show.empty()) { size_t d = std::strtoull(show.c_str(), nullptr, 10); uint64_t i = std::strtoull(show.substr(show.find(':') + 1).c_str(), nullptr, 10);
        if (d >= doms.size()) return 2; const uint64_t sc = cap_stride(doms[d], cap); if (i * sc >= doms[d].size) return 2; Case c; c.n = doms[d].words; Outcome o; doms[d].at(i * sc, c.w); o.reset(); op.fn(c, o);
        std::printf("{\"in\": %s, \"got\": %s, \"digest\": \"0x%" PRIx64 "\"}\n", hexes(c.w, c.n).c_str(), hexes(o.got, o.ngot).c_str(), o.case_digest()); return 0; }
      FILE* f = std::fopen(file.c_str(), "wb"); if (!f) return 2;
      for (size_t d = 0; d < doms.size(); ++d) { const uint64_t sc = cap_stride(doms[d], cap); const uint64_t nn = (doms[d].size + sc - 1) / sc; std::vector<uint64_t> buf(nn);
        std::vector<std::thread> th; std::atomic<uint64_t> nx(0); const uint64_t CH = 4096;
        for (int t = 0; t < nthreads; ++t) th.emplace_back([&]() { Case c; c.n = doms[d].words; Outcome o; for (;;) { uint64_t lo = nx.fetch_add(CH); if (lo >= nn) break; uint64_t hi = std::min(nn, lo + CH); for (uint64_t i = lo; i < hi; ++i) { doms[d].at(i * sc, c.w); o.reset(); op.fn(c, o); buf[i] = o.case_digest(); } } });
        for (auto& t : th) t.join(); std::fwrite(buf.data(), 8, buf.size(), f); }
      std::fclose(f); return 0; }
    std::fprintf(stderr, "glmx: dump: unknown op %s\n", name.c_str()); return 2;
  }

  int replay(const std::string& rop, const std::string& rwords) {
    for (auto& op : ops) if (op.name == rop) {
      Case c; c.n = 0; size_t p = 0;
      while (p < rwords.size() && c.n < MAXW) { size_t q = rwords.find(',', p); if (q == std::string::npos) q = rwords.size(); c.w[c.n++] = std::strtoull(rwords.substr(p, q - p).c_str(), nullptr, 0); p = q + 1; }
      Outcome o; o.reset();
#ifdef GLMX_SANITIZE
      g_san_reports = 0;
#endif
      op.fn(c, o);
#ifdef GLMX_SANITIZE
      if (g_san_reports) { o.fail = true; o.vclass = 80; o.kf = -1; std::snprintf(o.msg, sizeof o.msg, "%s", g_san_msg); }
#endif
      bool known = o.fail && o.kf >= 0 && kf_enabled.count(kf_ids[o.kf]);
      std::printf("REPLAY op=%s in=%s -> %s%s got=%s want=%s msg=%s\n", rop.c_str(), hexes(c.w, c.n).c_str(), o.fail ? "FAIL" : "ok",
                  known ? " (known finding)" : "", hexes(o.got, o.ngot).c_str(), hexes(o.want, o.nwant).c_str(), o.msg);
      return (o.fail && !known) ? 1 : 0;
    }
    std::fprintf(stderr, "glmx: replay: unknown op %s\n", rop.c_str()); return 2;
  }

  // the x87 tag word must say "all registers empty" between cases: a long double oracle computed on a polluted stack returns NaN
  static bool x87_clean() {
#if defined(__x86_64__) || defined(__i386__)
    unsigned short env[14]; __asm__ volatile("fnstenv %0\n\tfldenv %0" : "+m"(env)); return env[4] == 0xffff;
#else
    return true;
#endif
  }
  // --only: op-name substrings separated by ";;" (any of them selects the op)
  std::string only_exact;   // --op-exact NAME: run exactly this operation (crash triage / crash replay run one operation per process)
  bool selected(const std::string& only, const std::string& name) const {
    if (!only_exact.empty()) return name == only_exact;
    if (only.empty()) return true; size_t p = 0;
    while (true) { size_t q = only.find(";;", p); std::string t = only.substr(p, q == std::string::npos ? std::string::npos : q - p); if (!t.empty() && name.find(t) != std::string::npos) return true; if (q == std::string::npos) return false; p = q + 2; } }
  int run(const std::string& tier, const std::string& out, const std::string& only) {
    auto t0 = std::chrono::steady_clock::now();
    auto elapsed = [&]() { return std::chrono::duration<double>(std::chrono::steady_clock::now() - t0).count(); };
    std::map<std::string, Witness> viol, known;   // key: op|vclass|kf
    std::atomic<bool> x87_dirty(false);
    std::vector<OpStats> stats(ops.size());
    bool all_complete = true; uint64_t tot_eval = 0, tot_nontriv = 0;

    for (size_t oi = 0; oi < ops.size(); ++oi) {
      Op& op = ops[oi]; OpStats& st = stats[oi];
      if (!selected(only, op.name)) continue;
      const std::vector<Domain>& doms = (tier == "thorough" && !op.thorough.empty()) ? op.thorough : op.quick;
      st.cls.assign(op.classes.size() + 1, 0);
      for (const Domain& dom0 : doms) {
        const uint64_t stridecap = cap_stride(dom0, cap);
        Domain dom = dom0; if (stridecap > 1) { dom.size = (dom0.size + stridecap - 1) / stridecap; dom.name = dom0.name + " [every " + std::to_string(stridecap) + "th]"; dom.exhaustive = false; }
        double tdom = elapsed();
        const uint64_t CH = dom.size > (1ull << 26) ? (1ull << 18) : (dom.size > (1ull << 16) ? (1ull << 12) : 256);
        const uint64_t nch = (dom.size + CH - 1) / CH;
        std::atomic<uint64_t> nextc(0), done(0); std::mutex mu; std::atomic<bool> stop(false);
        auto worker = [&]() {
          uint64_t ev = 0, nt = 0, hh = 0, dsum = 0; const uint64_t domsalt = mix64(0x77, std::hash<std::string>()(dom0.name)); std::vector<uint64_t> cl(st.cls.size(), 0);
          std::map<std::string, Witness> lv; std::unordered_set<uint64_t> lstates;
          Case c; Outcome o; c.n = dom.words;
          for (;;) {
            uint64_t ch = nextc.fetch_add(1); if (ch >= nch) break;
            if (stop.load(std::memory_order_relaxed)) break;
            if ((ch & 63) == 0 && elapsed() > deadline_s) { stop = true; break; }
            uint64_t lo = ch * CH, hi = std::min(dom.size, lo + CH);
            if (!x87_clean()) { std::fprintf(stderr, "glmx: ENGINE ERROR: x87/MMX register state is not empty before a chunk of %s (the compiler emitted MMX moves without emms; drivers are built with -mno-mmx to prevent it) - long double oracles would be poisoned\n", op.name.c_str()); x87_dirty = true; stop = true; break; }
            for (uint64_t i = lo; i < hi; ++i) {
#ifdef GLMX_SANITIZE
              g_san_reports = 0;
#endif
              dom0.at(i * stridecap, c.w); o.reset(); op.fn(c, o);
#ifdef GLMX_SANITIZE
              if (g_san_reports) { o.fail = true; o.vclass = 80; o.kf = -1; std::snprintf(o.msg, sizeof o.msg, "%s", g_san_msg); o.ngot = 1; o.got[0] = g_san_line; o.nwant = 0; }
#endif
              ++ev; if (o.nontrivial) ++nt;
              dsum += mix64(mix64(domsalt, i * stridecap), o.case_digest());
              if (o.has_state) lstates.insert(o.state);
              if (o.oclass >= 0 && (size_t)o.oclass < cl.size()) ++cl[o.oclass];
              if (o.fail) {
                char key[64]; if (o.vclass == 80) std::snprintf(key, sizeof key, "|80|L%u", (unsigned)o.got[0]); else std::snprintf(key, sizeof key, "|%d|%d", o.vclass, o.kf);
                std::string k = op.name + key;
                auto it = lv.find(k);
                if (it == lv.end()) { Witness w; w.op = op.name; w.domain = dom.name; w.index = i; w.c = c; w.o = o; w.count = 1; lv[k] = w; }
                else { it->second.count++; if (i < it->second.index) { it->second.index = i; it->second.c = c; it->second.o = o; } }
              }
            }
            done += hi - lo;
          }
          std::lock_guard<std::mutex> g(mu);
          st.evaluations += ev; st.nontrivial += nt; st.digest += dsum; (void)hh;
          st.states.insert(lstates.begin(), lstates.end());
          for (size_t k = 0; k < cl.size(); ++k) st.cls[k] += cl[k];
          for (auto& kv : lv) {
            bool isk = kv.second.o.kf >= 0 && (size_t)kv.second.o.kf < kf_ids.size() && kf_enabled.count(kf_ids[kv.second.o.kf]);
            auto& tgt = isk ? known : viol;
            auto it = tgt.find(kv.first);
            if (it == tgt.end()) tgt[kv.first] = kv.second;
            else { uint64_t cnt = it->second.count + kv.second.count;
                   // earlier domain wins; within the same domain the smaller index wins
                   if (it->second.domain == kv.second.domain && kv.second.index < it->second.index) it->second = kv.second;
                   it->second.count = cnt; }
          }
        };
        std::vector<std::thread> th; int nt = (int)std::min<uint64_t>((uint64_t)nthreads, nch);
        for (int t = 0; t < nt; ++t) th.emplace_back(worker);
        for (auto& t : th) t.join();
        bool complete = done.load() == dom.size;
        all_complete = all_complete && complete;
        st.doms.push_back({dom.name, dom.size, done.load(), complete, dom.exhaustive, elapsed() - tdom});
        // samples: first, middle, last case of the first domain and first of the others
        std::vector<uint64_t> si; si.push_back(0); if (st.samples.size() < 3 && dom.size > 2) { si.push_back(dom.size / 2); si.push_back(dom.size - 1); }
        for (uint64_t i : si) if (i < dom.size && st.samples.size() < 6) { Case c; c.n = dom.words; Outcome o; dom0.at(i * stridecap, c.w); o.reset(); op.fn(c, o); st.samples.push_back({c, o}); }
      }
      tot_eval += st.evaluations; tot_nontriv += st.nontrivial;
    }

    // self-replay of every witness (single threaded, from the recorded words)
    int engine_err = x87_dirty.load() ? 1 : 0;
    auto self = [&](std::map<std::string, Witness>& m) {
      for (auto& kv : m) for (auto& op : ops) if (op.name == kv.second.op) {
        if (kv.second.o.vclass == 80) continue;   // sanitizer reports are de-duplicated per location by the runtime: replay them in a fresh process
        Outcome o; o.reset(); op.fn(kv.second.c, o);
        if (!o.fail || o.vclass != kv.second.o.vclass || o.kf != kv.second.o.kf || o.ngot != kv.second.o.ngot ||
            std::memcmp(o.got, kv.second.o.got, sizeof(uint64_t) * o.ngot)) {
          std::fprintf(stderr, "glmx: ENGINE ERROR: witness of %s did not replay identically\n", kv.first.c_str()); engine_err = 1; }
      }
    };
    if (!foreign) { self(viol); self(known); }
    if (!foreign) for (auto& kv : viol) if (kv.second.o.vclass >= 90) { std::fprintf(stderr, "glmx: ENGINE ERROR: oracle self-check failed: %s\n", kv.second.o.msg); engine_err = 1; }
    // vacuity guard
    std::string vac;
    for (size_t oi = 0; oi < ops.size(); ++oi) {
      if (!selected(only, ops[oi].name)) continue;
      bool opcomplete = true; for (auto& d : stats[oi].doms) opcomplete = opcomplete && d.complete;
      for (size_t k = 0; k < ops[oi].classes.size(); ++k) if (opcomplete && cap == 0 && stats[oi].cls[k] == 0) {   // class coverage is a property of the full domains, not of a capped sub-lattice
        std::fprintf(stderr, "glmx: ENGINE ERROR: op %s never reached outcome class '%s' (vacuous)\n", ops[oi].name.c_str(), ops[oi].classes[k].c_str());
        engine_err = 1; vac += ops[oi].name + ":" + ops[oi].classes[k] + " "; }
    }

    // an op that ran but never met a non-trivial case checked nothing
    for (size_t oi = 0; oi < ops.size(); ++oi) if (stats[oi].evaluations > 0 && stats[oi].nontrivial == 0) {
      std::fprintf(stderr, "glmx: ENGINE ERROR: op %s evaluated %" PRIu64 " cases but none was inside its domain (vacuous)\n", ops[oi].name.c_str(), stats[oi].evaluations); engine_err = 1; vac += ops[oi].name + ":no-nontrivial-case "; }
    double wall = elapsed();
    if (!out.empty()) {
      FILE* f = std::fopen(out.c_str(), "w");
      if (!f) { std::fprintf(stderr, "glmx: cannot write %s\n", out.c_str()); return 2; }
      std::fprintf(f, "{\n \"property\": \"%s\", \"config\": \"%s\", \"tier\": \"%s\", \"wall_s\": %.3f, \"threads\": %d,\n", property.c_str(), jesc(config).c_str(), tier.c_str(), wall, nthreads);
      std::fprintf(f, " \"evaluations\": %" PRIu64 ", \"nontrivial\": %" PRIu64 ", \"complete\": %s, \"engine_error\": %d, \"vacuous\": \"%s\",\n", tot_eval, tot_nontriv, all_complete ? "true" : "false", engine_err, jesc(vac).c_str());
      std::fprintf(f, " \"assumptions\": [");
      for (size_t i = 0; i < assumptions.size(); ++i) std::fprintf(f, "%s\"%s\"", i ? "," : "", jesc(assumptions[i]).c_str());
      std::fprintf(f, "],\n \"extra\": {");
      { bool first = true; for (auto& kv : extra_json) { std::fprintf(f, "%s\"%s\": %s", first ? "" : ",", jesc(kv.first).c_str(), kv.second.c_str()); first = false; } }
      std::fprintf(f, "},\n \"ops\": [\n");
      bool firstop = true;
      for (size_t oi = 0; oi < ops.size(); ++oi) {
        OpStats& st = stats[oi]; if (st.doms.empty()) continue;
        std::fprintf(f, "%s  {\"name\": \"%s\", \"evaluations\": %" PRIu64 ", \"nontrivial\": %" PRIu64 ", \"states\": %zu, \"digest\": \"0x%" PRIx64 "\", \"note\": \"%s\", \"domains\": [", firstop ? "" : ",\n", jesc(ops[oi].name).c_str(), st.evaluations, st.nontrivial, st.states.size(), st.digest, jesc(ops[oi].note).c_str());
        firstop = false;
        for (size_t d = 0; d < st.doms.size(); ++d)
          std::fprintf(f, "%s{\"name\": \"%s\", \"size\": %" PRIu64 ", \"done\": %" PRIu64 ", \"complete\": %s, \"exhaustive_space\": %s, \"wall_s\": %.3f}", d ? "," : "", jesc(st.doms[d].name).c_str(), st.doms[d].size, st.doms[d].done, st.doms[d].complete ? "true" : "false", st.doms[d].exhaustive ? "true" : "false", st.doms[d].wall);
        std::fprintf(f, "], \"classes\": {");
        for (size_t k = 0; k < ops[oi].classes.size(); ++k) std::fprintf(f, "%s\"%s\": %" PRIu64, k ? "," : "", jesc(ops[oi].classes[k]).c_str(), st.cls[k]);
        std::fprintf(f, "}, \"samples\": [");
        for (size_t s = 0; s < st.samples.size(); ++s)
          std::fprintf(f, "%s{\"in\": %s, \"out\": %s}", s ? "," : "", hexes(st.samples[s].first.w, st.samples[s].first.n).c_str(), hexes(st.samples[s].second.got, st.samples[s].second.ngot).c_str());
        std::fprintf(f, "]}");
      }
      std::fprintf(f, "\n ],\n");
      auto dump = [&](const char* key, std::map<std::string, Witness>& m) {
        std::fprintf(f, " \"%s\": [", key); bool first = true;
        for (auto& kv : m) { Witness& w = kv.second;
          std::fprintf(f, "%s\n  {\"op\": \"%s\", \"domain\": \"%s\", \"index\": %" PRIu64 ", \"count\": %" PRIu64 ", \"vclass\": %d, \"kf\": \"%s\", \"msg\": \"%s\", \"input_bits\": %s, \"got_bits\": %s, \"want_bits\": %s}",
            first ? "" : ",", jesc(w.op).c_str(), jesc(w.domain).c_str(), w.index, w.count, w.o.vclass,
            (w.o.kf >= 0 && (size_t)w.o.kf < kf_ids.size()) ? kf_ids[w.o.kf].c_str() : "", jesc(w.o.msg).c_str(),
            hexes(w.c.w, w.c.n).c_str(), hexes(w.o.got, w.o.ngot).c_str(), hexes(w.o.want, w.o.nwant).c_str());
          first = false; }
        std::fprintf(f, "]");
      };
      dump("violations", viol); std::fprintf(f, ",\n"); dump("known", known);
      std::fprintf(f, "\n}\n"); std::fclose(f);
    }
    std::fprintf(stderr, "glmx[%s/%s/%s]: %" PRIu64 " evaluations, %zu violation classes, %zu known-finding classes, %.1fs%s\n", property.c_str(), config.c_str(), tier.c_str(), tot_eval, viol.size(), known.size(), wall, all_complete ? "" : " (DEADLINE HIT: incomplete)");
    if (!quiet) for (auto& kv : viol) std::fprintf(stderr, "  VIOL %s x%" PRIu64 " in=%s got=%s want=%s : %s\n", kv.first.c_str(), kv.second.count, hexes(kv.second.c.w, kv.second.c.n).c_str(), hexes(kv.second.o.got, kv.second.o.ngot).c_str(), hexes(kv.second.o.want, kv.second.o.nwant).c_str(), kv.second.o.msg);
    if (engine_err) return 2;
    return viol.empty() ? 0 : 1;
  }
};

// ------------------------------------------------------ common value lattices
// F32_EDGE: 2 signs x 256 exponents x mantissa set M (DESIGN section 3).
static inline std::vector<uint64_t> f32_edge_mantissas() {
  std::set<uint32_t> m;
  m.insert(0);
  for (int i = 0; i < 23; ++i) { m.insert(1u << i); for (int j = 0; j < i; ++j) m.insert((1u << i) | (1u << j)); }
  std::vector<uint32_t> few(m.begin(), m.end());
  for (uint32_t x : few) m.insert(~x & 0x7fffffu);
  for (uint32_t b = 0; b < 256; ++b) { m.insert(b << 15); m.insert(b); m.insert(0x7fff00u | b); }
  return std::vector<uint64_t>(m.begin(), m.end());
}
static inline Domain F32_EDGE() {
  std::vector<uint64_t> mant = f32_edge_mantissas(), v;
  for (uint32_t s = 0; s < 2; ++s) for (uint32_t e = 0; e < 256; ++e) for (uint64_t m : mant) v.push_back((s << 31) | (e << 23) | (uint32_t)m);
  return list("F32_EDGE", v);
}
static inline Domain F32_ALL() { return range("F32_ALL", 0, 1ull << 32, true); }
static inline std::vector<uint64_t> f32_spec_values() {
  const float vals[] = {0.f, 1.4e-45f, 1.17549421e-38f /*max subnormal*/, 1.17549435e-38f, 0.49999997f, 0.5f, 0.50000006f, 0.99999994f, 1.f, 1.00000012f,
    1.5f, 2.f, 2.5f, 3.f, 3.5f, 0.1f, 0.333333343f, 3.14159274f, 2.71828175f, 7.f, 100.f, 255.f, 256.f, 65504.f, 65536.f, 8388607.5f, 8388608.f, 8388609.f, 16777216.f,
    2147483520.f, 2147483648.f, 3000000000.f, 4294967040.f, 4294967296.f, 9.2233720e18f, 1e-20f, 1e20f, 3.40282347e38f};
  std::vector<uint64_t> v;
  for (float f : vals) { v.push_back(b32(f)); v.push_back(b32(-f)); }
  v.push_back(0x7f800000u); v.push_back(0xff800000u); v.push_back(0x7fc00000u); v.push_back(0xffc00000u); v.push_back(0x7f800001u);
  return v;
}
static inline Domain F32_SPEC() { return list("F32_SPEC", f32_spec_values()); }
static inline std::vector<uint64_t> f64_spec_values() {
  const double vals[] = {0., 4.9406564584124654e-324, 2.2250738585072009e-308, 2.2250738585072014e-308, 0.49999999999999994, 0.5, 0.50000000000000011, 0.99999999999999989, 1., 1.0000000000000002,
    1.5, 2., 2.5, 3., 3.5, 0.1, 1. / 3, 3.141592653589793, 2.718281828459045, 7., 100., 255., 256., 65504., 65536., 8388608., 16777216., 2147483647., 2147483647.5, 2147483648., 3000000000., 4294967295.4999995, 4294967296.,
    4503599627370495.5, 4503599627370496., 4503599627370497., 9007199254740992., 9.2233720368547758e18, 1e-200, 1e200, 1.7976931348623157e308};
  std::vector<uint64_t> v;
  for (double f : vals) { v.push_back(b64(f)); v.push_back(b64(-f)); }
  v.push_back(0x7ff0000000000000ull); v.push_back(0xfff0000000000000ull); v.push_back(0x7ff8000000000000ull); v.push_back(0xfff8000000000000ull);
  return v;
}
static inline Domain F64_SPEC() { return list("F64_SPEC", f64_spec_values()); }
// F64_EDGE (full / reduced): sign x exponent x mantissa with <=2 or >=50 bits set, byte patterns
static inline Domain F64_EDGE(bool full) {
  std::set<uint64_t> m; m.insert(0);
  for (int i = 0; i < 52; ++i) { m.insert(1ull << i); for (int j = 0; j < i; ++j) if (full || i - j < 3 || j < 2 || i > 49) m.insert((1ull << i) | (1ull << j)); }
  std::vector<uint64_t> few(m.begin(), m.end());
  for (uint64_t x : few) m.insert(~x & 0xfffffffffffffull);
  for (uint64_t b = 0; b < 256; ++b) { m.insert(b << 44); m.insert(b); m.insert(0xfffffffffff00ull | b); }
  std::vector<uint64_t> v;
  for (uint64_t s = 0; s < 2; ++s) for (uint64_t e = 0; e < 2048; ++e) {
    bool near = e < 64 || e > 2047 - 64 || (e > 1023 - 70 && e < 1023 + 70) || e % 8 == 0;
    if (!full && !near) continue;
    for (uint64_t x : m) v.push_back((s << 63) | (e << 52) | x);
  }
  return list(full ? "F64_EDGE" : "F64_EDGE_reduced", v);
}
// integer edge sets of width w (as unsigned bit patterns, masked to w bits)
static inline std::vector<uint64_t> int_edge_values(int w) {
  std::set<uint64_t> s; uint64_t mask = w == 64 ? ~0ull : ((1ull << w) - 1);
  auto add = [&](uint64_t x) { s.insert(x & mask); s.insert(~x & mask); s.insert((0 - x) & mask); };
  for (uint64_t k = 0; k < 18; ++k) add(k);
  for (int i = 0; i < w; ++i) { add(1ull << i); add((1ull << i) + 1); add((1ull << i) - 1);
    for (int j = i; j < w; ++j) { uint64_t hi = j == 63 ? ~0ull : ((1ull << (j + 1)) - 1); add(hi & ~((1ull << i) - 1)); } }
  const uint64_t pats[] = {0x5555555555555555ull, 0xAAAAAAAAAAAAAAAAull, 0x3333333333333333ull, 0xCCCCCCCCCCCCCCCCull, 0x0F0F0F0F0F0F0F0Full, 0xF0F0F0F0F0F0F0F0ull, 0x00FF00FF00FF00FFull,
    0x0123456789ABCDEFull, 0xFEDCBA9876543210ull, 0xDEADBEEFCAFEBABEull, 0x8000000080000000ull, 0x7FFFFFFF7FFFFFFFull, 0x0000FFFF0000FFFFull, 0x1248124812481248ull};
  for (uint64_t p : pats) { add(p); add(p >> 1); add(p >> 7); }
  for (uint64_t b = 0; b < 256; b += 17) add(b * 0x0101010101010101ull);
  return std::vector<uint64_t>(s.begin(), s.end());
}
static inline Domain INT_EDGE(int w) { return list("INT" + std::to_string(w) + "_EDGE", int_edge_values(w)); }
static inline Domain INT_ALL(int w) { return range("INT" + std::to_string(w) + "_ALL", 0, 1ull << w, true); }
// OFFBITS(w): all (offset,bits) with offset+bits <= w, packed as offset*128+bits in one word
static inline Domain OFFBITS(int w) {
  std::vector<uint64_t> v; for (int o = 0; o <= w; ++o) for (int b = 0; o + b <= w; ++b) v.push_back((uint64_t)o * 128 + b);
  return list("OFFBITS" + std::to_string(w), v, true);
}

}  // namespace glmx
