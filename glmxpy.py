# glmxpy — orchestration for the /verif checks: build drivers from /repo's working
# tree, run them, merge results, write evidence / replay files, print verdict lines.
import hashlib, json, os, subprocess, sys, time, shutil, glob
from concurrent.futures import ThreadPoolExecutor

VERIF = os.path.dirname(os.path.abspath(__file__))
REPO = os.environ.get('GLMX_REPO', '/repo')
BUILD = os.path.join(VERIF, 'build') if REPO == '/repo' else os.path.join(VERIF, 'build', 'alt_' + hashlib.sha256(REPO.encode()).hexdigest()[:8])   # checks pointed at another tree (seed experiments, background runs) keep their own binary cache
EVID = os.environ.get('GLMX_EVIDENCE_DIR') or os.path.join(VERIF, 'evidence')   # seed experiments and development overrides write to a scratch directory: evidence/ only ever holds runs of the registered check on /repo as it is
REPLAY = os.path.join(VERIF, 'replay')

_TRANSC = ['sin', 'cos', 'tan', 'asin', 'acos', 'atan', 'atan2', 'sinh', 'cosh', 'tanh', 'asinh', 'acosh', 'atanh', 'exp', 'exp2', 'expm1', 'log', 'log2', 'log10', 'log1p', 'pow', 'cbrt', 'hypot', 'sincos']
# transcendental libm functions are never treated as builtins: g++ folds sinl(constant) at -O2 with MPFR (correctly rounded) but calls glibc at -O0, clang never folds,
# so lattices that a driver builds from angles would otherwise differ between the builds that a differential check compares
NO_BUILTIN = ['-fno-builtin-' + f + sfx for f in _TRANSC for sfx in ('', 'f', 'l')]
BASE_FLAGS = ['-std=c++17', '-O2', '-ffp-contract=off', '-fno-fast-math', '-frounding-math', '-pthread', '-w', '-mno-mmx'] + NO_BUILTIN   # -frounding-math: g++ then never folds an inexact libm call (libstdc++ reaches them as __builtin_*, which -fno-builtin-* does not cover)   # -mno-mmx: g++ 12 otherwise emits movq %mm0 / movq2dq without emms in vectorised code, which poisons x87 long double arithmetic of the oracles
ASSUME = ['IEEE-754 binary32/binary64 arithmetic in round-to-nearest (x86-64 SSE math)',
          'floating-point contraction pinned off (-ffp-contract=off); it is a compiler decision, not a GLM setting',
          'glibc libm and libquadmath behave as deterministic functions of their arguments',
          'only the compilers (g++ 12, clang++ 14) and ISA levels this host executes are explored']


def load_configs():
    return json.load(open(os.path.join(VERIF, 'configs.json')))


def load_known():
    kf = json.load(open(os.path.join(VERIF, 'known_findings.json')))
    return kf.get('findings', [])


_tree_hash = None


def tree_hash():
    """content hash of every file under $REPO/glm — an edited header always forces a rebuild"""
    global _tree_hash
    if _tree_hash is None:
        h = hashlib.sha256()
        for root, dirs, files in sorted(os.walk(os.path.join(REPO, 'glm'))):
            dirs.sort()
            for f in sorted(files):
                p = os.path.join(root, f)
                h.update(p[len(REPO):].encode())
                with open(p, 'rb') as fh:
                    h.update(fh.read())
        _tree_hash = h.hexdigest()
    return _tree_hash


def file_hash(paths):
    h = hashlib.sha256()
    for p in paths:
        with open(p, 'rb') as fh:
            h.update(fh.read())
    return h.hexdigest()


class EngineError(Exception):
    pass


def build(src, config, extra_flags=(), tag=None, deps=(), libs=()):
    """compile one driver TU under one configuration; returns path of the binary"""
    cfgs = load_configs()
    cfg = cfgs[config]
    cxx = cfg.get('cxx', 'g++')
    flags = BASE_FLAGS + list(extra_flags) + cfg.get('flags', [])   # configuration flags last: they override per-driver defaults such as -O1
    if '-O0' in flags:      # at -O0 g++ folds no libm call anyway, and g++ 12 miscompiles long-double literal conversions under -O0 -frounding-math (seen in c19's reference weights)
        flags = [f for f in flags if f != '-frounding-math']
    srcp = os.path.join(VERIF, src)
    eng = sorted(glob.glob(os.path.join(VERIF, 'engine', '*.hpp'))) + [os.path.join(VERIF, d) for d in deps]
    key = hashlib.sha256((tree_hash() + file_hash([srcp] + eng) + cxx + ' '.join(flags) + REPO).encode()).hexdigest()[:16]
    name = (tag or os.path.splitext(os.path.basename(src))[0]) + '-' + config
    os.makedirs(BUILD, exist_ok=True)
    out = os.path.join(BUILD, f'{name}-{key}')
    if os.path.exists(out):
        return out
    for old in glob.glob(os.path.join(BUILD, f'{name}-????????????????')):
        try:
            os.remove(old)
        except OSError:
            pass
    cmd = [cxx] + flags + ['-I' + REPO, '-I' + os.path.join(VERIF, 'engine'), srcp, '-o', out + '.tmp'] + cfg.get('libs', []) + list(libs)
    t = time.time()
    r = subprocess.run(cmd, capture_output=True, text=True)
    if r.returncode != 0:
        sys.stderr.write(' '.join(cmd) + '\n' + r.stderr[-6000:])
        raise EngineError(f'compile failed: {src} under {config}')
    os.replace(out + '.tmp', out)
    sys.stderr.write(f'[build] {name} {time.time()-t:.1f}s\n')
    return out


def build_many(jobs, workers=16):
    """jobs: list of (src, config, extra_flags, tag); returns list of binaries in order"""
    tree_hash()
    with ThreadPoolExecutor(max_workers=workers) as ex:
        futs = [ex.submit(build, *j) for j in jobs]
        return [f.result() for f in futs]


def run_driver(binary, prop, config, tier, known_ids, extra_args=(), threads=None, deadline=None, env=None, cap=None, quiet=False):
    os.makedirs(os.path.join(BUILD, 'out'), exist_ok=True)
    out = os.path.join(BUILD, 'out', f'{os.path.basename(binary)}.{tier}{".cap" if cap else ""}.json')
    if os.path.exists(out):
        os.remove(out)
    cmd = [binary, '--tier', tier, '--out', out, '--config', config]
    if known_ids:
        cmd += ['--known', ','.join(known_ids)]
    if threads:
        cmd += ['--threads', str(threads)]
    if deadline:
        cmd += ['--deadline', str(deadline)]
    if cap:
        cmd += ['--cap', str(cap)]
    if quiet:
        cmd += ['--quiet']
    cmd += list(extra_args)
    e = dict(os.environ)
    if env:
        e.update(env)
    r = subprocess.run(cmd, capture_output=True, text=True, env=e)
    sys.stderr.write(r.stderr[-4000:])
    if r.returncode in CRASH_SIGNALS:
        return crash_triage(binary, cmd, out, config, e, r.returncode)
    if r.returncode not in (0, 1) or not os.path.exists(out):
        raise EngineError(f'driver {os.path.basename(binary)} failed with exit {r.returncode}: {r.stderr[-2000:]}')
    res = json.load(open(out))
    if res.get('engine_error'):
        raise EngineError(f'driver {os.path.basename(binary)} reported an engine error (oracle self-check / vacuity / replay)')
    res['_binary'] = binary
    res['_stderr'] = r.stderr
    return res


import signal as _signal
CRASH_SIGNALS = {-int(x): x.name for x in (_signal.SIGSEGV, _signal.SIGBUS, _signal.SIGFPE, _signal.SIGILL, _signal.SIGABRT)}


def crash_triage(binary, cmd, out, config, env, rc):
    """the driver process died on a fatal signal while evaluating GLM code: run every operation in a process of its own and report the ones
    that die as violations (memory corruption / a trap inside the library is not a harness condition: the unchanged tree never crashes)"""
    names = [n for n in subprocess.run([binary, '--list'], capture_output=True, text=True).stdout.split('\n') if n]
    base = [c for c in cmd]
    oi = base.index('--out'); 
    def one(k_name):
        k, name = k_name
        o = f'{out}.op{k}'
        c = list(base); c[oi + 1] = o; c += ['--op-exact', name]
        if os.path.exists(o): os.remove(o)
        r = subprocess.run(c, capture_output=True, text=True, env=env)
        res = json.load(open(o)) if r.returncode in (0, 1) and os.path.exists(o) else None
        if os.path.exists(o): os.remove(o)
        return name, r.returncode, res
    with ThreadPoolExecutor(max_workers=8) as ex:
        results = list(ex.map(one, enumerate(names)))
    merged = {'config': config, 'evaluations': 0, 'nontrivial': 0, 'complete': False, 'ops': [], 'violations': [], 'known': [], 'assumptions': [], 'extra': {}, '_binary': binary, '_stderr': ''}
    crashed = 0
    for name, code, res in results:
        if code in CRASH_SIGNALS:
            crashed += 1
            merged['violations'].append({'op': name, 'vclass': 99, 'kf': -1, 'count': 1, 'input_bits': [], 'got_bits': [], 'want_bits': [], 'domain': '', 'index': 0,
                                         'msg': f'the driver process was killed by {CRASH_SIGNALS[code]} while this operation was being evaluated on the real code (crash inside or caused by the library: memory corruption, trap)',
                                         'detail': {'kind': 'crash', 'signal': CRASH_SIGNALS[code]}})
        elif res is not None:
            if res.get('engine_error'):
                raise EngineError(f'driver {os.path.basename(binary)}: engine error in operation {name} during crash triage')
            for k in ('evaluations', 'nontrivial'): merged[k] += res[k]
            merged['ops'] += res['ops']; merged['violations'] += res['violations']; merged['known'] += res['known']
            for a in res.get('assumptions', []):
                if a not in merged['assumptions']: merged['assumptions'].append(a)
            merged['extra'].update(res.get('extra', {}))
        else:
            raise EngineError(f'driver {os.path.basename(binary)}: operation {name} failed with exit {code} during crash triage')
    if not crashed:
        raise EngineError(f'driver {os.path.basename(binary)} died with {CRASH_SIGNALS[rc]} but no single operation reproduces it')
    sys.stderr.write(f'[crash triage] {os.path.basename(binary)}: {crashed} of {len(names)} operations crash\n')
    return merged


def clear_replays(prop):
    os.makedirs(REPLAY, exist_ok=True)
    for f in glob.glob(os.path.join(REPLAY, f'{prop}-*.json')):
        os.remove(f)


def report(prop, tier, level, results, rule, t0, extra_cov=None, extra_viol=(), extra_known=(), src=None, model_checking=None):
    """merge driver results, write replay + evidence files, print verdict lines, return exit code"""
    known_list = [k for k in load_known() if k['property'] == prop]
    known_text = {k['id']: k['text'] for k in known_list}
    viol, known = [], []
    evaluations = nontrivial = 0
    ops_cov, samples, subdomains, classes = [], [], [], {}
    complete = True
    for res in results:
        cfg = res.get('config', 'default')
        evaluations += res['evaluations']
        nontrivial += res['nontrivial']
        complete = complete and res['complete']
        for op in res['ops']:
            ops_cov.append({'op': op['name'], 'config': cfg, 'evaluations': op['evaluations'], 'nontrivial': op['nontrivial']})
            for d in op['domains']:
                subdomains.append({'op': op['name'], 'config': cfg, 'domain': d['name'], 'size': d['size'], 'enumerated': d['done'],
                                   'complete': d['complete'], 'is_entire_type_space': d['exhaustive_space']})
            if op['classes']:
                classes[f"{op['name']}@{cfg}" if len(results) > 1 else op['name']] = op['classes']
            for s in op['samples'][:2]:
                if len(samples) < 40:
                    samples.append({'op': op['name'], 'config': cfg, 'input_bits': s['in'], 'output_bits': s['out']})
        for v in res['violations']:
            v = dict(v); v['config'] = cfg; v['_src'] = res.get('_src', src); viol.append(v)
        for k in res['known']:
            k = dict(k); k['config'] = cfg; known.append(k)
    viol += list(extra_viol)
    known += list(extra_known)
    clear_replays(prop)
    lines = []
    n = 0
    for v in viol:
        n += 1
        path = os.path.join(REPLAY, f'{prop}-{n}.json')
        rec = {'property': prop, 'op': v['op'], 'config': v.get('config', 'default'), 'input_bits': v.get('input_bits', []),
               'got_bits': v.get('got_bits', []), 'want_bits': v.get('want_bits', []), 'class': v.get('vclass', 0), 'msg': v.get('msg', ''),
               'domain': v.get('domain', ''), 'index': v.get('index', 0), 'count_in_run': v.get('count', 1), 'tier': tier,
               'driver': v.get('_src') or src, 'repo_tree_hash': tree_hash(), 'detail': v.get('detail')}
        json.dump(rec, open(path, 'w'), indent=1)
        print(f"  {v['op']} [{v.get('config','default')}] in={v.get('input_bits')} got={v.get('got_bits')} want={v.get('want_bits')}: {v.get('msg','')}")
        lines.append(f'VIOLATION property={prop} replay={path}')
    seen = set()
    for k in known:
        kid = k.get('kf', '')
        if kid in seen:
            continue
        seen.add(kid)
        print(f"KNOWN-FINDING: property={prop} {kid}: {known_text.get(kid, k.get('msg',''))} (witness op={k['op']} in={k.get('input_bits')}, {k.get('count',1)} cases in this run)")
    for l in lines:
        print(l)
    cov = {'evaluations': evaluations, 'distinct_nontrivial': nontrivial, 'rule': rule, 'samples': samples,
           'exhaustive': bool(complete),
           'exhaustive_note': 'true = every named finite domain below was enumerated to its last index (no cap, no deadline hit); '
                              'sub_domains[].is_entire_type_space tells which of them are the whole value space of their type rather than a lattice in it',
           'ops': ops_cov, 'sub_domains': subdomains, 'outcome_classes': classes,
           'configs': sorted(set(r.get('config', 'default') for r in results)),
           'known_findings_reproduced': sorted(seen), 'repo_tree_hash': tree_hash()}
    if model_checking:
        cov.update(model_checking)
    if extra_cov:
        cov.update(extra_cov)
    assumptions = list(ASSUME)
    for res in results:
        for a in res.get('assumptions', []):
            if a not in assumptions:
                assumptions.append(a)
    ev = {'property_id': prop, 'tier': tier, 'seed': int(os.environ.get('VERIF_SEED', '0') or 0), 'level': level, 'coverage': cov,
          'assumptions': assumptions, 'wall_s': round(time.time() - t0, 3), 'violations': len(viol)}
    os.makedirs(EVID, exist_ok=True)
    json.dump(ev, open(os.path.join(EVID, f'{prop}.json'), 'w'), indent=1)
    print(f'{prop} {tier}: {evaluations} evaluations over {len(subdomains)} (op,domain) pairs in {len(cov["configs"])} configuration(s); '
          f'{len(viol)} violation(s), {len(seen)} known finding(s); {"complete" if complete else "INCOMPLETE (deadline)"}; {ev["wall_s"]}s')
    return 1 if viol else 0


def replay(prop, path, src_default, known_ids):
    rec = json.load(open(path))
    src = rec.get('driver') or src_default
    import props as _p; binary = build(src, rec.get('config', 'default'), libs=tuple(_p.PROPS[prop].get('libs', [])))
    if (rec.get('detail') or {}).get('kind') == 'crash':
        r = subprocess.run([binary, '--tier', rec.get('tier', 'quick'), '--op-exact', rec['op'], '--out', os.path.join(BUILD, 'out', 'replay_crash.json')], capture_output=True, text=True)
        print(f"REPLAY op={rec['op']} -> exit {r.returncode} ({CRASH_SIGNALS.get(r.returncode, 'no crash')})")
        if r.returncode in CRASH_SIGNALS or r.returncode == 1:      # the crash itself depends on the memory layout of the process; the operation failing its oracle is the same violation
            print(f'VIOLATION property={prop} replay={os.path.abspath(path)}'); return 1
        return 0 if r.returncode == 0 else r.returncode
    words = ','.join(rec['input_bits'])
    cmd = [binary, '--tier', rec.get('tier', 'quick'), '--replay-op', rec['op'], '--replay-words', words]   # the tier selects the value lattices of drivers whose lattices grow in the thorough tier
    if known_ids:
        cmd += ['--known', ','.join(known_ids)]
    r = subprocess.run(cmd, capture_output=True, text=True)
    sys.stdout.write(r.stdout)
    sys.stderr.write(r.stderr)
    if r.returncode == 1:
        print(f'VIOLATION property={prop} replay={os.path.abspath(path)}')
    return r.returncode
