# property table: which driver(s), configurations and evidence level decide each property
import glmxpy as G

def run_simple(prop, spec, tier, known_ids, t0, args):
    cfgs = spec.get('configs', ['default'])
    bins = G.build_many([(spec['src'], c, tuple(spec.get('flags', [])), None) for c in cfgs])
    results = []
    extra = ['--only', args.only] if getattr(args, 'only', '') else []
    for b, c in zip(bins, cfgs):
        results.append(G.run_driver(b, prop, c, tier, known_ids, extra_args=extra))
    mc = None
    if spec['level'] == 'model_checking':
        mc = spec['mc'](results)
    return G.report(prop, tier, spec['level'], results, spec['rule'], t0, src=spec['src'], model_checking=mc)

PROPS = {
 'C07': dict(src='drivers/c07.cpp', level='exploration',
   technique='exhaustive enumeration of all 2^16 half and all 2^32 float bit patterns on the real conversion code against a bit-level reference model (cross-checked with F16C hardware)',
   text='Complete decision within the platform assumption: every half pattern and (thorough) every float pattern is pushed through every conversion entry point and compared with an exact reference; nearest/overflow/underflow/sign/monotonicity/round-trip are checked on each one. Quick tier covers all halves plus a structured float lattice containing every tie point.',
   rule='complete enumeration by bit pattern: all 2^16 half patterns through every half->float entry point; float->half over '
        'F32_EDGE (2 signs x 256 exponents x ~1300 structured mantissas) + every half-tie midpoint +-2ulp (quick) or all 2^32 float patterns (thorough). '
        'A case is non-trivial when the input is not rejected by a precondition (none here); distinct because each domain enumerates distinct bit patterns.'),
}
