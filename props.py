# property table: which driver(s), configurations and evidence level decide each property
import os
import glmxpy as G

def run_simple(prop, spec, tier, known_ids, t0, args):
    cfgs = spec.get('configs', ['default'])
    if tier == 'quick' and 'configs_quick' in spec:
        cfgs = spec['configs_quick']
    parts = spec.get('parts')
    if parts:
        plist = list(range(parts)) if tier == 'thorough' else spec.get('quick_parts', list(range(parts)))
    else:
        plist = [None]
    jobs, meta = [], []
    for c in cfgs:
        pbc = dict(spec.get('parts_by_config', {})); pbc.update(spec.get('parts_by_config_quick', {}) if tier == 'quick' else {})
        for k in (pbc.get(c, plist) if parts else plist):
            fl = tuple(spec.get('flags', [])) + ((f'-DGLMX_PART={k}',) if k is not None else ())
            tag = os.path.splitext(os.path.basename(spec['src']))[0] + (f'p{k}' if k is not None else '')
            jobs.append((spec['src'], c, fl, tag, (), tuple(spec.get('libs', []))))
            meta.append(c)
    bins = G.build_many(jobs)
    results = []
    extra = ['--only', args.only] if getattr(args, 'only', '') else []
    nthreads = max(2, 16 // max(1, len(bins))) if len(bins) > 1 and spec.get('parallel_run', True) else None
    def one(bc):
        b, c = bc
        return G.run_driver(b, prop, c, tier, known_ids, extra_args=extra, threads=nthreads)
    if len(bins) > 1 and spec.get('parallel_run', True):
        from concurrent.futures import ThreadPoolExecutor
        with ThreadPoolExecutor(max_workers=len(bins)) as ex:
            results = list(ex.map(one, zip(bins, meta)))
    else:
        results = [one(x) for x in zip(bins, meta)]
    mc = None
    if spec['level'] == 'model_checking':
        mc = spec['mc'](results)
    extra_viol = []
    for key in spec.get('digest_equal', []):
      for grp in spec.get('digest_groups', [None]):
        vals = {r.get('config'): r.get('extra', {}).get(key) for r in results if grp is None or r.get('config') in grp}
        if len(set(vals.values())) > 1:
            extra_viol.append({'op': f'cross-configuration digest {key}', 'config': ','.join(sorted(vals)), 'msg': f'results expressed through named members differ between configurations: {vals}', 'input_bits': [], 'got_bits': [str(v) for v in vals.values()], 'want_bits': []})
    return G.report(prop, tier, spec['level'], results, spec['rule'], t0, src=spec['src'], model_checking=mc, extra_viol=extra_viol)

# ---------------------------------------------------------------------------------------------- differential checks (C15, C03a)
import struct, subprocess, json as _json, fnmatch

def _first_diff(fa, fb):
    a = open(fa, 'rb').read(); b = open(fb, 'rb').read()
    n = min(len(a), len(b)) // 8
    if a == b:
        return None
    lo, hi = 0, n          # binary search on prefix equality is not valid for arbitrary data; scan in blocks
    B = 1 << 16
    for off in range(0, n * 8, B):
        if a[off:off + B] != b[off:off + B]:
            for k in range(off, min(off + B, n * 8), 8):
                if a[k:k + 8] != b[k:k + 8]:
                    return k // 8
    return n

_CAP = [None]

def _locate(binary_cfg, binary_base, opname, tier, opinfo):
    """first differing case of one op between two builds: returns dict(domain, index, in, got_cfg, got_base)"""
    import os, tempfile
    fa = os.path.join(G.BUILD, 'out', 'dump_a.bin'); fb = os.path.join(G.BUILD, 'out', 'dump_b.bin')
    capa = ['--cap', str(_CAP[0])] if _CAP[0] else []
    subprocess.run([binary_cfg, '--tier', tier, '--dump-op', opname, '--dump-file', fa] + capa, capture_output=True)
    subprocess.run([binary_base, '--tier', tier, '--dump-op', opname, '--dump-file', fb] + capa, capture_output=True)
    idx = _first_diff(fa, fb)
    if idx is None:
        return None
    d = 0
    for dom in opinfo['domains']:
        if idx < dom['size']:
            break
        idx -= dom['size']; d += 1
    sa = subprocess.run([binary_cfg, '--tier', tier, '--dump-op', opname, '--show-index', f'{d}:{idx}'] + capa, capture_output=True, text=True).stdout
    sb = subprocess.run([binary_base, '--tier', tier, '--dump-op', opname, '--show-index', f'{d}:{idx}'] + capa, capture_output=True, text=True).stdout
    try:
        ja, jb = _json.loads(sa), _json.loads(sb)
    except Exception:
        ja = jb = {'in': [], 'got': []}
    if ja['in'] != jb['in']:
        raise G.EngineError(f"differential check of {opname}: the two builds enumerate different inputs at the same index ({ja['in']} vs {jb['in']}): the driver's own domain construction depends on the build, nothing can be concluded about GLM")
    return {'domain': d, 'index': idx, 'in': ja['in'], 'got_cfg': ja['got'], 'got_base': jb['got']}

def run_differential(prop, spec, tier, known_ids, t0, args):
    results, extra_viol, extra_known, cov = _differential(prop, spec, tier)
    return G.report(prop, tier, spec['level'], results, spec['rule'], t0, extra_cov=cov, extra_viol=extra_viol, extra_known=extra_known)

def _differential(prop, spec, tier):
    """compile the same drivers under a baseline and under each configuration; per-op observation digests must be equal"""
    table = spec['table_thorough'] if tier == 'thorough' else spec['table_quick']
    _CAP[0] = spec.get('cap')
    cfgs = spec['configs_thorough'] if tier == 'thorough' else spec['configs_quick']
    base = spec.get('baseline', 'default')
    base_of = {c: spec.get('baseline_by_config', {}).get(c, base) for c in cfgs}      # a configuration built with another compiler is compared with a baseline of that compiler
    bases = sorted(set(base_of.values()) | {base})
    jobs, meta = [], []
    for c in bases + [c for c in cfgs if c not in bases]:
        for (src, parts, libs, flags) in table:
            if c in spec.get('not_instantiable', {}).get(src, {}):
                continue      # GLM itself does not compile in this cell (recorded with the diagnostic in the property table)
            for k in (parts if parts is not None else [None]):
                fl = tuple(flags) + ((f'-DGLMX_PART={k}',) if k is not None else ())
                tag = os.path.splitext(os.path.basename(src))[0] + (f'p{k}' if k is not None else '')
                jobs.append((src, c, fl, tag, (), tuple(libs))); meta.append((c, src, k))
    bins = G.build_many(jobs)
    from concurrent.futures import ThreadPoolExecutor
    def one(bm):
        b, (c, src, k) = bm
        r = G.run_driver(b, prop, c, tier, [], threads=4, cap=spec.get('cap'), quiet=True, extra_args=['--foreign-oracle'])
        r['_src'] = src; r['_part'] = k; r['_bin'] = b
        return r
    with ThreadPoolExecutor(max_workers=4) as ex:
        results = list(ex.map(one, zip(bins, meta)))
    basemap = {}
    for r in results:
        if r['config'] in bases:
            for op in r['ops']:
                basemap[(r['config'], r['_src'], r['_part'], op['name'])] = (op, r)
    kfl = [k for k in G.load_known() if k['property'] == prop]
    extra_viol, extra_known, compared, differing = [], [], 0, 0
    for r in results:
        # violations raised by the drivers' own oracles belong to other properties; here only the cross-configuration equality is judged
        r['violations'] = []; r['known'] = []
        if r['config'] not in base_of:
            continue
        base = base_of[r['config']]
        for op in r['ops']:
            key = (base, r['_src'], r['_part'], op['name'])
            if key not in basemap:
                continue
            bop, br = basemap[key]; compared += 1
            if op['digest'] == bop['digest'] and op['evaluations'] == bop['evaluations']:
                continue
            differing += 1
            loc = _locate(r['_bin'], br['_bin'], op['name'], tier, bop) or {'domain': 0, 'index': 0, 'in': [], 'got_cfg': [], 'got_base': []}
            v = {'op': op['name'], 'config': r['config'], 'domain': loc['domain'], 'index': loc['index'], 'input_bits': loc['in'], 'got_bits': loc['got_cfg'], 'want_bits': loc['got_base'],
                 'msg': f"results under configuration '{r['config']}' differ from the baseline '{base}' build (first differing case shown; want = baseline result)", '_src': r['_src'],
                 'detail': {'kind': 'differential', 'baseline': base, 'part': r['_part'], 'cap': spec.get('cap'), 'libs': [l for (s_, p_, l, f_) in table if s_ == r['_src']][0], 'flags': [f for (s_, p_, l, f) in table if s_ == r['_src']][0]}}
            kid = None
            for k in kfl:
                og = k['site']['op_glob']; cg = k['site']['config_glob']
                if any(fnmatch.fnmatch(op['name'], g_) for g_ in (og if isinstance(og, list) else [og])) and any(fnmatch.fnmatch(r['config'], g_) for g_ in (cg if isinstance(cg, list) else [cg])) and _kf_case_ok(k, loc):
                    kid = k['id']; break
            if kid:
                v['kf'] = kid; extra_known.append(v)
            else:
                extra_viol.append(v)
    base = spec.get('baseline', 'default')
    cov = {'baseline_of_configuration': base_of, 'uninstantiable_cells': {f'{s_} @ {c_}': why for s_, d_ in spec.get('not_instantiable', {}).items() for c_, why in d_.items()}, 'configurations_compared_with_baseline': cfgs, 'baseline': base, 'op_digests_compared': compared, 'op_digests_differing': differing,
           'operation_table': [f"{s_}{'[parts ' + ','.join(map(str, p_)) + ']' if p_ is not None else ''}" for (s_, p_, l, f) in table]}
    return results, extra_viol, extra_known, cov

def run_c03(prop, spec, tier, known_ids, t0, args):
    """(b) aligned vs packed inside each ISA build (driver c03.cpp) + (a) packed@ISA == PURE by digests"""
    cfgs = spec['configs_thorough'] if tier == 'thorough' else spec['configs_quick']
    jobs, meta = [], []
    for c in cfgs:
        for k in spec['part_list']:
            jobs.append((spec['src'], c, tuple(spec.get('flags', [])) + (f'-DGLMX_PART={k}',), f'c03p{k}', (), ())); meta.append(c)
    bins = G.build_many(jobs)
    from concurrent.futures import ThreadPoolExecutor
    def one(bc):
        b, c = bc
        return G.run_driver(b, prop, c, tier, known_ids, threads=4, quiet=True)
    with ThreadPoolExecutor(max_workers=4) as ex:
        results = list(ex.map(one, zip(bins, meta)))
    for r in results:
        r['_src'] = spec['src']
    dres, dviol, dknown, dcov = _differential(prop, spec, tier)
    cov = {'aligned_vs_packed_configurations': cfgs, 'packed_isa_vs_pure': dcov}
    return G.report(prop, tier, spec['level'], results + dres, spec['rule'], t0, extra_cov=cov, extra_viol=dviol, extra_known=dknown, src=spec['src'])

def _kf_case_ok(k, loc):
    """a known finding of a differential check names the op, the configuration and a predicate on the first differing input"""
    pred = k.get('site', {}).get('input_predicate')      # python expression over w = list of input words
    if not pred:
        return True
    try:
        return bool(eval(pred, {'w': [int(x, 16) for x in loc['in']]}))
    except Exception:
        return False

def replay_differential(prop, path):
    rec = _json.load(open(path)); d = rec['detail']
    fl = tuple(d['flags']) + ((f"-DGLMX_PART={d['part']}",) if d['part'] is not None else ())
    tag = os.path.splitext(os.path.basename(rec['driver']))[0] + (f"p{d['part']}" if d['part'] is not None else '')
    bc = G.build(rec['driver'], rec['config'], fl, tag, (), tuple(d['libs'])); bb = G.build(rec['driver'], d['baseline'], fl, tag, (), tuple(d['libs']))
    arg = ['--tier', rec['tier'], '--dump-op', rec['op'], '--show-index', f"{rec['domain']}:{rec['index']}"] + (['--cap', str(d['cap'])] if d.get('cap') else [])
    sa = subprocess.run([bc] + arg, capture_output=True, text=True).stdout.strip(); sb = subprocess.run([bb] + arg, capture_output=True, text=True).stdout.strip()
    print(f"REPLAY {rec['op']} case {rec['domain']}:{rec['index']}\n  {rec['config']}: {sa}\n  {d['baseline']}: {sb}")
    if sa != sb:
        print(f'VIOLATION property={prop} replay={os.path.abspath(path)}'); return 1
    return 0

# ---------------------------------------------------------------------------------------------- sanitizer as oracle (C20)
import re as _re
def run_sanitize(prop, spec, tier, known_ids, t0, args):
    table = spec['table_thorough'] if tier == 'thorough' else spec['table_quick']
    cfgs = spec['configs_thorough'] if tier == 'thorough' else spec['configs_quick']
    jobs, meta = [], []
    by_cfg = spec.get('table_by_config_' + tier, {})      # SIMD-aligned sanitizer builds run the drivers whose default-qualified types become aligned
    for c in cfgs:
        for (src, parts, libs, flags) in by_cfg.get(c, table):
            for k in (parts if parts is not None else [None]):
                fl = tuple(flags) + ((f'-DGLMX_PART={k}',) if k is not None else ())
                tag = os.path.splitext(os.path.basename(src))[0] + (f'p{k}' if k is not None else '')
                jobs.append((src, c, fl, tag, (), tuple(libs))); meta.append((c, src, k))
    table = table + [row for c in cfgs for row in by_cfg.get(c, []) if row not in table]
    bins = G.build_many(jobs)
    env = {'UBSAN_OPTIONS': 'halt_on_error=0:print_stacktrace=0:report_error_type=1', 'ASAN_OPTIONS': 'halt_on_error=0:detect_leaks=0:detect_stack_use_after_return=0'}
    from concurrent.futures import ThreadPoolExecutor
    cap = spec['cap_thorough'] if tier == 'thorough' else spec['cap_quick']
    def one(bm):
        b, (c, src, k) = bm
        r = G.run_driver(b, prop, c, tier, [], threads=4, cap=cap, quiet=True, env=env, extra_args=['--foreign-oracle'] + (['--only', args.only] if getattr(args, 'only', '') else []))
        r['_src'] = src; r['_part'] = k
        return r
    with ThreadPoolExecutor(max_workers=4) as ex:
        results = list(ex.map(one, zip(bins, meta)))
    kfl = [k for k in G.load_known() if k['property'] == prop]
    sites = set()
    for r in results:
        keep, kn = [], []
        for v in r['violations']:
            if v.get('vclass') != 80:
                continue          # the drivers' own oracles belong to the other properties; only sanitizer reports count here
            m = _re.match(r'UB (\S+) at (glm/[^:]+):(\d+):(\d+): (.*)', v.get('msg', ''))
            v['_src'] = r['_src']; v['detail'] = {'kind': 'sanitizer', 'part': r['_part'], 'libs': [l for (s_, p_, l, f_) in table if s_ == r['_src']][0], 'flags': [f for (s_, p_, l, f) in table if s_ == r['_src']][0]}
            kid = None
            if m:
                kind, file, line = m.group(1), m.group(2), int(m.group(3)); sites.add((file, line, kind))
                for k in kfl:
                    st = k['site']
                    if 'file_glob' in st:      # a family of call sites: same kind of report, same files, same operations and the same operation text in the report
                        og = st.get('op_glob', '*'); og = og if isinstance(og, list) else [og]
                        if st.get('kind') == kind and fnmatch.fnmatch(file, st['file_glob']) and any(fnmatch.fnmatch(v['op'], g_) for g_ in og) and _re.search(st.get('msg_regex', ''), m.group(5)):
                            kid = k['id']; break
                    elif st.get('file') == file and st.get('kind') == kind and abs(int(st.get('line', line)) - line) <= int(st.get('line_slack', 0)):
                        kid = k['id']; break
            if kid:
                v['kf'] = kid; kn.append(v)
            else:
                keep.append(v)
        r['violations'] = keep; r['known'] = kn
    cov = {'sanitizer_configurations': cfgs, 'operation_table': [f"{s_}{'[parts ' + ','.join(map(str, p_)) + ']' if p_ is not None else ''}" for (s_, p_, l, f) in table],
           'distinct_report_sites_seen': sorted(f'{f}:{l} {k}' for (f, l, k) in sites), 'domain_cap': cap,
           'explanation': 'every driver restricts its inputs to the documented domain of the function under test before calling it, so every sanitizer report raised inside a glm/ source file is undefined behaviour inside a documented domain'}
    return G.report(prop, tier, spec['level'], results, spec['rule'], t0, extra_cov=cov)

def replay_sanitize(prop, path):
    rec = _json.load(open(path)); d = rec['detail']
    fl = tuple(d['flags']) + ((f"-DGLMX_PART={d['part']}",) if d['part'] is not None else ())
    tag = os.path.splitext(os.path.basename(rec['driver']))[0] + (f"p{d['part']}" if d['part'] is not None else '')
    b = G.build(rec['driver'], rec['config'], fl, tag, (), tuple(d['libs']))
    env = dict(os.environ); env.update({'UBSAN_OPTIONS': 'halt_on_error=0:print_stacktrace=1', 'ASAN_OPTIONS': 'halt_on_error=0:detect_leaks=0'})
    r = subprocess.run([b, '--tier', rec.get('tier', 'quick'), '--replay-op', rec['op'], '--replay-words', ','.join(rec['input_bits'])], capture_output=True, text=True, env=env)
    print(r.stdout + r.stderr[-3000:])
    if r.returncode == 1:
        print(f'VIOLATION property={prop} replay={os.path.abspath(path)}')
    return r.returncode

def mc_c02(results):
    st = tr = 0
    for r in results:
        for op in r['ops']:
            if op['name'].startswith('sequences'):
                st += op.get('states', 0); tr += op['nontrivial']
    return {'states': st, 'transitions': tr, 'traces_validated_against_impl': tr,
            'state_graph_note': 'states = distinct matrix values reached by operation sequences (hash of the value vector, no abstraction), summed over shapes/types; transitions = edges of the history tree (every sequence is replayed from its start matrix on a fresh real object and on the array reference model and compared element by element after every step)'}

def mc_c17(results):
    st = tr = 0
    for r in results:
        for op in r['ops']:
            if op.get('states', 0):
                st += op['states']; tr += op['nontrivial']
    return {'states': st, 'transitions': tr, 'traces_validated_against_impl': tr,
            'state_graph_note': 'explicit-state part: all sequences of swizzle writes (14 write forms x every duplicate-free name) up to the depth, from tagged start vectors; states = distinct component vectors reached (hash, no abstraction); every sequence is replayed on a real vector and on an array model and compared after each step'}

def mc_c14(results):
    st = tr = 0
    samples = []
    for r in results:
        for op in r['ops']:
            if op['name'].startswith('step-graph'):
                st += op['nontrivial']; tr += 2 * op['nontrivial']
            elif op['name'].startswith('n-step'):
                tr += 2 * op['nontrivial']
    return {'states': st, 'transitions': tr, 'traces_validated_against_impl': tr,
            'state_graph_note': 'states = finite float/double bit patterns visited; transitions = nextFloat/prevFloat (and n-step chains) executed on the implementation; every transition is compared with the reference model, so validated == transitions'}

_C15_TABLE_Q = [('drivers/c01.cpp', [0, 3, 5, 7], [], ['-O1']), ('drivers/c11.cpp', None, ['-lquadmath'], []), ('drivers/c14.cpp', None, [], []), ('drivers/c05.cpp', None, [], []),
                ('drivers/c18.cpp', None, [], []), ('drivers/c06.cpp', None, [], []), ('drivers/c13.cpp', None, [], []), ('drivers/c04.cpp', None, [], []), ('drivers/c02.cpp', [1], [], ['-O1']), ('drivers/c09.cpp', None, [], ['-DC09_RECOMPOSE_DOUBLE'])]
_C15_TABLE_T = [('drivers/c01.cpp', list(range(15)), [], ['-O1'])] + _C15_TABLE_Q[1:-2] + [('drivers/c07.cpp', None, [], []), ('drivers/c12.cpp', None, [], []), ('drivers/c02.cpp', [0, 1, 2], [], ['-O1']), ('drivers/c09.cpp', None, [], ['-DC09_RECOMPOSE_DOUBLE']), ('drivers/c10.cpp', None, [], []), ('drivers/c19.cpp', None, [], [])]

_C20_TABLE_Q = [('drivers/c01.cpp', [0, 3, 5, 7, 9, 11, 13], [], []), ('drivers/c11.cpp', None, [], []), ('drivers/c14.cpp', None, [], []), ('drivers/c05.cpp', None, [], []), ('drivers/c18.cpp', None, [], []),
                ('drivers/c06.cpp', None, [], []), ('drivers/c07.cpp', None, [], []), ('drivers/c02.cpp', [0, 1], [], []), ('drivers/c12.cpp', None, [], []), ('drivers/c13.cpp', None, [], []), ('drivers/c19.cpp', None, [], [])]
_C20_TABLE_T = [('drivers/c01.cpp', list(range(15)), [], [])] + _C20_TABLE_Q[1:7] + [('drivers/c02.cpp', list(range(7)), [], []), ('drivers/c12.cpp', None, [], []), ('drivers/c13.cpp', None, [], []), ('drivers/c19.cpp', None, [], []),
                ('drivers/c04.cpp', None, [], []), ('drivers/c08.cpp', None, [], ['-DC08_HAVE_INFINITEPERSPECTIVE_LH_RH']), ('drivers/c09.cpp', None, [], ['-DC09_RECOMPOSE_DOUBLE']), ('drivers/c10.cpp', None, [], [])]

_C17_FLAGS = ['-DC17_HAVE_ALIGNED_UVEC2_SWIZZLE', '-DC17_HAVE_ALIGNED_VEC2_3LETTER', '-DC17_HAVE_VEC4_SSSV1']
_C20_ALIGNED_Q = [('drivers/c02.cpp', [1], [], []), ('drivers/c12.cpp', None, [], []), ('drivers/c13.cpp', None, [], []), ('drivers/c06.cpp', None, [], []), ('drivers/c05.cpp', None, [], []), ('drivers/c18.cpp', None, [], [])]   # c05/c18: the intrinsics-only integer code paths
_C20_WXYZ = [('drivers/c04.cpp', None, [], []), ('drivers/c13.cpp', None, [], []), ('drivers/c09.cpp', None, [], ['-DC09_RECOMPOSE_DOUBLE'])]   # quaternion storage order switched: indexed component access
_C20_ALIGNED_T = _C20_ALIGNED_Q + [('drivers/c02.cpp', [0, 2], [], []), ('drivers/c04.cpp', None, [], []), ('drivers/c09.cpp', None, [], ['-DC09_RECOMPOSE_DOUBLE']), ('drivers/c10.cpp', None, [], []), ('drivers/c19.cpp', None, [], []), ('drivers/c08.cpp', None, [], ['-DC08_HAVE_INFINITEPERSPECTIVE_LH_RH'])]

PROPS = {
 'C17': dict(src='drivers/c17.cpp', level='model_checking', mc=mc_c17, parts=19, configs=['default', 'swizzle', 'intr_sse2', 'swizzle_intr_clang', 'quat_ctor_xyzw', 'quat_wxyz'],
   parts_by_config={'default': [0] + list(range(4, 14)), 'swizzle': list(range(14)), 'intr_sse2': [0] + list(range(4, 14)), 'swizzle_intr_clang': list(range(19)), 'quat_ctor_xyzw': [0], 'quat_wxyz': [0]},   # the two quaternion-order macros: part 0 holds the quaternion constructors   # the other parts are empty in that configuration
   flags=_C17_FLAGS,
   technique='exhaustive enumeration of the program space: every 2-/3-/4-letter swizzle name over xyzw, rgba, stpq for source lengths 2-4 in the three implementations (member functions, operator/union proxies on packed and aligned types, gtx free functions), all write sequences over duplicate-free names up to a depth against an array model, and every constructor signature of vec1-4 / mat / qua enumerated from the declared overload shapes',
   text='Reads: the index tuple is derived from the NAME (letter -> index) by macro pasting, independent of GLM; every valid name x tag patterns, compared bit for bit. Writes (explicit-state): all sequences of 14 write forms (=vec, =scalar, += -= *= /=, cross-swizzle and self-aliasing forms) over duplicate-free names, array reference model after every step, exactly the named components change. Constructors: 1236 (2598 with aligned types) vector signatures per destination type x value patterns that make static_cast observable, all 49 (U,T) cross-type pairs, cross-qualifier, matrix diagonal/scalars/columns/cross-type, quaternion forms; four build configurations (default, GLM_FORCE_SWIZZLE, intrinsics, operator swizzles). Quaternion constructors also under GLM_FORCE_QUAT_DATA_XYZW and _WXYZ.',
   rule='names: 28/117/336 per source length and letter set; write sequences depth <=3 (L2), <=2 (L3, L4) quick, L3 depth 3 thorough; constructor signatures enumerated by templates from the overload shapes; inadmissible (pattern, U, T) conversions are counted trivial.'),
 'C03': dict(run=run_c03, src='drivers/c03.cpp', level='exploration', part_list=[0, 1, 2, 3, 4, 5, 6, 7, 8, 9, 10, 11, 13],   # part 12 = raw glm_* kernels that no vec/mat/quat operation reaches: outside the statement
   flags=['-DC03_TRY_ALL'], cap=20000, baseline='pure', baseline_by_config={'intr_sse2_clang': 'pure_clang'},
   configs_quick=['intr_sse2', 'intr_avx2_fma'],
   configs_thorough=['intr_sse2', 'intr_sse3', 'intr_ssse3', 'intr_sse41', 'intr_sse42', 'intr_avx', 'intr_avx2', 'intr_avx2_fma', 'intr_sse2_wxyz', 'intr_avx2_wxyz', 'intr_sse2_clang'],
   table_quick=[('drivers/c01.cpp', [0, 3, 5], [], ['-O1']), ('drivers/c12.cpp', None, [], []), ('drivers/c13.cpp', None, [], [])],
   table_thorough=[('drivers/c01.cpp', [0, 1, 2, 3, 4, 5, 6, 7, 8], [], ['-O1']), ('drivers/c12.cpp', None, [], []), ('drivers/c13.cpp', None, [], []), ('drivers/c02.cpp', [0, 1, 2], [], ['-O1']), ('drivers/c04.cpp', None, [], []), ('drivers/c10.cpp', None, [], [])],
   technique='exhaustive differential exploration over instruction-set configurations: in every ISA build each operation is evaluated on aligned (SIMD) and packed (generic) operands built from bit-identical components over complete special-value products / matrix and quaternion grids, and the packed results of every ISA build must equal the GLM_FORCE_PURE build digest for digest',
   text='(b) inside each build (-msse2 ... -mavx2 -mfma, both quaternion layouts, g++ and clang++) every operation that has or routes through an Aligned=true specialisation is run on aligned_{highp,mediump,lowp} and packed operands: identical values for integer/bitwise/comparison/selection/conversion/rounding/single-rounding operations, c.u.sum|terms| for multi-term expressions, 2^-11 relative for lowp reciprocal/rsqrt kernels, identical branch decisions for refract/faceforward/==. Aligned vec3 operands are produced through every API-reachable construction path so that the hidden fourth lane is exercised. (a) the packed path of every ISA build is compared with the GLM_FORCE_PURE build by per-operation observation digests.',
   rule='SPEC^n products, EDGE lattices for unary ops, {-1,0,1,2}^8 vector grids, all {0,1}^16 matrix patterns x 3 variants, unit-vector x eta grids incl. the critical ratio and its float neighbours; 14 parts x ISA configurations.'),
 'C20': dict(run=run_sanitize, replay=replay_sanitize, level='exploration', src='drivers/c01.cpp', table_quick=_C20_TABLE_Q, table_thorough=_C20_TABLE_T,
   configs_quick=['ubsan', 'ubsan_sse2_defaligned', 'ubsan_swizzle_intr', 'ubsan_wxyz'], configs_thorough=['ubsan', 'ubsan_avx2', 'ubsan_sse2_defaligned', 'ubsan_avx2_defaligned', 'ubsan_swizzle_intr', 'ubsan_wxyz'], cap_quick=20000, cap_thorough=200000,
   table_by_config_quick={'ubsan_sse2_defaligned': _C20_ALIGNED_Q, 'ubsan_swizzle_intr': [('drivers/c17.cpp', [7, 9, 11, 16], [], _C17_FLAGS)], 'ubsan_wxyz': _C20_WXYZ},
   table_by_config_thorough={'ubsan_sse2_defaligned': _C20_ALIGNED_T, 'ubsan_avx2_defaligned': _C20_ALIGNED_T, 'ubsan_swizzle_intr': [('drivers/c17.cpp', list(range(19)), [], _C17_FLAGS)], 'ubsan_wxyz': _C20_WXYZ},
   technique='exhaustive enumeration of the other properties\' input domains (restricted by each function\'s documented precondition) through clang UndefinedBehaviorSanitizer + AddressSanitizer instrumented builds of the same drivers; the sanitizer runtime is the oracle and its report hook attributes every report to the (operation, input) being evaluated',
   text='The drivers of the other properties are rebuilt with -fsanitize=undefined,float-cast-overflow,address -fsanitize-recover=all and their domains are enumerated again (domains larger than the cap on the sub-lattice of every s-th index); the weak hooks __ubsan_on_report / __asan_on_error record kind, file, line and the current (op, input), so every distinct undefined operation inside a glm/ source file within a documented domain becomes a replayable violation. Known findings are keyed by (file, line, kind). Sanitizer builds also with aligned SIMD types (SSE2, AVX2) and with operator swizzles, where the vector under test ends an exactly-sized heap block so that any access past the object is reported.',
   rule='operation table x documented-precondition filter of each driver (out-of-domain inputs are skipped before GLM is called) x sanitizer configurations {clang pure, clang AVX2 in thorough}; evaluations are instrumented executions.'),
 'C16': dict(src='drivers/c16.cpp', level='exploration', parts=6, flags=['-O0'],
   configs=['default', 'swizzle', 'xyzw_only', 'size_t_length', 'quat_wxyz', 'ctor_init', 'cxx98', 'intr_sse2', 'intr_avx', 'intr_avx2', 'intr_avx2_defaligned', 'swizzle_intr', 'intr_sse2_wxyz', 'intr_avx2_wxyz', 'intr_sse2_clang', 'intr_sse2_aligned_gentypes'],
   configs_quick=['default', 'xyzw_only', 'size_t_length', 'quat_wxyz', 'intr_sse2', 'intr_avx2_defaligned', 'swizzle_intr', 'intr_sse2_wxyz', 'intr_sse2_aligned_gentypes'],   # *_wxyz: the quaternion order switch combined with SIMD storage
   technique='exhaustive enumeration of the program space: every vec<L,T,Q>, mat<C,R,T,Q>, qua<T,Q> instantiation (L 1..4, C,R 2..4, 11 element types, packed and - with intrinsics - aligned qualifiers) x 15 build configurations, each layout fact observed by executing the generated program and compared with the documented contract',
   text='For every instantiation and configuration: sizeof, alignof, component addresses (&v[i] == &v.x + i, column addresses), named-member order incl. quaternion x,y,z,w / w,x,y,z, value_ptr aliasing value_ptr(m)[c*R+r] == m[c][r], byte image through value_ptr vs operator[], make_vec/make_mat/make_quat round trips, length() value and type (int / size_t), trivially-copyable round trip. Facts are observed at run time, so one wrong fact does not hide the rest; 462 (packed) or 924 (with aligned types) instantiations per configuration, complete. A table of 804 alias names of glm/fwd.hpp and gtc/type_aligned.hpp, generated from the naming grammar, is compared with the instantiation each name spells (is_same, sizeof, alignof); SIMD x WXYZ and clang configurations added (15 in the thorough tier).',
   rule='INSTANTIATIONS = complete table of type descriptors (kind|C|R|T|Q) per configuration; every fact op enumerates the whole table; quick and thorough are the same complete set.'),
 'C15': dict(run=run_differential, replay=replay_differential, level='exploration', src='drivers/c01.cpp', cap=20000,
   table_quick=_C15_TABLE_Q, table_thorough=_C15_TABLE_T,
   configs_quick=['cxx98', 'combo_types', 'combo_env', 'O0', 'O3'],
   configs_thorough=['cxx98', 'cxx03', 'cxx11', 'cxx14', 'cxx17', 'cxx20', 'cxx_unknown', 'inline', 'ctor_init', 'explicit_ctor', 'size_t_length', 'xyzw_only', 'swizzle', 'swizzle_intr', 'unrestricted_gentype', 'quat_wxyz', 'pure', 'compiler_unknown', 'platform_unknown', 'arch_unknown', 'O0', 'O3', 'clang_O0', 'clang_O3', 'combo_types', 'combo_env'], baseline_by_config={'clang_O0': 'clang', 'clang_O3': 'clang'},   # optimisation levels are compared within one compiler (the statement names the optimisation level, not the compiler)
   not_instantiable={'drivers/c19.cpp': {'xyzw_only': 'glm/gtx/color_space.inl and color_space_YCoCg.inl name the components .r .g .b, which GLM_FORCE_XYZW_ONLY removes: the header is ill-formed in this configuration', 'combo_types': 'contains GLM_FORCE_XYZW_ONLY (see xyzw_only)'}},
   technique='exhaustive differential exploration over the configuration lattice: the same operation table (the drivers of the other properties, with their complete quick/thorough input domains) is compiled once per non-semantic configuration and every per-operation observation digest must equal the baseline build; a differing digest is bisected to the first differing input',
   text='Every non-semantic macro / language level / optimisation level / compiler is one point of the configuration lattice and one separate build of the same driver sources from the working tree. Each driver op accumulates a digest of every value GLM returned on every enumerated input (C01: every scalar and vector result of every function x L x T x Q; C11/C14: the std-versus-fallback sensitive functions on the float lattices; integer, packing, quaternion and geometric drivers). Digest equality with the baseline is required for every (op, configuration); results are expressed through named members so storage-order switches are compared by value. A configuration built with another compiler is compared with a baseline of that compiler; a reported difference must have identical input words in both builds.',
   rule='configurations x operation table (see coverage.operation_table) x the quick (thorough) domains of those drivers; evaluations are summed over all builds; a case is non-trivial as defined by its driver.'),
 'C04': dict(src='drivers/c04.cpp', level='exploration', configs=['default', 'quat_wxyz', 'quat_ctor_xyzw', 'lh', 'intr_sse2_defaligned', 'intr_avx2_defaligned_wxyz'], digest_groups=[['default', 'quat_wxyz', 'quat_ctor_xyzw']], digest_equal=['named_member_digest_float', 'named_member_digest_double'],
   technique='exhaustive enumeration of a finite rotation set (integer quaternions, icosians, axis-angle lattice, 10^-j neighbourhoods of every branch boundary and gimbal-lock set, each +-1..3 ulp) x vector lattice through every quaternion/matrix/axis-angle/Euler entry point, against a long-double Hamilton/Rodrigues reference, in both quaternion storage orders',
   text='q*v, mat3/4_cast, quat_cast (all four largest-component branches and ties), products, angle/axis/angleAxis, eulerAngles/quat(euler), qua(u,v) incl. parallel/opposite/nearly-opposite pairs, inverse/conjugate/normalize, all 12 gtx eulerAngleABC orders + 6 two-angle forms + yawPitchRoll/orientate with extractEulerAngle round trips, dual quaternions; the same source is built with the default and the WXYZ layout and a digest of every result expressed through named members must be identical in both. pow(q,y)/sqrt(q) against |q|^y (cos yt, n sin yt) incl. pow(q,0) = identity exactly, pow(q,2) = q*q, pow(q,-1) = inverse; aligned SIMD quaternions (SSE2; AVX2 with WXYZ) as further configurations.',
   rule='ROT (57 800 quick / 152 812 thorough quaternions) x VEC3L; ROT_small^2 for products; 55^3 (87^3) angle triples incl. +-pi/2 +-10^-j; NEAR_OPPOSITE pairs on both sides of the fallback threshold. Non-trivial = case inside the stated domain (unit quaternion up to rounding, non-degenerate vectors).'),
 'C08': dict(src='drivers/c08.cpp', level='exploration', configs=['default', 'lh', 'zo', 'lh_zo', 'intr_sse2_defaligned', 'intr_avx2_defaligned'], configs_quick=['default', 'lh', 'zo', 'lh_zo', 'intr_sse2_defaligned'], flags=['-DC08_HAVE_INFINITEPERSPECTIVE_LH_RH'],
   technique='exhaustive enumeration of the parameter lattice (l<r, b<t, near<far, fovy, aspect, width/height, viewports) x every builder variant in all four clip-control build configurations; oracle = the view-volume corners must map to the clip-cube corners, dispatch must be bit-identical to the selected suffixed variant',
   text='Every ortho/frustum/perspective/perspectiveFov/infinitePerspective/tweakedInfinitePerspective variant (RH/LH x NO/ZO) maps its eight view-volume corners (infinite: near corners + depth monotone and bounded along 2^k.near) to the clip cube; perspective == symmetric frustum; perspectiveFov == perspective(w/h); in each of the four macro configurations the unsuffixed and half-suffixed builders are bit-identical to the fully suffixed variant the macros select; project/unProject/pickMatrix against the formula, mutual inverses, cube -> viewport x [0,1]. project/unProject also on extreme volumes (near,far) = (2e7,1e8) and (1e-5,1e-2), where the homogeneous w is far from 1; aligned SIMD matrix types as a further configuration.',
   rule='full product of the DESIGN section C08 parameter grids (quick) / denser grids (thorough), float and double, in each configuration; cases whose error bound cannot be formed (singular to working precision) are counted trivial.'),
 'C09': dict(src='drivers/c09.cpp', level='exploration', configs=['default', 'lh', 'zo', 'lh_zo', 'quat_wxyz', 'quat_ctor_xyzw', 'intr_sse2_defaligned', 'intr_avx2_defaligned_wxyz'], configs_quick=['default', 'lh', 'zo', 'lh_zo', 'quat_wxyz', 'quat_ctor_xyzw', 'intr_sse2_defaligned'], flags=['-DC09_RECOMPOSE_DOUBLE'],
   technique='exhaustive enumeration of base matrices x vectors x axes x angle ladders x shear parameters through every transform builder, against M * E with E built entrywise in long double; lookAt frames and TRS(+skew,+perspective) compositions through decompose/recompose; default and left-handed builds',
   text='translate/rotate/scale/shear (fast and _slow forms), gtx transform/transform2/rotate_vector/rotate_normalized_axis/matrix_transform_2d/matrix_interpolation helpers equal M times the elementary matrix; lookAtRH/LH are rigid, send eye to 0, the view direction to -z/+z and up into the +y half-plane, and lookAt follows the configured handedness; recompose(decompose(M)) == M over rotation set x scales x translations x skews x perspective kinds with every quaternion-extraction branch reached. Also under GLM_FORCE_QUAT_DATA_WXYZ (decompose writes the quaternion by index) and with aligned SIMD types.',
   rule='M(36 base matrices) x VEC3L(378) x 80 axes x 133 (805) angles x shear grids; 3.39M (31M) TRS compositions; invalid lookAt frames skipped (trivial).'),
 'C10': dict(src='drivers/c10.cpp', level='exploration', configs=['default', 'intr_sse2_defaligned', 'intr_avx2_defaligned', 'cxx98'], configs_quick=['default', 'intr_sse2_defaligned', 'cxx98'],   # cxx98: the pre-C++11 constructor twins that affineInverse / inverseTranspose go through
  
   technique='exhaustive enumeration of complete small-integer matrix grids ({-2..2}^4, {-2..2}^9, {0,1}^16 / {-1,0,1}^16 / {-1,0,1,2}^16) and scaled / near-singular families, against an exact __int128 adjugate/determinant reference with the condition number computed exactly',
   text='determinant (Leibniz, multiplicativity, transpose invariance), inverse (both residuals bounded by c.N.u.cond, exact for unimodular integer matrices), inverseTranspose, affineInverse, operator/ (mat/mat, mat/vec, vec/mat), gtx adjugate/diagonal*/qr/rq/matrix_query, integer determinant. By multilinearity a full {0,1}/{-1,0,1} grid is a complete identity test of the cofactor polynomials. M /= M (divisor aliasing the dividend) against M / M and the identity; aligned SIMD matrices (SSE2, AVX2) as further configurations.',
   rule='SMALLMAT grids complete; scaled copies 2^k; near-singular M0 + 2^-p E_ij; matrices beyond the stated condition bound get the determinant check only.'),
 'C12': dict(src='drivers/c12.cpp', level='exploration', configs=['default', 'intr_sse2_defaligned', 'intr_avx2_defaligned'],
   technique='exhaustive enumeration of vector lattices ({-2..2}^L, tagged vectors, 2^+-20 scalings, unit-vector angle ladders, nearly-degenerate pairs, critical refraction ratios and both float neighbours) for L=1..4 and the scalar overloads, against long-double definitions',
   text='dot, length, distance, cross (determinant formula, orthogonality, anti-commutativity), normalize, reflect (formula, length preservation, involution), refract (Snell, exactly zero on total internal reflection, branch decided exactly where k is exactly computable), faceforward (sign decided exactly where certain), gtx norm/projection/perpendicular/orthonormalize/vector_angle/closest_point/normal/mixed_product, float and double. Also with aligned SIMD vector types (SSE2, AVX2): the same long-double oracle decides the SIMD geometric kernels.',
   rule='VSET^2, NEAR pairs, UNIT^2 x ETA, FFSPEC; degenerate inputs (zero vectors, parallel pairs where the function is undefined) skipped as trivial.'),
 'C13': dict(src='drivers/c13.cpp', level='exploration', configs=['default', 'quat_ctor_xyzw', 'intr_sse2_defaligned', 'intr_avx2_defaligned_wxyz'],
   technique='exhaustive enumeration of quaternion pairs (rotation table x axes x a separation ladder from 1e-9 to pi-1e-9 that hits every float on both sides of the linear-fallback switch and of cos=0, both signs) x interpolation factors x spin counts, against the great-circle point evaluated in long double',
   text='slerp (end points, unit norm, on the arc, shorter arc, angular position t.Omega, never NaN, symmetry), mix (oriented arc, conditioning-aware), slerp with spins, lerp, shortMix, fastMix, squad, dual-quaternion lerp; both sides of every code branch counted. Also with aligned SIMD quaternions (SSE2; AVX2 with WXYZ).',
   rule='PAIRS (42 336 quick / 397 488 thorough) + ROT^2 x t13 (x k=-3..3); cases beyond the stated separation for mix/fastMix are trivial.'),
 'C19': dict(src='drivers/c19.cpp', level='exploration', configs=['default', 'intr_sse2_defaligned', 'intr_avx2_defaligned'], configs_quick=['default', 'intr_sse2_defaligned'],
   technique='exhaustive enumeration of all 2^24 8-bit RGB triples (and 16-bit lattices) through the integer YCoCg-R pair on every carrier type, of consecutive-float pairs on dense grids (all floats of [0,1] in the thorough tier) through the sRGB pair for five gammas, and of the 8-bit RGB cube / hue grids through HSV',
   text='rgb2YCoCgR/YCoCgR2rgb exactly lossless on all 2^24 triples for u8,i16,u16,i32,u32,i64 carriers; sRGB pair: range, fixes 0 and 1, monotone between adjacent grid points, mutual inverse within the bound derived from the curve constants, alpha bits untouched; HSV: hue in [0,360), round trips both ways; float YCoCg round trips; saturation/luminosity weights. The sRGB pair is also instantiated for mediump and lowp (except the deliberate lowp vec3<float> approximation); aligned SIMD vector types as a further configuration.',
   rule='ALL 2^24 triples; grids k/16384 + toe k/262144 + both breakpoints +-2ulp (thorough: every consecutive float pair in [0,1]); hue 360k/3600 + sector boundaries +-2ulp.'),
 'C01': dict(src='drivers/c01.cpp', level='exploration', parts=15, flags=['-O1'], configs=['default', 'clang', 'intr_sse2_defaligned', 'intr_avx2_defaligned'], configs_quick=['default', 'intr_sse2_defaligned', 'intr_avx2_defaligned'], parts_by_config_quick={'intr_avx2_defaligned': [7, 8]},   # quick: the SSE4.1/AVX2-only integer kernels (min/max/clamp of int and uint)   # *_defaligned: highp/mediump/lowp name the aligned qualifiers, i.e. the SIMD kernels are compared with the scalar overloads
  
   technique='exhaustive enumeration of the alphabet (component-wise function or operator) x (overload shape) x (vector length 1-4) x (element type) x (qualifier) with complete products of a special-value lattice as inputs, every tuple placed in every lane; oracle = the scalar overload of GLM itself on each component',
   text='Every component-wise function and operator of common/exponential/trigonometric/integer/vector_relational and their ext/gtc/gtx twins is instantiated for every length 1-4, highp/mediump/lowp and every element type it accepts (float, double, int, uint, i8, u8, i16, u16, i64, u64, bool), in every overload shape (vec-vec, vec-scalar, scalar-vec, vec-vec1, vec1-vec, scalar-edge forms, out-parameter forms, compound assignment, ++/--), and evaluated on the complete n-ary product of the special-value lattice; component i of the vector result is compared with the scalar overload on component i (identical bits for selection/rounding/comparison/integer/single-libm-call functions, value equality for arithmetic operators, rounding tolerance for mix/smoothstep/mod/fma, 2^-8 relative for lowp inversesqrt). Matrix abs/mix/equal on all nine shapes. Also run with the aligned qualifiers (GLM_FORCE_DEFAULT_ALIGNED_GENTYPES + intrinsics: the SIMD kernels against the scalar overloads, lowp kernels within 2^-8 on operands in the estimates domain), with compound assignments whose right-hand side aliases the vector or one of its components; the thorough tier enlarges the lattices (all 256 values of 8-bit types) and adds clang and AVX2.',
   rule='thorough tier: the lattices grow to ~430 float / ~470 double values (every 8th binade edge with 4 mantissa patterns, ties k+0.5, decimal and trigonometric constants), ALL 256 values of the 8-bit types (binary operations complete: 65536 pairs), ~250-420 patterns for 16/32/64-bit integers, ternary operations on the first 173 (119 for integers) values cubed, two compilers. quick tier: VALUES<T>: 77 float / 80 double special values (+-0, subnormals, ties, 2^23, 2^24, 2^31, max, inf, quiet and signalling NaN ...), 23 integer patterns per width (0, 1, extremes, alternating and run patterns); unary ops sweep VALUES, binary VALUES^2, ternary VALUES^3; lane k of a vector receives the tuple at rotated indices so neighbouring lanes always hold different tuples. Non-trivial = tuple inside the operator domain (no signed overflow, no division by zero, shift count < width).'),
 'C02': dict(src='drivers/c02.cpp', level='model_checking', mc=mc_c02, parts=7, quick_parts=[0, 1, 2], flags=['-O1'], configs=['default', 'intr_sse2_defaligned', 'intr_avx2_defaligned', 'clang', 'cxx98'], configs_quick=['default', 'intr_sse2_defaligned', 'cxx98'],   # cxx98: the pre-C++11 twins of the constructors (no initializer lists)
  
   technique='exhaustive enumeration of operand lattices that are complete for bilinear index errors (TAG, DEV_2 over base 0, DEV_1 over TAG) for all 27 products / 9 shapes / 81 conversions, plus breadth-first exploration of all operation sequences up to a depth over a 14-operation alphabet, each replayed on the real matrix objects and on a plain-array reference model',
   text='Stateless part: every shape x compatible operand shape x element type is evaluated on all operand tuples differing from zero in at most two entries (five non-zero values each), on distinct-prime tagged operands and their single-entry deviations; by bilinearity this exposes every wrong, missing, duplicated or mis-signed product term. Explicit-state part: all sequences (depth 3 quick, 4-5 thorough) of compound assignments, ++/--, negation, self-multiplication (aliasing), transpose and shape round trips through mat4x4 / mat2x2 from three start matrices per shape, states = value vectors, every transition validated against the array model. Float/double lattices are also run with inexact entries (e/7): products within (K+2)u sum|terms| of the exact sum of the stored operands, single-rounding operators bit-exact; aligned SIMD matrix types (SSE2, AVX2) and clang as further configurations.',
   rule='float/double additionally with every entry divided by 7 (inexact): products and sums within (K+2) u sum|terms| of the exact sum of the stored operands, single-rounding operators bit-exact; configurations: default, aligned SIMD types (SSE2, AVX2), clang. per op: TAG + DEV_2(0,{-2,-1,1,2,3}) + DEV_1(TAG,{0,-p}) over the combined entry list of the operands (thorough adds a DEV_3 sub-lattice for <=18 entries and element types uint, i8, i16, i64); sequences: all words over the 14-op alphabet up to the depth from 3 start matrices; a sequence whose exact result leaves the exactly-representable range is cut (counted trivial).'),
 'C06': dict(src='drivers/c06.cpp', level='exploration', configs=['default', 'intr_sse2_defaligned', 'intr_avx2_defaligned'], configs_quick=['default', 'intr_sse2_defaligned'],
   technique='exhaustive enumeration of every code of every field of every pack format (all 2^2..2^16 codes per field, three companion patterns) and of structured float lattices (all 2^32 floats for the scalar pack functions, thorough) through pack/unpack, against a per-format reference decoder',
   text='37 formats described once (field offset/width/kind) and explored generically. Code sweep: every code of every <=16-bit field (complete) - decode value and component order, re-pack of canonical codes, unpack.pack.unpack idempotence, Inf/NaN codes, monotone decoding. Real sweep: every float of F32_EDGE + a grid around every quantisation step (quick) / all 2^32 floats for single-field formats (thorough) in every field: half-step (normalised) or one-mantissa-step (small float, shared exponent) accuracy, clamping at both range ends, monotonicity, no cross-talk between fields. F3x9_E1x5: all 2^32 words in the thorough tier.',
   rule='codes: ALL_CODES = {format} x {field} x {0..2^w-1} x {companions 0, all-ones, tag}; 32-bit integer fields over INT32_EDGE. reals: {format} x {field} x (STEP_GRID + F32_EDGE), thorough adds F32_ALL for single-field formats and every 257th float for the others. NaN inputs and non-real formats are skipped in the real sweep (counted trivial).'),
 'C14': dict(src='drivers/c14.cpp', level='model_checking', mc=mc_c14, configs=['default', 'cxx98', 'clang'], configs_quick=['default', 'cxx98'],   # cxx98: the bundled nextafter / pre-C++11 branches of gtc/ulp
  
   technique='explicit-state exploration of the float successor graph: every state (all 2^32 float patterns in the thorough tier) has its nextFloat and prevFloat transitions executed on the implementation and checked against integer arithmetic on the IEEE total order',
   text='States are float bit patterns, transitions are nextFloat/prevFloat; each transition is executed on the real code and validated against the reference model (ordered-integer successor), with the invariants prev(next(x))=x, strict monotonicity and distance 1. Thorough visits all 2^32 float states (2^33 transitions); n-step overloads, floatDistance and ULP/epsilon comparisons (scalar, vec1-4, six matrix shapes, quaternion) are explored on lattices that contain every binade edge, both zeros, subnormals and chains crossing zero. Also under GLM_FORCE_CXX98 (the bundled nextafter and the pre-C++11 branches of gtc/ulp) and, thorough, clang.',
   rule='states: F32_ALL (thorough) / F32_EDGE (quick), F64_EDGE; n-step: states x n in {0,1,2,3,7,64} incl. +-0..79 ulp around zero; ULP comparisons: state x distance {0..4,7,8,63,64,65} x {up,down} x maxULPs {0,1,2,4,64}; epsilon comparisons: SPEC^2 x 10 epsilons. Non-trivial = finite state whose targets stay finite.'),
 'C11': dict(src='drivers/c11.cpp', level='exploration', libs=['-lquadmath'], configs=['default', 'intr_sse2_defaligned', 'intr_avx2_defaligned', 'cxx98'], configs_quick=['default', 'intr_sse2_defaligned', 'cxx98'],   # cxx98: the pre-C++11 fallbacks of fmin/fmax/fclamp/round
   technique='exhaustive enumeration of all 2^32 float bit patterns through every unary common function (thorough; structured 6.6e5-point lattice + all ties quick), complete special-value products for n-ary functions, every constant against __float128',
   text='Unary functions (floor ceil trunc round roundEven fract abs sign isnan isinf frexp/ldexp modf iround uround texcoord wraps, bit casts) are decided for every float bit pattern in the thorough tier and on a lattice containing every binade edge, tie and special value in the quick tier; doubles on the analogous lattice; n-ary functions (min max step fmin fmax mod clamp fclamp mix smoothstep fma, 3-/4-operand forms) on the complete product of a ~77-value special lattice; all 31 constants x {float,double} compared bit-for-bit with quad-precision evaluations. The vec4/vec3/vec2 overloads of every unary function are evaluated on (x,-x,x,x) and each lane is held to the same definition; with GLM_FORCE_DEFAULT_ALIGNED_GENTYPES + intrinsics (SSE2; AVX2 in the thorough tier) these lanes are the SIMD kernels, which are thereby decided on every float of the sweep.',
   rule='F32_ALL (2^32 patterns, thorough) / F32_EDGE + F32_TIES (quick); F64_EDGE(+ties beyond 2^31..2^51); F32_SPEC^2, ^3 and a 21-value sublist ^4, same for double. Non-trivial = input inside the function domain (finite for fract/frexp/texcoords, non-negative representable for iround/uround, no signalling NaN for fmin/fmax); distinct by construction.'),
 'C18': dict(src='drivers/c18.cpp', level='exploration', configs=['default', 'intr_avx2'],   # intr_avx2: the SIMD interleave kernels of glm/simd/integer.h
  
   technique='exhaustive enumeration of all 8/16-bit values x all multiples / shift counts / bit counts (and all 2^32 16-bit interleave pairs, thorough) on the real functions against loop-based reference definitions',
   text='Power-of-two family, multiples, findNSB, mask/fill/rotate are decided completely for 8-bit types (every value x every multiple 1..127/255, every shift, every (first,count)) and for all 16-bit values against a set of multiples; 32/64-bit types over boundary lattices; bitfieldInterleave/Deinterleave completely for 8-bit pairs and (thorough) all 2^32 16-bit pairs; gtx integer sqrt/nlz/log2 over all 2^32 ints (thorough). gtx mod(int,int) for both signs of the divisor against x - y floor(x/y).',
   rule='INT8_ALL/INT16_ALL complete, INT32_EDGE/INT64_EDGE lattices (0, +-2^k, +-2^k+-1, runs of ones, complements, patterns) crossed with complete small parameter ranges (multiples, shift 0..w-1, n 1..w+1, OFFBITS). Power-of-two family restricted to x>0 and representable results, multiples to m>=1 and representable results (statement domain); skipped cases are counted as trivial. Float multiples: x=k/4 (k=-200..200) x 9 exactly representable m, all arithmetic exact.'),
 'C05': dict(src='drivers/c05.cpp', level='exploration', configs=['default', 'intr_avx2', 'cxx98'],   # intr_avx2: the popcnt / SIMD code paths of func_integer_simd.inl; cxx98: GLM's own make_unsigned substitute (both builtin 64-bit pairs are enumerated)
  
   technique='exhaustive enumeration of every 8- and 16-bit value (and, thorough, all 2^32 32-bit values) x every legal (offset,bits) pair on the real functions, compared with a bit-at-a-time reference model',
   text='bitCount/findLSB/findMSB/bitfieldReverse/bitfieldExtract are decided completely for 8- and 16-bit types (and for 32-bit unary functions in the thorough tier), signed and unsigned, scalar and vec1-4; bitfieldInsert completely for 8-bit and over structured lattices x all (offset,bits) otherwise; 64-bit types and the two-operand 32-bit carry/borrow/extended-multiply functions over boundary lattices (stated as such in evidence). The carry/borrow/extended-multiply functions are also called with their output objects aliasing an operand (GLSL copies in-arguments at the call).',
   rule='values: INT8_ALL / INT16_ALL complete, INT32_ALL complete (thorough, unary ops) else INT32_EDGE/INT64_EDGE (0, +-2^k, +-2^k+-1, all runs of ones, complements, periodic patterns); (offset,bits): OFFBITS(w) = every pair with offset+bits <= w; vector overloads receive x and three derived companions (~x, rotl3(x), multiplicative hash) in lanes 0..3. Non-trivial = every enumerated case (no precondition rejects any); distinct by construction of the domains.'),
 'C07': dict(src='drivers/c07.cpp', level='exploration',
   technique='exhaustive enumeration of all 2^16 half and all 2^32 float bit patterns on the real conversion code against a bit-level reference model (cross-checked with F16C hardware)',
   text='Complete decision within the platform assumption: every half pattern and (thorough) every float pattern is pushed through every conversion entry point and compared with an exact reference; nearest/overflow/underflow/sign/monotonicity/round-trip are checked on each one. Quick tier covers all halves plus a structured float lattice containing every tie point.',
   rule='complete enumeration by bit pattern: all 2^16 half patterns through every half->float entry point; float->half over '
        'F32_EDGE (2 signs x 256 exponents x ~1300 structured mantissas) + every half-tie midpoint +-2ulp (quick) or all 2^32 float patterns (thorough). '
        'A case is non-trivial when the input is not rejected by a precondition (none here); distinct because each domain enumerates distinct bit patterns.'),
}
