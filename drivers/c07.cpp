// C07 — float <-> half conversion: complete enumeration of both pattern spaces.
#define GLM_ENABLE_EXPERIMENTAL
#include <glm/glm.hpp>
#include <glm/gtc/packing.hpp>
#include <glm/gtc/type_precision.hpp>
#include "glmx.hpp"
#include <immintrin.h>
using namespace glmx;

// ------------------------------------------------------------- reference model
// exact value of a binary16 pattern (finite), as double
static double half_value(uint32_t h) {
  int s = (h >> 15) & 1, e = (h >> 10) & 31, m = h & 1023;
  double v = e == 0 ? std::ldexp((double)m, -24) : std::ldexp((double)(1024 + m), e - 25);
  return s ? -v : v;
}
// reference float pattern of a binary16 pattern (exact conversion; NaN -> quiet-or-not, sign kept)
static uint32_t ref_h2f(uint32_t h) {
  uint32_t s = (h >> 15) & 1, e = (h >> 10) & 31, m = h & 1023;
  if (e == 31) return (s << 31) | 0x7f800000u | (m << 13);
  return (uint32_t)b32((float)half_value(h));   // every finite half is exactly representable
}
// set of acceptable half patterns for float pattern b: returns lo (and hi on a tie); class id in *cls
enum { K_ZERO, K_TINY, K_SUB, K_NORM, K_OVER, K_INF, K_NAN, K_TIE };
static int ref_f2h(uint32_t b, uint32_t* a0, uint32_t* a1, int* tie) {
  uint32_t s = (b >> 31) << 15, mag = b & 0x7fffffffu; *tie = 0;
  if (mag > 0x7f800000u) { *a0 = *a1 = s | 0x7e00; return K_NAN; }     // any NaN with this sign accepted (checked by caller)
  if (mag == 0x7f800000u) { *a0 = *a1 = s | 0x7c00; return K_INF; }
  double x = (double)f32(mag);
  if (x == 0.0) { *a0 = *a1 = s; return K_ZERO; }
  if (x >= 65520.0) { *a0 = *a1 = s | 0x7c00; return K_OVER; }
  if (x < std::ldexp(1.0, -25)) { *a0 = *a1 = s; return K_TINY; }
  int ex; std::frexp(x, &ex);                       // x = f * 2^ex, f in [0.5,1)
  int e2 = ex - 1;                                   // floor(log2 x)
  double ulp = e2 < -14 ? std::ldexp(1.0, -24) : std::ldexp(1.0, e2 - 10);
  double q = x / ulp;                                // exact: power-of-two scaling
  double lo = std::floor(q), fr = q - lo;
  auto enc = [&](double n) -> uint32_t {             // n*ulp as half pattern (n up to 2048)
    double v = n * ulp; if (v >= 65536.0) return 0x7c00; if (v == 0.0) return 0;
    int e; std::frexp(v, &e); int E = e - 1;
    if (E < -14) return (uint32_t)std::ldexp(v, 24);
    return (uint32_t)(((E + 15) << 10) | ((uint32_t)std::ldexp(v, 10 - E) - 1024));
  };
  int k = e2 < -14 ? K_SUB : K_NORM;
  if (fr == 0.5) { *a0 = s | enc(lo); *a1 = s | enc(lo + 1); *tie = 1; return K_TIE; }
  *a0 = *a1 = s | enc(fr < 0.5 ? lo : lo + 1); return k;
}
__attribute__((target("f16c,avx"))) static uint32_t hw_f2h(float x) { return (uint32_t)_cvtss_sh(x, _MM_FROUND_TO_NEAREST_INT | _MM_FROUND_NO_EXC) & 0xffff; }
__attribute__((target("f16c,avx"))) static float hw_h2f(uint32_t h) { return _cvtsh_ss((unsigned short)h); }
static int64_t hord(uint32_t h) { int64_t m = h & 0x7fff; return (h >> 15) ? -m : m; }

// -------------------------------------------------------------- entry points
static uint32_t impl_f2h_detail(float x) { return (uint32_t)(uint16_t)glm::detail::toFloat16(x); }
static uint32_t impl_f2h_pack1(float x) { return glm::packHalf1x16(x); }
static float impl_h2f_detail(uint32_t h) { return glm::detail::toFloat32((glm::detail::hdata)(int16_t)(uint16_t)h); }
static float impl_h2f_unpack1(uint32_t h) { return glm::unpackHalf1x16((glm::uint16)h); }

// spec check for one float->half result
static bool check_f2h_result(uint32_t b, uint32_t got, Outcome& o, const char* who) {
  uint32_t a0, a1; int tie; int k = ref_f2h(b, &a0, &a1, &tie);
  o.cls(k); o.exp(a0, a1);
  char m[160];
  if (k == K_NAN) {
    if (!((got & 0x7c00) == 0x7c00 && (got & 0x3ff) != 0 && (got & 0x8000) == (a0 & 0x8000))) { std::snprintf(m, sizeof m, "%s: NaN input must give a NaN half with the same sign", who); o.bad(1, m); return false; }
    return true;
  }
  if (got != a0 && got != a1) {
    std::snprintf(m, sizeof m, "%s: result is not %s (class %d)", who, k == K_OVER ? "the same-signed infinity" : (k == K_TINY || k == K_ZERO) ? "the same-signed zero" : "a nearest half", k);
    o.bad(2 + k, m); return false;
  }
  return true;
}
template <uint32_t (*F)(float)> static void op_f2h(const Case& c, Outcome& o) {
  uint32_t b = (uint32_t)c.w[0]; float x = f32(b);
  uint32_t got = F(x); o.res(got);
  if (!check_f2h_result(b, got, o, "float->half")) return;
  // oracle self-check against F16C (must agree with the reference except on exact ties / NaN payload)
  uint32_t a0, a1; int tie; int k = ref_f2h(b, &a0, &a1, &tie);
  uint32_t hw = hw_f2h(x);
  if (k != K_NAN && hw != a0 && hw != a1) { o.bad(95, "ORACLE: reference model and F16C hardware disagree"); return; }
  // sign symmetry
  if (k != K_NAN) { uint32_t gn = F(f32(b ^ 0x80000000u)); if (gn != (got ^ 0x8000u)) { o.exp(got ^ 0x8000u); o.res(got, gn); o.bad(20, "float->half not sign-symmetric: h(-x) != h(x)^0x8000"); return; } }
  // monotone along the total order of the sweep: h(x) <= h(succ(x)) for non-NaN neighbours of the same sign
  uint32_t mag = b & 0x7fffffffu;
  if (mag < 0x7f800000u) { uint32_t g2 = F(f32(b + 1)); bool neg = b >> 31;
    if (neg ? hord(g2) > hord(got) : hord(g2) < hord(got)) { o.res(got, g2); o.bad(21, "float->half not monotone between adjacent floats"); return; } }
}
template <float (*F)(uint32_t), uint32_t (*B)(float)> static void op_h2f(const Case& c, Outcome& o) {
  uint32_t h = (uint32_t)c.w[0]; float g = F(h); uint32_t gb = (uint32_t)b32(g), want = ref_h2f(h);
  o.res(gb); o.exp(want);
  int e = (h >> 10) & 31, m = h & 1023; o.cls(e == 0 ? (m ? 1 : 0) : e == 31 ? (m ? 4 : 3) : 2);
  if (e == 31 && m) {   // NaN: NaN with sign preserved
    if (!(isnan32(gb) && (gb >> 31) == (h >> 15))) { o.bad(1, "half NaN must convert to a float NaN with the same sign"); return; }
    uint32_t back = B(g); o.res(gb, back);
    if (back != h) { o.exp(want, h); o.bad(2, "half NaN pattern is not returned by half->float->half (statement: the same pattern for all 65536)"); return; }
    return;
  }
  if (gb != want) { o.bad(3, "half->float is not the exact binary16 value"); return; }
  float hw = hw_h2f(h); if (b32(hw) != want) { o.bad(95, "ORACLE: reference and F16C disagree on half->float"); return; }
  uint32_t back = B(g); o.res(gb, back);
  if (back != h) { o.exp(want, h); o.bad(4, "half->float->half does not return the same pattern"); return; }
}

// vector forms: every lane of packHalf2x16/4x16/packHalf<L> must satisfy the same spec, unpack must be exact
static void op_pack_vec(const Case& c, Outcome& o) {
  // lane 0 sweeps the domain, other lanes carry rotated copies (fixed companions) so lane mix-ups show
  uint32_t b = (uint32_t)c.w[0]; float x = f32(b);
  const uint32_t comp[3] = {0x3c000000u /*2^-7*/, 0xc2f60000u /*-123*/, 0x477fe000u /*65504*/};
  const uint32_t comph[3] = {0x2000, 0xd7b0, 0x7bff};
  o.cls(0);
  for (int pos = 0; pos < 4; ++pos) {
    float l[4]; uint32_t eh[4]; int k = 0;
    for (int i = 0; i < 4; ++i) { if (i == pos) { l[i] = x; eh[i] = 0xffffffffu; } else { l[i] = f32(comp[k]); eh[i] = comph[k]; ++k; } }
    uint32_t got[4]; char m[160];
    // packHalf4x16
    { uint64_t p = glm::packHalf4x16(glm::vec4(l[0], l[1], l[2], l[3])); for (int i = 0; i < 4; ++i) got[i] = (uint32_t)(p >> (16 * i)) & 0xffff;
      for (int i = 0; i < 4; ++i) { if (i == pos) { o.res(got[i]); if (!check_f2h_result(b, got[i], o, "packHalf4x16 lane")) return; } else if (got[i] != eh[i]) { std::snprintf(m, sizeof m, "packHalf4x16: component %d not in bits %d..%d", i, 16 * i, 16 * i + 15); o.res(got[i]); o.exp(eh[i]); o.bad(30, m); return; } }
      glm::vec4 u = glm::unpackHalf4x16(p); for (int i = 0; i < 4; ++i) if ((uint32_t)b32(u[i]) != ref_h2f(got[i]) && !(isnan32(b32(u[i])) && isnan32(ref_h2f(got[i])))) { o.res(b32(u[i])); o.exp(ref_h2f(got[i])); o.bad(31, "unpackHalf4x16 lane is not the exact half value"); return; } }
    // packHalf<4>, packHalf<3>, packHalf<2>, packHalf<1>
    { glm::u16vec4 p = glm::packHalf(glm::vec4(l[0], l[1], l[2], l[3])); for (int i = 0; i < 4; ++i) got[i] = p[i];
      for (int i = 0; i < 4; ++i) { if (i == pos) { o.res(got[i]); if (!check_f2h_result(b, got[i], o, "packHalf<4> lane")) return; } else if (got[i] != eh[i]) { o.res(got[i]); o.exp(eh[i]); o.bad(32, "packHalf<4>: companion lane changed"); return; } }
      glm::vec4 u = glm::unpackHalf(p); for (int i = 0; i < 4; ++i) if (!same32(u[i], f32(ref_h2f(got[i])))) { o.res(b32(u[i])); o.exp(ref_h2f(got[i])); o.bad(33, "unpackHalf<4> lane is not the exact half value"); return; } }
    if (pos < 3) { glm::u16vec3 p = glm::packHalf(glm::vec3(l[0], l[1], l[2])); for (int i = 0; i < 3; ++i) got[i] = p[i];
      for (int i = 0; i < 3; ++i) { if (i == pos) { o.res(got[i]); if (!check_f2h_result(b, got[i], o, "packHalf<3> lane")) return; } else if (got[i] != eh[i]) { o.res(got[i]); o.exp(eh[i]); o.bad(34, "packHalf<3>: companion lane changed"); return; } }
      glm::vec3 u = glm::unpackHalf(p); for (int i = 0; i < 3; ++i) if (!same32(u[i], f32(ref_h2f(got[i])))) { o.res(b32(u[i])); o.exp(ref_h2f(got[i])); o.bad(35, "unpackHalf<3> lane is not the exact half value"); return; } }
    if (pos < 2) { glm::u16vec2 p = glm::packHalf(glm::vec2(l[0], l[1])); for (int i = 0; i < 2; ++i) got[i] = p[i];
      for (int i = 0; i < 2; ++i) { if (i == pos) { o.res(got[i]); if (!check_f2h_result(b, got[i], o, "packHalf<2> lane")) return; } else if (got[i] != eh[i]) { o.res(got[i]); o.exp(eh[i]); o.bad(36, "packHalf<2>: companion lane changed"); return; } }
      glm::vec2 u = glm::unpackHalf(p); for (int i = 0; i < 2; ++i) if (!same32(u[i], f32(ref_h2f(got[i])))) { o.res(b32(u[i])); o.exp(ref_h2f(got[i])); o.bad(37, "unpackHalf<2> lane is not the exact half value"); return; }
      // packHalf2x16 (core GLSL)
      glm::uint q = glm::packHalf2x16(glm::vec2(l[0], l[1])); got[0] = q & 0xffff; got[1] = q >> 16;
      for (int i = 0; i < 2; ++i) { if (i == pos) { o.res(got[i]); if (!check_f2h_result(b, got[i], o, "packHalf2x16 lane")) return; } else if (got[i] != eh[i]) { o.res(got[i]); o.exp(eh[i]); o.bad(38, "packHalf2x16: first component must be in the low 16 bits"); return; } }
      glm::vec2 u2 = glm::unpackHalf2x16(q); for (int i = 0; i < 2; ++i) if (!same32(u2[i], f32(ref_h2f(got[i])))) { o.res(b32(u2[i])); o.exp(ref_h2f(got[i])); o.bad(39, "unpackHalf2x16 lane is not the exact half value"); return; } }
    if (pos < 1) { glm::u16vec1 p = glm::packHalf(glm::vec1(l[0])); o.res(p.x); if (!check_f2h_result(b, p.x, o, "packHalf<1>")) return;
      glm::vec1 u = glm::unpackHalf(p); if (!same32(u.x, f32(ref_h2f(p.x)))) { o.res(b32(u.x)); o.exp(ref_h2f(p.x)); o.bad(40, "unpackHalf<1> is not the exact half value"); return; } }
  }
}
// unpack vector forms over all 2^16 codes in each lane
static void op_unpack_vec(const Case& c, Outcome& o) {
  uint32_t h = (uint32_t)c.w[0]; uint32_t want = ref_h2f(h); o.exp(want); o.cls(0);
  const uint32_t ch[3] = {0x2000, 0xd7b0, 0x7bff};
  auto okv = [&](float g) { uint32_t gb = (uint32_t)b32(g); o.res(gb); return gb == want || (isnan32(gb) && isnan32(want) && (gb >> 31) == (want >> 31)); };
  for (int pos = 0; pos < 4; ++pos) {
    uint32_t l[4]; int k = 0; for (int i = 0; i < 4; ++i) l[i] = i == pos ? h : ch[k++];
    uint64_t p4 = 0; for (int i = 0; i < 4; ++i) p4 |= (uint64_t)l[i] << (16 * i);
    glm::vec4 u = glm::unpackHalf4x16(p4); if (!okv(u[pos])) { o.bad(50, "unpackHalf4x16: wrong value in swept lane"); return; }
    for (int i = 0; i < 4; ++i) if (i != pos && b32(u[i]) != ref_h2f(l[i])) { o.res(b32(u[i])); o.exp(ref_h2f(l[i])); o.bad(51, "unpackHalf4x16: companion lane wrong (field order)"); return; }
    glm::vec4 v = glm::unpackHalf(glm::u16vec4(l[0], l[1], l[2], l[3])); if (!okv(v[pos])) { o.bad(52, "unpackHalf<4>: wrong value in swept lane"); return; }
    for (int i = 0; i < 4; ++i) if (i != pos && b32(v[i]) != ref_h2f(l[i])) { o.res(b32(v[i])); o.exp(ref_h2f(l[i])); o.bad(53, "unpackHalf<4>: companion lane wrong"); return; }
    if (pos < 3) { glm::vec3 w = glm::unpackHalf(glm::u16vec3(l[0], l[1], l[2])); if (!okv(w[pos])) { o.bad(54, "unpackHalf<3>: wrong value in swept lane"); return; }
      for (int i = 0; i < 3; ++i) if (i != pos && b32(w[i]) != ref_h2f(l[i])) { o.res(b32(w[i])); o.exp(ref_h2f(l[i])); o.bad(55, "unpackHalf<3>: companion lane wrong"); return; } }
    if (pos < 2) { glm::vec2 w = glm::unpackHalf(glm::u16vec2(l[0], l[1])); if (!okv(w[pos])) { o.bad(56, "unpackHalf<2>: wrong value in swept lane"); return; }
      if (b32(w[1 - pos]) != ref_h2f(l[1 - pos])) { o.bad(57, "unpackHalf<2>: companion lane wrong"); return; }
      glm::vec2 z = glm::unpackHalf2x16(l[0] | (l[1] << 16)); if (!okv(z[pos])) { o.bad(58, "unpackHalf2x16: wrong value in swept lane"); return; }
      if (b32(z[1 - pos]) != ref_h2f(l[1 - pos])) { o.bad(59, "unpackHalf2x16: companion lane wrong (field order)"); return; } }
    if (pos < 1) { glm::vec1 w = glm::unpackHalf(glm::u16vec1(l[0])); if (!okv(w.x)) { o.bad(60, "unpackHalf<1>: wrong value"); return; } }
  }
}

int main(int argc, char** argv) {
  Engine E; E.property = "C07";
  E.assumptions = {"float is IEEE-754 binary32; conversions run in round-to-nearest", "reference model cross-checked against F16C hardware conversion on every enumerated input"};
  Domain all16 = range("HALF_ALL(2^16 patterns)", 0, 1ull << 16, true);
  Domain edge = F32_EDGE();
  // every float that is an exact tie between two halves, and its +-1ulp neighbours; plus the range boundaries
  std::vector<uint64_t> ties;
  for (uint32_t h = 0; h < 0x7c00; ++h) { double mid = (half_value(h) + (h + 1 == 0x7c00 ? 65536.0 : half_value(h + 1))) / 2; float f = (float)mid; if ((double)f == mid) { uint32_t b = (uint32_t)b32(f); for (int d = -2; d <= 2; ++d) { ties.push_back(b + d); ties.push_back((b + d) | 0x80000000u); } } }
  for (uint32_t b : {0x33000000u /*2^-25*/, 0x33800000u /*2^-24*/, 0x38800000u /*2^-14*/, 0x477fe000u /*65504*/, 0x477ff000u /*65520*/, 0x47800000u}) for (int d = -3; d <= 3; ++d) { ties.push_back(b + d); ties.push_back((b + d) | 0x80000000u); }
  Domain tied = list("HALF_TIES(every midpoint of adjacent halves, +-2 ulp, both signs)", ties);
  const std::vector<std::string> kc = {"zero", "below-half-min-subnormal", "subnormal-result", "normal-result", "overflow-to-inf", "inf", "nan", "exact-tie"};
  { Op& op = E.add("toFloat16(detail)", op_f2h<impl_f2h_detail>); op.quick = {edge, tied}; op.thorough = {F32_ALL()}; op.classes = kc; }
  { Op& op = E.add("packHalf1x16", op_f2h<impl_f2h_pack1>); op.quick = {edge, tied}; op.thorough = {F32_ALL()}; op.classes = kc; }
  { Op& op = E.add("toFloat32(detail)+roundtrip", op_h2f<impl_h2f_detail, impl_f2h_detail>); op.quick = {all16}; op.classes = {"zero", "subnormal", "normal", "inf", "nan"}; }
  { Op& op = E.add("unpackHalf1x16+roundtrip", op_h2f<impl_h2f_unpack1, impl_f2h_pack1>); op.quick = {all16}; op.classes = {"zero", "subnormal", "normal", "inf", "nan"}; }
  { Op& op = E.add("packHalf2x16/4x16/packHalf<L> lanes", op_pack_vec); op.quick = {tied, edge}; op.thorough = {tied, edge, range("F32 every 61st pattern", 0, (1ull << 32) / 61, false, 61)}; }
  { Op& op = E.add("unpackHalf2x16/4x16/unpackHalf<L> lanes", op_unpack_vec); op.quick = {all16}; }
  return E.main(argc, argv);
}
