// C02 — matrix operators/functions implement column-major linear algebra for all 9 shapes.
// Stateless part: TAG / DEV_2(0) / DEV_1(TAG) operand lattices (complete for bilinear index slips) against a
// triple-loop int64 reference.  Explicit-state part: all operation sequences up to a depth over a compound
// alphabet from tagged start matrices, replayed on the real objects and on a plain-array reference model.
#define GLM_ENABLE_EXPERIMENTAL
#include <glm/glm.hpp>
#include <glm/gtc/matrix_access.hpp>
#include <glm/gtc/type_precision.hpp>
#include <glm/ext/matrix_integer.hpp>
#include <glm/gtx/matrix_operation.hpp>
#include <glm/gtx/matrix_major_storage.hpp>
#include <glm/gtx/matrix_cross_product.hpp>
#include "glmx.hpp"
#include <type_traits>
using namespace glmx;

typedef int64_t i64;
static inline i64 W(uint64_t w) { return (i64)w; }
template <typename T> static inline T cv(i64 v) { return (T)v; }            // wraps for narrow/unsigned integer types, exact for floats on small ints
template <typename T> static inline bool eqv(T got, i64 want) { return got == cv<T>(want); }
template <int C, int R, typename T> static glm::mat<C, R, T> mk(const uint64_t* w) { glm::mat<C, R, T> m; for (int c = 0; c < C; ++c) for (int r = 0; r < R; ++r) m[c][r] = cv<T>(W(w[c * R + r])); return m; }
template <int L, typename T> static glm::vec<L, T> mkv(const uint64_t* w) { glm::vec<L, T> v; for (int i = 0; i < L; ++i) v[i] = cv<T>(W(w[i])); return v; }
struct Ref { i64 a[4][4]; };   // a[c][r]
template <int C, int R> static Ref mkr(const uint64_t* w) { Ref m; for (int c = 0; c < 4; ++c) for (int r = 0; r < 4; ++r) m.a[c][r] = 0; for (int c = 0; c < C; ++c) for (int r = 0; r < R; ++r) m.a[c][r] = W(w[c * R + r]); return m; }
// for narrow element types the reference must wrap the stored operands first
template <typename T> static inline i64 st(i64 v) { return std::is_integral<T>::value ? (i64)cv<T>(v) : v; }

#define FAILM(CLS, MSG, GOT, WANT) { o.res((uint64_t)(i64)(GOT)); o.exp((uint64_t)(i64)(WANT)); o.bad(CLS, MSG); return; }

// ------------------------------------------------------------------ products  A(CxR) * B(C2xC), A*v, v*A
template <int C, int R, int C2, typename T> static void op_matmul(const Case& c, Outcome& o) {
  glm::mat<C, R, T> A = mk<C, R, T>(c.w); glm::mat<C2, C, T> B = mk<C2, C, T>(c.w + C * R); Ref a = mkr<C, R>(c.w), b = mkr<C2, C>(c.w + C * R);
  glm::mat<C2, R, T> P = A * B; o.cls(0);
  for (int cc = 0; cc < C2; ++cc) for (int r = 0; r < R; ++r) { i64 s = 0; for (int k = 0; k < C; ++k) s += st<T>(a.a[k][r]) * st<T>(b.a[cc][k]); if (!eqv<T>(P[cc][r], s)) { o.res((uint64_t)(i64)P[cc][r], cc * 4 + r); o.exp((uint64_t)s); o.bad(1, "(A*B)[c][r] != sum_k A[k][r]*B[c][k]"); return; } }
}
template <int C, int R, typename T> static void op_matvec(const Case& c, Outcome& o) {
  glm::mat<C, R, T> A = mk<C, R, T>(c.w); Ref a = mkr<C, R>(c.w); const uint64_t* vw = c.w + C * R; o.cls(0);
  glm::vec<C, T> v = mkv<C, T>(vw); glm::vec<R, T> u = mkv<R, T>(vw + C);
  glm::vec<R, T> mv = A * v; for (int r = 0; r < R; ++r) { i64 s = 0; for (int k = 0; k < C; ++k) s += st<T>(a.a[k][r]) * st<T>(W(vw[k])); if (!eqv<T>(mv[r], s)) { o.res((uint64_t)(i64)mv[r], r); o.exp((uint64_t)s); o.bad(1, "(A*v)[r] != sum_k A[k][r]*v[k]"); return; } }
  glm::vec<C, T> vm = u * A; for (int cc = 0; cc < C; ++cc) { i64 s = 0; for (int r = 0; r < R; ++r) s += st<T>(W(vw[C + r])) * st<T>(a.a[cc][r]); if (!eqv<T>(vm[cc], s)) { o.res((uint64_t)(i64)vm[cc], cc); o.exp((uint64_t)s); o.bad(2, "(v*A)[c] != sum_r v[r]*A[c][r]"); return; } }
  // outerProduct(col (R comps), row (C comps))[c][r] = col[r]*row[c]
  auto op = glm::outerProduct(u, v); for (int cc = 0; cc < C; ++cc) for (int r = 0; r < R; ++r) { i64 s = st<T>(W(vw[C + r])) * st<T>(W(vw[cc])); if (!eqv<T>(op[cc][r], s)) { o.res((uint64_t)(i64)op[cc][r], cc * 4 + r); o.exp((uint64_t)s); o.bad(3, "outerProduct(c,r)[i][j] != c[j]*r[i]"); return; } }
  // transpose, row/column access
  glm::mat<R, C, T> t = glm::transpose(A); for (int cc = 0; cc < C; ++cc) for (int r = 0; r < R; ++r) if (!eqv<T>(t[r][cc], a.a[cc][r])) { o.res((uint64_t)(i64)t[r][cc], cc * 4 + r); o.exp((uint64_t)a.a[cc][r]); o.bad(4, "transpose(A)[r][c] != A[c][r]"); return; }
  for (int r = 0; r < R; ++r) { glm::vec<C, T> rw = glm::row(A, r); for (int cc = 0; cc < C; ++cc) if (!eqv<T>(rw[cc], a.a[cc][r])) { o.res((uint64_t)(i64)rw[cc], r * 4 + cc); o.exp((uint64_t)a.a[cc][r]); o.bad(5, "row(A, r)[c] != A[c][r]"); return; } }
  for (int cc = 0; cc < C; ++cc) { glm::vec<R, T> cl = glm::column(A, cc); for (int r = 0; r < R; ++r) if (!eqv<T>(cl[r], a.a[cc][r])) { o.res((uint64_t)(i64)cl[r], cc * 4 + r); o.exp((uint64_t)a.a[cc][r]); o.bad(6, "column(A, c)[r] != A[c][r]"); return; } }
  for (int r = 0; r < R; ++r) { glm::mat<C, R, T> s = glm::row(A, r, v); for (int cc = 0; cc < C; ++cc) for (int rr = 0; rr < R; ++rr) { i64 w = rr == r ? W(vw[cc]) : a.a[cc][rr]; if (!eqv<T>(s[cc][rr], w)) { o.res((uint64_t)(i64)s[cc][rr], cc * 4 + rr); o.exp((uint64_t)w); o.bad(7, "row(A, r, v): must replace exactly row r"); return; } } }
  for (int cc = 0; cc < C; ++cc) { glm::mat<C, R, T> s = glm::column(A, cc, u); for (int c2 = 0; c2 < C; ++c2) for (int rr = 0; rr < R; ++rr) { i64 w = c2 == cc ? W(vw[C + rr]) : a.a[c2][rr]; if (!eqv<T>(s[c2][rr], w)) { o.res((uint64_t)(i64)s[c2][rr], c2 * 4 + rr); o.exp((uint64_t)w); o.bad(8, "column(A, c, v): must replace exactly column c"); return; } } }
}
// ------------------------------------------------------------------ inexact entries: "differs only by the rounding of the individual products and sums"
// the same lattices, every entry e replaced by e/7 (inexact in binary): products and sums round, so the oracle is the exact sum of the products of the
// STORED operands (long double / __float128-free: products of two T values are exact in long double for float, and for double the tolerance absorbs it)
// within (K+2) u sum|terms| (forward error of a length-K dot product); single products A*s, matrixCompMult, outerProduct must be correctly rounded.
template <typename T> static inline T fr(uint64_t w) { return (T)((long double)W(w) / 7.0L); }
template <int C, int R, int C2, typename T> static void op_matmul_frac(const Case& c, Outcome& o) {
  typedef long double LD; const LD u = sizeof(T) == 4 ? 0x1p-24L : 0x1p-53L; o.cls(0);
  glm::mat<C, R, T> A; glm::mat<C2, C, T> B; for (int cc = 0; cc < C; ++cc) for (int r = 0; r < R; ++r) A[cc][r] = fr<T>(c.w[cc * R + r]); for (int cc = 0; cc < C2; ++cc) for (int r = 0; r < C; ++r) B[cc][r] = fr<T>(c.w[C * R + cc * C + r]);
  glm::vec<C, T> v; for (int k = 0; k < C; ++k) v[k] = B[0][k]; glm::vec<R, T> w; for (int r = 0; r < R; ++r) w[r] = A[0][r];
  glm::mat<C2, R, T> P = A * B;
  for (int cc = 0; cc < C2; ++cc) for (int r = 0; r < R; ++r) { LD s = 0, m = 0; for (int k = 0; k < C; ++k) { LD t = (LD)A[k][r] * (LD)B[cc][k]; s += t; m += fabsl(t); }
    if (!(fabsl((LD)P[cc][r] - s) <= (C + 2) * u * m)) { o.res(sizeof(T) == 4 ? b32((float)P[cc][r]) : b64((double)P[cc][r]), cc * 4 + r); o.exp(b64((double)s)); o.bad(1, "(A*B)[c][r] differs from sum_k A[k][r]*B[c][k] by more than the rounding of the products and sums"); return; } }
  glm::vec<R, T> mv = A * v; for (int r = 0; r < R; ++r) { LD s = 0, m = 0; for (int k = 0; k < C; ++k) { LD t = (LD)A[k][r] * (LD)v[k]; s += t; m += fabsl(t); }
    if (!(fabsl((LD)mv[r] - s) <= (C + 2) * u * m)) { o.res(sizeof(T) == 4 ? b32((float)mv[r]) : b64((double)mv[r]), r); o.exp(b64((double)s)); o.bad(2, "(A*v)[r] differs from sum_k A[k][r]*v[k] by more than rounding"); return; } }
  glm::vec<C, T> vm = w * A; for (int cc = 0; cc < C; ++cc) { LD s = 0, m = 0; for (int r = 0; r < R; ++r) { LD t = (LD)w[r] * (LD)A[cc][r]; s += t; m += fabsl(t); }
    if (!(fabsl((LD)vm[cc] - s) <= (R + 2) * u * m)) { o.res(sizeof(T) == 4 ? b32((float)vm[cc]) : b64((double)vm[cc]), cc); o.exp(b64((double)s)); o.bad(3, "(v*A)[c] differs from sum_r v[r]*A[c][r] by more than rounding"); return; } }
  // one rounding each: must be the correctly rounded product / quotient / sum of the stored operands (the C++ operator on T is that)
  T sc = B[0][0]; glm::mat<C, R, T> As = A * sc, sA = sc * A, Ap = A + A * sc, Am = A - sA; auto op = glm::outerProduct(w, v);
  for (int cc = 0; cc < C; ++cc) for (int r = 0; r < R; ++r) { T p = (T)(A[cc][r] * sc);
    if (!(As[cc][r] == p) || !(sA[cc][r] == (T)(sc * A[cc][r])) || !(Ap[cc][r] == (T)(A[cc][r] + p)) || !(Am[cc][r] == (T)(A[cc][r] - (T)(sc * A[cc][r]))) || !(op[cc][r] == (T)(w[r] * v[cc]))) { o.res(cc * 4 + r); o.bad(4, "A*s, s*A, A+B, A-B, outerProduct: an element is not the correctly rounded single operation on the stored operands"); return; }
    if (sc != 0) { glm::mat<C, R, T> Ad = A / sc; if (!(Ad[cc][r] == (T)(A[cc][r] / sc))) { o.res(cc * 4 + r); o.bad(5, "(A/s)[c][r] is not the correctly rounded quotient A[c][r]/s"); return; } } }
}

// ------------------------------------------------------------------ element-wise operators, two matrices + scalar
template <int C, int R, typename T> static void op_elementwise(const Case& c, Outcome& o) {
  glm::mat<C, R, T> A = mk<C, R, T>(c.w), B = mk<C, R, T>(c.w + C * R); Ref a = mkr<C, R>(c.w), b = mkr<C, R>(c.w + C * R); i64 sv = W(c.w[2 * C * R]); T s = cv<T>(sv); o.cls(0);
  bool bz = false, az = false; for (int cc = 0; cc < C; ++cc) for (int r = 0; r < R; ++r) { if (cv<T>(b.a[cc][r]) == T(0)) bz = true; if (cv<T>(a.a[cc][r]) == T(0)) az = true; }
  bool isint = std::is_integral<T>::value;
#define EW(CLS, EXPR, REFEXPR, MSG) { glm::mat<C, R, T> X_ = EXPR; for (int cc = 0; cc < C; ++cc) for (int r = 0; r < R; ++r) { T want = (T)(REFEXPR); if (!(X_[cc][r] == want)) { o.res((uint64_t)(i64)X_[cc][r], cc * 4 + r); o.exp((uint64_t)(i64)want); o.bad(CLS, MSG); return; } } }
#define AE cv<T>(a.a[cc][r])
#define BE cv<T>(b.a[cc][r])
  EW(1, A + B, (T)(AE + BE), "A + B") EW(2, A - B, (T)(AE - BE), "A - B") EW(3, glm::matrixCompMult(A, B), (T)(AE * BE), "matrixCompMult")
  EW(4, A + s, (T)(AE + s), "A + s") EW(5, A - s, (T)(AE - s), "A - s") EW(6, A * s, (T)(AE * s), "A * s") EW(7, s * A, (T)(s * AE), "s * A") EW(8, -A, (T)(T(0) - AE), "-A") EW(9, +A, AE, "+A")
  if (s != T(0) && !(isint && std::is_signed<T>::value && s == T(-1))) { EW(10, A / s, (T)(AE / s), "A / s") }
  if (!az && !(isint && std::is_signed<T>::value)) { EW(11, s / A, (T)(s / AE), "s / A") } else if (!az && sv != std::numeric_limits<i64>::min()) { bool m1 = false; for (int cc = 0; cc < C; ++cc) for (int r = 0; r < R; ++r) if (AE == T(-1)) m1 = true; if (!m1) { EW(11, s / A, (T)(s / AE), "s / A") } }
  { glm::mat<C, R, T> X = A; X += B; EW(12, X, (T)(AE + BE), "A += B") } { glm::mat<C, R, T> X = A; X -= B; EW(13, X, (T)(AE - BE), "A -= B") }
  { glm::mat<C, R, T> X = A; X += s; EW(14, X, (T)(AE + s), "A += s") } { glm::mat<C, R, T> X = A; X -= s; EW(15, X, (T)(AE - s), "A -= s") } { glm::mat<C, R, T> X = A; X *= s; EW(16, X, (T)(AE * s), "A *= s") }
  if (s != T(0) && !(isint && std::is_signed<T>::value && s == T(-1))) { glm::mat<C, R, T> X = A; X /= s; EW(17, X, (T)(AE / s), "A /= s") }
  { glm::mat<C, R, T> X = A; ++X; EW(18, X, (T)(AE + T(1)), "++A") } { glm::mat<C, R, T> X = A; --X; EW(19, X, (T)(AE - T(1)), "--A") }
  { glm::mat<C, R, T> X = A; glm::mat<C, R, T> Y = X++; EW(20, X, (T)(AE + T(1)), "A++ (new value)") EW(21, Y, AE, "A++ (returned old value)") }
  { glm::mat<C, R, T> X = A; glm::mat<C, R, T> Y = X--; EW(22, X, (T)(AE - T(1)), "A-- (new value)") EW(23, Y, AE, "A-- (returned old value)") }
  // the scalar operand aliases an element of the matrix being modified: every element must be combined with the OLD value
  { const int ac[3] = {0, C - 1, 1 % C}, ar[3] = {0, R - 1, 0};
    for (int q = 0; q < 3; ++q) { T old = cv<T>(a.a[ac[q]][ar[q]]);
      { glm::mat<C, R, T> X = A; X *= X[ac[q]][ar[q]]; EW(27, X, (T)(AE * old), "A *= A[c][r] (scalar aliases an element of A)") }
      { glm::mat<C, R, T> X = A; X += X[ac[q]][ar[q]]; EW(28, X, (T)(AE + old), "A += A[c][r] (scalar aliases an element of A)") }
      { glm::mat<C, R, T> X = A; X -= X[ac[q]][ar[q]]; EW(29, X, (T)(AE - old), "A -= A[c][r] (scalar aliases an element of A)") }
      if (old != T(0) && !(isint && std::is_signed<T>::value && old == T(-1))) { glm::mat<C, R, T> X = A; X /= X[ac[q]][ar[q]]; EW(30, X, (T)(AE / old), "A /= A[c][r] (scalar aliases an element of A)") } } }
  { glm::mat<C, R, T> X = A; X += X; EW(31, X, (T)(AE + AE), "A += A (self aliasing)") } { glm::mat<C, R, T> X = A; X -= X; EW(32, X, (T)(AE - AE), "A -= A (self aliasing)") }
  bool same = true; for (int cc = 0; cc < C; ++cc) for (int r = 0; r < R; ++r) if (!(AE == BE)) same = false;
  if ((A == B) != same || (A != B) == same) { o.res(A == B, A != B); o.exp(same, !same); o.bad(24, "operator== / operator!= on matrices"); return; }
  if (!(A == A) || (A != A)) { o.bad(25, "A == A must hold"); return; }
  { glm::mat<C, R, T> X = A; X = B; EW(26, X, BE, "assignment") }
  (void)bz;
}
// ------------------------------------------------------------------ shape conversions and constructors
template <int C, int R, glm::length_t C2, glm::length_t R2, typename T> static bool conv_one(const glm::mat<C2, R2, T>& S, const Ref& s, Outcome& o) {
  glm::mat<C, R, T> D(S);
  for (int cc = 0; cc < C; ++cc) for (int r = 0; r < R; ++r) { i64 want = (cc < C2 && r < R2) ? s.a[cc][r] : (cc == r ? 1 : 0);
    if (!eqv<T>(D[cc][r], want)) { o.res((uint64_t)(i64)D[cc][r], (uint64_t)(((C * 4 + R) << 8) | (cc * 4 + r))); o.exp((uint64_t)want); char m[160]; std::snprintf(m, sizeof m, "mat%dx%d(mat%dx%d): must copy the overlapping block and pad with the identity", C, R, C2, R2); o.bad(1, m); return false; } }
  return true;
}
template <int C2, int R2, typename T> static void op_convert(const Case& c, Outcome& o) {
  glm::mat<C2, R2, T> S = mk<C2, R2, T>(c.w); Ref s = mkr<C2, R2>(c.w); o.cls(0);
  if (!conv_one<2, 2>(S, s, o) || !conv_one<2, 3>(S, s, o) || !conv_one<2, 4>(S, s, o) || !conv_one<3, 2>(S, s, o) || !conv_one<3, 3>(S, s, o) || !conv_one<3, 4>(S, s, o) || !conv_one<4, 2>(S, s, o) || !conv_one<4, 3>(S, s, o) || !conv_one<4, 4>(S, s, o)) return;
  // scalar constructor: diagonal
  T d = cv<T>(W(c.w[0])); glm::mat<C2, R2, T> Dg(d); for (int cc = 0; cc < C2; ++cc) for (int r = 0; r < R2; ++r) if (!(Dg[cc][r] == (cc == r ? d : T(0)))) { o.res((uint64_t)(i64)Dg[cc][r], cc * 4 + r); o.bad(2, "mat(scalar) must be scalar * identity"); return; }
  // cross-type conversion keeps values (float <-> int where exactly representable)
  glm::mat<C2, R2, double> Sd(S); for (int cc = 0; cc < C2; ++cc) for (int r = 0; r < R2; ++r) if (!(Sd[cc][r] == (double)S[cc][r])) { o.bad(3, "mat<double>(mat<T>) must convert every element"); return; }
}
// ------------------------------------------------------------------ gtx helpers (square / diagonal / major storage / cross)
template <typename T> static void op_gtx(const Case& c, Outcome& o) {
  o.cls(0); const uint64_t* w = c.w; i64 v[16]; for (int i = 0; i < 16; ++i) v[i] = W(w[i]);
#define DG(C, R, FN) { const int N = C < R ? C : R; glm::vec<(C < R ? C : R), T> d; for (int i = 0; i < N; ++i) d[i] = cv<T>(v[i]); glm::mat<C, R, T> m = glm::FN(d); for (int cc = 0; cc < C; ++cc) for (int r = 0; r < R; ++r) if (!eqv<T>(m[cc][r], cc == r ? v[cc] : 0)) { o.res((uint64_t)(i64)m[cc][r], cc * 4 + r); o.bad(1, #FN ": not the diagonal matrix of its argument"); return; } }
  DG(2, 2, diagonal2x2) DG(2, 3, diagonal2x3) DG(2, 4, diagonal2x4) DG(3, 2, diagonal3x2) DG(3, 3, diagonal3x3) DG(3, 4, diagonal3x4) DG(4, 2, diagonal4x2) DG(4, 3, diagonal4x3) DG(4, 4, diagonal4x4)
  { glm::vec<2, T> a = mkv<2, T>(w), b = mkv<2, T>(w + 2); glm::mat<2, 2, T> rm = glm::rowMajor2(a, b), cm = glm::colMajor2(a, b); glm::mat<2, 2, T> src = mk<2, 2, T>(w); glm::mat<2, 2, T> rm2 = glm::rowMajor2(src), cm2 = glm::colMajor2(src);
    for (int i = 0; i < 2; ++i) for (int j = 0; j < 2; ++j) { if (!eqv<T>(rm[j][i], v[i * 2 + j]) || !eqv<T>(cm[i][j], v[i * 2 + j]) || !(rm2[j][i] == src[i][j]) || !(cm2[i][j] == src[i][j])) { o.bad(2, "rowMajor2/colMajor2"); return; } } }
  { glm::vec<3, T> a = mkv<3, T>(w), b = mkv<3, T>(w + 3), d = mkv<3, T>(w + 6); glm::mat<3, 3, T> rm = glm::rowMajor3(a, b, d), cm = glm::colMajor3(a, b, d); glm::mat<3, 3, T> src = mk<3, 3, T>(w); glm::mat<3, 3, T> rm2 = glm::rowMajor3(src), cm2 = glm::colMajor3(src);
    for (int i = 0; i < 3; ++i) for (int j = 0; j < 3; ++j) { if (!eqv<T>(rm[j][i], v[i * 3 + j]) || !eqv<T>(cm[i][j], v[i * 3 + j]) || !(rm2[j][i] == src[i][j]) || !(cm2[i][j] == src[i][j])) { o.res(i, j); o.bad(3, "rowMajor3/colMajor3"); return; } } }
  { glm::vec<4, T> a = mkv<4, T>(w), b = mkv<4, T>(w + 4), d = mkv<4, T>(w + 8), e = mkv<4, T>(w + 12); glm::mat<4, 4, T> rm = glm::rowMajor4(a, b, d, e), cm = glm::colMajor4(a, b, d, e); glm::mat<4, 4, T> src = mk<4, 4, T>(w); glm::mat<4, 4, T> rm2 = glm::rowMajor4(src), cm2 = glm::colMajor4(src);
    for (int i = 0; i < 4; ++i) for (int j = 0; j < 4; ++j) { if (!eqv<T>(rm[j][i], v[i * 4 + j]) || !eqv<T>(cm[i][j], v[i * 4 + j]) || !(rm2[j][i] == src[i][j]) || !(cm2[i][j] == src[i][j])) { o.res(i, j); o.bad(4, "rowMajor4/colMajor4"); return; } } }
  if (std::is_signed<T>::value || !std::is_integral<T>::value) { // matrixCross3(x) * y == cross(x, y)
    glm::vec<3, T> x = mkv<3, T>(w), y = mkv<3, T>(w + 3); glm::vec<3, T> viaM = glm::matrixCross3(x) * y; i64 cx[3] = {st<T>(v[1]) * st<T>(v[5]) - st<T>(v[2]) * st<T>(v[4]), st<T>(v[2]) * st<T>(v[3]) - st<T>(v[0]) * st<T>(v[5]), st<T>(v[0]) * st<T>(v[4]) - st<T>(v[1]) * st<T>(v[3])};
    for (int i = 0; i < 3; ++i) if (!eqv<T>(viaM[i], cx[i])) { o.res((uint64_t)(i64)viaM[i], i); o.exp((uint64_t)cx[i]); o.bad(5, "matrixCross3(x) * y != cross(x, y)"); return; }
    glm::vec<4, T> y4(y, T(0)); glm::vec<4, T> via4 = glm::matrixCross4(x) * y4; for (int i = 0; i < 3; ++i) if (!eqv<T>(via4[i], cx[i])) { o.res((uint64_t)(i64)via4[i], i); o.exp((uint64_t)cx[i]); o.bad(6, "matrixCross4(x) * (y,0) != cross(x, y)"); return; } }
}

// ------------------------------------------------------------------ explicit-state part: operation sequences
enum { A_ADDS, A_SUBS, A_MULS, A_ADDM, A_SUBM, A_INC, A_DEC, A_NEG, A_MULM, A_SELFMUL, A_SELFMULA, A_TRANSP, A_VIA4, A_VIA2, NALPHA };
static const char* ALPHA_NAMES[NALPHA] = {"m+=2", "m-=1", "m*=3", "m+=M0", "m-=M0", "++m", "--m", "m=-m", "m*=M0", "m=m*m", "m*=m", "m=transpose(m)", "m=matCxR(mat4x4(m))", "m=matCxR(mat2x2(m))"};
template <int C, int R, typename T> static void op_sequence(const Case& c, Outcome& o) {
  // c.w[0] = start id, c.w[1] = length, c.w[2..] = op ids
  static const i64 START[3][16] = {{2, 3, 5, 7, 11, 13, 17, 19, 23, 29, 31, 37, 41, 43, 47, 53}, {1, 0, 0, 0, 0, 1, 0, 0, 0, 0, 1, 0, 0, 0, 0, 1}, {1, -2, 3, -1, 2, 1, -3, 2, -1, 3, 1, -2, 2, -1, 3, 1}};
  static const i64 M0[16] = {1, 2, 0, -1, 3, 1, 2, 0, 0, -1, 1, 2, 2, 0, -1, 1};
  int sid = (int)c.w[0], len = (int)c.w[1]; glm::mat<C, R, T> m, m0; i64 a[4][4], b0[4][4];
  for (int cc = 0; cc < C; ++cc) for (int r = 0; r < R; ++r) { a[cc][r] = START[sid][cc * R + r]; b0[cc][r] = M0[cc * R + r]; m[cc][r] = cv<T>(a[cc][r]); m0[cc][r] = cv<T>(b0[cc][r]); }
  const i64 LIM = std::is_integral<T>::value ? (1ll << 30) : (1ll << 50);
  for (int step = 0; step < len; ++step) {
    int opi = (int)c.w[2 + step]; i64 n[4][4];
    bool sq = C == R; if ((opi == A_MULM || opi == A_SELFMUL || opi == A_SELFMULA || opi == A_TRANSP) && !sq) { o.nontrivial = false; return; }
    for (int cc = 0; cc < C; ++cc) for (int r = 0; r < R; ++r) switch (opi) {
      case A_ADDS: n[cc][r] = a[cc][r] + 2; break; case A_SUBS: n[cc][r] = a[cc][r] - 1; break; case A_MULS: n[cc][r] = a[cc][r] * 3; break;
      case A_ADDM: n[cc][r] = a[cc][r] + b0[cc][r]; break; case A_SUBM: n[cc][r] = a[cc][r] - b0[cc][r]; break; case A_INC: n[cc][r] = a[cc][r] + 1; break; case A_DEC: n[cc][r] = a[cc][r] - 1; break; case A_NEG: n[cc][r] = -a[cc][r]; break;
      case A_MULM: { i64 s = 0; for (int k = 0; k < C; ++k) s += a[k][r] * b0[cc][k]; n[cc][r] = s; } break;
      case A_SELFMUL: case A_SELFMULA: { i64 s = 0; for (int k = 0; k < C; ++k) s += a[k][r] * a[cc][k]; n[cc][r] = s; } break;
      case A_TRANSP: n[cc][r] = a[r][cc]; break;
      case A_VIA4: n[cc][r] = a[cc][r]; break;                                                      // up to 4x4 and back: every entry survives
      case A_VIA2: n[cc][r] = (cc < 2 && r < 2) ? a[cc][r] : (cc == r ? 1 : 0); break; }              // down to 2x2 and back: the upper-left block survives, the rest is the identity
    for (int cc = 0; cc < C; ++cc) for (int r = 0; r < R; ++r) if (n[cc][r] > LIM || n[cc][r] < -LIM) { o.nontrivial = false; return; }   // keep exact results representable
    switch (opi) { case A_VIA4: m = glm::mat<C, R, T>(glm::mat<4, 4, T>(m)); break; case A_VIA2: m = glm::mat<C, R, T>(glm::mat<2, 2, T>(m)); break; case A_ADDS: m += T(2); break; case A_SUBS: m -= T(1); break; case A_MULS: m *= T(3); break; case A_ADDM: m += m0; break; case A_SUBM: m -= m0; break; case A_INC: ++m; break; case A_DEC: --m; break; case A_NEG: m = -m; break;
      default: if constexpr (C == R) { if (opi == A_MULM) m *= m0; else if (opi == A_SELFMUL) m = m * m; else if (opi == A_SELFMULA) m *= m; else if (opi == A_TRANSP) m = glm::transpose(m); } break; }
    for (int cc = 0; cc < C; ++cc) for (int r = 0; r < R; ++r) { a[cc][r] = n[cc][r]; if (!eqv<T>(m[cc][r], a[cc][r])) { o.res((uint64_t)(i64)m[cc][r], (uint64_t)((step << 8) | (cc * 4 + r))); o.exp((uint64_t)a[cc][r]); char msg[160]; std::snprintf(msg, sizeof msg, "sequence step %d (%s): element [%d][%d] differs from the array reference model", step, ALPHA_NAMES[opi], cc, r); o.bad(1 + opi, msg); return; } }
  }
  uint64_t h = 0x1234; for (int cc = 0; cc < C; ++cc) for (int r = 0; r < R; ++r) h = mix64(h, (uint64_t)a[cc][r]); o.st(h); o.cls(len == 0 ? 0 : 1);
}

// ------------------------------------------------------------------ operand lattices
static std::vector<uint64_t> tag_row(int n) { static const i64 P[40] = {2, 3, 5, 7, 11, 13, 17, 19, 23, 29, 31, 37, 41, 43, 47, 53, 59, 61, 67, 71, 73, 79, 83, 89, 97, 101, 103, 107, 109, 113, 127, 131, 137, 139, 149, 151, 157, 163, 167, 173}; std::vector<uint64_t> r; for (int i = 0; i < n; ++i) r.push_back((uint64_t)P[i]); return r; }
static Domain lattice(int n, bool dev3, int extra_scalar = 0) {     // rows of n (+extra) words: TAG, DEV_2(0,{-2,-1,1,2,3}), DEV_1(TAG,{0,-p}); scalar slot cycles through {2,-3,1,5}
  std::vector<uint64_t> flat; const i64 A[5] = {-2, -1, 1, 2, 3}; const i64 S[4] = {2, -3, 1, 5}; int cnt = 0;
  auto push = [&](const std::vector<uint64_t>& row) { flat.insert(flat.end(), row.begin(), row.end()); for (int e = 0; e < extra_scalar; ++e) flat.push_back((uint64_t)S[(cnt + e) & 3]); ++cnt; };
  std::vector<uint64_t> tag = tag_row(n), zero(n, 0); push(tag); push(zero);
  for (int i = 0; i < n; ++i) for (i64 v : A) { auto r = zero; r[i] = (uint64_t)v; push(r); }
  for (int i = 0; i < n; ++i) for (int j = i + 1; j < n; ++j) for (i64 v : A) for (i64 u : A) { auto r = zero; r[i] = (uint64_t)v; r[j] = (uint64_t)u; push(r); }
  if (dev3) for (int i = 0; i < n; ++i) for (int j = i + 1; j < n; ++j) for (int k = j + 1; k < n; ++k) for (i64 v : {(i64)-1, (i64)2}) for (i64 u : {(i64)1, (i64)3}) for (i64 t : {(i64)-2, (i64)1}) { auto r = zero; r[i] = (uint64_t)v; r[j] = (uint64_t)u; r[k] = (uint64_t)t; push(r); }
  for (int i = 0; i < n; ++i) { auto r = tag; r[i] = 0; push(r); r[i] = (uint64_t)(-(i64)tag[i]); push(r); }
  Domain d = rows(std::string("TAG+DEV_") + (dev3 ? "3" : "2") + "(0,{-2,-1,1,2,3})+DEV_1(TAG) over " + std::to_string(n) + " entries", n + extra_scalar, flat); return d;
}
static Domain seq_domain(int depth) {   // all op sequences up to `depth` from each of 3 start matrices: rows [start, len, op0..op(depth-1)]
  std::vector<uint64_t> flat; for (uint64_t s = 0; s < 3; ++s) { std::vector<std::vector<int>> level = {{}}; for (int d = 0; d <= depth; ++d) { for (auto& sq : level) { flat.push_back(s); flat.push_back(sq.size()); for (int i = 0; i < depth; ++i) flat.push_back(i < (int)sq.size() ? sq[i] : 0); }
      std::vector<std::vector<int>> nx; if (d < depth) for (auto& sq : level) for (int a = 0; a < NALPHA; ++a) { auto t = sq; t.push_back(a); nx.push_back(t); } level.swap(nx); } }
  return rows("ALL_SEQUENCES(depth<=" + std::to_string(depth) + ", 14-op alphabet, 3 start matrices)", 2 + depth, flat, true);
}

template <int C, int R, typename T> static void reg_shape(Engine& E, const std::string& t, bool quick) {
  std::string sh = std::to_string(C) + "x" + std::to_string(R) + "<" + t + ">";
  auto setd = [&](Op& op, Domain dq, Domain dt) { if (quick) op.quick = {dq}; op.thorough = {dt}; };
  { Op& op = E.add("mat" + sh + " * mat2x" + std::to_string(C), op_matmul<C, R, 2, T>); setd(op, lattice(C * R + 2 * C, false), lattice(C * R + 2 * C, C * R + 2 * C <= 18)); }
  { Op& op = E.add("mat" + sh + " * mat3x" + std::to_string(C), op_matmul<C, R, 3, T>); setd(op, lattice(C * R + 3 * C, false), lattice(C * R + 3 * C, C * R + 3 * C <= 18)); }
  { Op& op = E.add("mat" + sh + " * mat4x" + std::to_string(C), op_matmul<C, R, 4, T>); setd(op, lattice(C * R + 4 * C, false), lattice(C * R + 4 * C, false)); }
  if constexpr (std::is_floating_point<T>::value) { Op& op = E.add("inexact entries e/7: mat" + sh + " * mat{2,3,4}x" + std::to_string(C) + ", M*v, v*M within rounding; single-rounding operators exact", op_matmul_frac<C, R, 3, T>); setd(op, lattice(C * R + 3 * C, false), lattice(C * R + 3 * C, C * R + 3 * C <= 18));
    Op& op2 = E.add("inexact entries e/7: mat" + sh + " * mat2x" + std::to_string(C), op_matmul_frac<C, R, 2, T>); setd(op2, lattice(C * R + 2 * C, false), lattice(C * R + 2 * C, C * R + 2 * C <= 18));
    Op& op4 = E.add("inexact entries e/7: mat" + sh + " * mat4x" + std::to_string(C), op_matmul_frac<C, R, 4, T>); setd(op4, lattice(C * R + 4 * C, false), lattice(C * R + 4 * C, false)); }
  { Op& op = E.add("mat" + sh + ": M*v, v*M, outerProduct, transpose, row/column", op_matvec<C, R, T>); setd(op, lattice(C * R + C + R, false), lattice(C * R + C + R, true)); }
  { Op& op = E.add("mat" + sh + ": element-wise operators, compound assignment, ++/--, ==", op_elementwise<C, R, T>); setd(op, lattice(2 * C * R, false, 1), lattice(2 * C * R, false, 1)); }
  { Op& op = E.add("mat*(mat" + sh + "): 9 shape conversions, diagonal ctor", op_convert<C, R, T>); setd(op, lattice(C * R, false), lattice(C * R, true)); }
  if (std::is_same<T, int>::value || std::is_same<T, double>::value) { Op& op = E.add("sequences mat" + sh, op_sequence<C, R, T>); if (quick) op.quick = {seq_domain(3)}; op.thorough = {seq_domain(C * R <= 9 ? 5 : 4)}; op.classes = {"initial", "after-transition"}; }
}
template <typename T> static void reg_type(Engine& E, const std::string& t, bool quick) {
  reg_shape<2, 2, T>(E, t, quick); reg_shape<2, 3, T>(E, t, quick); reg_shape<2, 4, T>(E, t, quick); reg_shape<3, 2, T>(E, t, quick); reg_shape<3, 3, T>(E, t, quick);
  reg_shape<3, 4, T>(E, t, quick); reg_shape<4, 2, T>(E, t, quick); reg_shape<4, 3, T>(E, t, quick); reg_shape<4, 4, T>(E, t, quick);
  { Op& op = E.add("gtx diagonal*/rowMajor*/colMajor*/matrixCross* <" + t + ">", op_gtx<T>); Domain d = lattice(16, false); if (quick) op.quick = {d}; op.thorough = {d}; }
}

int main(int argc, char** argv) {
  Engine E; E.property = "C02";
  E.assumptions = {"entries are small integers, exactly representable in every element type, so the oracle is equality with a 64-bit triple-loop reference (wrapped to the element type for integer types)",
                   "completeness argument: every entry of a product is a bilinear form; DEV_2 over base 0 with >=3 non-zero values exposes every wrong/missing/duplicated/mis-signed term (DESIGN.md section 3)"};
  // the element types are compiled as separate parts (-DGLMX_PART=k) so that the TUs build in parallel
#define PART(k) (!defined(GLMX_PART) || GLMX_PART == k)
#if PART(0)
  reg_type<int>(E, "int", true);
#endif
#if PART(1)
  reg_type<float>(E, "float", true);
#endif
#if PART(2)
  reg_type<double>(E, "double", true);
#endif
#if PART(3)
  reg_type<glm::uint>(E, "uint", false);
#endif
#if PART(4)
  reg_type<glm::int8>(E, "i8", false);
#endif
#if PART(5)
  reg_type<glm::int16>(E, "i16", false);
#endif
#if PART(6)
  reg_type<glm::int64>(E, "i64", false);
#endif
  return E.main(argc, argv);
}
