// C16 — storage layout contract of vec / mat / qua in every build configuration.
//
// The quantifier of this property runs over *instantiations and configurations*, not over values: the driver is a
// program of layout facts.  Every vec<L,T,Q>, mat<C,R,T,Q>, qua<T,Q> over L in 1..4, C,R in 2..4,
// T in {bool, i8..i64, u8..u64, float, double}, Q in {packed_highp, packed_mediump, packed_lowp} and — when the
// configuration has aligned types (gcc/clang: -DGLM_FORCE_INTRINSICS) — {aligned_highp, aligned_mediump,
// aligned_lowp} is one row of a static table of type descriptors.  Each *fact* is an op whose domain is that table;
// facts are observed at run time on a real object (never static_assert), so one wrong fact does not hide the rest.
// The same source is compiled once per configuration (flags on the compiler command line, see main()).
//
// Contract (expected values are computed from the descriptor word only, never from the GLM type):
//   packed vec<L,T>    sizeof = L*sizeof(T), alignof = alignof(T), component i at byte i*sizeof(T)       (statement)
//   aligned vec<L,T>   N = (L == 3 ? 4 : L) stored components, sizeof = alignof = N*sizeof(T)
//                      (statement: float vec3/vec4 16/16, vec2 8; manual 2.9 "align addresses based on the size of
//                      the value type"; glm/detail/qualifier.hpp generic storage<L,T,true> alignas(L*sizeof(T)) and
//                      storage<3,T,true> alignas(4*sizeof(T)) T[4]; test/core/core_type_aligned.cpp sizeof(vec4)==sizeof(vec3)).
//                      One tolerated exception: the 32-byte double vectors (dvec3, dvec4, dquat and the matrices made
//                      of them) may be 16-aligned when the ISA level has no 256-bit register (below AVX) —
//                      qualifier.hpp storage<4,double,true> is then, by design, a struct of two glm_f64vec2 halves.
//   mat<C,R,T,Q>       C consecutive columns of type vec<R,T,Q>: sizeof = C*sizeof(col), alignof = alignof(col),
//                      element (c,r) at byte c*sizeof(col) + r*sizeof(T); packed => value_ptr(m)[c*R+r] is m[c][r]
//   qua<T,Q>           like vec<4,T,Q>; member order x,y,z,w, or w,x,y,z under GLM_FORCE_QUAT_DATA_WXYZ
//   length()           component count (vec: L, mat: C columns, column: R, qua: 4), type int, or size_t under
//                      GLM_FORCE_SIZE_T_LENGTH (manual 2.18)
#define GLM_ENABLE_EXPERIMENTAL
#include <glm/glm.hpp>
#include <glm/gtc/type_precision.hpp>
#include <glm/gtc/type_ptr.hpp>
#include <glm/gtc/quaternion.hpp>
#if GLM_CONFIG_ALIGNED_GENTYPES == GLM_ENABLE
#  include <glm/gtc/type_aligned.hpp>
#endif
#include "glmx.hpp"
#include <type_traits>
#include <cstring>
#include <new>
using namespace glmx;

#if GLM_CONFIG_ALIGNED_GENTYPES == GLM_ENABLE
#  define C16_ALIGNED 1
#else
#  define C16_ALIGNED 0
#endif
#if defined(__AVX__)
#  define C16_AVX 1
#else
#  define C16_AVX 0
#endif
#if defined(__AVX2__)
#  define C16_AVX2 1
#else
#  define C16_AVX2 0
#endif
#if defined(GLM_FORCE_QUAT_DATA_WXYZ)
#  define C16_WXYZ 1
#else
#  define C16_WXYZ 0
#endif

// ------------------------------------------------------------------------------------------------ descriptors
enum { K_VEC = 0, K_MAT = 1, K_QUA = 2 };
enum { T_BOOL, T_I8, T_U8, T_I16, T_U16, T_I32, T_U32, T_I64, T_U64, T_F32, T_F64, NTYPES };
static const char* const TNAME[NTYPES] = {"bool", "i8", "u8", "i16", "u16", "i32", "u32", "i64", "u64", "float", "double"};
static const char* const QNAME[6] = {"packed_highp", "packed_mediump", "packed_lowp", "aligned_highp", "aligned_mediump", "aligned_lowp"};
// element size / alignment as the *language* defines them (not taken from any GLM type)
static const size_t ESZ[NTYPES] = {sizeof(bool), sizeof(int8_t), sizeof(uint8_t), sizeof(int16_t), sizeof(uint16_t), sizeof(int32_t), sizeof(uint32_t), sizeof(int64_t), sizeof(uint64_t), sizeof(float), sizeof(double)};
static const size_t EAL[NTYPES] = {alignof(bool), alignof(int8_t), alignof(uint8_t), alignof(int16_t), alignof(uint16_t), alignof(int32_t), alignof(uint32_t), alignof(int64_t), alignof(uint64_t), alignof(float), alignof(double)};
template <typename T> struct TI;
template <> struct TI<bool> { enum { id = T_BOOL }; };          template <> struct TI<glm::int8> { enum { id = T_I8 }; };
template <> struct TI<glm::uint8> { enum { id = T_U8 }; };      template <> struct TI<glm::int16> { enum { id = T_I16 }; };
template <> struct TI<glm::uint16> { enum { id = T_U16 }; };    template <> struct TI<glm::int32> { enum { id = T_I32 }; };
template <> struct TI<glm::uint32> { enum { id = T_U32 }; };    template <> struct TI<glm::int64> { enum { id = T_I64 }; };
template <> struct TI<glm::uint64> { enum { id = T_U64 }; };    template <> struct TI<float> { enum { id = T_F32 }; };
template <> struct TI<double> { enum { id = T_F64 }; };

struct Desc { int kind, C, R, T, Q; };   // vec: C = L, R = 0;  qua: C = 4, R = 0
static inline uint64_t enc(const Desc& d) { return ((uint64_t)d.kind << 16) | ((uint64_t)d.C << 12) | ((uint64_t)d.R << 8) | ((uint64_t)d.T << 4) | (uint64_t)d.Q; }
static inline Desc dec(uint64_t w) { Desc d; d.kind = (int)((w >> 16) & 15); d.C = (int)((w >> 12) & 15); d.R = (int)((w >> 8) & 15); d.T = (int)((w >> 4) & 15); d.Q = (int)(w & 15); return d; }
static inline bool valid(const Desc& d) {
  if (d.T < 0 || d.T >= NTYPES || d.Q < 0 || d.Q >= (C16_ALIGNED ? 6 : 3)) return false;
  if (d.kind == K_VEC) return d.C >= 1 && d.C <= 4 && d.R == 0;
  if (d.kind == K_MAT) return d.C >= 2 && d.C <= 4 && d.R >= 2 && d.R <= 4;
  if (d.kind == K_QUA) return d.C == 4 && d.R == 0;
  return false;
}
static void dname(const Desc& d, char* b, size_t n) {
  if (d.kind == K_VEC) std::snprintf(b, n, "vec<%d,%s,%s>", d.C, TNAME[d.T], QNAME[d.Q]);
  else if (d.kind == K_MAT) std::snprintf(b, n, "mat<%d,%d,%s,%s>", d.C, d.R, TNAME[d.T], QNAME[d.Q]);
  else std::snprintf(b, n, "qua<%s,%s>", TNAME[d.T], QNAME[d.Q]);
}

// ------------------------------------------------------------------------------------------------ the contract
struct Exp {
  size_t size, align, alt_align;   // alt_align != 0: second accepted alignment (see header comment)
  size_t esz; int ne;              // element size, number of logical elements
  size_t off[16];                  // byte offset of logical element k (vec/qua: k; mat: k = c*R + r)
  size_t colsize; int ncol, nrow;  // mat only
  int member_slot[4];              // storage slot of the named members x,y,z,w (vec: up to L; qua: all four)
  bool aligned;
};
static void vec_contract(int L, int T, bool aligned, size_t& size, size_t& align, size_t& alt) {
  size_t esz = ESZ[T]; int N = (aligned && L == 3) ? 4 : L;
  size = (size_t)N * esz; align = aligned ? size : EAL[T]; alt = 0;
  if (aligned && size == 32 && T == T_F64 && !C16_AVX) alt = 16;   // qualifier.hpp: storage<4,double,true> is two glm_f64vec2 halves below AVX
}
static Exp contract(const Desc& d) {
  Exp e; std::memset(&e, 0, sizeof e); e.aligned = d.Q >= 3; e.esz = ESZ[d.T];
  for (int i = 0; i < 4; ++i) e.member_slot[i] = i;
  if (d.kind == K_VEC) { vec_contract(d.C, d.T, e.aligned, e.size, e.align, e.alt_align); e.ne = d.C; for (int k = 0; k < e.ne; ++k) e.off[k] = (size_t)k * e.esz; }
  else if (d.kind == K_QUA) { vec_contract(4, d.T, e.aligned, e.size, e.align, e.alt_align); e.ne = 4; for (int k = 0; k < 4; ++k) e.off[k] = (size_t)k * e.esz;
    if (C16_WXYZ) { e.member_slot[0] = 1; e.member_slot[1] = 2; e.member_slot[2] = 3; e.member_slot[3] = 0; } }      // w,x,y,z: x is slot 1 ... w is slot 0
  else { size_t cs, ca, alt; vec_contract(d.R, d.T, e.aligned, cs, ca, alt); e.colsize = cs; e.ncol = d.C; e.nrow = d.R; e.size = (size_t)d.C * cs; e.align = ca; e.alt_align = alt; e.ne = d.C * d.R;
    for (int c = 0; c < d.C; ++c) for (int r = 0; r < d.R; ++r) e.off[c * d.R + r] = (size_t)c * cs + (size_t)r * e.esz; }
  return e;
}

// ------------------------------------------------------------------------------------------------ accessors
// Only the few operations that really need the C++ type are templates (kept tiny: ~1000 instantiations per TU); they
// are reached through a per-type record of function pointers and every check below is ordinary non-template code.
template <typename X> struct A;
template <glm::length_t L, typename T, glm::qualifier Q> struct A<glm::vec<L, T, Q> > {
  typedef glm::vec<L, T, Q> X; typedef T elem; enum { KIND = K_VEC, C = (int)L, R = 0, NE = (int)L, QID = (int)Q, NCOMP = (int)L };
  static T& at(X& x, int k) { return x[(glm::length_t)k]; }
  static const T& cat(const X& x, int k) { return x[(glm::length_t)k]; }
};
template <glm::length_t CC, glm::length_t RR, typename T, glm::qualifier Q> struct A<glm::mat<CC, RR, T, Q> > {
  typedef glm::mat<CC, RR, T, Q> X; typedef T elem; enum { KIND = K_MAT, C = (int)CC, R = (int)RR, NE = (int)(CC * RR), QID = (int)Q, NCOMP = (int)RR };
  static T& at(X& x, int k) { return x[(glm::length_t)(k / (int)RR)][(glm::length_t)(k % (int)RR)]; }
  static const T& cat(const X& x, int k) { return x[(glm::length_t)(k / (int)RR)][(glm::length_t)(k % (int)RR)]; }
};
template <typename T, glm::qualifier Q> struct A<glm::qua<T, Q> > {
  typedef glm::qua<T, Q> X; typedef T elem; enum { KIND = K_QUA, C = 4, R = 0, NE = 4, QID = (int)Q, NCOMP = 4 };
  static T& at(X& x, int k) { return x[(glm::length_t)k]; }
  static const T& cat(const X& x, int k) { return x[(glm::length_t)k]; }
};
// address of the named member i (0:x 1:y 2:z 3:w) of a vec / qua; nullptr when the type has no such member
template <glm::length_t L, typename T, glm::qualifier Q> static const void* member_addr(const glm::vec<L, T, Q>& v, int i) {
  if (i == 0) return &v.x;
  if constexpr (L >= 2) { if (i == 1) return &v.y; }
  if constexpr (L >= 3) { if (i == 2) return &v.z; }
  if constexpr (L >= 4) { if (i == 3) return &v.w; }
  return nullptr;
}
template <typename T, glm::qualifier Q> static const void* member_addr(const glm::qua<T, Q>& q, int i) { return i == 0 ? (const void*)&q.x : i == 1 ? (const void*)&q.y : i == 2 ? (const void*)&q.z : (const void*)&q.w; }

// builders from a raw pointer (glm/gtc/type_ptr.hpp): they exist for vec2..4, the nine matrix shapes, the three square
// aliases and qua, and always return the default qualifier
template <typename X> struct Mk { enum { HAS = 0, HAS2 = 0 }; typedef X Y; };
#define C16_MKV(L) template <typename T, glm::qualifier Q> struct Mk<glm::vec<L, T, Q> > { enum { HAS = 1, HAS2 = 0 }; typedef glm::vec<L, T, glm::defaultp> Y; static Y f(const T* p) { return glm::make_vec##L(p); } static Y f2(const T* p) { return f(p); } };
C16_MKV(2) C16_MKV(3) C16_MKV(4)
#define C16_MKM(CC, RR, ALIAS) template <typename T, glm::qualifier Q> struct Mk<glm::mat<CC, RR, T, Q> > { enum { HAS = 1, HAS2 = (CC == RR) }; typedef glm::mat<CC, RR, T, glm::defaultp> Y; \
    static Y f(const T* p) { return glm::make_mat##CC##x##RR(p); } static Y f2(const T* p) { return glm::ALIAS(p); } };
C16_MKM(2, 2, make_mat2) C16_MKM(2, 3, make_mat2x3) C16_MKM(2, 4, make_mat2x4) C16_MKM(3, 2, make_mat3x2) C16_MKM(3, 3, make_mat3) C16_MKM(3, 4, make_mat3x4) C16_MKM(4, 2, make_mat4x2) C16_MKM(4, 3, make_mat4x3) C16_MKM(4, 4, make_mat4)
template <typename T, glm::qualifier Q> struct Mk<glm::qua<T, Q> > { enum { HAS = 1, HAS2 = 0 }; typedef glm::qua<T, glm::defaultp> Y; static Y f(const T* p) { return glm::make_quat(p); } static Y f2(const T* p) { return f(p); } };

#if defined(GLM_FORCE_SIZE_T_LENGTH)
typedef std::size_t WantLen;
#else
typedef int WantLen;
#endif

// what the typed code observes about one object (addresses are reported, never interpreted, here)
struct Addr { const void* at[16]; const void* cat[16]; const void* col[4]; const void* mem[16]; const void* vp; const void* cvp; };
struct VT {
  Desc d; size_t size, align, colsize; int len, slen, collen; bool lentype_ok, ltype_ok, collentype_ok, triv; int has_make, has_make2;
  void (*construct)(void* mem);                              // placement-new a default constructed object
  void (*addr)(void* obj, Addr& a);                          // addresses of elements / columns / named members / value_ptr
  void (*get)(const void* obj, unsigned char* out);          // out[8*k ..] = bytes of logical element k read through operator[] const
  void (*set)(void* obj, const unsigned char* in);           // logical element k written through operator[]
  void (*make)(const void* raw, int alias, void* mem);       // placement-new make_*(raw) (a defaultp object) into mem
  void (*copy)(const void* src, void* mem);                  // placement-new X(src)
  void (*assign)(const void* src, void* dst);                // *dst = *src
};
template <typename X> struct Ops {
  typedef A<X> AX; typedef typename AX::elem T; typedef Mk<X> M;
  static void construct(void* mem) { new (mem) X; }
  static void addr(void* obj, Addr& a) {
    X& x = *static_cast<X*>(obj); const X& cx = x; std::memset(&a, 0, sizeof a);
    for (int k = 0; k < AX::NE; ++k) { a.at[k] = &AX::at(x, k); a.cat[k] = &AX::cat(cx, k); }
    if constexpr (AX::KIND == K_MAT) { for (int c = 0; c < AX::C; ++c) { a.col[c] = &x[(glm::length_t)c]; for (int i = 0; i < AX::R; ++i) a.mem[c * AX::R + i] = member_addr(cx[(glm::length_t)c], i); } }
    else { for (int i = 0; i < AX::NCOMP; ++i) a.mem[i] = member_addr(cx, i); }
    a.vp = glm::value_ptr(x); a.cvp = glm::value_ptr(cx);
  }
  static void get(const void* obj, unsigned char* out) { const X& cx = *static_cast<const X*>(obj); for (int k = 0; k < AX::NE; ++k) { T t = AX::cat(cx, k); std::memcpy(out + 8 * k, &t, sizeof(T)); } }
  static void set(void* obj, const unsigned char* in) { X& x = *static_cast<X*>(obj); for (int k = 0; k < AX::NE; ++k) { T t; std::memcpy(&t, in + 8 * k, sizeof(T)); AX::at(x, k) = t; } }
  static void make(const void* raw, int alias, void* mem) { if constexpr (M::HAS) { new (mem) typename M::Y(alias ? M::f2(static_cast<const T*>(raw)) : M::f(static_cast<const T*>(raw))); } }
  static void copy(const void* src, void* mem) { new (mem) X(*static_cast<const X*>(src)); }
  static void assign(const void* src, void* dst) { *static_cast<X*>(dst) = *static_cast<const X*>(src); }
  static VT vt() {
    VT v; std::memset(&v, 0, sizeof v); v.d.kind = AX::KIND; v.d.C = AX::C; v.d.R = AX::R; v.d.T = TI<T>::id; v.d.Q = AX::QID;
    v.size = sizeof(X); v.align = alignof(X); v.slen = (int)X::length(); v.ltype_ok = std::is_same<typename X::length_type, WantLen>::value;
    { alignas(64) unsigned char b[256]; std::memset(b, 0, sizeof b); X* p = new (b) X; const X& cx = *p; v.len = (int)cx.length(); v.lentype_ok = std::is_same<decltype(cx.length()), WantLen>::value;
      if constexpr (AX::KIND == K_MAT) { v.colsize = sizeof(cx[0]); v.collen = (int)cx[0].length(); v.collentype_ok = std::is_same<decltype(cx[0].length()), WantLen>::value; } }
    v.triv = std::is_trivially_copyable<X>::value; v.has_make = M::HAS; v.has_make2 = M::HAS2;
    v.construct = &construct; v.addr = &addr; v.get = &get; v.set = &set; v.make = &make; v.copy = &copy; v.assign = &assign; return v;
  }
};

// distinct tags per logical element, exactly representable in every element type (bool: a fixed 0/1 pattern); as bytes
static void tagbytes(int T, int k, int salt, unsigned char* out) {
  std::memset(out, 0, 8); int v = 3 + 7 * k + salt;
  switch (T) {
    case T_BOOL: { bool b = (((0xB38Du >> k) ^ (unsigned)salt) & 1u) != 0; std::memcpy(out, &b, sizeof b); } break;
    case T_I8: { int8_t t = (int8_t)v; std::memcpy(out, &t, 1); } break;      case T_U8: { uint8_t t = (uint8_t)v; std::memcpy(out, &t, 1); } break;
    case T_I16: { int16_t t = (int16_t)v; std::memcpy(out, &t, 2); } break;   case T_U16: { uint16_t t = (uint16_t)v; std::memcpy(out, &t, 2); } break;
    case T_I32: { int32_t t = v; std::memcpy(out, &t, 4); } break;            case T_U32: { uint32_t t = (uint32_t)v; std::memcpy(out, &t, 4); } break;
    case T_I64: { int64_t t = v; std::memcpy(out, &t, 8); } break;            case T_U64: { uint64_t t = (uint64_t)v; std::memcpy(out, &t, 8); } break;
    case T_F32: { float t = (float)v + 0.5f; std::memcpy(out, &t, 4); } break; case T_F64: { double t = (double)v + 0.25; std::memcpy(out, &t, 8); } break;
  }
}
static inline uint64_t bits8(const unsigned char* p) { uint64_t u; std::memcpy(&u, p, 8); return u; }

// the object under observation lives inside an oversized zero-filled buffer, so that a wrong layout in the library
// (or a seeded one) can never make the driver touch memory it does not own
struct Obj {
  alignas(64) unsigned char buf[640];
  Obj() { std::memset(buf, 0, sizeof buf); }
  unsigned char* base() { return buf + 128; }
  bool owns(const void* p, size_t n) const { return (const unsigned char*)p >= buf + 64 && (const unsigned char*)p + n <= buf + sizeof buf - 64; }
};

enum { KF_U64VEC3_ALIGN = 0 };
enum { F_SIZEOF, F_ALIGNOF, F_ADDR, F_MEMBERS, F_VPTR, F_IMAGE, F_MAKE, F_LENGTH, F_COPY, NFACTS };
static const char* const FACT_NAME[NFACTS] = {
  "sizeof == documented size",
  "alignof == documented alignment",
  "component addresses: &v[i] == base + i*sizeof(T), &m[c] == base + c*sizeof(column)",
  "named members: &v.x + i is component i; quaternion member order x,y,z,w (w,x,y,z under QUAT_DATA_WXYZ)",
  "value_ptr: points at the first stored component, value_ptr(m)[c*R+r] aliases m[c][r]",
  "byte image: tags written through value_ptr are read back through operator[] / members and vice versa",
  "make_vec/make_mat/make_quat(ptr) round trip through a raw array",
  "length(): component count and its type (int | size_t)",
  "trivially copyable: memcpy / copy construction / assignment reproduce every component"};

#define FAILF(CLS, GOT, WANT, ...) { char nm_[64]; dname(d, nm_, sizeof nm_); char m_[160]; int n_ = std::snprintf(m_, sizeof m_, "%s: ", nm_); std::snprintf(m_ + n_, sizeof m_ - n_, __VA_ARGS__); o.res((uint64_t)(GOT)); o.exp((uint64_t)(WANT)); o.bad(CLS, m_); return; }

static std::map<uint64_t, VT>& index() { static std::map<uint64_t, VT> m; return m; }

static void check(int fact, const VT& vt, const Desc& d, const Exp& e, Outcome& o) {
  const int NE = e.ne; const size_t esz = e.esz;
  // ORACLE self-check: the descriptor decoded from the case word must describe exactly the C++ type behind the record
  if (vt.d.kind != d.kind || vt.d.C != d.C || vt.d.R != d.R || vt.d.T != d.T || vt.d.Q != d.Q) { o.bad(95, "ORACLE: descriptor word does not match the instantiated type"); return; }
  Obj ob; unsigned char* base = ob.base(); vt.construct(base);
  if (vt.align == 0 || ((uintptr_t)base) % vt.align != 0 || vt.size > 256) { o.bad(96, "ORACLE: observation buffer unsuitable for the type"); return; }
  Addr a; vt.addr(base, a);
#define OFF(p) ((ptrdiff_t)((const unsigned char*)(p) - base))
  switch (fact) {
  case F_SIZEOF: {
    o.res(vt.size); o.exp(e.size);
    if (vt.size != e.size) FAILF(1, vt.size, e.size, "sizeof is %zu, contract says %zu", vt.size, e.size)
  } break;
  case F_ALIGNOF: {
    o.res(vt.align); o.exp(e.align);
    if (vt.align != e.align && !(e.alt_align && vt.align == e.alt_align)) {
      // legacy model of the recorded defect: storage<3, uint64, true> is the 2-lane glm_u64vec2, so an aligned 3 x u64 vector (and every matrix with such columns) is 16- instead of 32-aligned
      if (e.aligned && d.T == T_U64 && ((d.kind == K_VEC && d.C == 3) || (d.kind == K_MAT && d.R == 3)) && vt.align == 16 && e.align == 32) o.kf = KF_U64VEC3_ALIGN;
      FAILF(1, vt.align, e.align, "alignof is %zu, contract says %zu", vt.align, e.align) }
  } break;
  case F_ADDR: {
    for (int k = 0; k < NE; ++k) {
      ptrdiff_t g = OFF(a.at[k]); o.res((uint64_t)g, (uint64_t)k); o.exp(e.off[k]);
      if (g != (ptrdiff_t)e.off[k]) FAILF(1, g, e.off[k], "operator[]: element %d is at byte %td, contract says %zu", k, g, e.off[k])
      ptrdiff_t gc = OFF(a.cat[k]);
      if (gc != (ptrdiff_t)e.off[k]) FAILF(2, gc, e.off[k], "operator[] const: element %d is at byte %td, contract says %zu", k, gc, e.off[k])
    }
    if (d.kind == K_MAT) {
      for (int c = 0; c < d.C; ++c) { ptrdiff_t g = OFF(a.col[c]); size_t w = (size_t)c * e.colsize;
        if (g != (ptrdiff_t)w) FAILF(3, g, w, "column %d starts at byte %td, contract says %zu (C consecutive columns)", c, g, w) }
      if (vt.colsize != e.colsize) FAILF(4, vt.colsize, e.colsize, "sizeof(column) is %zu, contract says %zu", vt.colsize, e.colsize)
    }
  } break;
  case F_MEMBERS: {
    if (d.kind == K_MAT) {
      for (int c = 0; c < d.C; ++c) for (int i = 0; i < d.R; ++i) { ptrdiff_t g = OFF(a.mem[c * d.R + i]); size_t w = e.off[c * d.R + i]; o.res((uint64_t)g, (uint64_t)(c * 4 + i)); o.exp(w);
        if (g != (ptrdiff_t)w) FAILF(3, g, w, "m[%d].%c is at byte %td, contract says %zu", c, "xyzw"[i], g, w) }
    } else {
      for (int i = 0; i < NE; ++i) { ptrdiff_t g = OFF(a.mem[i]); size_t w = e.off[e.member_slot[i]]; o.res((uint64_t)g, (uint64_t)i); o.exp(w);
        if (g != (ptrdiff_t)w) FAILF(d.kind == K_QUA ? 2 : 1, g, w, "member .%c is at byte %td, contract says %zu (storage slot %d)", "xyzw"[i], g, w, e.member_slot[i])
        if (a.cat[e.member_slot[i]] != a.mem[i]) FAILF(4, g, w, "member .%c is not the object returned by operator[](%d)", "xyzw"[i], e.member_slot[i]) }   // the member and operator[] of its slot are the same object
    }
  } break;
  case F_VPTR: {
    ptrdiff_t g = OFF(a.vp), gc = OFF(a.cvp); o.res((uint64_t)g, (uint64_t)gc); o.exp(0, 0);
    if (g != 0) FAILF(1, g, 0, "value_ptr(T&) points %td bytes into the object, not at its first stored component", g)
    if (gc != 0) FAILF(2, gc, 0, "value_ptr(T const&) points %td bytes into the object, not at its first stored component", gc)
    for (int k = 0; k < NE; ++k) { size_t pos = e.off[k] / esz;
      if ((const unsigned char*)a.vp + pos * esz != (const unsigned char*)a.at[k]) FAILF(3, OFF(a.at[k]), e.off[k], "value_ptr(x)[%zu] is not logical element %d", pos, k)
      if ((const unsigned char*)a.cvp + pos * esz != (const unsigned char*)a.cat[k]) FAILF(4, OFF(a.cat[k]), e.off[k], "value_ptr(const x)[%zu] is not logical element %d", pos, k) }
  } break;
  case F_IMAGE: {
    unsigned char tg[8], el[16 * 8];
    // (a) store tags at value_ptr(x) + contract position (element-sized stores), read through operator[] and the named members
    { unsigned char* p = const_cast<unsigned char*>((const unsigned char*)a.vp); if (!ob.owns(p, e.size)) p = base;   // a stray pointer is F_VPTR's finding; never write outside the buffer
      for (int k = 0; k < NE; ++k) { tagbytes(d.T, k, 0, tg); std::memcpy(p + e.off[k], tg, esz); }
      std::memset(el, 0, sizeof el); vt.get(base, el);
      for (int k = 0; k < NE; ++k) { tagbytes(d.T, k, 0, tg); o.res(bits8(el + 8 * k), (uint64_t)k); o.exp(bits8(tg));
        if (std::memcmp(el + 8 * k, tg, esz) != 0) FAILF(1, bits8(el + 8 * k), bits8(tg), "tag written to value_ptr()[%zu] is not what operator[] returns for element %d", e.off[k] / esz, k) }
      for (int i = 0; i < NE; ++i) { int slot = d.kind == K_MAT ? i : e.member_slot[i]; tagbytes(d.T, slot, 0, tg); unsigned char mv[8] = {0};
        if (!ob.owns(a.mem[i], esz)) FAILF(2, 0, 0, "named member %d lies outside the object", i)
        std::memcpy(mv, a.mem[i], esz);
        if (std::memcmp(mv, tg, esz) != 0) FAILF(2, bits8(mv), bits8(tg), "named member %c of %s %d does not hold the tag written to value_ptr()[%zu]", "xyzw"[d.kind == K_MAT ? i % d.R : i], d.kind == K_MAT ? "column" : "object", d.kind == K_MAT ? i / d.R : 0, e.off[slot] / esz) }
    }
    // (b) write through operator[], read the raw bytes of the object and through value_ptr of the const object
    { Obj ob2; vt.construct(ob2.base()); unsigned char in[16 * 8]; for (int k = 0; k < NE; ++k) tagbytes(d.T, k, 1, in + 8 * k);
      vt.set(ob2.base(), in); Addr a2; vt.addr(ob2.base(), a2);
      for (int k = 0; k < NE; ++k) { o.res(bits8(ob2.base() + e.off[k]) & (esz == 8 ? ~0ull : ((1ull << (8 * esz)) - 1)), (uint64_t)k); o.exp(bits8(in + 8 * k));
        if (std::memcmp(ob2.base() + e.off[k], in + 8 * k, esz) != 0) FAILF(3, o.got[0], bits8(in + 8 * k), "byte image: element %d written through operator[] is not at byte %zu of the object", k, e.off[k]) }
      if (ob2.owns(a2.cvp, e.size)) for (int k = 0; k < NE; ++k) if (std::memcmp((const unsigned char*)a2.cvp + e.off[k], in + 8 * k, esz) != 0) { unsigned char gv[8] = {0}; std::memcpy(gv, (const unsigned char*)a2.cvp + e.off[k], esz); FAILF(4, bits8(gv), bits8(in + 8 * k), "value_ptr(const x)[%zu] does not read element %d", e.off[k] / esz, k) }
      if (!e.aligned) {   // packed: the whole object is the contiguous tag array
        unsigned char arr[16 * 8]; for (int k = 0; k < NE; ++k) std::memcpy(arr + (size_t)k * esz, in + 8 * k, esz);
        if (std::memcmp(ob2.base(), arr, (size_t)NE * esz) != 0) FAILF(5, 0, 0, "byte image of the packed object differs from the contiguous array of its %d components", NE) }
    }
  } break;
  case F_MAKE: {
    // builders return the default qualifier; the raw-array form of an object is defined per alignment family; vec1 has no pointer builder
    if (!vt.has_make || e.aligned != ((int)glm::defaultp >= 3)) { o.nontrivial = false; return; }
    Desc dy = d; dy.Q = (int)glm::defaultp; std::map<uint64_t, VT>::const_iterator iy = index().find(enc(dy));
    if (iy == index().end()) { o.bad(97, "ORACLE: the defaultp instantiation is missing from the table"); return; }
    const VT& vy = iy->second; Exp ey = contract(dy); unsigned char tg[8], el[16 * 8];
    alignas(64) unsigned char raw[768]; std::memset(raw, 0, sizeof raw);
    for (int k = 0; k < NE; ++k) { tagbytes(d.T, k, 2, tg); std::memcpy(raw + ey.off[k], tg, esz); }
    for (int alias = 0; alias <= vt.has_make2; ++alias) {
      Obj oy; vt.make(raw, alias, oy.base()); std::memset(el, 0, sizeof el); vy.get(oy.base(), el);
      for (int k = 0; k < NE; ++k) { tagbytes(d.T, k, 2, tg); o.res(bits8(el + 8 * k), (uint64_t)k); o.exp(bits8(tg));
        if (std::memcmp(el + 8 * k, tg, esz) != 0) FAILF(1 + alias, bits8(el + 8 * k), bits8(tg), "make_*(ptr)%s: element %d differs from ptr[%zu]", alias ? " (square alias)" : "", k, ey.off[k] / esz) }
    }
    // object -> raw array (sizeof(object) bytes from value_ptr) -> builder -> same components
    unsigned char in[16 * 8]; for (int k = 0; k < NE; ++k) tagbytes(d.T, k, 3, in + 8 * k);
    vt.set(base, in); alignas(64) unsigned char raw2[768]; std::memset(raw2, 0, sizeof raw2);
    { const unsigned char* p = (const unsigned char*)a.cvp; if (!ob.owns(p, e.size)) p = base; std::memcpy(raw2, p, e.size); }
    Obj oz; vt.make(raw2, 0, oz.base()); std::memset(el, 0, sizeof el); vy.get(oz.base(), el);
    for (int k = 0; k < NE; ++k) if (std::memcmp(el + 8 * k, in + 8 * k, esz) != 0) FAILF(3, bits8(el + 8 * k), bits8(in + 8 * k), "object -> value_ptr array -> make_*: element %d changed", k)
    // and back: the array image of the rebuilt object equals the array it was built from at every element position
    for (int k = 0; k < NE; ++k) if (std::memcmp(oz.base() + ey.off[k], raw2 + ey.off[k], esz) != 0) FAILF(4, 0, 0, "array -> make_* -> value_ptr array: position %zu changed", ey.off[k] / esz)
  } break;
  case F_LENGTH: {
    int want = d.kind == K_QUA ? 4 : d.C; o.res((uint64_t)vt.len); o.exp((uint64_t)want);
    if (vt.len != want) FAILF(1, vt.len, want, "length() is %d, component count is %d", vt.len, want)
    if (vt.slen != want) FAILF(1, vt.slen, want, "static length() is %d, component count is %d", vt.slen, want)
    if (!vt.lentype_ok) FAILF(2, 0, sizeof(WantLen), "length() does not return %s", sizeof(WantLen) == 4 ? "int" : "size_t")
    if (!vt.ltype_ok || !std::is_same<glm::length_t, WantLen>::value) FAILF(3, sizeof(glm::length_t), sizeof(WantLen), "length_type / glm::length_t is not %s", sizeof(WantLen) == 4 ? "int" : "size_t")
    if (d.kind == K_MAT) { if (vt.collen != d.R) FAILF(4, vt.collen, d.R, "column length() is %d, row count is %d", vt.collen, d.R)
      if (!vt.collentype_ok) FAILF(2, 0, sizeof(WantLen), "column length() does not return the configured length type") }
  } break;
  case F_COPY: {
    unsigned char in[16 * 8], el[16 * 8]; for (int k = 0; k < NE; ++k) tagbytes(d.T, k, 4, in + 8 * k);
    vt.set(base, in);
#if GLM_CONFIG_DEFAULTED_FUNCTIONS == GLM_ENABLE
    o.res(vt.triv); o.exp(1);
    if (!vt.triv) FAILF(1, 0, 1, "not trivially copyable although copy operations are defaulted (the memcpy based builders rely on it)")
#endif
    { Obj o2; vt.construct(o2.base()); std::memcpy(o2.base(), base, vt.size); std::memset(el, 0, sizeof el); vt.get(o2.base(), el);
      for (int k = 0; k < NE; ++k) if (std::memcmp(el + 8 * k, in + 8 * k, esz) != 0) FAILF(2, bits8(el + 8 * k), bits8(in + 8 * k), "memcpy of sizeof(object) bytes does not reproduce element %d", k) }
    { Obj o3; vt.copy(base, o3.base()); std::memset(el, 0, sizeof el); vt.get(o3.base(), el);
      for (int k = 0; k < NE; ++k) if (std::memcmp(el + 8 * k, in + 8 * k, esz) != 0) FAILF(3, bits8(el + 8 * k), bits8(in + 8 * k), "copy construction does not reproduce element %d", k) }
    { Obj o4; vt.construct(o4.base()); vt.assign(base, o4.base());
      for (int k = 0; k < NE; ++k) if (std::memcmp(o4.base() + e.off[k], in + 8 * k, esz) != 0) FAILF(4, 0, bits8(in + 8 * k), "assignment does not put element %d at its contract offset", k) }
  } break;
  }
#undef OFF
}

// ------------------------------------------------------------------------------------------------ the table
static std::vector<uint64_t>& table() { static std::vector<uint64_t> t; return t; }
template <typename X> static void add_type() { VT v = Ops<X>::vt(); uint64_t w = enc(v.d); table().push_back(w); index()[w] = v; }
template <typename T, glm::qualifier Q> static void add_TQ() {
  add_type<glm::vec<1, T, Q> >(); add_type<glm::vec<2, T, Q> >(); add_type<glm::vec<3, T, Q> >(); add_type<glm::vec<4, T, Q> >();
  add_type<glm::mat<2, 2, T, Q> >(); add_type<glm::mat<2, 3, T, Q> >(); add_type<glm::mat<2, 4, T, Q> >(); add_type<glm::mat<3, 2, T, Q> >(); add_type<glm::mat<3, 3, T, Q> >();
  add_type<glm::mat<3, 4, T, Q> >(); add_type<glm::mat<4, 2, T, Q> >(); add_type<glm::mat<4, 3, T, Q> >(); add_type<glm::mat<4, 4, T, Q> >();
  add_type<glm::qua<T, Q> >();
}
template <typename T> static void add_T() {
  add_TQ<T, glm::packed_highp>(); add_TQ<T, glm::packed_mediump>(); add_TQ<T, glm::packed_lowp>();
#if C16_ALIGNED
  add_TQ<T, glm::aligned_highp>(); add_TQ<T, glm::aligned_mediump>(); add_TQ<T, glm::aligned_lowp>();
#endif
}

template <int FACT> static void op_fact(const Case& c, Outcome& o) {
  Desc d = dec(c.w[0]);
  if (!valid(d) || enc(d) != c.w[0]) { o.nontrivial = false; return; }       // (only reachable through --replay with a foreign word)
  std::map<uint64_t, VT>::const_iterator it = index().find(c.w[0]);
  if (it == index().end()) { o.nontrivial = false; return; }                  // instantiation not part of this build (part / configuration)
  Exp e = contract(d);
  o.cls(d.kind + (e.aligned ? 3 : 0));
  check(FACT, it->second, d, e, o);
}

// ------------------------------------------------------------------------------------------------ configuration facts
// A handful of documented whole-configuration facts, one case each (manual 2.10, 2.14, 2.18, 2.21 and the statement).
struct DocStruct { glm::vec4 a; float b; glm::vec3 c; };     // manual 2.10: 48 bytes with default aligned gentypes, 32 tightly packed
enum { CF_DOCSTRUCT, CF_DEFAULTP, CF_ALIGNED_AVAILABLE, CF_SWIZZLE_MODE, CF_LENGTH_T, CF_QUAT_CTOR_INDEPENDENT, CF_FVEC_SIZES, NCF };
static void op_config(const Case& c, Outcome& o) {
  int k = (int)c.w[0]; o.cls(0);
#if defined(GLM_FORCE_DEFAULT_ALIGNED_GENTYPES) && C16_ALIGNED
  const bool def_aligned = true;
#else
  const bool def_aligned = false;
#endif
  switch (k) {
  case CF_DOCSTRUCT: { size_t want = def_aligned ? 48 : 32; o.res(sizeof(DocStruct)); o.exp(want); if (sizeof(DocStruct) != want) o.bad(1, "manual 2.10: struct {vec4 a; float b; vec3 c;} must be 48 bytes with default aligned gentypes and 32 bytes otherwise"); } break;
  case CF_DEFAULTP: { int want = def_aligned ? 3 : 0; o.res((uint64_t)(int)glm::defaultp); o.exp((uint64_t)want); if ((int)glm::defaultp != want) o.bad(2, "defaultp must be aligned_highp exactly when GLM_FORCE_DEFAULT_ALIGNED_GENTYPES is in effect, packed_highp otherwise");
    else if (!std::is_same<glm::vec3, glm::vec<3, float, glm::defaultp> >::value || !std::is_same<glm::mat4, glm::mat<4, 4, float, glm::defaultp> >::value || !std::is_same<glm::quat, glm::qua<float, glm::defaultp> >::value) o.bad(2, "glm::vec3 / mat4 / quat are not the defaultp instantiations"); } break;
  case CF_ALIGNED_AVAILABLE: {
    // DESIGN section 1 fact 2: on gcc/clang aligned types (and operator swizzles) exist exactly when GLM_FORCE_INTRINSICS selects a SIMD ISA
#if defined(GLM_FORCE_INTRINSICS) && (defined(__SSE2__) || defined(__AVX__)) && !defined(GLM_FORCE_XYZW_ONLY) && !defined(GLM_FORCE_PURE) && !defined(GLM_FORCE_CXX98) && !defined(GLM_FORCE_CXX03)
    const int want = 1;
#elif defined(GLM_FORCE_ALIGNED_GENTYPES) || defined(GLM_FORCE_DEFAULT_ALIGNED_GENTYPES) || defined(GLM_FORCE_INTRINSICS)
    const int want = C16_ALIGNED;   // requested but legitimately unavailable without language extensions: nothing to demand
#else
    const int want = 0;
#endif
    o.res(C16_ALIGNED); o.exp(want); if (C16_ALIGNED != want) o.bad(3, "aligned gentypes availability does not follow the configuration (they must exist with GLM_FORCE_INTRINSICS on a SIMD target)"); } break;
  case CF_SWIZZLE_MODE: {
#if defined(GLM_FORCE_SWIZZLE) && !defined(GLM_FORCE_XYZW_ONLY)
    const int want = C16_ALIGNED ? GLM_SWIZZLE_OPERATOR : GLM_SWIZZLE_FUNCTION;   // operators need the same language extensions as aligned types
#else
    const int want = GLM_SWIZZLE_DISABLED;
#endif
    o.res(GLM_CONFIG_SWIZZLE); o.exp(want); if (GLM_CONFIG_SWIZZLE != want) o.bad(4, "swizzle mode does not follow the configuration"); } break;
  case CF_LENGTH_T: {
#if defined(GLM_FORCE_SIZE_T_LENGTH)
    bool ok = std::is_same<glm::length_t, std::size_t>::value;
#else
    bool ok = std::is_same<glm::length_t, int>::value;
#endif
    o.res(sizeof(glm::length_t)); o.exp(ok ? sizeof(glm::length_t) : 0); if (!ok) o.bad(5, "manual 2.18: glm::length_t must be int, or size_t under GLM_FORCE_SIZE_T_LENGTH"); } break;
  case CF_QUAT_CTOR_INDEPENDENT: {
    // the storage order must not change which value a named member holds: wxyz(w,x,y,z) names its arguments
    // (the raw image is read from the object itself inside an owned buffer, so the case stays a pure function of its input whatever value_ptr does)
    Obj ob; glm::quat* qp = new (ob.base()) glm::quat(glm::quat::wxyz(1.f, 2.f, 3.f, 4.f)); const glm::quat& q = *qp; float p[4]; std::memcpy(p, ob.base(), sizeof p);
    bool ok = q.w == 1.f && q.x == 2.f && q.y == 3.f && q.z == 4.f; o.res(b32(p[0]), b32(p[3])); o.exp(b32(C16_WXYZ ? 1.f : 2.f), b32(C16_WXYZ ? 4.f : 1.f));
    if (!ok) o.bad(6, "quat::wxyz(w,x,y,z) did not store its arguments in the members of the same name");
    else if (C16_WXYZ ? !(p[0] == 1.f && p[1] == 2.f && p[2] == 3.f && p[3] == 4.f) : !(p[0] == 2.f && p[1] == 3.f && p[2] == 4.f && p[3] == 1.f)) o.bad(7, "quaternion memory order is not x,y,z,w (w,x,y,z under GLM_FORCE_QUAT_DATA_WXYZ)"); } break;
  case CF_FVEC_SIZES: {
    // the sizes the statement spells out literally
    bool ok = sizeof(glm::vec<2, float, glm::packed_highp>) == 8 && sizeof(glm::vec<3, float, glm::packed_highp>) == 12 && sizeof(glm::vec<4, float, glm::packed_highp>) == 16 && sizeof(glm::mat<4, 4, float, glm::packed_highp>) == 64;
#if C16_ALIGNED
    ok = ok && sizeof(glm::aligned_vec4) == 16 && alignof(glm::aligned_vec4) == 16 && sizeof(glm::aligned_vec3) == 16 && alignof(glm::aligned_vec3) == 16 && sizeof(glm::aligned_vec2) == 8 && alignof(glm::aligned_vec2) == 8 && sizeof(glm::aligned_mat4) == 64 && sizeof(glm::aligned_mat3) == 48;
#endif
    o.res(ok); o.exp(1); if (!ok) o.bad(8, "literal sizes of the statement: packed vec2/3/4 = 8/12/16, aligned vec4/vec3 = 16 bytes 16-aligned, aligned vec2 = 8"); } break;
  default: o.nontrivial = false;
  }
}

// ------------------------------------------------------------------------------------------------ type aliases
// every alias NAME of glm/fwd.hpp (and of gtc/type_aligned.hpp where aligned types exist) must be the instantiation its name spells:
// <alignment>_<precision>_<element prefix>vec<L> etc.  The expectation comes from the naming grammar (tools/gen_c16_aliases.py), not from GLM.
struct AliasRow { const char* name; bool same; size_t size, want_size, align, want_align; };
#define ALIAS_CORE(NAME, ...) {#NAME, std::is_same<glm::NAME, __VA_ARGS__>::value, sizeof(glm::NAME), sizeof(__VA_ARGS__), alignof(glm::NAME), alignof(__VA_ARGS__)},
#if C16_ALIGNED
#define ALIAS_ALIGNED(NAME, ...) {#NAME, std::is_same<glm::NAME, __VA_ARGS__>::value, sizeof(glm::NAME), sizeof(__VA_ARGS__), alignof(glm::NAME), alignof(__VA_ARGS__)},
#else
#define ALIAS_ALIGNED(NAME, ...)
#endif
static const AliasRow ALIASES[] = {
#include "../drivers/c16_aliases.inc"
};
static const size_t NALIASES = sizeof(ALIASES) / sizeof(ALIASES[0]);
static void op_alias(const Case& c, Outcome& o) {
  const AliasRow& a = ALIASES[c.w[0]]; o.cls(std::strncmp(a.name, "aligned_", 8) == 0 ? 1 : std::strncmp(a.name, "packed_", 7) == 0 ? 2 : 0);
  o.res(a.same, a.size); o.exp(1, a.want_size);
  if (!a.same || a.size != a.want_size || a.align != a.want_align) { char m[160]; std::snprintf(m, sizeof m, "alias glm::%s is not the instantiation its name spells (sizeof %zu, expected %zu; alignof %zu, expected %zu)", a.name, a.size, a.want_size, a.align, a.want_align); o.bad(1, m); }
}

// qualifier conversion in place: vec<L,T,packed_highp>(vec<L,T,aligned_highp>) and the reverse, constructed by placement new inside a 0xA5-filled buffer. The object
// must hold the source components and every byte of the buffer outside [object, object + sizeof) must be untouched (a packed object is exactly L components;
// arrays and matrix columns of packed vectors are adjacent). Case word: L-1 + 4 * type index.
#if C16_ALIGNED
template <class DST, class SRC, int L> static int qconv_one(int off_dst) {
  alignas(64) unsigned char buf[256]; std::memset(buf, 0xA5, sizeof buf);
  SRC a; for (int k = 0; k < L; ++k) a[k] = (typename SRC::value_type)(k + 1);
  DST* d = new (buf + off_dst) DST(a);
  for (int k = 0; k < L; ++k) if (!((*d)[k] == (typename DST::value_type)(k + 1))) return 1;
  for (size_t i = 0; i < sizeof buf; ++i) if ((i < (size_t)off_dst || i >= (size_t)off_dst + sizeof(DST)) && buf[i] != 0xA5) return 2 + (i >= (size_t)off_dst + sizeof(DST));
  return 0; }
template <typename T, int L> static int qconv_LT() { typedef glm::vec<L, T, glm::packed_highp> P; typedef glm::vec<L, T, glm::aligned_highp> A;
  int r = qconv_one<P, A, L>(64 + (int)sizeof(T)); if (r) return r; r = qconv_one<A, P, L>(64); if (r) return 10 + r; r = qconv_one<P, P, L>(64 + (int)sizeof(T)); return r ? 20 + r : 0; }
template <typename T> static int qconv_T(int L) { return L == 1 ? qconv_LT<T, 1>() : L == 2 ? qconv_LT<T, 2>() : L == 3 ? qconv_LT<T, 3>() : qconv_LT<T, 4>(); }
static void op_qconv(const Case& c, Outcome& o) {
  int L = (int)(c.w[0] & 3) + 1, t = (int)(c.w[0] >> 2); o.cls(t);
  int r = t == 0 ? qconv_T<float>(L) : t == 1 ? qconv_T<double>(L) : t == 2 ? qconv_T<int>(L) : t == 3 ? qconv_T<glm::uint>(L) : t == 4 ? qconv_T<glm::int64>(L) : qconv_T<glm::uint8>(L);
  o.res((uint64_t)r); o.exp(0); if (r) o.bad(1 + (r % 10 >= 2), (r % 10 >= 2) ? "qualifier-converting constructor wrote outside the destination object" : "qualifier-converting constructor does not carry the components over"); }
#endif
#define PART(k) (!defined(GLMX_PART) || GLMX_PART == k)
#if defined(GLMX_PART)
#  define C16_PARTDESC "element types of this part"
#else
#  define C16_PARTDESC "11 element types"
#endif
#if defined(GLM_FORCE_SIZE_T_LENGTH)
#  define C16_SIZE_T 1
#else
#  define C16_SIZE_T 0
#endif

int main(int argc, char** argv) {
  Engine E; E.property = "C16";
  E.kf_ids = {"KF-C16-aligned-u64vec3-alignment"};
  // element types can be compiled as 6 parts (-DGLMX_PART=k) so that the TUs build in parallel (the operator-swizzle
  // configuration costs ~10 s of compile time per element type); without the macro the TU contains everything.
  // Parts 0 and 1 are the float / double / int / bool core named in DESIGN.md for a reduced quick tier.
#if PART(0)
  add_T<float>(); add_T<double>();
#endif
#if PART(1)
  add_T<glm::int32>(); add_T<bool>();
#endif
#if PART(2)
  add_T<glm::uint32>(); add_T<glm::int8>();
#endif
#if PART(3)
  add_T<glm::uint8>(); add_T<glm::int16>();
#endif
#if PART(4)
  add_T<glm::uint16>(); add_T<glm::int64>();
#endif
#if PART(5)
  add_T<glm::uint64>();
#endif
  std::vector<uint64_t> words = table();
  // ORACLE self-check of the table itself: no duplicates, every word decodes to a valid descriptor
  if (index().size() != table().size()) { std::fprintf(stderr, "c16: duplicate descriptor words\n"); return 2; }
  for (uint64_t w : words) if (!valid(dec(w)) || enc(dec(w)) != w) { std::fprintf(stderr, "c16: invalid descriptor word\n"); return 2; }
  size_t nvec = 0, nmat = 0, nqua = 0; for (uint64_t w : words) { int k = dec(w).kind; (k == K_VEC ? nvec : k == K_MAT ? nmat : nqua)++; }
  char dn[200]; std::snprintf(dn, sizeof dn, "INSTANTIATIONS(%zu vec + %zu mat + %zu qua; L 1..4, CxR 2..4, %s, %s)", nvec, nmat, nqua,
    C16_PARTDESC, C16_ALIGNED ? "packed+aligned x highp/mediump/lowp" : "packed x highp/mediump/lowp (no aligned types in this configuration)");
  Domain inst = list(dn, words, true);
  std::vector<std::string> classes = {"vec packed", "mat packed", "qua packed"};
  if (C16_ALIGNED) { classes.push_back("vec aligned"); classes.push_back("mat aligned"); classes.push_back("qua aligned"); }
  CheckFn fns[NFACTS] = {op_fact<F_SIZEOF>, op_fact<F_ALIGNOF>, op_fact<F_ADDR>, op_fact<F_MEMBERS>, op_fact<F_VPTR>, op_fact<F_IMAGE>, op_fact<F_MAKE>, op_fact<F_LENGTH>, op_fact<F_COPY>};
  for (int f = 0; f < NFACTS; ++f) { Op& op = E.add(FACT_NAME[f], fns[f]); op.quick = {inst}; op.classes = classes;
    if (f == F_MAKE) { op.classes.clear(); op.note = "builders return defaultp: only instantiations of the alignment family of defaultp apply; vec1 has no pointer builder (counted trivial)"; } }
#if PART(0) && C16_ALIGNED
  { Op& op = E.add("packed<->aligned qualifier conversion constructed in place: components carried over, no byte outside the object written", op_qconv); op.quick = {range("L{1..4} x T{float,double,int,uint,i64,u8}", 0, 24, true)}; op.classes = {"float", "double", "int", "uint", "i64", "u8"}; }
#endif
#if PART(0)
  { Op& op = E.add("type aliases of fwd.hpp / gtc/type_aligned.hpp are the instantiations their names spell", op_alias); op.quick = {range("ALIASES", 0, NALIASES, true)}; op.classes = {"core"}; if (C16_ALIGNED) { op.classes.push_back("aligned_*"); op.classes.push_back("packed_*"); } }
#endif
  { Op& op = E.add("configuration facts (manual 2.10 struct size, defaultp, aligned/swizzle availability, length_t, quaternion memory order, literal sizes)", op_config); op.quick = {range("CONFIG_FACTS", 0, NCF, true)}; op.classes = {"fact"}; }

  char cfg[512]; std::snprintf(cfg, sizeof cfg, "{\"aligned_gentypes\": %d, \"default_aligned\": %d, \"swizzle_mode\": %d, \"anonymous_struct\": %d, \"xyzw_only\": %d, \"quat_wxyz\": %d, \"size_t_length\": %d, \"ctor_init\": %d, \"defaulted_functions\": %d, \"avx\": %d, \"avx2\": %d, \"glm_arch\": \"0x%x\", \"glm_lang\": \"0x%x\", \"instantiations\": %zu}",
    C16_ALIGNED, (int)glm::defaultp >= 3, (int)GLM_CONFIG_SWIZZLE, GLM_CONFIG_ANONYMOUS_STRUCT == GLM_ENABLE, GLM_CONFIG_XYZW_ONLY == GLM_ENABLE, C16_WXYZ,
#if defined(GLM_FORCE_SIZE_T_LENGTH)
    1,
#else
    0,
#endif
    GLM_CONFIG_CTOR_INIT != GLM_CTOR_INIT_DISABLE, GLM_CONFIG_DEFAULTED_FUNCTIONS == GLM_ENABLE, C16_AVX, C16_AVX2, (unsigned)GLM_ARCH, (unsigned)GLM_LANG, words.size());
  E.extra_json["glm_configuration"] = cfg;
  E.assumptions = {"expected sizes, alignments and offsets are computed from the descriptor word (kind, C, R, element type, qualifier) and the language's sizeof/alignof of the element type, never from a GLM type",
                   "aligned contract: N = (L==3 ? 4 : L) components, sizeof = alignof = N*sizeof(T); 16-byte alignment is also accepted for the 32-byte double vectors when the ISA level has no 256-bit register (below AVX: two glm_f64vec2 halves)",
                   "every object is observed inside an oversized zero-filled buffer; facts are run-time observations, one case per (fact, instantiation)"};
  return E.main(argc, argv);
}
