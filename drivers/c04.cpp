// C04 — quaternion, matrix, axis-angle and Euler forms of a rotation agree.
// Every relation is checked against a long-double reference that is independent of GLM's closed forms:
// R(q)v = vec(q (0,v) q*) / |q|^2 by Hamilton products, Rodrigues' formula for (angle, axis), and products of
// GLM's own single-axis factors for the gtx eulerAngleABC matrices.  The same source is compiled twice
// (default and -DGLM_FORCE_QUAT_DATA_WXYZ): quaternions are built only with qua::wxyz / named members and read
// only through .w .x .y .z, except in the op that checks the memory order itself.
#define GLM_ENABLE_EXPERIMENTAL
#include <glm/glm.hpp>
#include <glm/gtc/quaternion.hpp>
#include <glm/gtc/type_ptr.hpp>
#include <glm/ext/quaternion_exponential.hpp>
#include <glm/gtx/quaternion.hpp>
#include <glm/gtx/euler_angles.hpp>
#include <glm/gtx/rotate_vector.hpp>
#include <glm/gtx/dual_quaternion.hpp>
#include "glmx.hpp"
#include <array>
#include <type_traits>
#include <cfloat>
using namespace glmx;

typedef long double L;
static const L PI_L = 3.14159265358979323846264338327950288L;

enum { KF_EULER_GIMBAL = 0, KF_AXIS_CANCEL = 1, KF_TWOVEC_NEAR_OPPOSITE = 2, KF_EXP_ZERO = 3 };

template <typename F> struct FT;
template <> struct FT<float> { static float get(uint64_t b) { return f32(b); } static uint64_t bits(float f) { return b32(f); } static L u() { return 0x1p-24L; } static const char* name() { return "float"; } enum { IDX = 0 }; };
template <> struct FT<double> { static double get(uint64_t b) { return f64(b); } static uint64_t bits(double f) { return b64(f); } static L u() { return 0x1p-53L; } static const char* name() { return "double"; } enum { IDX = 1 }; };

// ------------------------------------------------------------------------------- measurement (development only)
#ifdef C04_MEASURE
#include <atomic>
struct MeasSlot { const char* name; std::atomic<uint64_t> eu, et, fail[48]; };
static MeasSlot g_meas[2][80];
static void measupd(std::atomic<uint64_t>& a, double v) { if (!(v >= 0)) return; uint64_t b = b64(v), cur = a.load(); while (b > cur && !a.compare_exchange_weak(cur, b)) {} }
// passing case: max error in u, and max share of the rounding allowance used once the |q|^2-1 allowance is taken off
static void meas(int t, int slot, const char* name, L e, L cu, L ndp, L u) { g_meas[t][slot].name = name; measupd(g_meas[t][slot].eu, (double)(e / u)); L r = e - ndp; if (r < 0) r = 0; measupd(g_meas[t][slot].et, (double)(r / cu)); }
static void measfail(int t, int slot, const char* name, L e, L tol) { g_meas[t][slot].name = name; int b = 47; if (e == e && tol > 0) { L r = log2l(e / tol); b = r < 0 ? 0 : r > 46 ? 46 : (int)r; } g_meas[t][slot].fail[b]++; }
struct MeasDump { ~MeasDump() { for (int t = 0; t < 2; ++t) for (int s = 0; s < 80; ++s) if (g_meas[t][s].name) { std::fprintf(stderr, "MEAS %-6s [%2d] %-46s max err = %10.3f u   max rounding share = %.4f", t ? "double" : "float", s, g_meas[t][s].name, f64(g_meas[t][s].eu.load()), f64(g_meas[t][s].et.load()));
    for (int b = 0; b < 48; ++b) if (g_meas[t][s].fail[b].load()) std::fprintf(stderr, "  FAIL[2^%d..]=%llu", b, (unsigned long long)g_meas[t][s].fail[b].load()); std::fprintf(stderr, "\n"); } } } g_measdump;
#define MEAS(SLOT, NAME, E, CU, NDP) meas(FT<F>::IDX, SLOT, NAME, E, CU, NDP, u)
#define MEASFAIL(SLOT, NAME, E, T) measfail(FT<F>::IDX, SLOT, NAME, E, T)
#else
#define MEAS(SLOT, NAME, E, CU, NDP) ((void)0)
#define MEASFAIL(SLOT, NAME, E, T) ((void)0)
#endif
// CHK: error E must be <= CU + NDP (NaN fails).  CU is the rounding allowance (c*u*magnitude), NDP the allowance for the
// deviation of |q|^2 from 1 in the *input*.  got/want in the replay file are the error and the tolerance as doubles.
#define CHK(SLOT, E, CU, NDP, VC, MSG) do { L e_ = (E), c_ = (CU), n_ = (NDP); if (!(e_ <= c_ + n_)) { MEASFAIL(SLOT, MSG, e_, c_ + n_); o.res(b64((double)e_)); o.exp(b64((double)(c_ + n_))); o.bad(VC, MSG); return; } MEAS(SLOT, MSG, e_, c_, n_); } while (0)

// ----------------------------------------------------------------------------------- long double reference model
struct LQ { L w, x, y, z; };
struct LV { L x, y, z; };
struct LM { L m[3][3]; };   // m[column][row], as GLM
static inline LQ hmul(const LQ& a, const LQ& b) {   // Hamilton product, i*j = k
  return { a.w * b.w - a.x * b.x - a.y * b.y - a.z * b.z,
           a.w * b.x + a.x * b.w + a.y * b.z - a.z * b.y,
           a.w * b.y + a.y * b.w + a.z * b.x - a.x * b.z,
           a.w * b.z + a.z * b.w + a.x * b.y - a.y * b.x }; }
static inline L qn2(const LQ& q) { return q.w * q.w + q.x * q.x + q.y * q.y + q.z * q.z; }
static inline LQ qscale(const LQ& q, L s) { return { q.w * s, q.x * s, q.y * s, q.z * s }; }
static inline LQ qhat(const LQ& q) { return qscale(q, 1 / sqrtl(qn2(q))); }
static inline LQ qconj(const LQ& q) { return { q.w, -q.x, -q.y, -q.z }; }
static inline LV rotv(const LQ& qh, const LV& v) { LQ r = hmul(hmul(qh, LQ{0, v.x, v.y, v.z}), qconj(qh)); return { r.x, r.y, r.z }; }
static inline LM rotm(const LQ& qh) { LM r; const LV e[3] = {{1, 0, 0}, {0, 1, 0}, {0, 0, 1}}; for (int i = 0; i < 3; ++i) { LV c = rotv(qh, e[i]); r.m[i][0] = c.x; r.m[i][1] = c.y; r.m[i][2] = c.z; } return r; }
static inline L vlen(const LV& v) { return sqrtl(v.x * v.x + v.y * v.y + v.z * v.z); }
static inline LV vhat(const LV& v) { L l = vlen(v); return { v.x / l, v.y / l, v.z / l }; }
static inline LV vcross(const LV& a, const LV& b) { return { a.y * b.z - a.z * b.y, a.z * b.x - a.x * b.z, a.x * b.y - a.y * b.x }; }
static inline L vdot(const LV& a, const LV& b) { return a.x * b.x + a.y * b.y + a.z * b.z; }
static inline LV mulmv(const LM& m, const LV& v) { return { m.m[0][0] * v.x + m.m[1][0] * v.y + m.m[2][0] * v.z, m.m[0][1] * v.x + m.m[1][1] * v.y + m.m[2][1] * v.z, m.m[0][2] * v.x + m.m[1][2] * v.y + m.m[2][2] * v.z }; }
static inline LM mulmm(const LM& a, const LM& b) { LM r; for (int c = 0; c < 3; ++c) for (int rr = 0; rr < 3; ++rr) r.m[c][rr] = a.m[0][rr] * b.m[c][0] + a.m[1][rr] * b.m[c][1] + a.m[2][rr] * b.m[c][2]; return r; }
// Rodrigues: rotation by `a` about the unit axis n;  column i = e_i cos a + (n x e_i) sin a + n n_i (1 - cos a)
static inline LM rodrigues(L a, const LV& n) {
  L s = sinl(a), c = cosl(a), h = sinl(a / 2), omc = 2 * h * h; LM r; const LV e[3] = {{1, 0, 0}, {0, 1, 0}, {0, 0, 1}}; const L nn[3] = {n.x, n.y, n.z};
  for (int i = 0; i < 3; ++i) { LV x = vcross(n, e[i]); r.m[i][0] = e[i].x * c + x.x * s + n.x * nn[i] * omc; r.m[i][1] = e[i].y * c + x.y * s + n.y * nn[i] * omc; r.m[i][2] = e[i].z * c + x.z * s + n.z * nn[i] * omc; }
  return r; }
static inline LQ axisangle_q(L a, const LV& n) { L s = sinl(a / 2); return { cosl(a / 2), n.x * s, n.y * s, n.z * s }; }
static inline L dmm(const LM& a, const LM& b) { L e = 0; for (int c = 0; c < 3; ++c) for (int r = 0; r < 3; ++r) { L d = fabsl(a.m[c][r] - b.m[c][r]); if (!(d <= e)) e = d; } return e; }
static inline L dvv(const LV& a, const LV& b) { L e = fabsl(a.x - b.x), d = fabsl(a.y - b.y); if (!(d <= e)) e = d; d = fabsl(a.z - b.z); if (!(d <= e)) e = d; return e; }
static inline L dqq(const LQ& a, const LQ& b) { L e = fabsl(a.w - b.w), d = fabsl(a.x - b.x); if (!(d <= e)) e = d; d = fabsl(a.y - b.y); if (!(d <= e)) e = d; d = fabsl(a.z - b.z); if (!(d <= e)) e = d; return e; }
static inline L dqs(const LQ& a, const LQ& b) { L p = dqq(a, b), m = dqq(a, qscale(b, -1)); return (m < p) ? m : p; }   // "q or -q" (NaN in a: p is NaN, returned)

template <typename F> static inline LQ toL(const glm::qua<F>& q) { return { (L)q.w, (L)q.x, (L)q.y, (L)q.z }; }
template <typename F> static inline LV toL(const glm::vec<3, F>& v) { return { (L)v.x, (L)v.y, (L)v.z }; }
template <typename F> static inline LM toL(const glm::mat<3, 3, F>& m) { LM r; for (int c = 0; c < 3; ++c) for (int k = 0; k < 3; ++k) r.m[c][k] = (L)m[c][k]; return r; }
template <typename F> static inline LM toL3(const glm::mat<4, 4, F>& m) { LM r; for (int c = 0; c < 3; ++c) for (int k = 0; k < 3; ++k) r.m[c][k] = (L)m[c][k]; return r; }
// the part of a 4x4 rotation matrix outside the 3x3 block must be exactly that of the identity
template <typename F> static inline bool pad_ok(const glm::mat<4, 4, F>& m) { return m[0][3] == 0 && m[1][3] == 0 && m[2][3] == 0 && m[3][0] == 0 && m[3][1] == 0 && m[3][2] == 0 && m[3][3] == 1; }
template <typename F> static inline glm::qua<F> getq(const uint64_t* w) { return glm::qua<F>::wxyz(FT<F>::get(w[0]), FT<F>::get(w[1]), FT<F>::get(w[2]), FT<F>::get(w[3])); }
template <typename F> static inline glm::vec<3, F> getv(const uint64_t* w) { return glm::vec<3, F>(FT<F>::get(w[0]), FT<F>::get(w[1]), FT<F>::get(w[2])); }
static inline int qclass(const LQ& qh) { L aw = fabsl(qh.w); return aw < 1e-3L ? 0 : aw > 1 - 1e-6L ? 1 : 2; }
static const std::vector<std::string> QCLASSES = {"w~0", "w~+-1", "generic"};

// =============================================================================================== op 1: q*v forms
template <typename F> static void op_rotvec(const Case& c, Outcome& o) {
  typedef glm::qua<F> Q; typedef glm::vec<3, F> V3; typedef glm::vec<4, F> V4; const L u = FT<F>::u();
  Q q = getq<F>(c.w); V3 v = getv<F>(c.w + 4);
  LQ ql = toL(q); L nd = fabsl(qn2(ql) - 1); LQ qh = qhat(ql); LV vl = toL(v); L vn = vlen(vl); LV r = rotv(qh, vl), rt = rotv(qconj(qh), vl);
  o.cls(qclass(qh));
  // v + 2(w(u x v) + u x (u x v)) and the 3x3 product have intermediate terms bounded by ~5|v|; deviation of |q|^2 from 1 enters as 2 nd |v|
  const L cu = 40 * u * vn, np = 2 * nd * vn;
  CHK(0, dvv(toL(V3(q * v)), r), cu, np, 1, "q*v is not R(q)v");
  CHK(1, dvv(toL(V3(glm::mat3_cast(q) * v)), r), cu, np, 2, "mat3_cast(q)*v is not R(q)v");
  { V4 g = glm::mat4_cast(q) * V4(v, F(1)); CHK(2, dvv(toL(V3(g)), r), cu, np, 3, "mat4_cast(q)*(v,1) is not (R(q)v,1)"); if (!(g.w == 1)) { o.bad(4, "mat4_cast(q)*(v,1): w is not 1"); return; } }
  { V4 g = q * V4(v, F(2)); CHK(3, dvv(toL(V3(g)), r), cu, np, 5, "q*vec4(v,w) is not (R(q)v,w)"); if (!(g.w == 2)) { o.bad(6, "q*vec4(v,w) changed w"); return; } }
  CHK(4, dvv(toL(V3(glm::rotate(q, v))), r), cu, np, 7, "gtx rotate(q,v) is not R(q)v");
  { V4 g = glm::rotate(q, V4(v, F(3))); CHK(5, dvv(toL(V3(g)), r), cu, np, 8, "gtx rotate(q,vec4) is not (R(q)v,w)"); if (!(g.w == 3)) { o.bad(9, "gtx rotate(q,vec4) changed w"); return; } }
  // v*q = inverse(q)*v : the inverse rotation (division by dot(q,q) adds another nd)
  CHK(6, dvv(toL(V3(v * q)), rt), 64 * u * vn, 4 * nd * vn, 10, "v*q is not R(q)^-1 v");
}

// ============================================================================ op 2: quat_cast(mat3_cast(q)) = +-q
static const std::vector<std::string> BRCLASSES = {"w-largest", "x-largest", "y-largest", "z-largest", "tie-of-two-or-more"};
template <typename F> static void op_castround(const Case& c, Outcome& o) {
  typedef glm::qua<F> Q; const L u = FT<F>::u();
  Q q = getq<F>(c.w); LQ ql = toL(q); L nd = fabsl(qn2(ql) - 1); LQ qh = qhat(ql); LM R = rotm(qh);
  { const L a[4] = {fabsl(ql.w), fabsl(ql.x), fabsl(ql.y), fabsl(ql.z)}; int bi = 0, ties = 0; for (int i = 1; i < 4; ++i) if (a[i] > a[bi]) bi = i; for (int i = 0; i < 4; ++i) if (i != bi && a[i] == a[bi]) ++ties; o.cls(ties ? 4 : bi); }
  glm::mat<3, 3, F> m3 = glm::mat3_cast(q); glm::mat<4, 4, F> m4 = glm::mat4_cast(q);
  // entries are 1-2(a+b) or 2(a+-b) with |a|,|b| <= 1: three to four roundings of magnitude <= u each; 1 - |q|^2 enters with a factor <= 2
  CHK(10, dmm(toL(m3), R), 16 * u, 2 * nd, 1, "mat3_cast(q) is not the rotation matrix of q");
  CHK(11, dmm(toL3(m4), R), 16 * u, 2 * nd, 2, "mat4_cast(q) is not the rotation matrix of q");
  if (!pad_ok(m4)) { o.bad(3, "mat4_cast(q): last row/column is not that of the identity"); return; }
  CHK(12, dmm(toL(glm::toMat3(q)), R), 16 * u, 2 * nd, 4, "gtx toMat3(q) is not the rotation matrix of q");
  CHK(13, dmm(toL3(glm::toMat4(q)), R), 16 * u, 2 * nd, 5, "gtx toMat4(q) is not the rotation matrix of q");
#if GLM_HAS_EXPLICIT_CONVERSION_OPERATORS   // the conversion operators qua -> mat3/mat4 only exist from C++11 on (GLM_FORCE_CXX98/03 builds have none)
  CHK(14, dmm(toL(glm::mat<3, 3, F>(q)), R), 16 * u, 2 * nd, 6, "explicit mat3(q) is not the rotation matrix of q");
#endif
  const L tq = 16 * u, tn = 2 * nd;
  { Q g = glm::quat_cast(m3); o.res(FT<F>::bits(g.w), FT<F>::bits(g.x)); CHK(15, dqs(toL(g), qh), tq, tn, 7, "quat_cast(mat3_cast(q)) is neither q nor -q"); }
  CHK(16, dqs(toL(glm::quat_cast(m4)), qh), tq, tn, 8, "quat_cast(mat4_cast(q)) is neither q nor -q");
  CHK(17, dqs(toL(Q(m3)), qh), tq, tn, 9, "qua(mat3) is neither q nor -q");
  CHK(18, dqs(toL(Q(m4)), qh), tq, tn, 10, "qua(mat4) is neither q nor -q");
  CHK(19, dqs(toL(glm::toQuat(m3)), qh), tq, tn, 11, "gtx toQuat(mat3) is neither q nor -q");
  CHK(20, dqs(toL(glm::toQuat(m4)), qh), tq, tn, 12, "gtx toQuat(mat4) is neither q nor -q");
}

// ================================================================ op 3: matrix of q1*q2 = product of the matrices
template <typename F> static void op_product(const Case& c, Outcome& o) {
  typedef glm::qua<F> Q; const L u = FT<F>::u();
  Q q1 = getq<F>(c.w), q2 = getq<F>(c.w + 4); LQ a = toL(q1), b = toL(q2); L nd = fabsl(qn2(a) - 1) + fabsl(qn2(b) - 1);
  LQ ah = qhat(a), bh = qhat(b); LM Ra = rotm(ah), Rb = rotm(bh), Rab = mulmm(Ra, Rb);
  o.cls(qclass(qhat(hmul(ah, bh))));
  { LM viaq = rotm(qhat(hmul(ah, bh))); if (!(dmm(viaq, Rab) <= 1e-17L)) { o.bad(95, "ORACLE: R(q1 q2) != R(q1) R(q2) in the long double model"); return; } }
  Q p = q1 * q2; o.res(FT<F>::bits(p.w), FT<F>::bits(p.x));
  CHK(25, dqq(toL(p), hmul(a, b)), 12 * u, 0, 1, "q1*q2 is not the Hamilton product");   // four products of magnitude <= 1 and three additions per component
  { Q p2 = q1; p2 *= q2; CHK(29, dqq(toL(p2), hmul(a, b)), 12 * u, 0, 2, "q1 *= q2 is not the Hamilton product"); }
  { Q p3 = q1; p3 *= p3; CHK(30, dqq(toL(p3), hmul(a, a)), 12 * u, 0, 6, "q *= q (right operand aliases the target) is not the Hamilton square"); }
  LM Mp = toL(glm::mat3_cast(p));
  CHK(26, dmm(Mp, Rab), 40 * u, 2 * nd, 3, "mat3_cast(q1*q2) is not R(q1)R(q2)");
  CHK(27, dmm(Mp, toL(glm::mat3_cast(q1) * glm::mat3_cast(q2))), 32 * u, 4 * nd, 4, "mat3_cast(q1*q2) != mat3_cast(q1)*mat3_cast(q2)");
  CHK(28, dmm(toL3(glm::mat4_cast(p)), toL3(glm::mat4_cast(q1) * glm::mat4_cast(q2))), 32 * u, 4 * nd, 5, "mat4_cast(q1*q2) != mat4_cast(q1)*mat4_cast(q2)");
}

// ===================================================================== op 4: angleAxis(angle(q), axis(q)) ~ q
template <typename F> static void op_angleaxis_roundtrip(const Case& c, Outcome& o) {
  typedef glm::qua<F> Q; typedef glm::vec<3, F> V3; const L u = FT<F>::u();
  Q q = getq<F>(c.w); LQ ql = toL(q); L nd = fabsl(qn2(ql) - 1); LQ qh = qhat(ql); o.cls(qclass(qh));
  F a = glm::angle(q); V3 n = glm::axis(q); Q g = glm::angleAxis(a, n); o.res(FT<F>::bits(g.w), FT<F>::bits(g.x));
  // angle: 2 atan2(|v|, w) as a rotation angle, i.e. modulo 2 pi; 2 acos(w) / 2 asin(|v|) amplify the rounding of their argument by up to 2/sqrt(1-cos^2(1/2)) = 4.2
  { L ref = 2 * atan2l(sqrtl(qh.x * qh.x + qh.y * qh.y + qh.z * qh.z), qh.w), d = fabsl((L)a - ref), d2 = fabsl((L)a - (2 * PI_L - ref)); d = fminl(fminl(d, fabsl(d - 2 * PI_L)), fminl(d2, fabsl(d2 - 2 * PI_L)));   // (a, n) and (2pi - a, -n) are the same rotation
    CHK(30, d, 32 * u, 8 * nd, 1, "angle(q) is not the rotation angle of q"); }
  // the rebuilt quaternion describes the same rotation
  { L e = dqs(toL(g), qh), tol = 32 * u + 4 * nd;
    if (!(e <= tol)) {
      // legacy model of axis(): xyz / sqrt(1 - w*w) evaluated in F (cancels for |w| -> 1), (0,0,1) when that is <= 0
      F t1 = F(1) - q.w * q.w; V3 ln = t1 <= F(0) ? V3(0, 0, 1) : V3(q.x * (F(1) / std::sqrt(t1)), q.y * (F(1) / std::sqrt(t1)), q.z * (F(1) / std::sqrt(t1)));
      bool legacy = ln.x == n.x && ln.y == n.y && ln.z == n.z;
      // with the axis replaced by xyz/|xyz| (what the statement means by "axis") the same angle rebuilds q
      L vl = sqrtl(ql.x * ql.x + ql.y * ql.y + ql.z * ql.z); LV nn = vl > 0 ? LV{ql.x / vl, ql.y / vl, ql.z / vl} : LV{0, 0, 1};
      bool repaired = dqs(axisangle_q((L)a, nn), qh) <= tol;
      MEASFAIL(31, "angleAxis(angle(q), axis(q)) is not the rotation of q", e, tol); o.res(b64((double)e)); o.exp(b64((double)tol)); o.bad(2, "angleAxis(angle(q), axis(q)) is not the rotation of q");
      if (legacy && repaired && fabsl(qh.w) > 0.5L) o.kf = KF_AXIS_CANCEL;
      return; }
    MEAS(31, "angleAxis(angle(q), axis(q)) is not the rotation of q", e, 32 * u, 4 * nd); }
  // exp(log(q)): the rotation-vector form of the same round trip
  { Q lg = glm::log(q), e = glm::exp(lg); L ee = dqs(toL(e), qh);
    if (!(ee <= 32 * u + 4 * nd)) { MEASFAIL(32, "exp(log(q)) is not the rotation of q", ee, 32 * u + 4 * nd); o.res(b64((double)ee)); o.exp(b64((double)(32 * u + 4 * nd))); o.bad(3, "exp(log(q)) is not the rotation of q");
      // legacy model: exp(x) returns the value-initialised quaternion (0,0,0,0) instead of 1 when |x.xyz| < epsilon
      if (glm::length(glm::vec<3, F>(lg.x, lg.y, lg.z)) < std::numeric_limits<F>::epsilon() && e.w == 0 && e.x == 0 && e.y == 0 && e.z == 0) o.kf = KF_EXP_ZERO;
      return; }
    MEAS(32, "exp(log(q)) is not the rotation of q", ee, 32 * u, 4 * nd); }
}


// ============================================================== op: quaternion powers (ext/quaternion_exponential pow, sqrt)
// q = m (cos t, n sin t) with t in [0, pi]  =>  pow(q, y) = m^y (cos yt, n sin yt); pow(q,1) = q, pow(q,2) = q*q, pow(q,-1) = inverse(q),
// pow(q,0) is exactly the identity, sqrt(q) is pow(q, 1/2) and squares back to q.  The principal angle is the one of q itself (not of -q).
static const double POWY[] = {0.0, -0.0, 1e-9, 0.25, 0.5, 1.0, 1.5, 2.0, 3.0, -1.0, -0.5};
template <typename F> static void op_pow(const Case& c, Outcome& o) {
  typedef glm::qua<F> Q; const L u = FT<F>::u();
  Q q = getq<F>(c.w); const F y = (F)POWY[c.w[4]]; LQ ql = toL(q); L m = sqrtl(qn2(ql)), vl = sqrtl(ql.x * ql.x + ql.y * ql.y + ql.z * ql.z);
  o.cls(y == 0 ? 0 : ql.w < -0.88L ? 1 : fabsl(ql.w) > 0.88L ? 2 : 3);
  // a negative real number has no principal non-integer power (the axis is undetermined): outside the domain
  if (ql.w < 0 && vl < 1e-4L * m) { o.nontrivial = false; return; }
  if (!(m > 0.5L && m < 2)) { o.nontrivial = false; return; }
  Q g = glm::pow(q, y); o.res(FT<F>::bits(g.w), FT<F>::bits(g.x)); o.dg(FT<F>::bits(g.w)); o.dg(FT<F>::bits(g.x)); o.dg(FT<F>::bits(g.y)); o.dg(FT<F>::bits(g.z));
  if (y == 0) { if (!(g.w == 1 && g.x == 0 && g.y == 0 && g.z == 0)) { o.exp(FT<F>::bits(1), 0); o.bad(1, "pow(q, 0) is not exactly the identity quaternion"); } return; }
  L t = atan2l(vl, ql.w), my = powl(m, (L)y), sc = vl > 0 ? my * sinl((L)y * t) / vl : 0; LQ want = { my * cosl((L)y * t), ql.x * sc, ql.y * sc, ql.z * sc };
  if (vl == 0) want = { powl(ql.w, (L)y), 0, 0, 0 };
  const L tol = 64 * u * (1 + fabsl((L)y)) * (my > 1 ? my : 1);
  CHK(60, dqq(toL(g), want), tol, 0, 2, "pow(q, y) is not |q|^y (cos y t, n sin y t) for q = |q| (cos t, n sin t)");
  if (y == F(0.5)) { Q s = glm::sqrt(q); if (!(s.w == g.w && s.x == g.x && s.y == g.y && s.z == g.z)) { o.bad(3, "sqrt(q) differs from pow(q, 1/2)"); return; }
    CHK(61, dqq(toL(s * s), ql), 64 * u * m, 0, 4, "sqrt(q)*sqrt(q) is not q"); }
  if (y == 1) CHK(62, dqq(toL(g), ql), 16 * u * m, 0, 5, "pow(q, 1) is not q");
  if (y == 2) CHK(63, dqq(toL(g), toL(q * q)), 64 * u * m * m, 0, 6, "pow(q, 2) is not q*q");
  if (y == -1) CHK(64, dqq(toL(g), toL(glm::inverse(q))), 64 * u / m, 0, 7, "pow(q, -1) is not inverse(q)");
}

// ============================================================== op: quatLookAt{,RH,LH}(direction, up), extractRealComponent, orientate2, dual_quat_identity
// quatLookAtRH: the rotation whose -z axis is `direction` (LH: +z) with +y in the half plane of `up`; quatLookAt is the variant of the configured handedness.
template <typename F> static void op_lookat(const Case& c, Outcome& o) {
  typedef glm::qua<F> Q; typedef glm::vec<3, F> V3; const L u = FT<F>::u();
  V3 d0 = getv<F>(c.w), up = getv<F>(c.w + 3); LV dl = toL(d0), ul = toL(up); L ld = vlen(dl), lu = vlen(ul);
  if (!(ld > 0 && lu >= 0.5L)) { o.nontrivial = false; return; }      // `up` of ordinary magnitude (the builder clamps |up x dir|^2 at 1e-5 instead of normalising a tiny one)
  LV dh = vhat(dl); V3 dir((F)dh.x, (F)dh.y, (F)dh.z); LV dq = toL(dir); LV cr = vcross(ul, dq); L sn = vlen(cr) / lu;      // sine of the angle between up and direction
  if (!(sn > 0.05L)) { o.nontrivial = false; return; }          // up (nearly) parallel to the view direction: no frame is defined
  o.cls(0);
  for (int lh = 0; lh < 2; ++lh) { Q q = lh ? glm::quatLookAtLH(dir, up) : glm::quatLookAtRH(dir, up); LQ ql = toL(q); o.res(FT<F>::bits(q.w), FT<F>::bits(q.x));
    CHK(70, fabsl(qn2(ql) - 1), 64 * u / sn, 0, 1 + lh * 4, "quatLookAt: not a unit quaternion");
    LQ qh = qhat(ql); LV fz = rotv(qh, LV{0, 0, lh ? 1.0L : -1.0L}), fy = rotv(qh, LV{0, 1, 0});
    CHK(71, dvv(fz, dq), 64 * u / sn, fabsl(vdot(dq, dq) - 1), 2 + lh * 4, "quatLookAtRH/LH: the rotated -z (RH) / +z (LH) axis is not the view direction");
    if (!(vdot(fy, ul) > 0)) { o.bad(3 + lh * 4, "quatLookAtRH/LH: the rotated +y axis is not in the half plane of up"); return; }
    CHK(72, fabsl(vdot(vcross(fy, dq), vcross(ul, dq))) / (vlen(vcross(ul, dq))) - vlen(vcross(fy, dq)), 128 * u / sn, 0, 4 + lh * 4, "quatLookAtRH/LH: rotated +y, up and the direction are not coplanar"); }
#if GLM_CONFIG_CLIP_CONTROL & GLM_CLIP_CONTROL_LH_BIT
  { Q a = glm::quatLookAt(dir, up), b = glm::quatLookAtLH(dir, up); if (!(a.w == b.w && a.x == b.x && a.y == b.y && a.z == b.z)) { o.bad(9, "quatLookAt is not quatLookAtLH under GLM_FORCE_LEFT_HANDED"); return; } }
#else
  { Q a = glm::quatLookAt(dir, up), b = glm::quatLookAtRH(dir, up); if (!(a.w == b.w && a.x == b.x && a.y == b.y && a.z == b.z)) { o.bad(9, "quatLookAt is not quatLookAtRH in a right-handed configuration"); return; } }
#endif
  // extractRealComponent: the non-positive w that completes (x,y,z) to a unit quaternion
  { LQ h = qhat(LQ{-fabsl(dl.x) - 1, dl.y, dl.z, ul.x}); Q q = Q::wxyz((F)h.w, (F)h.x, (F)h.y, (F)h.z); L want = -sqrtl(fmaxl(0, 1 - ((L)q.x * q.x + (L)q.y * q.y + (L)q.z * q.z))); F g = glm::extractRealComponent(q);
    if (want < -0.1L) CHK(73, fabsl((L)g - want), 16 * u / -want, 0, 10, "extractRealComponent(q) is not -sqrt(1 - x^2 - y^2 - z^2)"); }
  // orientate2(a): the 2x2 rotation by a
  { F a = (F)(dl.x * 0.37L + ul.y); glm::mat<2, 2, F> m = glm::orientate2(a); L cs = cosl((L)a), s = sinl((L)a);
    CHK(74, fmaxl(fmaxl(fabsl((L)m[0][0] - cs), fabsl((L)m[1][1] - cs)), fmaxl(fabsl((L)m[0][1] - s), fabsl((L)m[1][0] + s))), 4 * u, 0, 11, "orientate2(a) is not [[cos a, sin a], [-sin a, cos a]]"); }
  { glm::tdualquat<F, glm::defaultp> id = glm::dual_quat_identity<F, glm::defaultp>(); if (!(id.real.w == 1 && id.real.x == 0 && id.real.y == 0 && id.real.z == 0 && id.dual.w == 0 && id.dual.x == 0 && id.dual.y == 0 && id.dual.z == 0)) { o.bad(12, "dual_quat_identity is not (1,0,0,0),(0,0,0,0)"); return; } }
}

// ============================================================== op 5: axis-angle and single-axis Euler forms
static const LV AXES26[26] = {
  {-1,-1,-1},{-1,-1,0},{-1,-1,1},{-1,0,-1},{-1,0,0},{-1,0,1},{-1,1,-1},{-1,1,0},{-1,1,1},{0,-1,-1},{0,-1,0},{0,-1,1},{0,0,-1},
  {0,0,1},{0,1,-1},{0,1,0},{0,1,1},{1,-1,-1},{1,-1,0},{1,-1,1},{1,0,-1},{1,0,0},{1,0,1},{1,1,-1},{1,1,0},{1,1,1}};
template <typename F> static void op_axisangle(const Case& c, Outcome& o) {
  typedef glm::qua<F> Q; typedef glm::vec<3, F> V3; typedef glm::mat<4, 4, F> M4; const L u = FT<F>::u();
  F a = FT<F>::get(c.w[0]); const LV ax = AXES26[c.w[1] % 26]; LV axh = vhat(ax); V3 n((F)axh.x, (F)axh.y, (F)axh.z); V3 v = getv<F>(c.w + 2);
  LV nl = toL(n); L nd = fabsl(vdot(nl, nl) - 1); LV nh = vhat(nl); LM R = rodrigues((L)a, nh); LQ qr = axisangle_q((L)a, nh); LV vl = toL(v); L vn = vlen(vl); LV rv = mulmv(R, vl);
  o.cls(fabsl(remainderl((L)a, 2 * PI_L)) < 1e-3L ? 0 : fabsl(fabsl(remainderl((L)a, 2 * PI_L)) - PI_L) < 1e-3L ? 1 : 2);
  if (!(dmm(rotm(qr), R) <= 1e-17L)) { o.bad(95, "ORACLE: Rodrigues matrix != Hamilton conjugation by (cos a/2, n sin a/2)"); return; }
  Q q = glm::angleAxis(a, n); o.res(FT<F>::bits(q.w), FT<F>::bits(q.x));
  CHK(35, dqs(toL(q), qr), 4 * u, nd, 1, "angleAxis(a,n) is not +-(cos a/2, n sin a/2)");
  CHK(36, dmm(toL(glm::mat3_cast(q)), R), 16 * u, 4 * nd, 2, "mat3_cast(angleAxis(a,n)) is not the Rodrigues rotation");
  CHK(37, dvv(toL(V3(q * v)), rv), 40 * u * vn, 4 * nd * vn, 3, "angleAxis(a,n)*v is not the Rodrigues rotation of v");
  // ext rotate(q0, a, n) = q0 * angleAxis(a, n)
  { LQ q0h = qhat(LQ{2, 3, 5, 7}); Q q0 = Q::wxyz((F)q0h.w, (F)q0h.x, (F)q0h.y, (F)q0h.z); Q g = glm::rotate(q0, a, n);
    CHK(38, dqs(toL(g), hmul(toL(q0), qr)), 12 * u, 2 * nd, 4, "rotate(q0,a,n) is not +-q0*(cos a/2, n sin a/2)");
    CHK(39, dqs(toL(glm::rotate(Q::wxyz(1, 0, 0, 0), a, n)), qr), 4 * u, nd, 5, "rotate(identity,a,n) is not +-(cos a/2, n sin a/2)"); }
  // exp of the pure quaternion (0, n a/2) is the same unit quaternion
  { F h = a * F(0.5); Q x = Q::wxyz(0, n.x * h, n.y * h, n.z * h), g = glm::exp(x); L ee = dqs(toL(g), qr);
    if (!(ee <= 16 * u + nd)) { MEASFAIL(40, "exp((0, n a/2))", ee, 16 * u + nd); o.res(b64((double)ee)); o.exp(b64((double)(16 * u + nd))); o.bad(6, "exp((0, n a/2)) is not +-(cos a/2, n sin a/2)");
      if (glm::length(V3(x.x, x.y, x.z)) < std::numeric_limits<F>::epsilon() && g.w == 0 && g.x == 0 && g.y == 0 && g.z == 0) o.kf = KF_EXP_ZERO;
      return; }
    MEAS(40, "exp((0, n a/2)) is not +-(cos a/2, n sin a/2)", ee, 16 * u, nd); }
  // gtx rotate_vector: rotate(v, a, n) through the axis-angle matrix
  CHK(41, dvv(toL(V3(glm::rotate(v, a, n))), rv), 40 * u * vn, 4 * nd * vn, 7, "gtx rotate(v,a,n) is not the Rodrigues rotation of v");
  { glm::vec<4, F> g = glm::rotate(glm::vec<4, F>(v, F(1)), a, n); CHK(42, dvv(toL(V3(g)), rv), 40 * u * vn, 4 * nd * vn, 8, "gtx rotate(vec4,a,n) is not the Rodrigues rotation"); if (!(g.w == 1)) { o.bad(9, "gtx rotate(vec4,a,n) changed w"); return; } }
  // single-axis forms: rotateX/Y/Z, eulerAngleX/Y/Z, orientate3(a), qua(vec3 euler) with one non-zero angle
  const LV E[3] = {{1, 0, 0}, {0, 1, 0}, {0, 0, 1}};
  for (int k = 0; k < 3; ++k) {
    LM Rk = rodrigues((L)a, E[k]); LV rk = mulmv(Rk, vl);
    V3 g = k == 0 ? glm::rotateX(v, a) : k == 1 ? glm::rotateY(v, a) : glm::rotateZ(v, a);
    CHK(43 + k, dvv(toL(g), rk), 8 * u * vn, 0, 10 + k, "rotateX/Y/Z(v,a) is not the rotation of v about that axis");
    glm::vec<4, F> g4 = k == 0 ? glm::rotateX(glm::vec<4, F>(v, F(1)), a) : k == 1 ? glm::rotateY(glm::vec<4, F>(v, F(1)), a) : glm::rotateZ(glm::vec<4, F>(v, F(1)), a);
    CHK(46 + k, dvv(toL(V3(g4)), rk), 8 * u * vn, 0, 13 + k, "rotateX/Y/Z(vec4,a) is not the rotation about that axis"); if (!(g4.w == 1)) { o.bad(16, "rotateX/Y/Z(vec4) changed w"); return; }
    M4 m = k == 0 ? glm::eulerAngleX(a) : k == 1 ? glm::eulerAngleY(a) : glm::eulerAngleZ(a);
    CHK(49 + k, dmm(toL3(m), Rk), 4 * u, 0, 17 + k, "eulerAngleX/Y/Z(a) is not the rotation about that axis"); if (!pad_ok(m)) { o.bad(20, "eulerAngleX/Y/Z: last row/column is not that of the identity"); return; }
    Q e = Q(V3(k == 0 ? a : F(0), k == 1 ? a : F(0), k == 2 ? a : F(0)));
    CHK(52 + k, dqs(toL(e), axisangle_q((L)a, E[k])), 4 * u, 0, 21 + k, "qua(vec3 euler) with a single angle is not the rotation about that axis");
  }
  CHK(55, dmm(toL(glm::orientate3(a)), rodrigues((L)a, E[2])), 4 * u, 0, 24, "orientate3(a) is not the rotation about Z");
}

// ======================================================================== op 6: quat(eulerAngles(q)) ~ q
static const std::vector<std::string> EULCLASSES = {"regular", "gimbal-neighbourhood"};
template <typename F> static void op_euler_roundtrip(const Case& c, Outcome& o) {
  typedef glm::qua<F> Q; typedef glm::vec<3, F> V3; const L u = FT<F>::u();
  Q q = getq<F>(c.w); LQ ql = toL(q); L nd = fabsl(qn2(ql) - 1); LQ qh = qhat(ql);
  L sy = 2 * (qh.w * qh.y - qh.x * qh.z); bool gimbal = fabsl(sy) > 0.999L; o.cls(gimbal ? 1 : 0);
  V3 e = glm::eulerAngles(q); Q g = Q(e); o.res(FT<F>::bits(g.w), FT<F>::bits(g.x));
  // yaw = asin(s), s = 2(wy-xz), has slope 1/cos(yaw); roll and pitch are atan2 of two quantities of size cos(yaw) that carry
  // ~2u of absolute rounding each: about 12u/cos(yaw) in total (measured 12.5), allowed with factor 4.  The amplification is
  // capped at cos(yaw)^2 = u: closer to the pole only roll -+ pitch matters and a rotation is reproduced to sqrt(u) by
  // treating it as lying on the pole, so nothing justifies a larger error there.
  L c2 = 1 - sy * sy; if (c2 < u) c2 = u;
  L tol = 32 * u + 4 * nd + 48 * u / sqrtl(c2);
  L err = dqs(toL(g), qh);
  if (!(err <= tol)) {
    MEASFAIL(gimbal ? 61 : 60, "quat(eulerAngles(q))", err, tol); o.res(b64((double)err)); o.exp(b64((double)tol)); o.bad(gimbal ? 3 : 2, gimbal ? "quat(eulerAngles(q)) is a different rotation (q at gimbal lock)" : "quat(eulerAngles(q)) is a different rotation");
    // legacy model: roll and pitch are atan2 of two quantities that both vanish like cos(yaw) and carry O(u) rounding noise, with
    // an atan2(0,0) guard that each of them applies on its own (both <= epsilon); the triple returned is exactly that formula
    if (gimbal && fabsl(sy) > 1 - 1e-6L) {
      F ry = F(2) * (q.x * q.y + q.w * q.z), rx = q.w * q.w + q.x * q.x - q.y * q.y - q.z * q.z;
      F py = F(2) * (q.y * q.z + q.w * q.x), px = q.w * q.w - q.x * q.x - q.y * q.y + q.z * q.z; const F eps = std::numeric_limits<F>::epsilon();
      bool rg = std::fabs(rx) <= eps && std::fabs(ry) <= eps, pg = std::fabs(px) <= eps && std::fabs(py) <= eps;
      F lroll = rg ? F(0) : std::atan2(ry, rx), lpitch = pg ? F(2) * std::atan2(q.x, q.w) : std::atan2(py, px);
      F lyaw = std::asin(glm::clamp(F(-2) * (q.x * q.z - q.w * q.y), F(-1), F(1)));
      if (lroll == e.z && lpitch == e.x && lyaw == e.y) o.kf = KF_EULER_GIMBAL;
    }
    return; }
  MEAS(gimbal ? 61 : 60, gimbal ? "quat(eulerAngles(q)) near gimbal lock" : "quat(eulerAngles(q)) regular", err, tol - 4 * nd, 4 * nd);
}

// ===================================================================== op 7: quaternion built from two vectors
static const std::vector<std::string> UVCLASSES = {"generic", "parallel", "exactly-opposite", "nearly-opposite"};
template <typename F> static void op_twovec(const Case& c, Outcome& o) {
  typedef glm::qua<F> Q; typedef glm::vec<3, F> V3; const L u = FT<F>::u();
  V3 a = getv<F>(c.w), b = getv<F>(c.w + 3); LV al = toL(a), bl = toL(b); L la = vlen(al), lb = vlen(bl);
  if (!(la > 0 && lb > 0)) { o.nontrivial = false; return; }
  LV ah = vhat(al), bh = vhat(bl); LV cr = vcross(al, bl); bool colinear = cr.x == 0 && cr.y == 0 && cr.z == 0; L cs = vdot(ah, bh);
  bool opposite = colinear && cs < 0, parallel = colinear && cs > 0;
  // cos(theta/2): the quaternion (1+cos, sin n) = 2 cos(theta/2) (cos(theta/2), sin(theta/2) n) is normalised by 2cos(theta/2),
  // so the rounding of 1+cos and of the cross product is amplified by 1/cos(theta/2)
  L sn = vlen(vcross(ah, bh)); L ch = opposite ? 0 : parallel ? 1 : cs < 0 ? sinl(atan2l(sn, -cs) / 2) : cosl(atan2l(sn, cs) / 2);
  o.cls(opposite ? 2 : parallel ? 1 : ch < 1e-2L ? 3 : 0);
  L amp = opposite ? 1 : 1 / ch; L tol = 16 * u * amp; if (tol > 2.5L) tol = 2.5L;
  { Q q = Q(a, b); LQ g = toL(q); o.res(FT<F>::bits(q.w), FT<F>::bits(q.x));
    CHK(65, fabsl(qn2(g) - 1), 20 * u, 0, 1, "qua(u,v) is not a unit quaternion");
    LV r = rotv(qhat(g), ah); L e = dvv(r, bh);
    if (!(e <= tol)) {
      MEASFAIL(66, "qua(u,v) does not rotate u onto the direction of v", e, tol); o.res(b64((double)e)); o.exp(b64((double)tol)); o.bad(2, "qua(u,v) does not rotate u onto the direction of v");
      // legacy model: pairs with 0 < 1+cos < 1e-6 are treated as exactly opposite (rotation by pi about an axis orthogonal to u)
      if (!opposite && !parallel) { V3 t = std::fabs(a.x) > std::fabs(a.z) ? V3(-a.y, a.x, F(0)) : V3(F(0), -a.z, a.y); Q lq = glm::normalize(Q::wxyz(F(0), t.x, t.y, t.z));
        F nunv = std::sqrt(glm::dot(a, a) * glm::dot(b, b)), rp = nunv + glm::dot(a, b);
        if (rp < F(1.e-6f) * nunv && lq.w == q.w && lq.x == q.x && lq.y == q.y && lq.z == q.z) o.kf = KF_TWOVEC_NEAR_OPPOSITE; }
      return; }
    MEAS(66, "qua(u,v) does not rotate u onto the direction of v", e, tol, 0); }
  // gtx rotation(orig, dest): documented for normalised arguments
  { V3 an((F)ah.x, (F)ah.y, (F)ah.z), bn((F)bh.x, (F)bh.y, (F)bh.z); if (opposite) bn = V3(-an.x, -an.y, -an.z); if (parallel) bn = an;
    LV anl = toL(an), bnl = toL(bn); L nd = fabsl(vdot(anl, anl) - 1) + fabsl(vdot(bnl, bnl) - 1);
    Q q = glm::rotation(an, bn); LQ g = toL(q);
    // (s/2, (u x v)/s) with s^2 = 2(1+cos): the rounding of 1+cos enters |q|^2 relative to 1+cos = 2cos^2(theta/2)
    CHK(67, fabsl(qn2(g) - 1), fminl(8 * u * amp * amp, 1e3L) + 8 * u, fminl(2 * nd * amp * amp, 1e3L), 3, "gtx rotation(u,v) is not a unit quaternion");
    LV r = rotv(qhat(g), vhat(anl)); L t2 = (16 * u + 2 * nd) * amp; if (t2 > 2.5L) t2 = 2.5L;
    CHK(68, dvv(r, vhat(bnl)), t2, 0, 4, "gtx rotation(u,v) does not rotate u onto v"); }
}

// ============================================================= op 8: inverse / conjugate of a unit quaternion
template <typename F> static void op_inverse(const Case& c, Outcome& o) {
  typedef glm::qua<F> Q; const L u = FT<F>::u();
  Q q = getq<F>(c.w); LQ ql = toL(q); L nd = fabsl(qn2(ql) - 1); o.cls(qclass(qhat(ql)));
  Q cj = glm::conjugate(q), iv = glm::inverse(q); o.res(FT<F>::bits(iv.w), FT<F>::bits(iv.x));
  if (!(cj.w == q.w && cj.x == -q.x && cj.y == -q.y && cj.z == -q.z)) { o.bad(1, "conjugate(q) is not (w,-x,-y,-z)"); return; }
  CHK(70, dqq(toL(iv), toL(cj)), 4 * u, 2 * nd, 2, "inverse(q) != conjugate(q) for unit q");
  CHK(71, dqq(toL(q * iv), LQ{1, 0, 0, 0}), 8 * u, 2 * nd, 3, "q*inverse(q) is not the identity");
  CHK(72, dqq(toL(iv * q), LQ{1, 0, 0, 0}), 8 * u, 2 * nd, 4, "inverse(q)*q is not the identity");
  CHK(73, dqq(toL(q * cj), LQ{1, 0, 0, 0}), 8 * u, 2 * nd, 5, "q*conjugate(q) is not the identity for unit q");
  CHK(74, fabsl((L)glm::length(q) - sqrtl(qn2(ql))), 8 * u, 0, 6, "length(q)");
  CHK(75, dqq(toL(glm::normalize(q)), qhat(ql)), 12 * u, 0, 7, "normalize(q)");
}

// ============================================================ op 9/10: gtx Euler matrices and their extraction
template <typename F> static glm::mat<4, 4, F> single_axis(int ax, F a) { return ax == 0 ? glm::eulerAngleX(a) : ax == 1 ? glm::eulerAngleY(a) : glm::eulerAngleZ(a); }
static const int ORDER3[15][3] = {{0,1,2},{1,0,2},{0,2,0},{0,1,0},{1,0,1},{1,2,1},{2,1,2},{2,0,2},{0,2,1},{1,2,0},{2,1,0},{2,0,1}, /*yawPitchRoll*/{1,0,2}, /*orientate3*/{1,0,2}, /*orientate4*/{1,0,2}};
static const char* ORDER3NAME[15] = {"XYZ","YXZ","XZX","XYX","YXY","YZY","ZYZ","ZXZ","XZY","YZX","ZYX","ZXY","yawPitchRoll","orientate3","orientate4"};
template <typename F> static glm::mat<4, 4, F> build3(int ord, F a, F b, F c) {
  switch (ord) {
    case 0: return glm::eulerAngleXYZ(a, b, c); case 1: return glm::eulerAngleYXZ(a, b, c); case 2: return glm::eulerAngleXZX(a, b, c); case 3: return glm::eulerAngleXYX(a, b, c);
    case 4: return glm::eulerAngleYXY(a, b, c); case 5: return glm::eulerAngleYZY(a, b, c); case 6: return glm::eulerAngleZYZ(a, b, c); case 7: return glm::eulerAngleZXZ(a, b, c);
    case 8: return glm::eulerAngleXZY(a, b, c); case 9: return glm::eulerAngleYZX(a, b, c); case 10: return glm::eulerAngleZYX(a, b, c); case 11: return glm::eulerAngleZXY(a, b, c);
    case 12: return glm::yawPitchRoll(a, b, c);
    case 13: return glm::mat<4, 4, F>(glm::orientate3(glm::vec<3, F>(b, c, a)));   // orientate(angles) = yawPitchRoll(angles.z, angles.x, angles.y)
    default: return glm::orientate4(glm::vec<3, F>(b, c, a));
  } }
template <typename F> static void extract3(int ord, const glm::mat<4, 4, F>& m, F& a, F& b, F& c) {
  switch (ord) {
    case 0: glm::extractEulerAngleXYZ(m, a, b, c); break; case 1: glm::extractEulerAngleYXZ(m, a, b, c); break; case 2: glm::extractEulerAngleXZX(m, a, b, c); break; case 3: glm::extractEulerAngleXYX(m, a, b, c); break;
    case 4: glm::extractEulerAngleYXY(m, a, b, c); break; case 5: glm::extractEulerAngleYZY(m, a, b, c); break; case 6: glm::extractEulerAngleZYZ(m, a, b, c); break; case 7: glm::extractEulerAngleZXZ(m, a, b, c); break;
    case 8: glm::extractEulerAngleXZY(m, a, b, c); break; case 9: glm::extractEulerAngleYZX(m, a, b, c); break; case 10: glm::extractEulerAngleZYX(m, a, b, c); break; default: glm::extractEulerAngleZXY(m, a, b, c); break;
  } }
static const std::vector<std::string> E3CLASSES = {"regular", "gimbal-neighbourhood"};
template <typename F> static void op_euler3(const Case& c, Outcome& o) {
  typedef glm::mat<4, 4, F> M4; const L u = FT<F>::u(); char msg[160];
  int ord = (int)c.w[0]; F a = FT<F>::get(c.w[1]), b = FT<F>::get(c.w[2]), cc = FT<F>::get(c.w[3]); const int* ax = ORDER3[ord];
  bool proper = ax[0] == ax[2]; L lock = proper ? fabsl(sinl((L)b)) : fabsl(cosl((L)b)); o.cls(lock < 0.11L ? 1 : 0);
  M4 m = build3<F>(ord, a, b, cc); o.res(FT<F>::bits(m[0][0]), FT<F>::bits(m[1][2]));
  LM ref = mulmm(mulmm(toL3(single_axis<F>(ax[0], a)), toL3(single_axis<F>(ax[1], b))), toL3(single_axis<F>(ax[2], cc)));
  // each entry is a sum of at most two products of three sines/cosines (each within an ulp); the factors carry u/2 each
  L e = dmm(toL3(m), ref); if (!(e <= 16 * u)) { std::snprintf(msg, sizeof msg, "%s(a,b,c) is not the product of its single-axis factors", ORDER3NAME[ord]); o.res(b64((double)e)); o.exp(b64((double)(16 * u))); o.bad(1 + ord, msg); return; }
  MEAS(56, "eulerAngleABC(a,b,c) vs product of single-axis factors", e, 16 * u, 0);
  if (!pad_ok(m)) { std::snprintf(msg, sizeof msg, "%s: last row/column is not that of the identity", ORDER3NAME[ord]); o.bad(20 + ord, msg); return; }
  if (ord >= 12) return;
  F t1, t2, t3; extract3<F>(ord, m, t1, t2, t3); M4 m2 = build3<F>(ord, t1, t2, t3);
  // extraction: three atan2 of entries carrying ~4u absolute error; the third angle is computed from the first, so the
  // rebuilt matrix stays within a small multiple of u even where the first angle is ill-determined
  L e2 = dmm(toL3(m2), toL3(m)); if (!(e2 <= 64 * u)) { std::snprintf(msg, sizeof msg, "eulerAngle%s(extractEulerAngle%s(M)) does not rebuild M", ORDER3NAME[ord], ORDER3NAME[ord]); o.res(b64((double)e2)); o.exp(b64((double)(64 * u))); o.bad(40 + ord, msg); return; }
  MEAS(57, "eulerAngleABC(extractEulerAngleABC(M)) vs M", e2, 64 * u, 0);
}
static const int ORDER2[6][2] = {{0,1},{1,0},{0,2},{2,0},{1,2},{2,1}};
static const char* ORDER2NAME[6] = {"XY","YX","XZ","ZX","YZ","ZY"};
template <typename F> static void op_euler2(const Case& c, Outcome& o) {
  typedef glm::mat<4, 4, F> M4; const L u = FT<F>::u(); char msg[160];
  int ord = (int)c.w[0]; F a = FT<F>::get(c.w[1]), b = FT<F>::get(c.w[2]); o.cls(ord);
  M4 m = ord == 0 ? glm::eulerAngleXY(a, b) : ord == 1 ? glm::eulerAngleYX(a, b) : ord == 2 ? glm::eulerAngleXZ(a, b) : ord == 3 ? glm::eulerAngleZX(a, b) : ord == 4 ? glm::eulerAngleYZ(a, b) : glm::eulerAngleZY(a, b);
  o.res(FT<F>::bits(m[0][0]), FT<F>::bits(m[1][2]));
  LM ref = mulmm(toL3(single_axis<F>(ORDER2[ord][0], a)), toL3(single_axis<F>(ORDER2[ord][1], b)));
  L e = dmm(toL3(m), ref); if (!(e <= 8 * u)) { std::snprintf(msg, sizeof msg, "eulerAngle%s(a,b) is not the product of its single-axis factors", ORDER2NAME[ord]); o.res(b64((double)e)); o.exp(b64((double)(8 * u))); o.bad(1 + ord, msg); return; }
  MEAS(58, "eulerAngleAB(a,b) vs product of single-axis factors", e, 8 * u, 0);
  if (!pad_ok(m)) { std::snprintf(msg, sizeof msg, "eulerAngle%s: last row/column is not that of the identity", ORDER2NAME[ord]); o.bad(10 + ord, msg); return; }
}

// ===================================================================== op 11: dual quaternion forms of a rigid motion
template <typename F> static void op_dualquat(const Case& c, Outcome& o) {
  typedef glm::qua<F> Q; typedef glm::vec<3, F> V3; typedef glm::tdualquat<F, glm::defaultp> DQ; const L u = FT<F>::u();
  Q q = getq<F>(c.w); V3 p = getv<F>(c.w + 4), v = getv<F>(c.w + 7);
  LQ ql = toL(q); L nd = fabsl(qn2(ql) - 1); LQ qh = qhat(ql); LM R = rotm(qh); LV pl = toL(p), vl = toL(v); L pn = vlen(pl), vn = vlen(vl);
  o.cls(pn == 0 ? 0 : 1);
  DQ d(q, p); o.res(FT<F>::bits(d.dual.w), FT<F>::bits(d.dual.x));
  if (!(d.real.w == q.w && d.real.x == q.x && d.real.y == q.y && d.real.z == q.z)) { o.bad(1, "tdualquat(q,p).real != q"); return; }
  // dual part = (0,p) q / 2
  CHK(76, dqq(toL(d.dual), qscale(hmul(LQ{0, pl.x, pl.y, pl.z}, ql), 0.5L)), 4 * u * pn, 0, 2, "tdualquat(q,p).dual is not (0,p) q / 2");
  LV rv = mulmv(R, vl); LV want = { rv.x + pl.x, rv.y + pl.y, rv.z + pl.z };
  CHK(77, dvv(toL(V3(d * v)), want), 40 * u * (vn + pn), 4 * nd * (vn + pn), 3, "dualquat(q,p)*v is not R(q)v + p");
  { glm::mat<3, 4, F> m = glm::mat3x4_cast(d); L e = 0;
    for (int r = 0; r < 3; ++r) { for (int k = 0; k < 3; ++k) { L dd = fabsl((L)m[r][k] - R.m[k][r]); if (!(dd <= e)) e = dd; } }
    CHK(78, e, 16 * u, 2 * nd, 4, "mat3x4_cast(dualquat): rotation block is not R(q)");
    L et = fmaxl(fmaxl(fabsl((L)m[0][3] - pl.x), fabsl((L)m[1][3] - pl.y)), fabsl((L)m[2][3] - pl.z)); if (et != et) et = 1e300L;
    CHK(79, et, 16 * u * pn, 4 * nd * pn, 5, "mat3x4_cast(dualquat): translation column is not p");
    DQ back = glm::dualquat_cast(m); L sgn = (toL(back.real).w * qh.w + toL(back.real).x * qh.x + toL(back.real).y * qh.y + toL(back.real).z * qh.z) < 0 ? -1 : 1;
    CHK(62, dqq(qscale(toL(back.real), sgn), qh), 16 * u, 2 * nd, 6, "dualquat_cast(mat3x4_cast(d)).real is neither q nor -q");
    CHK(63, dqq(qscale(toL(back.dual), sgn), qscale(hmul(LQ{0, pl.x, pl.y, pl.z}, qh), 0.5L)), 32 * u * pn, 4 * nd * pn, 7, "dualquat_cast(mat3x4_cast(d)).dual is not the dual part of d (same sign as real)"); }
  { glm::mat<2, 4, F> m = glm::mat2x4_cast(d); DQ b2 = glm::dualquat_cast(m);
    if (!(m[0].x == q.x && m[0].y == q.y && m[0].z == q.z && m[0].w == q.w && m[1].x == d.dual.x && m[1].w == d.dual.w)) { o.bad(8, "mat2x4_cast(d) is not (real.xyzw, dual.xyzw)"); return; }
    if (!(b2.real == d.real && b2.dual == d.dual)) { o.bad(9, "dualquat_cast(mat2x4_cast(d)) != d"); return; } }
  CHK(64, dvv(toL(V3(glm::inverse(d) * V3(d * v))), vl), 64 * u * (vn + 2 * pn), 8 * nd * (vn + 2 * pn), 10, "inverse(d)*(d*v) is not v");
}

// ===================================================== op 12: memory order, constructors and named members agree
template <typename F> static void op_layout(const Case& c, Outcome& o) {
  typedef glm::qua<F> Q; typedef glm::vec<3, F> V3; typedef typename std::conditional<sizeof(F) == 4, double, float>::type G;
  F w = FT<F>::get(c.w[0]), x = FT<F>::get(c.w[1]), y = FT<F>::get(c.w[2]), z = FT<F>::get(c.w[3]); o.cls(0);
  auto same = [&](const Q& q) { return FT<F>::bits(q.w) == FT<F>::bits(w) && FT<F>::bits(q.x) == FT<F>::bits(x) && FT<F>::bits(q.y) == FT<F>::bits(y) && FT<F>::bits(q.z) == FT<F>::bits(z); };
  Q q = Q::wxyz(w, x, y, z); o.res(FT<F>::bits(q.w), FT<F>::bits(q.x)); o.exp(FT<F>::bits(w), FT<F>::bits(x));
  if (!same(q)) { o.bad(1, "qua::wxyz(w,x,y,z): named members differ from the arguments"); return; }
#if !defined(GLM_FORCE_QUAT_DATA_XYZW)
  { Q a(w, x, y, z); o.res(FT<F>::bits(a.w), FT<F>::bits(a.x)); if (!same(a)) { o.bad(2, "qua(w,x,y,z): named members differ from the arguments"); return; } }
#endif
  { Q a(w, V3(x, y, z)); o.res(FT<F>::bits(a.w), FT<F>::bits(a.x)); if (!same(a)) { o.bad(3, "qua(s, vec3 v): named members are not (w=s, xyz=v)"); return; } }
  { Q a(q); Q b; b = q; if (!same(a) || !same(b)) { o.bad(4, "copy construction/assignment changes named members"); return; } }
  { glm::qua<G> g(q); Q a(g); glm::qua<G> g2 = glm::qua<G>::wxyz((G)w, (G)x, (G)y, (G)z);
    if (!(g.w == g2.w && g.x == g2.x && g.y == g2.y && g.z == g2.z)) { o.bad(5, "converting constructor qua<U>(qua<T>) permutes members"); return; }
    if (sizeof(F) == 4 && !same(a)) { o.bad(6, "float -> double -> float conversion changes named members"); return; } }
  { glm::qua<F, glm::highp> h(q); glm::qua<F, glm::mediump> mq(h); if (!(mq.w == w && mq.x == x && mq.y == y && mq.z == z)) { o.bad(7, "qualifier converting constructor permutes members"); return; } }
  // memory order: the first word is w under GLM_FORCE_QUAT_DATA_WXYZ, x otherwise; operator[] and value_ptr follow memory
  { const F* p = glm::value_ptr(q); if ((const void*)p != (const void*)&q) { o.bad(8, "value_ptr(q) is not the address of q"); return; }
#ifdef GLM_FORCE_QUAT_DATA_WXYZ
    const F want[4] = {w, x, y, z};
#else
    const F want[4] = {x, y, z, w};
#endif
    for (int i = 0; i < 4; ++i) { if (FT<F>::bits(p[i]) != FT<F>::bits(want[i])) { o.res(FT<F>::bits(p[i]), (uint64_t)i); o.exp(FT<F>::bits(want[i])); o.bad(9, "memory order of qua is not the configured one"); return; }
      if (FT<F>::bits(q[i]) != FT<F>::bits(want[i])) { o.res(FT<F>::bits(q[i]), (uint64_t)i); o.exp(FT<F>::bits(want[i])); o.bad(10, "qua::operator[] does not follow the configured memory order"); return; } }
    Q r = glm::make_quat(p); if (!same(r)) { o.bad(11, "make_quat(value_ptr(q)) != q"); return; }
    Q t = Q::wxyz(0, 0, 0, 0); for (int i = 0; i < 4; ++i) t[i] = want[i]; if (!same(t)) { o.bad(12, "writing through operator[] does not follow the configured memory order"); return; } }
  { Q n = -q; if (!(n.w == -w && n.x == -x && n.y == -y && n.z == -z)) { o.bad(13, "-q is not the member-wise negation"); return; }
    Q s = q + q, d2 = q * F(2), e = F(2) * q, h = q / F(0.5); if (!(s.w == w + w && s.x == x + x && s.y == y + y && s.z == z + z) || !(d2.w == s.w && d2.x == s.x && d2.y == s.y && d2.z == s.z) || !(e.w == s.w && e.z == s.z) || !(h.x == s.x && h.y == s.y)) { o.bad(14, "q+q, q*2, 2*q, q/0.5 are not member-wise"); return; }
    Q m = q - q; if (!(m.w == 0 && m.x == 0 && m.y == 0 && m.z == 0)) { o.bad(15, "q-q is not zero"); return; }
    if (!(q == q) || (q != q) || (q == n && (w != 0 || x != 0 || y != 0 || z != 0))) { o.bad(16, "operator==/!= on quaternions"); return; } }
  { Q id = glm::quat_identity<F, glm::defaultp>(); Q dflt = Q::wxyz(1, 0, 0, 0); if (!(id.w == 1 && id.x == 0 && id.y == 0 && id.z == 0 && dflt.w == 1)) { o.bad(17, "quat_identity() is not (1,0,0,0)"); return; } }
  { F dt = glm::dot(q, Q::wxyz(1, 0, 0, 0)); if (!(dt == w)) { o.bad(18, "dot(q, identity) is not q.w"); return; } }
}

// ------------------------------------------------------------------------------------------------ domains
template <typename F> static F nudge(F x, int k) { for (int i = 0; i < (k < 0 ? -k : k); ++i) x = std::nextafter(x, k < 0 ? -std::numeric_limits<F>::infinity() : std::numeric_limits<F>::infinity()); return x; }
static std::vector<L> rot_angles() {
  std::vector<L> a; for (int k = -24; k <= 24; ++k) a.push_back(k * PI_L / 12);
  for (int j = 1; j <= 9; ++j) { L d = powl(10.0L, -j); for (int s = -1; s <= 1; s += 2) { a.push_back(s * d); a.push_back(s * (PI_L - d)); a.push_back(s * (PI_L + d)); } }
  for (int s = -1; s <= 1; s += 2) { a.push_back(s * 1.0L); a.push_back(s * (2 * PI_L - 1)); }   // |w| = cos(1/2): the branch point of angle()
  return a; }
static std::vector<LQ> rot_base(std::vector<size_t>* small_idx) {
  std::vector<LQ> b;
  // (1) normalised integer quaternions, components in {-2..2}: 24-cell, binary octahedral group, every |a|=|b| tie of quat_cast
  for (int w = -2; w <= 2; ++w) for (int x = -2; x <= 2; ++x) for (int y = -2; y <= 2; ++y) for (int z = -2; z <= 2; ++z) if (w || x || y || z) {
    if (small_idx && w >= -1 && w <= 1 && x >= -1 && x <= 1 && y >= -1 && y <= 1 && z >= -1 && z <= 1) small_idx->push_back(b.size());
    b.push_back(qhat(LQ{(L)w, (L)x, (L)y, (L)z})); }
  // (2) the 120 unit icosians
  { L phi = (1 + sqrtl(5.0L)) / 2, ip = phi - 1; size_t first = b.size();
    for (int i = 0; i < 4; ++i) for (int s = -1; s <= 1; s += 2) { L v[4] = {0, 0, 0, 0}; v[i] = s; b.push_back(LQ{v[0], v[1], v[2], v[3]}); }
    for (int m = 0; m < 16; ++m) b.push_back(LQ{(m & 1) ? 0.5L : -0.5L, (m & 2) ? 0.5L : -0.5L, (m & 4) ? 0.5L : -0.5L, (m & 8) ? 0.5L : -0.5L});
    const L base[4] = {phi / 2, 0.5L, ip / 2, 0}; int p[4] = {0, 1, 2, 3};
    do { int inv = 0; for (int i = 0; i < 4; ++i) for (int j = i + 1; j < 4; ++j) inv += p[i] > p[j]; if (inv & 1) continue;
      for (int m = 0; m < 8; ++m) { L v[4]; int bit = 0; for (int i = 0; i < 4; ++i) { L t = base[p[i]]; if (t != 0) { if ((m >> bit) & 1) t = -t; ++bit; } v[i] = t; } b.push_back(LQ{v[0], v[1], v[2], v[3]}); }
    } while (std::next_permutation(p, p + 4));
    if (small_idx) for (size_t i = first; i < b.size(); ++i) small_idx->push_back(i); }
  // (3) axis-angle rotations: 26 lattice axes x angle set
  { std::vector<L> ang = rot_angles(); size_t k = 0; for (int ai = 0; ai < 26; ++ai) for (L a : ang) { if (small_idx && (k++ % 11) == 0) small_idx->push_back(b.size()); b.push_back(axisangle_q(a, vhat(AXES26[ai]))); } }
  // (4) within 10^-j of each coordinate axis of R^4
  for (int i = 0; i < 4; ++i) for (int s = -1; s <= 1; s += 2) for (int j = 1; j <= 9; ++j) for (int ai = 0; ai < 26; ++ai) {
    L d = powl(10.0L, -j), v[4]; int t = 0; const L pp[3] = {AXES26[ai].x, AXES26[ai].y, AXES26[ai].z}; for (int k = 0; k < 4; ++k) v[k] = (k == i) ? (L)s : d * pp[t++];
    if (small_idx && j % 4 == 1 && ai % 9 == 0) small_idx->push_back(b.size());
    b.push_back(qhat(LQ{v[0], v[1], v[2], v[3]})); }
  // (5) Euler gimbal-lock neighbourhoods: q = Qz(roll) Qy(yaw) Qx(pitch), yaw = +-pi/2 (+- 10^-j)
  { std::vector<L> yaws; for (int s = -1; s <= 1; s += 2) { yaws.push_back(s * PI_L / 2); for (int j = 1; j <= 9; ++j) { yaws.push_back(s * (PI_L / 2 - powl(10.0L, -j))); yaws.push_back(s * (PI_L / 2 + powl(10.0L, -j))); } }
    size_t k = 0; for (L yw : yaws) for (int pi = -3; pi <= 4; ++pi) for (int ri = -3; ri <= 4; ++ri) {
      LQ qx = axisangle_q(pi * PI_L / 4, LV{1, 0, 0}), qy = axisangle_q(yw, LV{0, 1, 0}), qz = axisangle_q(ri * PI_L / 4, LV{0, 0, 1});
      if (small_idx && (k++ % 37) == 0) small_idx->push_back(b.size());
      b.push_back(hmul(qz, hmul(qy, qx))); } }
  return b; }
// ROT in F: every base point rounded to F, plus copies with one component moved by the given numbers of ulps
// (points exactly at Euler gimbal lock, |2(wy-xz)| = 1, additionally get the `pole_nudges`)
template <typename F> static Domain make_rot(const std::string& name, const std::vector<LQ>& base, const std::vector<size_t>* pick, const std::vector<int>& nudges, const std::vector<int>& pole_nudges = {}) {
  std::vector<uint64_t> flat; std::set<std::array<uint64_t, 4>> seen;
  auto put = [&](F w, F x, F y, F z) { std::array<uint64_t, 4> r = {FT<F>::bits(w), FT<F>::bits(x), FT<F>::bits(y), FT<F>::bits(z)}; if (seen.insert(r).second) flat.insert(flat.end(), r.begin(), r.end()); };
  auto one = [&](const LQ& q) { F c[4] = {(F)q.w, (F)q.x, (F)q.y, (F)q.z}; put(c[0], c[1], c[2], c[3]);
    for (int i = 0; i < 4; ++i) for (int k : nudges) { F d[4] = {c[0], c[1], c[2], c[3]}; d[i] = nudge(d[i], k); put(d[0], d[1], d[2], d[3]); }
    if (!pole_nudges.empty() && fabsl(fabsl(2 * (q.w * q.y - q.x * q.z)) - 1) < 1e-15L) for (int i = 0; i < 4; ++i) for (int k : pole_nudges) { F d[4] = {c[0], c[1], c[2], c[3]}; d[i] = nudge(d[i], k); put(d[0], d[1], d[2], d[3]); } };
  if (pick) for (size_t i : *pick) one(base[i]); else for (const LQ& q : base) one(q);
  return rows(name, 4, flat); }
template <typename F> static Domain make_vec3l(bool with_scaled) {
  std::vector<uint64_t> flat; std::set<std::array<uint64_t, 3>> seen;
  auto put = [&](F x, F y, F z) { std::array<uint64_t, 3> r = {FT<F>::bits(x), FT<F>::bits(y), FT<F>::bits(z)}; if (seen.insert(r).second) flat.insert(flat.end(), r.begin(), r.end()); };
  std::vector<std::array<F, 3>> b; for (int x = -2; x <= 2; ++x) for (int y = -2; y <= 2; ++y) for (int z = -2; z <= 2; ++z) b.push_back({(F)x, (F)y, (F)z});
  b.push_back({(F)2, (F)3, (F)5}); b.push_back({(F)7, (F)-11, (F)13});
  for (auto& v : b) put(v[0], v[1], v[2]);
  if (with_scaled) for (auto& v : b) for (int s = -1; s <= 1; s += 2) { F e = (F)s * (F)FLT_EPSILON; put(v[0] * e, v[1] * e, v[2] * e); }
  return rows(with_scaled ? "VEC3L({-2..2}^3, TAG, +-FLT_EPSILON-scaled copies)" : "VEC3L({-2..2}^3, TAG)", 3, flat); }
template <typename F> static Domain make_near_opposite() {
  // v = -s u + d |u| e_k : the neighbourhood of the "exactly opposite" special case of qua(u,v) (its test is 1+cos < 1e-6, i.e. d < 1.414e-3)
  std::vector<uint64_t> flat; const L ds[] = {1e-1L, 1e-2L, 2e-3L, 1.43e-3L, 1.40e-3L, 1e-3L, 5e-4L, 1e-4L, 1e-5L, 1e-6L, 1e-7L, 1e-8L, 1e-10L, 1e-12L, 1e-14L};
  std::vector<LV> us(AXES26, AXES26 + 26); us.push_back(LV{2, 3, 5}); us.push_back(LV{7, -11, 13}); us.push_back(LV{3, -1, 0.25L});
  for (const LV& uu : us) for (L s : {1.0L, 2.0L}) for (L d : ds) for (int k = 0; k < 3; ++k) for (int sg = -1; sg <= 1; sg += 2) {
    L lu = vlen(uu); F v[3] = {(F)(-s * uu.x), (F)(-s * uu.y), (F)(-s * uu.z)}; v[k] = (F)((L)v[k] + sg * d * lu * s);
    const F uf[3] = {(F)uu.x, (F)uu.y, (F)uu.z}; for (int i = 0; i < 3; ++i) flat.push_back(FT<F>::bits(uf[i])); for (int i = 0; i < 3; ++i) flat.push_back(FT<F>::bits(v[i])); }
  return rows("NEAR_OPPOSITE(u in 26 lattice axes + TAG, v = -s u + d|u|e_k, d = 1e-1..1e-14 incl. both sides of 1.414e-3)", 6, flat); }
template <typename F> static Domain make_angles(const std::string& name, const std::vector<int>& js, bool around_zero_and_pi) {
  std::vector<uint64_t> v; auto put = [&](L a) { v.push_back(FT<F>::bits((F)a)); };
  for (int k = -8; k <= 8; ++k) put(k * PI_L / 8);
  for (int j : js) { L d = powl(10.0L, -j); for (int s = -1; s <= 1; s += 2) { put(s * (PI_L / 2 - d)); put(s * (PI_L / 2 + d));
    if (around_zero_and_pi) { put(s * d); put(s * (PI_L - d)); put(s * (PI_L + d)); } } }
  return list(name, v); }

// digest of results read through named members only: must be identical in the XYZW and the WXYZ build
template <typename F> static uint64_t named_member_digest(const Domain& rot) {
  typedef glm::qua<F> Q; typedef glm::vec<3, F> V3; uint64_t h = 0x243f6a8885a308d3ull; uint64_t w[MAXW];
  auto mq = [&](const Q& q) { h = mix64(h, FT<F>::bits(q.w)); h = mix64(h, FT<F>::bits(q.x)); h = mix64(h, FT<F>::bits(q.y)); h = mix64(h, FT<F>::bits(q.z)); };
  auto mv = [&](const V3& v) { h = mix64(h, FT<F>::bits(v.x)); h = mix64(h, FT<F>::bits(v.y)); h = mix64(h, FT<F>::bits(v.z)); };
  Q prev = Q::wxyz(1, 0, 0, 0); const V3 t(2, 3, 5), t2(7, -11, 13);
  for (uint64_t i = 0; i < rot.size; ++i) { rot.at(i, w); Q q = getq<F>(w);
    mv(q * t); glm::mat<3, 3, F> m = glm::mat3_cast(q); for (int c = 0; c < 3; ++c) mv(m[c]); mq(glm::quat_cast(m)); mq(q * prev); mq(glm::angleAxis(glm::angle(q), glm::axis(q)));
    mq(Q(glm::eulerAngles(q))); mq(glm::inverse(q)); mq(glm::conjugate(q)); mq(Q(t, q * t2)); mq(glm::exp(glm::log(q))); mq(glm::rotate(q, F(0.75), t)); mq(glm::pow(q, F(0))); mq(glm::pow(q, F(0.75))); mq(glm::sqrt(q));
    glm::tdualquat<F, glm::defaultp> d(q, t2); mq(d.dual); mv(d * t); prev = q; }
  return h; }

template <typename F> static void reg(Engine& E, const std::vector<LQ>& base, const std::vector<size_t>& small_idx) {
  const std::string t = FT<F>::name(); const std::string T = "<" + t + ">";
  Domain rotq = make_rot<F>("ROT_quick(" + t + "): integer quaternions {-2..2}^4, 120 icosians, 26 lattice axes x ANGLES, 10^-j neighbourhoods of the 8 axis points, gimbal-lock set; each +-1 ulp per component (+-2, +-3 ulp too at exact gimbal lock)", base, nullptr, {-1, 1}, {-3, -2, 2, 3});
  Domain rott = make_rot<F>("ROT(" + t + "): as ROT_quick with +-1, +-2, +-3 ulp per component", base, nullptr, {-3, -2, -1, 1, 2, 3});
  Domain rots = make_rot<F>("ROT_small(" + t + "): {-1,0,1}^4, icosians, every 11th axis-angle point, samples of the near-axis and gimbal sets", base, &small_idx, {});
  std::vector<size_t> half; for (size_t i = 0; i < base.size(); i += 3) half.push_back(i);
  Domain rot3 = make_rot<F>("ROT_third(" + t + "): every third base point of ROT", base, &half, {});
  Domain v3 = make_vec3l<F>(true), v3s = make_vec3l<F>(false);
  Domain tagv = rows("TAGVEC", 3, {FT<F>::bits(2), FT<F>::bits(3), FT<F>::bits(5), FT<F>::bits(-1), FT<F>::bits(F(0.5)), FT<F>::bits(F(0.25)), FT<F>::bits(0), FT<F>::bits(0), FT<F>::bits(1)});
  { Op& op = E.add("q*v = mat3_cast(q)*v = mat4_cast(q)*v = R(q)v" + T, op_rotvec<F>); op.quick = {product(rotq.name + " x " + v3s.name, {rotq, v3s}), product(rots.name + " x " + v3.name, {rots, v3})}; op.thorough = {product(rott.name + " x " + v3.name, {rott, v3})}; op.classes = QCLASSES; }
  { Op& op = E.add("quat_cast(mat3_cast(q)) = +-q" + T, op_castround<F>); op.quick = {rotq}; op.thorough = {rott}; op.classes = BRCLASSES; }
  { Op& op = E.add("mat3_cast(q1*q2) = mat3_cast(q1)*mat3_cast(q2)" + T, op_product<F>); op.quick = {product(rots.name + "^2", {rots, rots})}; op.thorough = {product(rot3.name + "^2", {rot3, rot3})}; op.classes = QCLASSES; }
  { Op& op = E.add("angleAxis(angle(q), axis(q)) ~ q" + T, op_angleaxis_roundtrip<F>); op.quick = {rotq}; op.thorough = {rott}; op.classes = QCLASSES; }
  { std::vector<uint64_t> av; for (L a : rot_angles()) av.push_back(FT<F>::bits((F)a)); Domain ang = list("ANGLES(k pi/12, +-10^-j, +-(pi +- 10^-j), +-1, +-(2pi-1))", av);
    Op& op = E.add("axis-angle and single-axis forms = Rodrigues" + T, op_axisangle<F>); op.quick = {product("ANGLES x 26 lattice axes x TAGVEC", {ang, range("AXIS26", 0, 26, true), tagv})}; op.classes = {"angle~0 (mod 2pi)", "angle~pi (mod 2pi)", "generic"}; }
  { Op& op = E.add("quat(eulerAngles(q)) ~ q" + T, op_euler_roundtrip<F>); op.quick = {rotq}; op.thorough = {rott}; op.classes = EULCLASSES; }
  { Domain no = make_near_opposite<F>(); Op& op = E.add("qua(u,v)*u || v, rotation(u,v)" + T, op_twovec<F>); op.quick = {product("VEC3L^2", {v3, v3}), no}; op.classes = UVCLASSES; }
  { Op& op = E.add("pow(q,y), sqrt(q) = |q|^y (cos yt, n sin yt)" + T, op_pow<F>); op.quick = {product(rotq.name + " x POWY(0,-0,1e-9,1/4,1/2,1,3/2,2,3,-1,-1/2)", {rotq, range("Y", 0, 11, true)})}; op.thorough = {product(rott.name + " x POWY", {rott, range("Y", 0, 11, true)})}; op.classes = {"y=0", "w<-0.88", "w>0.88", "generic"}; }
  { Op& op = E.add("quatLookAt/RH/LH(direction, up), extractRealComponent, orientate2, dual_quat_identity" + T, op_lookat<F>); op.quick = {product("VEC3L^2", {v3, v3})}; op.classes = {"frame defined"}; }
  { Op& op = E.add("q*inverse(q) = 1, conjugate = inverse" + T, op_inverse<F>); op.quick = {rotq}; op.thorough = {rott}; op.classes = QCLASSES; }
  { Domain aq = make_angles<F>("EULER_ANGLES_quick(k pi/8; +-pi/2 +- 10^-j, +-10^-j, +-(pi +- 10^-j), j in {1,3,5,7,9})", {1, 3, 5, 7, 9}, true), at = make_angles<F>("EULER_ANGLES(k pi/8; +-pi/2 +- 10^-j, +-10^-j, +-(pi +- 10^-j), j = 1..9)", {1, 2, 3, 4, 5, 6, 7, 8, 9}, true);
    Op& op = E.add("eulerAngleABC = A*B*C, eulerAngleABC(extractEulerAngleABC(M)) = M" + T, op_euler3<F>);
    op.quick = {product("15 orders x " + aq.name + "^3", {range("ORDER", 0, 15, true), aq, aq, aq})}; op.thorough = {product("15 orders x " + at.name + "^3", {range("ORDER", 0, 15, true), at, at, at})}; op.classes = E3CLASSES;
    Op& op2 = E.add("eulerAngleAB = A*B" + T, op_euler2<F>); op2.quick = {product("6 orders x " + at.name + "^2", {range("ORDER", 0, 6, true), at, at})}; op2.classes = {"XY", "YX", "XZ", "ZX", "YZ", "ZY"}; }
  { Domain tr = rows("TRANSLATIONS", 3, {FT<F>::bits(0), FT<F>::bits(0), FT<F>::bits(0), FT<F>::bits(2), FT<F>::bits(3), FT<F>::bits(5), FT<F>::bits(F(-0.5)), FT<F>::bits(F(0.25)), FT<F>::bits(-7)});
    Op& op = E.add("dual quaternion: tdualquat(q,p)*v = R(q)v+p, mat3x4/mat2x4 round trips" + T, op_dualquat<F>); op.quick = {product(rots.name + " x TRANSLATIONS x TAGVEC", {rots, tr, tagv})}; op.thorough = {product(rotq.name + " x TRANSLATIONS x TAGVEC", {rotq, tr, tagv})}; op.classes = {"pure rotation", "with translation"}; }
  { Op& op = E.add("memory order, constructors and named members" + T, op_layout<F>); op.quick = {rotq}; op.classes = {"all"}; }
  char buf[40]; std::snprintf(buf, sizeof buf, "\"0x%016llx\"", (unsigned long long)named_member_digest<F>(rots)); E.extra_json["named_member_digest_" + t] = buf;
}

int main(int argc, char** argv) {
  Engine E; E.property = "C04"; E.kf_ids = {"KF-C04-euler-gimbal", "KF-C04-axis-cancellation", "KF-C04-twovec-near-opposite", "KF-C04-exp-zero"};
#ifdef GLM_FORCE_QUAT_DATA_WXYZ
  E.extra_json["quat_memory_order"] = "\"wxyz\"";
#else
  E.extra_json["quat_memory_order"] = "\"xyzw\"";
#endif
  E.assumptions = {"reference rotations are computed in long double (64-bit significand) by Hamilton conjugation / Rodrigues' formula; the two are cross-checked on every axis-angle case",
                   "a 'unit' quaternion is one whose components are the correctly rounded components of a unit quaternion, optionally moved by up to 3 ulp; the deviation of |q|^2 from 1 enters every tolerance explicitly",
                   "named_member_digest_* must be equal in the default and the GLM_FORCE_QUAT_DATA_WXYZ build (compared by the harness across configurations)"};
  std::vector<size_t> small_idx; std::vector<LQ> base = rot_base(&small_idx);
  reg<float>(E, base, small_idx); reg<double>(E, base, small_idx);
  return E.main(argc, argv);
}
