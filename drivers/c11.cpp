// C11 — common functions obey their per-value definitions: all 2^32 floats for unary functions (thorough),
// structured lattices for doubles and n-ary functions, every constant against a __float128 reference.
#define GLM_ENABLE_EXPERIMENTAL
#include <glm/glm.hpp>
#include <glm/ext/scalar_common.hpp>
#include <glm/ext/scalar_constants.hpp>
#include <glm/gtc/constants.hpp>
#include <glm/gtx/common.hpp>
#include <glm/gtx/compatibility.hpp>
#include <glm/gtx/wrap.hpp>
#include "glmx.hpp"
#ifndef __clang__
#include <quadmath.h>   // libquadmath is a GCC runtime: the constants op exists only in the g++ builds (clang builds are the sanitizer runs)
#define C11_HAVE_QUAD 1
#endif
#include <cfloat>
using namespace glmx;

template <typename F> struct FT;
template <> struct FT<float> { typedef double W; static float get(uint64_t b) { return f32(b); } static uint64_t bits(float f) { return f != f ? 0x7fc00000u : b32(f); }   /* all NaNs identified (payload/sign are not observable) */ static uint64_t vbits(float f) { return f == 0 ? 0 : bits(f); } static bool nan(float f) { return f != f; }
  static constexpr double BIGINT = 8388608.0; static constexpr float MAXV = FLT_MAX; static constexpr int MANT = 24; };
template <> struct FT<double> { typedef long double W; static double get(uint64_t b) { return f64(b); } static uint64_t bits(double f) { return f != f ? 0x7ff8000000000000ull : b64(f); } static uint64_t vbits(double f) { return f == 0 ? 0 : bits(f); } static bool nan(double f) { return f != f; }
  static constexpr double BIGINT = 4503599627370496.0; static constexpr double MAXV = DBL_MAX; static constexpr int MANT = 53; };
template <typename F> static inline bool valeq(F a, F b) { return a == b || (a != a && b != b); }
template <typename F> static inline bool finite(F x) { return x - x == 0; }

// the vec4 / vec3 / vec2 overloads of the same function on (x, -x, x, x): lanes 0, 2, 3 (and 0, 2 of vec3, 0 of vec2) must satisfy the same definition as the scalar.
// With the default qualifier this is the generic per-component path; in a GLM_FORCE_DEFAULT_ALIGNED_GENTYPES + intrinsics build it is the SIMD kernel, which is
// thereby decided against the definition on every float of the sweep (all 2^32 in the thorough tier), not merely against the scalar overload.
template <typename F, class FN, class PRED> static inline bool vec_lanes(F x, FN fn, PRED pred, uint64_t* bad) {
  glm::vec<4, F> r4 = fn(glm::vec<4, F>(x, -x, x, x)); glm::vec<3, F> r3 = fn(glm::vec<3, F>(x, -x, x)); glm::vec<2, F> r2 = fn(glm::vec<2, F>(x, -x));
  const F l[6] = {r4[0], r4[2], r4[3], r3[0], r3[2], r2[0]}; for (int i = 0; i < 6; ++i) if (!pred(l[i])) { *bad = FT<F>::bits(l[i]); return false; } return true; }
#define VEC_LANES(FNNAME, PREDBODY, MSG) { uint64_t badl = 0; if (!vec_lanes<F>(x, [](auto v) { return glm::FNNAME(v); }, [&](F r) { return PREDBODY; }, &badl)) { o.res(badl); o.bad(40, MSG); return; } }
// iround / uround: the vec1..vec4 overloads on (x, x, x, x) (the argument must be non-negative); every lane is held to the scalar definition
#define IU_LANES(FNNAME, RT, MSG) { glm::vec<4, RT> q4 = glm::FNNAME(glm::vec<4, F>(x)); glm::vec<3, RT> q3 = glm::FNNAME(glm::vec<3, F>(x)); glm::vec<2, RT> q2 = glm::FNNAME(glm::vec<2, F>(x)); glm::vec<1, RT> q1 = glm::FNNAME(glm::vec<1, F>(x)); \
  const RT l[10] = {q4[0], q4[1], q4[2], q4[3], q3[0], q3[1], q3[2], q2[0], q2[1], q1[0]}; for (int i = 0; i < 10; ++i) if (!(((double)l[i] == (double)fl && dl <= dc) || ((double)l[i] == (double)ce && dc <= dl))) { o.res((uint64_t)(int64_t)l[i]); o.bad(40, MSG); return; } }
enum { U_FLOOR, U_CEIL, U_TRUNC, U_ROUND, U_ROUNDEVEN, U_FRACT, U_ABS, U_SIGN, U_ISNAN, U_ISINF, U_FREXP, U_MODF, U_IROUND, U_UROUND, U_TEXCOORD, U_MISC };

// exact integer-valued references, independent of libm's rounding functions: via the wider type
template <typename F> static F ref_floor(F x) { if (!finite(x) || std::fabs((double)x) >= FT<F>::BIGINT) return x; long long i = (long long)x; F r = (F)i; if (r > x) r -= 1; return r; }
template <typename F> static F ref_ceil(F x) { if (!finite(x) || std::fabs((double)x) >= FT<F>::BIGINT) return x; long long i = (long long)x; F r = (F)i; if (r < x) r += 1; return r; }
template <typename F> static F ref_trunc(F x) { if (!finite(x) || std::fabs((double)x) >= FT<F>::BIGINT) return x; return (F)(long long)x; }

template <typename F, int WHICH> static void op_unary(const Case& c, Outcome& o) {
  F x = FT<F>::get(c.w[0]); const bool fin = finite(x), isn = x != x;
  o.cls(isn ? 3 : !fin ? 2 : (std::fabs((double)x) >= FT<F>::BIGINT) ? 1 : 0);
  F fl = ref_floor(x), ce = ref_ceil(x), tr = ref_trunc(x);
  if (WHICH == U_FLOOR) { F g = glm::floor(x); o.res(FT<F>::bits(g)); o.exp(FT<F>::bits(fl)); if (!valeq(g, fl)) { o.bad(1, "floor: not the largest integer <= x"); return; } VEC_LANES(floor, valeq(r, fl), "floor(vec): a lane is not the largest integer <= x")
    if (!valeq(fl, (F)std::floor((typename FT<F>::W)x))) { o.bad(95, "ORACLE: integer-arithmetic floor disagrees with wide libm floor"); return; } }
  if (WHICH == U_CEIL) { F g = glm::ceil(x); o.res(FT<F>::bits(g)); o.exp(FT<F>::bits(ce)); if (!valeq(g, ce)) { o.bad(1, "ceil: not the smallest integer >= x"); return; } VEC_LANES(ceil, valeq(r, ce), "ceil(vec): a lane is not the smallest integer >= x")
    if (!valeq(ce, (F)std::ceil((typename FT<F>::W)x))) { o.bad(95, "ORACLE: integer-arithmetic ceil disagrees with wide libm ceil"); return; } }
  if (WHICH == U_TRUNC) { F g = glm::trunc(x); o.res(FT<F>::bits(g)); o.exp(FT<F>::bits(tr)); if (!valeq(g, tr)) { o.bad(1, "trunc: not x with the fraction removed"); return; } VEC_LANES(trunc, valeq(r, tr), "trunc(vec): a lane is not x with the fraction removed") }
  if (WHICH == U_ROUND) { F g = glm::round(x); o.res(FT<F>::bits(g)); o.exp(FT<F>::bits(fl), FT<F>::bits(ce));
    if (!fin) { if (!valeq(g, x)) { o.bad(1, "round: inf/NaN must pass through"); } return; }
    typename FT<F>::W dl = (typename FT<F>::W)x - fl, dc = (typename FT<F>::W)ce - x;      // exact in the wider type
    bool ok = (g == fl && dl <= dc) || (g == ce && dc <= dl);
    if (!ok) { o.bad(2, "round: not a nearest integer"); return; } VEC_LANES(round, ((r == fl && dl <= dc) || (r == ce && dc <= dl)), "round(vec): a lane is not a nearest integer") }
  if (WHICH == U_ROUNDEVEN) { F g = glm::roundEven(x); o.res(FT<F>::bits(g));
    if (!fin) { o.exp(FT<F>::bits(x)); if (!valeq(g, x)) { o.bad(1, "roundEven: inf/NaN must pass through"); } return; }
    typename FT<F>::W dl = (typename FT<F>::W)x - fl, dc = (typename FT<F>::W)ce - x; F want;
    if (dl < dc) want = fl; else if (dc < dl) want = ce; else if (fl == ce) want = fl; else want = (std::fmod((double)fl, 2.0) == 0.0) ? fl : ce;
    o.exp(FT<F>::bits(want)); if (!(g == want)) { o.bad(dl == dc && fl != ce ? 3 : 2, "roundEven: not the nearest integer (even one on ties)"); return; } VEC_LANES(roundEven, (r == want), "roundEven(vec): a lane is not the nearest integer (even one on ties)")
    if (!valeq(want, (F)std::nearbyint((typename FT<F>::W)x))) { o.bad(95, "ORACLE: roundEven reference disagrees with libm nearbyint"); return; } }
  if (WHICH == U_FRACT) { if (!fin) { o.nontrivial = false; return; } F g = glm::fract(x); F want = x - fl;   /* IEEE subtraction is the correctly rounded exact difference */ o.res(FT<F>::bits(g)); o.exp(FT<F>::bits(want));
    if (!(g == want)) { o.bad(1, "fract: not x - floor(x)"); return; } if (!(g >= 0 && g <= 1)) { o.bad(2, "fract: result outside [0,1]"); return; } VEC_LANES(fract, (r == want), "fract(vec): a lane is not x - floor(x)") }
  if (WHICH == U_ABS) { F g = glm::abs(x); F want = isn ? x : (x < 0 ? -x : (x == 0 ? (F)0 : x)); o.res(FT<F>::bits(g)); o.exp(FT<F>::bits(want)); if (!valeq(g, want)) { o.bad(1, "abs: not |x|"); return; } VEC_LANES(abs, valeq(r, want), "abs(vec): a lane is not |x|") }
  if (WHICH == U_SIGN) { F g = glm::sign(x); F want = x > 0 ? (F)1 : x < 0 ? (F)-1 : (F)0; o.res(FT<F>::bits(g)); o.exp(FT<F>::bits(want));
    if (isn) { if (!(g == 1 || g == -1 || g == 0 || g != g)) o.bad(1, "sign(NaN) outside {-1,0,+1,NaN}"); return; } if (!(g == want)) { o.bad(2, "sign: not in {-1,0,+1} matching the sign of x"); return; } VEC_LANES(sign, (r == want), "sign(vec): a lane is not in {-1,0,+1} matching the sign of x") }
  if (WHICH == U_ISNAN) { bool g = glm::isnan(x); o.res(g); o.exp(isn); if (g != isn) { o.bad(1, "isnan"); return; } }
  if (WHICH == U_ISINF) { bool g = glm::isinf(x), w = !isn && !fin; o.res(g); o.exp(w); if (g != w) { o.bad(1, "isinf"); return; } }
  if (WHICH == U_FREXP) { if (!fin) { o.nontrivial = false; return; } int e = 12345; F m = glm::frexp(x, e); F back = glm::ldexp(m, e); o.res(FT<F>::bits(m), (uint64_t)(int64_t)e); o.exp(FT<F>::bits(x));
    if (x == 0) { if (!(m == 0 && e == 0)) o.bad(1, "frexp(0) must give mantissa 0, exponent 0"); return; }
    if (!(std::fabs((double)m) >= 0.5 && std::fabs((double)m) < 1.0)) { o.bad(2, "frexp: significand outside [0.5,1)"); return; }
    if (!(back == x)) { o.bad(3, "ldexp(frexp(x)) != x"); return; } }
  if (WHICH == U_MODF) { if (isn) { o.nontrivial = false; return; } F i = 777; F f = glm::modf(x, i); o.res(FT<F>::bits(f), FT<F>::bits(i)); o.exp(FT<F>::bits((F)(fin ? x - tr : 0)), FT<F>::bits(tr));
    if (!(i == tr)) { o.bad(1, "modf: integer part is not trunc(x)"); return; } if (fin && !(f == (F)(x - tr))) { o.bad(2, "modf: fractional part is not x - trunc(x)"); return; } if (!fin && !(f == 0)) { o.bad(3, "modf(inf): fractional part must be 0"); return; } }
  if (WHICH == U_IROUND) { if (!(x >= 0) || !(x < (F)2147483647.5) || ((F)2147483647.5 == (F)2147483648.0 && !(x < (F)2147483520.0 + 64))) { o.nontrivial = false; return; }
    typename FT<F>::W dl = (typename FT<F>::W)x - fl, dc = (typename FT<F>::W)ce - x; if ((double)ce > 2147483647.0) { o.nontrivial = false; return; }
    int g = glm::iround(x); o.res((uint64_t)(int64_t)g); o.exp((uint64_t)(int64_t)(dl <= dc ? fl : ce));
    if (!(((double)g == (double)fl && dl <= dc) || ((double)g == (double)ce && dc <= dl))) { o.bad(1, "iround: not the nearest integer"); return; }
    IU_LANES(iround, int, "iround(vec): a lane is not the nearest integer") }
  if (WHICH == U_UROUND) { if (!(x >= 0) || (double)ce > 4294967295.0) { o.nontrivial = false; return; }
    typename FT<F>::W dl = (typename FT<F>::W)x - fl, dc = (typename FT<F>::W)ce - x;
    glm::uint g = glm::uround(x); o.res(g); o.exp((uint64_t)(dl <= dc ? fl : ce));
    if (!(((double)g == (double)fl && dl <= dc) || ((double)g == (double)ce && dc <= dl))) { o.bad(1, "uround: not the nearest integer"); return; }
    IU_LANES(uround, glm::uint, "uround(vec): a lane is not the nearest integer") }
  if (WHICH == U_TEXCOORD) { if (!fin) { o.nontrivial = false; return; }
    F a = glm::clamp(x), b = glm::repeat(x), cc = glm::mirrorClamp(x), d = glm::mirrorRepeat(x); o.res(FT<F>::bits(a), FT<F>::bits(d));
    if (!(a >= 0 && a <= 1)) { o.bad(1, "clamp(texcoord) outside [0,1]"); return; } if (!(b >= 0 && b <= 1)) { o.bad(2, "repeat(texcoord) outside [0,1]"); return; }
    if (!(cc >= 0 && cc <= 1)) { o.bad(3, "mirrorClamp(texcoord) outside [0,1]"); return; } if (!(d >= 0 && d <= 1)) { o.bad(4, "mirrorRepeat(texcoord) outside [0,1]"); return; }
    F wa = x < 0 ? (F)0 : x > 1 ? (F)1 : x; if (!(a == wa)) { o.exp(FT<F>::bits(wa)); o.bad(5, "clamp(texcoord) is not the value clamped to [0,1]"); return; }
    // mirrorRepeat definition: triangle wave of period 2 on |x|
    typename FT<F>::W ax = std::fabs((typename FT<F>::W)x), fl2 = std::floor(ax), rest = ax - fl2; bool odd = std::fmod((double)fl2, 2.0) == 1.0; F wd = (F)(odd ? 1 - rest : rest);
    if (std::fabs((double)d - (double)wd) > 2 * std::ldexp(1.0, -FT<F>::MANT)) { o.exp(FT<F>::bits(wd)); o.bad(6, "mirrorRepeat is not the period-2 triangle wave of |x|"); return; } }
  if (WHICH == U_MISC) { // gtx: isdenormal, fmod(x,1) ; compatibility: isfinite, saturate
    bool den = fin && x != 0 && std::fabs((double)x) < (sizeof(F) == 4 ? (double)FLT_MIN : DBL_MIN); bool g = glm::isdenormal(x); o.res(g); o.exp(den); if (g != den) { o.bad(1, "isdenormal"); return; }
    if (glm::isfinite(x) != fin) { o.bad(2, "gtx isfinite"); return; }
    if (!isn) { F s = glm::saturate(x), ws = x < 0 ? (F)0 : x > 1 ? (F)1 : x; if (!(s == ws)) { o.res(FT<F>::bits(s)); o.exp(FT<F>::bits(ws)); o.bad(3, "saturate: not clamp(x,0,1)"); return; } } }
}

// bit casts: lossless over all 2^32 patterns
static void op_bitcast(const Case& c, Outcome& o) {
  uint32_t b = (uint32_t)c.w[0]; float f = f32(b); o.cls(isnan32(b) ? 1 : 0);
  int i = glm::floatBitsToInt(f); glm::uint u = glm::floatBitsToUint(f); o.res((uint32_t)i, u); o.exp(b, b);
  if ((uint32_t)i != b) { o.bad(1, "floatBitsToInt is not the bit pattern"); return; } if (u != b) { o.bad(2, "floatBitsToUint is not the bit pattern"); return; }
  float f1 = glm::intBitsToFloat((int)b), f2 = glm::uintBitsToFloat((glm::uint)b); o.res(b32(f1), b32(f2));
  if (b32(f1) != b) { o.bad(3, "intBitsToFloat is not lossless"); return; } if (b32(f2) != b) { o.bad(4, "uintBitsToFloat is not lossless"); return; }
  glm::vec4 v(f, f32(~b), f32(b ^ 0x00ff00ffu), f32(b * 2654435761u)); glm::ivec4 vi = glm::floatBitsToInt(v); glm::uvec4 vu = glm::floatBitsToUint(v);
  const uint32_t lb[4] = {b, ~b, b ^ 0x00ff00ffu, b * 2654435761u};
  for (int k = 0; k < 4; ++k) if ((uint32_t)vi[k] != lb[k] || vu[k] != lb[k]) { o.bad(5, "floatBitsToInt/Uint vec4"); return; }
  glm::vec4 bi = glm::intBitsToFloat(glm::ivec4((int)lb[0], (int)lb[1], (int)lb[2], (int)lb[3])), bu = glm::uintBitsToFloat(glm::uvec4(lb[0], lb[1], lb[2], lb[3]));
  for (int k = 0; k < 4; ++k) if (b32(bi[k]) != lb[k] || b32(bu[k]) != lb[k]) { o.bad(6, "intBitsToFloat/uintBitsToFloat vec4"); return; }
}

// ------------------------------------------------------------------------------ n-ary functions on SPEC^n
template <typename F> static bool snan(uint64_t b) { return sizeof(F) == 4 ? (isnan32(b) && !(b & 0x400000)) : (isnan64(b) && !(b & 0x8000000000000ull)); }
template <typename F> static void op_binary(const Case& c, Outcome& o) {
  if (snan<F>(c.w[0]) || snan<F>(c.w[1])) { o.nontrivial = false; return; }   // signalling NaNs: outside the domain (platform minNum semantics)
  F x = FT<F>::get(c.w[0]), y = FT<F>::get(c.w[1]); bool nx = x != x, ny = y != y; o.cls(nx || ny ? 1 : 0);
  // GLSL: min returns y if y < x, otherwise x; max returns y if x < y, otherwise x; step(edge,x) = 0 if x < edge else 1
  { F g = glm::min(x, y), w = (y < x) ? y : x; o.res(FT<F>::bits(g)); o.exp(FT<F>::bits(w)); if (!valeq(g, w)) { o.bad(1, "min(x,y): not 'y if y < x, otherwise x'"); return; } }
  { F g = glm::max(x, y), w = (x < y) ? y : x; o.res(FT<F>::bits(g)); o.exp(FT<F>::bits(w)); if (!valeq(g, w)) { o.bad(2, "max(x,y): not 'y if x < y, otherwise x'"); return; } }
  { F g = glm::step(x, y), w = (y < x) ? (F)0 : (F)1; o.res(FT<F>::bits(g)); o.exp(FT<F>::bits(w)); if (!(g == w)) { o.bad(3, "step(edge,x): not '0 if x < edge, otherwise 1'"); return; } }
  // fmin/fmax: NaN only if every operand is NaN, otherwise the min/max of the non-NaN operands
  { F g = glm::fmin(x, y); o.res(FT<F>::vbits(g)); if (nx && ny) { if (g == g) { o.bad(4, "fmin(NaN,NaN) must be NaN"); return; } } else { F w = nx ? y : ny ? x : (y < x ? y : x); o.exp(FT<F>::bits(w)); if (!(g == w)) { o.bad(5, "fmin: not the minimum of the non-NaN operands"); return; } } }
  { F g = glm::fmax(x, y); o.res(FT<F>::vbits(g)); if (nx && ny) { if (g == g) { o.bad(6, "fmax(NaN,NaN) must be NaN"); return; } } else { F w = nx ? y : ny ? x : (x < y ? y : x); o.exp(FT<F>::bits(w)); if (!(g == w)) { o.bad(7, "fmax: not the maximum of the non-NaN operands"); return; } } }
  // mod(x,y) = x - y*floor(x/y) within rounding of the formula (finite operands, y != 0, quotient in range)
  if (finite(x) && finite(y) && y != 0) { typedef typename FT<F>::W W; W q = std::floor((W)((F)(x / y))); W ref = (W)x - (W)y * q; F g = glm::mod(x, y);
    W mag = std::fabs((W)x) + std::fabs((W)y * q); W u = std::ldexp((W)1, -FT<F>::MANT);
    if (finite((F)(x / y)) && mag < (W)FT<F>::MAXV) { o.res(FT<F>::bits(g)); o.exp(FT<F>::bits((F)ref)); if (!(std::fabs((W)g - ref) <= 4 * u * mag + (W)std::numeric_limits<F>::denorm_min())) { o.bad(8, "mod: not x - y*floor(x/y) within rounding"); return; } }
    F gf = glm::fmod(x, y), wf = std::fmod(x, y); if (!valeq(gf, wf)) { o.res(FT<F>::bits(gf)); o.exp(FT<F>::bits(wf)); o.bad(9, "gtx fmod: not the C fmod"); return; } }
  // ldexp(x, n) = x * 2^n  (n from the low bits of y's pattern, small range)
  if (finite(x)) { int n = (int)(c.w[1] % 41) - 20; F g = glm::ldexp(x, n), w = (F)std::ldexp((typename FT<F>::W)x, n); o.res(FT<F>::bits(g)); o.exp(FT<F>::bits(w)); if (!valeq(g, w)) { o.bad(10, "ldexp: not x*2^n"); return; } }
}
template <typename F> static void op_ternary(const Case& c, Outcome& o) {
  if (snan<F>(c.w[0]) || snan<F>(c.w[1]) || snan<F>(c.w[2])) { o.nontrivial = false; return; }
  typedef typename FT<F>::W W; F x = FT<F>::get(c.w[0]), y = FT<F>::get(c.w[1]), z = FT<F>::get(c.w[2]);
  bool anynan = x != x || y != y || z != z; o.cls(anynan ? 1 : 0); const W u = std::ldexp((W)1, -FT<F>::MANT);
  // clamp(x, lo, hi) = min(max(x, lo), hi) (GLSL definition; undefined if lo > hi -> skipped)
  if (!(y > z)) { F g = glm::clamp(x, y, z); F m = (x < y) ? y : x; F w = (z < m) ? z : m; o.res(FT<F>::bits(g)); o.exp(FT<F>::bits(w)); if (!valeq(g, w)) { o.bad(1, "clamp: not min(max(x,minVal),maxVal)"); return; } }
  // gtx/common openBounded / closeBounded (vector forms only): min < x < max  /  min <= x <= max, per component
  { glm::vec<2, F> vx(x, y), vlo(y, x), vhi(z, z); glm::vec<2, bool> ob = glm::openBounded(vx, vlo, vhi), cb = glm::closeBounded(vx, vlo, vhi); glm::vec<1, bool> o1 = glm::openBounded(glm::vec<1, F>(x), glm::vec<1, F>(y), glm::vec<1, F>(z));
    if (ob.x != (x > y && x < z) || ob.y != (y > x && y < z) || cb.x != (x >= y && x <= z) || cb.y != (y >= x && y <= z) || o1.x != ob.x) { o.res((uint64_t)ob.x | ((uint64_t)ob.y << 1) | ((uint64_t)cb.x << 2) | ((uint64_t)cb.y << 3)); o.bad(20, "openBounded / closeBounded: not (min < x < max) / (min <= x <= max) per component"); return; } }
  // fclamp: NaN only if every operand is NaN
  { F g = glm::fclamp(x, y, z); o.res(FT<F>::vbits(g)); bool all = x != x && y != y && z != z; if (all ? (g == g) : (g != g)) { o.bad(2, "fclamp: NaN iff every operand is NaN"); return; }
    if (!anynan && !(y > z)) { F m = (x < y) ? y : x; F w = (z < m) ? z : m; o.exp(FT<F>::bits(w)); if (!(g == w)) { o.bad(3, "fclamp: not the clamped value"); return; } } }
  // 3-operand fmin/fmax and min/max
  { int nn = (x != x) + (y != y) + (z != z); F g = glm::fmin(x, y, z), h = glm::fmax(x, y, z); o.res(FT<F>::vbits(g), FT<F>::vbits(h));
    if (nn == 3) { if (g == g || h == h) { o.bad(4, "fmin/fmax of three NaN must be NaN"); return; } }
    else { F lo = 0, hi = 0; bool first = true; const F v[3] = {x, y, z}; for (F t : v) if (t == t) { if (first) { lo = hi = t; first = false; } else { if (t < lo) lo = t; if (t > hi) hi = t; } }
      o.exp(FT<F>::bits(lo), FT<F>::bits(hi)); if (!(g == lo)) { o.bad(5, "fmin(a,b,c): not the minimum of the non-NaN operands"); return; } if (!(h == hi)) { o.bad(6, "fmax(a,b,c): not the maximum of the non-NaN operands"); return; } }
    if (!anynan) { F a = glm::min(x, y, z), b = glm::max(x, y, z); F lo = x < y ? x : y; if (z < lo) lo = z; F hi = x > y ? x : y; if (z > hi) hi = z; if (!(a == lo) || !(b == hi)) { o.res(FT<F>::bits(a), FT<F>::bits(b)); o.exp(FT<F>::bits(lo), FT<F>::bits(hi)); o.bad(7, "min/max of three values"); return; } } }
  // mix(x, y, bool) and mix(vec, vec, bvec) SELECT: the operand that is not selected has no effect, whatever it is (inf, NaN), and the selected one is returned as it is
  { F s0 = glm::mix(x, y, false), s1 = glm::mix(x, y, true); glm::vec<3, F> v = glm::mix(glm::vec<3, F>(x, y, z), glm::vec<3, F>(y, z, x), glm::vec<3, bool>(false, true, false)), vb = glm::mix(glm::vec<3, F>(x, y, z), glm::vec<3, F>(y, z, x), true);
    if (FT<F>::bits(s0) != FT<F>::bits(x) || FT<F>::bits(s1) != FT<F>::bits(y) || FT<F>::bits(v.x) != FT<F>::bits(x) || FT<F>::bits(v.y) != FT<F>::bits(z) || FT<F>::bits(v.z) != FT<F>::bits(z) || FT<F>::bits(vb.x) != FT<F>::bits(y) || FT<F>::bits(vb.y) != FT<F>::bits(z) || FT<F>::bits(vb.z) != FT<F>::bits(x)) {
      o.res(FT<F>::bits(v.x), FT<F>::bits(v.y)); o.exp(FT<F>::bits(x), FT<F>::bits(z)); o.bad(13, "mix with a bool / bvec selector: not exactly the selected operand"); return; } }
  if (anynan || !finite(x) || !finite(y) || !finite(z)) return;
  // mix(x,y,a) = x*(1-a) + y*a within rounding of the formula
  { W t1 = (W)x * ((W)1 - (W)z), t2 = (W)y * (W)z, ref = t1 + t2, mag = std::fabs(t1) + std::fabs(t2) + std::fabs((W)x) * u; F g = glm::mix(x, y, z);
    if (mag < (W)FT<F>::MAXV / 4 && std::fabs((W)x * (W)z) < (W)FT<F>::MAXV / 4) { o.res(FT<F>::bits(g)); o.exp(FT<F>::bits((F)ref)); if (!(std::fabs((W)g - ref) <= 4 * u * (mag + std::fabs((W)x * (W)z)) + (W)std::numeric_limits<F>::denorm_min())) { o.bad(8, "mix: not x*(1-a)+y*a within rounding"); return; } }
    if (z == 0 && !(g == x)) { o.bad(9, "mix(x,y,0) != x"); return; } if (z == 1 && !(g == y)) { o.bad(10, "mix(x,y,1) != y"); return; }
    if (!(glm::mix(x, y, false) == x) || !(glm::mix(x, y, true) == y)) { o.bad(11, "mix(x,y,bool) must select exactly"); return; }
    F l = glm::lerp(x, y, z); if (FT<F>::bits(l) != FT<F>::bits(g) && !(l == g)) { o.bad(12, "gtx lerp != mix"); return; } }
  // smoothstep(e0,e1,x): t = clamp((x-e0)/(e1-e0),0,1); t*t*(3-2t); defined for e0 < e1
  if (x < y) { W d = (W)y - (W)x; if (d < (W)FT<F>::MAXV && std::fabs((W)z - (W)x) < (W)FT<F>::MAXV) { W t = ((W)z - (W)x) / d; if (t < 0) t = 0; if (t > 1) t = 1; W ref = t * t * (3 - 2 * t); F g = glm::smoothstep(x, y, z);
      o.res(FT<F>::bits(g)); o.exp(FT<F>::bits((F)ref));
      // conditioning: relative error of t is ~ (|z|+|x|)u/|z-x| + (|y|+|x|)u/|y-x|; d(ref)/dt <= 1.5
      W cond = (std::fabs((W)z) + std::fabs((W)x)) / std::max<W>(std::fabs((W)z - (W)x), (W)std::numeric_limits<F>::min()) + (std::fabs((W)y) + std::fabs((W)x)) / d;
      W tol = 8 * u * (1 + cond * std::min<W>(t, 1)) + (W)std::numeric_limits<F>::denorm_min();
      if (!(g >= 0 && g <= 1)) { o.bad(13, "smoothstep outside [0,1]"); return; }
      if ((z <= x && !(g == 0)) || (z >= y && !(g == 1))) { o.bad(14, "smoothstep must be 0 below edge0 and 1 above edge1"); return; }
      if (!(std::fabs((W)g - ref) <= tol)) { o.bad(15, "smoothstep: not t*t*(3-2t) within rounding"); return; } } }
  // fma(a,b,c) = a*b+c within rounding (fused or not)
  { W p = (W)x * (W)y, ref = p + (W)z, mag = std::fabs(p) + std::fabs((W)z); if (mag < (W)FT<F>::MAXV / 2) { F g = glm::fma(x, y, z); o.res(FT<F>::bits(g)); o.exp(FT<F>::bits((F)ref)); if (!(std::fabs((W)g - ref) <= 2 * u * mag + (W)std::numeric_limits<F>::denorm_min())) { o.bad(16, "fma: not a*b+c within rounding"); return; } } }
}
template <typename F> static void op_quaternary(const Case& c, Outcome& o) {
  for (int i = 0; i < 4; ++i) if (snan<F>(c.w[i])) { o.nontrivial = false; return; }
  F v[4] = {FT<F>::get(c.w[0]), FT<F>::get(c.w[1]), FT<F>::get(c.w[2]), FT<F>::get(c.w[3])}; int nn = 0; for (F t : v) nn += t != t; o.cls(nn ? 1 : 0);
  F g = glm::fmin(v[0], v[1], v[2], v[3]), h = glm::fmax(v[0], v[1], v[2], v[3]); o.res(FT<F>::vbits(g), FT<F>::vbits(h));
  if (nn == 4) { if (g == g || h == h) o.bad(1, "fmin/fmax of four NaN must be NaN"); return; }
  F lo = 0, hi = 0; bool first = true; for (F t : v) if (t == t) { if (first) { lo = hi = t; first = false; } else { if (t < lo) lo = t; if (t > hi) hi = t; } }
  o.exp(FT<F>::bits(lo), FT<F>::bits(hi)); if (!(g == lo)) { o.bad(2, "fmin(a,b,c,d): not the minimum of the non-NaN operands"); return; } if (!(h == hi)) { o.bad(3, "fmax(a,b,c,d): not the maximum of the non-NaN operands"); return; }
  if (!nn) { F a = glm::min(v[0], v[1], v[2], v[3]), b = glm::max(v[0], v[1], v[2], v[3]); if (!(a == lo) || !(b == hi)) { o.bad(4, "min/max of four values"); return; } }
}

#ifdef C11_HAVE_QUAD
// ------------------------------------------------------------------------------------------- constants
struct ConstRow { const char* name; __float128 ref; float f; double d; };
static std::vector<ConstRow> constants() {
  const __float128 pi = strtoflt128("3.14159265358979323846264338327950288419716939937510582097494", nullptr), two = 2, one = 1; std::vector<ConstRow> r;
#define CROW(NAME, REF) r.push_back({#NAME, (REF), glm::NAME<float>(), glm::NAME<double>()});
  CROW(pi, pi) CROW(cos_one_over_two, cosq(one / two)) CROW(zero, (__float128)0) CROW(one, one) CROW(two_pi, two * pi) CROW(tau, two * pi) CROW(root_pi, sqrtq(pi)) CROW(half_pi, pi / two)
  CROW(three_over_two_pi, 3 * pi / two) CROW(quarter_pi, pi / 4) CROW(one_over_pi, one / pi) CROW(one_over_two_pi, one / (two * pi)) CROW(two_over_pi, two / pi) CROW(four_over_pi, 4 / pi)
  CROW(two_over_root_pi, two / sqrtq(pi)) CROW(one_over_root_two, one / sqrtq(two)) CROW(root_half_pi, sqrtq(pi / two)) CROW(root_two_pi, sqrtq(two * pi)) CROW(root_ln_four, sqrtq(logq((__float128)4)))
  CROW(e, expq(one)) CROW(euler, strtoflt128("0.577215664901532860606512090082402431042159335939923598805767", nullptr)) CROW(root_two, sqrtq(two)) CROW(root_three, sqrtq((__float128)3)) CROW(root_five, sqrtq((__float128)5))
  CROW(ln_two, logq(two)) CROW(ln_ten, logq((__float128)10)) CROW(ln_ln_two, logq(logq(two))) CROW(third, one / 3) CROW(two_thirds, two / 3) CROW(golden_ratio, (one + sqrtq((__float128)5)) / two)
  return r;
}
static std::vector<ConstRow> g_const;
static void op_constants(const Case& c, Outcome& o) {
  const ConstRow& r = g_const[c.w[0]]; bool dbl = c.w[1] != 0; o.cls(dbl ? 1 : 0); char m[160];
  if (!dbl) { float want = (float)r.ref; o.res(b32(r.f)); o.exp(b32(want)); if (b32(r.f) != b32(want)) { std::snprintf(m, sizeof m, "constant %s<float> is not the correctly rounded value", r.name); o.bad(1, m); } }
  else { double want = (double)r.ref; o.res(b64(r.d)); o.exp(b64(want)); if (b64(r.d) != b64(want)) { std::snprintf(m, sizeof m, "constant %s<double> is not the correctly rounded value", r.name); o.bad(2, m); } }
}
#endif
static void op_epsilon(const Case& c, Outcome& o) {
  o.cls(0); o.res(b32(glm::epsilon<float>())); o.exp(b32(FLT_EPSILON)); if (glm::epsilon<float>() != FLT_EPSILON || glm::epsilon<double>() != DBL_EPSILON) o.bad(1, "epsilon<T>() is not the machine epsilon");
}

template <typename F> static void reg(Engine& E, const char* tn, Domain quick, std::vector<Domain> thorough, Domain spec) {
  std::string t = tn; const std::vector<std::string> kc = {"fractional-range", "integral-magnitude", "infinity", "nan"};
#define UN(NAME, W) { Op& op = E.add(std::string(NAME "<") + t + ">", op_unary<F, W>); op.quick = {quick}; op.thorough = thorough; op.classes = kc; }
  UN("floor", U_FLOOR) UN("ceil", U_CEIL) UN("trunc", U_TRUNC) UN("round", U_ROUND) UN("roundEven", U_ROUNDEVEN) UN("fract", U_FRACT) UN("abs", U_ABS) UN("sign", U_SIGN) UN("isnan", U_ISNAN) UN("isinf", U_ISINF)
  UN("frexp+ldexp", U_FREXP) UN("modf", U_MODF) UN("iround", U_IROUND) UN("uround", U_UROUND) UN("clamp/repeat/mirrorClamp/mirrorRepeat(texcoord)", U_TEXCOORD) UN("isdenormal/isfinite/saturate", U_MISC)
  { Op& op = E.add("min/max/step/fmin/fmax/mod/fmod/ldexp<" + t + ">", op_binary<F>); op.quick = {product(spec.name + "^2", {spec, spec})}; op.classes = {"ordered", "with-nan"}; }
  { Op& op = E.add("clamp/fclamp/fmin3/fmax3/mix/lerp/smoothstep/fma<" + t + ">", op_ternary<F>); op.quick = {product(spec.name + "^3", {spec, spec, spec})}; op.classes = {"ordered", "with-nan"}; }
  { std::vector<uint64_t> s4; for (size_t i = 0; i < spec.list->size(); i += 4) s4.push_back((*spec.list)[i]); s4.push_back(spec.list->back()); s4.push_back((*spec.list)[spec.list->size() - 3]);
    Domain d4 = list(spec.name + "_sub", s4); Op& op = E.add("fmin4/fmax4/min4/max4<" + t + ">", op_quaternary<F>); op.quick = {product(d4.name + "^4", {d4, d4, d4, d4})}; op.classes = {"ordered", "with-nan"}; }
}

int main(int argc, char** argv) {
  Engine E; E.property = "C11";
#ifdef C11_HAVE_QUAD
  g_const = constants();
#endif
  E.assumptions = {"integer-valued references computed by integer conversion in a wider type and cross-checked against libm floor/ceil/nearbyint on every input", "constants compared with libquadmath (__float128) evaluations rounded once to the target type"};
  Domain e32 = F32_EDGE();
  // ties k+0.5 for k < 2^23 step coarse + neighbours, and integers around 2^23..2^32 (iround/uround/roundEven breakpoints)
  std::vector<uint64_t> ties; for (uint32_t k = 0; k < 4096; ++k) for (int s = 0; s < 2; ++s) { float t = (float)k + 0.5f; uint32_t b = (uint32_t)b32(s ? -t : t); ties.push_back(b - 1); ties.push_back(b); ties.push_back(b + 1); }
  for (uint32_t e = 127; e <= 160; ++e) for (int d = -3; d <= 3; ++d) { ties.push_back((e << 23) + d); ties.push_back(((e << 23) + d) | 0x80000000u); ties.push_back((e << 23) + 0x400000 + d); }
  Domain t32 = list("F32_TIES(k+0.5 +-1ulp for k<4096, both signs; binade edges 2^0..2^33 +-3ulp)", ties);
  { Domain q = e32; reg<float>(E, "float", q, {F32_ALL()}, F32_SPEC()); for (auto& op : E.ops) if (op.quick.size() == 1 && op.quick[0].name == "F32_EDGE") op.quick.push_back(t32); }
  { std::vector<uint64_t> dt; for (uint64_t k = 0; k < 2048; ++k) for (int s = 0; s < 2; ++s) { double t = (double)k + 0.5; uint64_t b = b64(s ? -t : t); dt.push_back(b - 1); dt.push_back(b); dt.push_back(b + 1); }
    for (double base : {2147483647.5, 2147483648.5, 4294967295.5, 4294967296.5, 1099511627775.5, 1099511627776.5, 4503599627370494.5, 4503599627370495.5, 2251799813685247.5}) for (int s = 0; s < 2; ++s) { uint64_t b = b64(s ? -base : base); for (int d = -2; d <= 2; ++d) dt.push_back(b + d); }
    for (uint64_t e = 1023; e <= 1023 + 66; ++e) for (int d = -3; d <= 3; ++d) { dt.push_back((e << 52) + d); dt.push_back(((e << 52) + d) | (1ull << 63)); }
    Domain t64 = list("F64_TIES(k+0.5 +-1ulp; ties beyond 2^31, 2^32, 2^40, 2^51; binade edges)", dt);
    size_t first = E.ops.size(); reg<double>(E, "double", F64_EDGE(false), {F64_EDGE(true)}, F64_SPEC());
    for (size_t i = first; i < E.ops.size(); ++i) { Op& op = E.ops[i]; if (op.quick.size() == 1 && op.quick[0].name == "F64_EDGE_reduced") { op.quick.push_back(t64); op.thorough.push_back(t64); } } }
  { Op& op = E.add("floatBitsToInt/Uint,intBitsToFloat,uintBitsToFloat", op_bitcast); op.quick = {e32, range("U32 every 4099th pattern", 0, (1ull << 32) / 4099, false, 4099)}; op.thorough = {range("U32_ALL", 0, 1ull << 32, true)}; op.classes = {"number", "nan-pattern"}; }
#ifdef C11_HAVE_QUAD
  { Op& op = E.add("constants (ext/scalar_constants + gtc/constants)", op_constants); op.quick = {product("all constants x {float,double}", {range("CONST", 0, g_const.size(), true), range("TYPE", 0, 2, true)})}; op.classes = {"float", "double"}; }
#endif
  { Op& op = E.add("epsilon", op_epsilon); op.quick = {range("ONE", 0, 1, true)}; }
  return E.main(argc, argv);
}
