// C13 — slerp / mix / lerp interpolate rotations at constant speed along the right arc.
// Bounded exhaustive enumeration of structured quaternion pairs (x, y = +-x*r(axis,Theta)) with Theta on a ladder
// 1e-9 .. pi-1e-9 refined to every representable cosine on both sides of the linear-fallback switch (cos = 1-eps)
// and of the short-arc switch (cos = 0), every factor t of a 13-point list in [-2,3], spins -3..3, float and double.
// Oracle: the great-circle point cos(a)*x^ + sin(a)*e^ (a = t*(Omega + k*pi)) evaluated in long double from the
// actual (rounded) inputs; the implementation is never consulted for the expected value.
#define GLM_ENABLE_EXPERIMENTAL
#include <glm/glm.hpp>
#include <glm/gtc/quaternion.hpp>
#include <glm/ext/quaternion_common.hpp>
#include <glm/gtx/quaternion.hpp>
#include <glm/gtx/dual_quaternion.hpp>
#include <glm/gtx/compatibility.hpp>
#include "glmx.hpp"
#include <array>
#include <cfloat>
using namespace glmx;

typedef long double W;
#ifndef C13_COEF
#define C13_COEF 10
#endif
static const W PI_W = 3.14159265358979323846264338327950288419716939937510L;

template <typename F> struct FT;
template <> struct FT<float> { static float get(uint64_t b) { return f32(b); } static uint64_t bits(float f) { return b32(f); } static constexpr int MANT = 24; static const char* name() { return "float"; }
  static constexpr long double MIXCUT = 1e-2L; };
template <> struct FT<double> { static double get(uint64_t b) { return f64(b); } static uint64_t bits(double f) { return b64(f); } static constexpr int MANT = 53; static const char* name() { return "double"; }
  static constexpr long double MIXCUT = 1e-5L; };
template <typename T> static inline W unit_round() { return std::ldexp((W)1, -FT<T>::MANT); }          // u = 2^-24 / 2^-53
template <typename T> static inline W eps_of() { return std::ldexp((W)1, 1 - FT<T>::MANT); }           // glm::epsilon<T>()

enum { KF_SPIN_FALLBACK = 0, KF_SPIN_ACOS = 1 };

// ------------------------------------------------------------------------------------------- optional statistics
#ifdef C13_STATS
#include <atomic>
static std::atomic<uint64_t> g_stat[256]; static const char* g_statname[256]; static char g_tnames[192][64];
static void stat(int id, const char* nm, W v) { if (!(v == v)) return; double d = (double)(v < 0 ? -v : v); uint64_t b = b64(d), cur = g_stat[id].load(); g_statname[id] = nm;
  while (b > cur && !g_stat[id].compare_exchange_weak(cur, b)) {} }
static void stat_dump() { for (int i = 0; i < 256; ++i) if (g_statname[i]) std::fprintf(stderr, "STAT %-58s %.4g\n", g_statname[i], f64(g_stat[i].load())); }
#define STAT(ID, NAME, V) stat(ID, NAME, V)
static void stat_t(int fn, bool dbl, long double t, long double v) { static const double TS[13] = {-2.0, -1.0, -0.5, 0.0, 1e-7, 0.25, 0.5, 0.75, 1.0 - 1e-7, 1.0, 1.5, 2.0, 3.0}; int ti = 0; double best = 1e9;
  for (int i = 0; i < 13; ++i) if (std::fabs(TS[i] - (double)t) < best) { best = std::fabs(TS[i] - (double)t); ti = i; }
  int slot = (fn * 2 + dbl) * 16 + ti; std::snprintf(g_tnames[slot], 64, "fn%d %s t=%g: max dist/u/cond", fn, dbl ? "double" : "float", TS[ti]); stat(64 + slot, g_tnames[slot], v); }
#define STAT_T(FN, DBL, T, V) stat_t(FN, DBL, T, V)
#else
#define STAT_T(FN, DBL, T, V) ((void)0)
#define STAT(ID, NAME, V) ((void)0)
#endif

// ------------------------------------------------------------------------------------------- wide 4-vector helpers
static inline W dot4(const W* a, const W* b) { return a[0] * b[0] + a[1] * b[1] + a[2] * b[2] + a[3] * b[3]; }
static inline W len4(const W* a) { return std::sqrt(dot4(a, a)); }
static inline bool fin4(const W* a) { for (int i = 0; i < 4; ++i) if (!(a[i] - a[i] == 0)) return false; return true; }
template <typename T> static inline glm::qua<T> mkq(const uint64_t* w) { return glm::qua<T>::wxyz(FT<T>::get(w[0]), FT<T>::get(w[1]), FT<T>::get(w[2]), FT<T>::get(w[3])); }
template <typename T> static inline void toW(const glm::qua<T>& q, W* a) { a[0] = q.w; a[1] = q.x; a[2] = q.y; a[3] = q.z; }
template <typename T> static inline void put(Outcome& o, const glm::qua<T>& q) { o.got[0] = FT<T>::bits(q.w); o.got[1] = FT<T>::bits(q.x); o.got[2] = FT<T>::bits(q.y); o.got[3] = FT<T>::bits(q.z); o.ngot = 4; }
template <typename T> static inline void want(Outcome& o, const W* p) { for (int i = 0; i < 4; ++i) o.want[i] = FT<T>::bits((T)p[i]); o.nwant = 4; }

// Great circle through x and s*y (inputs need only be unit up to rounding: they are normalised here).
struct Geo { W xh[4], yh[4], e[4]; W Om; bool axis; };
static void geo(const W* x, const W* y, W s, Geo& g) {
  W lx = len4(x), ly = len4(y), d[4], sm[4];
  for (int i = 0; i < 4; ++i) { g.xh[i] = x[i] / lx; g.yh[i] = s * y[i] / ly; }
  for (int i = 0; i < 4; ++i) { d[i] = g.yh[i] - g.xh[i]; sm[i] = g.yh[i] + g.xh[i]; }
  g.Om = 2 * std::atan2(len4(d), len4(sm));                       // angle between x^ and y^, accurate at 0 and at pi
  W dx = dot4(d, g.xh), p[4]; for (int i = 0; i < 4; ++i) p[i] = d[i] - dx * g.xh[i];
  W lp = len4(p); g.axis = lp > 0 && g.Om > 0;
  for (int i = 0; i < 4; ++i) g.e[i] = g.axis ? p[i] / lp : 0;
  if (g.axis) { W c = dot4(g.e, g.xh); for (int i = 0; i < 4; ++i) g.e[i] -= c * g.xh[i]; W l = len4(g.e); for (int i = 0; i < 4; ++i) g.e[i] /= l; }   // re-orthogonalise once
}
static inline void point(const Geo& g, W a, W* p) { W c = std::cos(a), s = std::sin(a); for (int i = 0; i < 4; ++i) p[i] = c * g.xh[i] + s * g.e[i]; }
// split got - P(a) into radial (norm), off-plane and in-plane angular parts
struct Err { W dist, radial, off, ang; };
static Err errs(const Geo& g, W a, const W* got) {
  W p[4]; point(g, a, p); Err r; W d[4]; for (int i = 0; i < 4; ++i) d[i] = got[i] - p[i]; r.dist = len4(d);
  r.radial = len4(got) - 1; W gx = dot4(got, g.xh), ge = g.axis ? dot4(got, g.e) : 0, o[4]; for (int i = 0; i < 4; ++i) o[i] = got[i] - gx * g.xh[i] - ge * g.e[i]; r.off = len4(o);
  W c = std::cos(a), s = std::sin(a); r.ang = std::atan2(ge * c - gx * s, gx * c + ge * s); return r;
}
static inline W absW(W v) { return v < 0 ? -v : v; }
// Rounding model of (sin((1-t)A) x + sin(tA) z)/sin(A): the coefficients sum to at most m = |1-t| + |t| in magnitude, the
// rounding of products/sums/sines/arguments contributes ~m u, the error of A = acos(dot) (2u/sin A) enters through
// d/dA[sin(tA)/sin A] ~ t(t^2-1)A/3 and is <= m^2 u on the stated range t in [-2,3].  c = C13_COEF (10).
static inline W tolm(W t) { W m = absW(1 - t) + absW(t); return 1 + m * m; }

// ------------------------------------------------------------------------------------------- slerp / mix / slerp+spin
enum { FN_SLERP, FN_MIX, FN_SPIN };
static const char* const CLS4[4] = {"dot>=0, trig side of the switch", "dot>=0, linear-fallback side (cos > 1-eps)", "dot<0 (flip), trig side", "dot<0 (flip), linear-fallback side"};

template <typename T, int FN> static void op_sph(const Case& c, Outcome& o) {
  const W u = unit_round<T>(), eps = eps_of<T>();
  glm::qua<T> qx = mkq<T>(c.w), qy = mkq<T>(c.w + 4); T t = FT<T>::get(c.w[8]); int k = FN == FN_SPIN ? (int)(int64_t)c.w[9] : 0;
  W x[4], y[4]; toW(qx, x); toW(qy, y); const W tw = (W)t, at = absW(tw);
  W lx = len4(x), ly = len4(y);
  if (!(absW(lx - 1) <= 4 * u) || !(absW(ly - 1) <= 4 * u) || !(tw - tw == 0)) { o.nontrivial = false; return; }     // not unit quaternions: outside the domain
  const W cosTh = dot4(x, y) / (lx * ly);                                                                      // oriented cosine, exact up to 2^-64
  const bool ambiguous = FN != FN_MIX && absW(cosTh) <= 4 * u;                                                  // both arcs equally short within rounding of a dot product
  W s = (FN != FN_MIX && cosTh < 0) ? (W)-1 : (W)1;
  Geo g; geo(x, y, s, g);
  if (FN == FN_MIX && g.Om > PI_W - FT<T>::MIXCUT) { o.nontrivial = false; return; }                             // oriented arc not numerically determined (DESIGN C13)
  if (FN == FN_SPIN && k != 0 && !g.axis) { o.nontrivial = false; return; }                                     // x == +-y exactly: no great circle to spin around
  const W cosShort = std::cos(g.Om);
  o.cls((s < 0 ? 2 : 0) + (cosShort > 1 - eps ? 1 : 0));

  glm::qua<T> r = FN == FN_SLERP ? glm::slerp(qx, qy, t) : FN == FN_MIX ? glm::mix(qx, qy, t) : glm::slerp(qx, qy, t, k);
  put<T>(o, r); W got[4]; toW(r, got);
  if (!fin4(got)) { o.bad(1, "result is NaN/Inf for unit inputs"); return; }

  const W sinOm = std::sin(g.Om);
  W cond = 1;
  if (FN == FN_MIX && cosTh < 0) cond = 1 / (sinOm * sinOm);                                                    // acos conditioning of the oriented arc beyond pi/2
  if (FN == FN_SPIN && k != 0) cond = (1 + std::abs(k)) * std::max<W>(1, 1 / sinOm);                            // direction e^ is determined to u/sin(Omega); |phi| ~ (1+|k|) pi
  const W base = C13_COEF * tolm(tw) * u, tol = base * cond;
  if (!(tol < 0.5L)) { o.nontrivial = false; return; }                                                          // bound no longer constrains a unit vector: case carries no information beyond "no NaN"
  W alpha = tw * (g.Om + (W)k * PI_W);
  Geo g2; bool alt = false; Err e = errs(g, alpha, got);
  if (ambiguous) { geo(x, y, -s, g2); Err e2 = errs(g2, tw * (g2.Om + (W)k * PI_W), got); if (e2.dist < e.dist) { e = e2; alt = true; } }
  const Geo& gg = alt ? g2 : g; if (alt) { s = -s; alpha = tw * (gg.Om + (W)k * PI_W); }
  { W p[4]; point(gg, alpha, p); want<T>(o, p); }
  STAT(FN * 8 + 0 + (sizeof(T) == 8 ? 4 : 0), FN == FN_SLERP ? "slerp: max dist/((1+m^2) u cond)" : FN == FN_MIX ? "mix: max dist/((1+m^2) u cond)" : "slerp+spin: max dist/((1+m^2) u cond)", e.dist / (tolm(tw) * u * cond));
  STAT(FN * 8 + 1 + (sizeof(T) == 8 ? 4 : 0), FN == FN_SLERP ? "slerp: max | |r|-1 | / ((1+m^2) u cond)" : FN == FN_MIX ? "mix: max | |r|-1 | / ((1+m^2) u cond)" : "slerp+spin: max | |r|-1 | / ((1+m^2) u cond)", e.radial / (tolm(tw) * u * cond));
  STAT_T(FN, sizeof(T) == 8, tw, e.dist / (u * cond));
  if (!(e.dist <= tol)) {
    // classify the deviation; attribute spin deviations to the two legacy models when they explain the value
    if (FN == FN_SPIN && k != 0) {
      // the computed dot product may fall on either side of the switch when the exact cosine is within 4u of 1-eps
      if (cosShort > 1 - eps - 4 * u) { Err e0 = errs(gg, tw * gg.Om, got); if (e0.dist <= base) o.kf = KF_SPIN_FALLBACK; }   // legacy: spin count ignored in the linear fallback
      if (o.kf < 0 && cosShort < 1 - eps + 4 * u && e.dist <= base * (1 + std::abs(k)) / (sinOm * sinOm)) o.kf = KF_SPIN_ACOS;  // legacy: Graphics-Gems formula, acos(dot) error amplified by 1/sin^2
    }
    if (o.kf == KF_SPIN_ACOS) STAT(62, "spin acos-conditioning: largest Omega flagged", g.Om); if (o.kf == KF_SPIN_FALLBACK) STAT(63, "spin ignored in fallback: largest Omega flagged", g.Om);
    W ar = absW(e.radial), ao = e.off, aa = absW(e.ang);
    if (FN != FN_MIX && k == 0 && gg.axis) { Geo gl; geo(x, y, -s, gl); Err el = errs(gl, tw * gl.Om, got); if (el.dist <= tol && gl.Om > gg.Om + 16 * u) { o.bad(5, "took the longer arc (interpolates towards the far one of +-y)"); return; } }
    if (ar >= ao && ar >= aa) { o.bad(2, "result is not of unit length"); return; }
    if (ao >= aa) { o.bad(3, "result leaves the great circle through x and +-y"); return; }
    o.bad(4, k ? "angular position is not t*(Omega + k*pi) (constant speed with spins)" : "angular position is not t*Omega (constant angular speed)"); return;
  }
  // end points (tight): slerp(x,y,0) = x, slerp(x,y,1) = +-y
  if (tw == 0) { W m = 0; for (int i = 0; i < 4; ++i) m = std::max(m, absW(got[i] - x[i])); STAT(24 + FN, "end point t=0: max |r-x|/u", m / u);
    if (!(m <= 4 * u)) { for (int i = 0; i < 4; ++i) o.want[i] = c.w[i]; o.bad(6, "f(x,y,0) is not x"); return; } }
  if (tw == 1 && k == 0) { W m = 0; for (int i = 0; i < 4; ++i) m = std::max(m, absW(got[i] - s * y[i])); STAT(28 + FN, "end point t=1: max |r-(+-y)|/u", m / u);
    if (!(m <= 4 * u)) { for (int i = 0; i < 4; ++i) o.want[i] = FT<T>::bits((T)(s * y[i])); o.bad(7, FN == FN_MIX ? "mix(x,y,1) is not y" : "slerp(x,y,1) is not +-y"); return; } }
  // slerp(x,y,t) = +-slerp(y,x,1-t)
  if (FN == FN_SLERP && !ambiguous) {
    T t2 = (T)((T)1 - t); glm::qua<T> r2 = glm::slerp(qy, qx, t2); W g2w[4]; toW(r2, g2w);
    if (!fin4(g2w)) { put<T>(o, r2); o.bad(1, "slerp(y,x,1-t) is NaN/Inf for unit inputs"); return; }
    W dm = 0, dp = 0; for (int i = 0; i < 4; ++i) { dm += (got[i] - g2w[i]) * (got[i] - g2w[i]); dp += (got[i] + g2w[i]) * (got[i] + g2w[i]); }
    W d = std::sqrt(std::min(dm, dp)); const W tol2 = base + C13_COEF * tolm((W)t2) * u + absW(tw - (1 - (W)t2)) * g.Om;
    STAT(32 + (sizeof(T) == 8), "slerp symmetry: max dist/tol", d / tol2);
    if (!(d <= tol2)) { for (int i = 0; i < 4; ++i) { o.want[i] = o.got[i]; } o.nwant = 4; put<T>(o, r2); o.bad(8, "slerp(x,y,t) != +-slerp(y,x,1-t)"); return; }
  }
}

// ------------------------------------------------------------------------------------------- lerp (quaternion, and gtx/compatibility vec4)
template <typename T> static void op_lerp(const Case& c, Outcome& o) {
  const W u = unit_round<T>(); const W tiny = (W)std::numeric_limits<T>::denorm_min();
  glm::qua<T> qx = mkq<T>(c.w), qy = mkq<T>(c.w + 4); T t = FT<T>::get(c.w[8]); W x[4], y[4]; toW(qx, x); toW(qy, y); const W tw = (W)t;
  const bool in01 = t >= 0 && t <= 1; o.cls(in01 ? 0 : 1);
  W ref[4], tl[4]; for (int i = 0; i < 4; ++i) { ref[i] = x[i] * (1 - tw) + y[i] * tw; tl[i] = 8 * u * (absW(x[i]) * absW(1 - tw) + absW(y[i]) * absW(tw)) + tiny; }
  want<T>(o, ref);
  if (in01) {                                                                             // quaternion lerp is only defined on [0,1] (asserts)
    glm::qua<T> r = glm::lerp(qx, qy, t); put<T>(o, r); W got[4]; toW(r, got);
    for (int i = 0; i < 4; ++i) { STAT(40, "lerp: max err / (u*sum|terms|)", absW(got[i] - ref[i]) / (u * (absW(x[i]) * absW(1 - tw) + absW(y[i]) * absW(tw)) + tiny));
      if (!(absW(got[i] - ref[i]) <= tl[i])) { o.bad(1, "quaternion lerp is not the affine blend x*(1-a)+y*a"); return; } }
    if (tw == 0) for (int i = 0; i < 4; ++i) if (!(absW(got[i] - x[i]) <= 2 * u * (absW(x[i]) + absW(y[i])) + tiny)) { o.bad(2, "lerp(x,y,0) != x"); return; }
    if (tw == 1) for (int i = 0; i < 4; ++i) if (!(absW(got[i] - y[i]) <= 2 * u * (absW(x[i]) + absW(y[i])) + tiny)) { o.bad(3, "lerp(x,y,1) != y"); return; }
  }
  // gtx/compatibility lerp on the same components (not restricted to [0,1]); scalar and vector factor
  glm::vec<4, T> vx(qx.x, qx.y, qx.z, qx.w), vy(qy.x, qy.y, qy.z, qy.w); const int perm[4] = {1, 2, 3, 0};     // vec lane i holds W-array entry perm[i]
  glm::vec<4, T> a = glm::lerp(vx, vy, t), b = glm::lerp(vx, vy, glm::vec<4, T>(t));
  for (int i = 0; i < 4; ++i) { int j = perm[i];
    if (!(absW((W)a[i] - ref[j]) <= tl[j])) { o.res(FT<T>::bits(a[i]), (uint64_t)i); o.bad(4, "compatibility lerp(vec4,vec4,T) is not the affine blend"); return; }
    if (!(absW((W)b[i] - ref[j]) <= tl[j])) { o.res(FT<T>::bits(b[i]), (uint64_t)i); o.bad(5, "compatibility lerp(vec4,vec4,vec4) is not the affine blend"); return; }
    const W te = 2 * u * (absW(x[j]) + absW(y[j])) + tiny;
    if (tw == 0 && !(absW((W)a[i] - x[j]) <= te && absW((W)b[i] - x[j]) <= te)) { o.bad(6, "compatibility lerp(x,y,0) != x"); return; }
    if (tw == 1 && !(absW((W)a[i] - y[j]) <= te && absW((W)b[i] - y[j]) <= te)) { o.bad(7, "compatibility lerp(x,y,1) != y"); return; } }
}

// ------------------------------------------------------------------------------------------- shortMix / fastMix (t in [0,1])
enum { FN_SHORTMIX, FN_FASTMIX };
template <typename T, int FN> static void op_gtxmix(const Case& c, Outcome& o) {
  const W u = unit_round<T>(), eps = eps_of<T>();
  glm::qua<T> qx = mkq<T>(c.w), qy = mkq<T>(c.w + 4); T t = FT<T>::get(c.w[8]); W x[4], y[4]; toW(qx, x); toW(qy, y); const W tw = (W)t;
  W lx = len4(x), ly = len4(y);
  if (!(absW(lx - 1) <= 4 * u) || !(absW(ly - 1) <= 4 * u) || !(t >= 0 && t <= 1)) { o.nontrivial = false; return; }
  const W cosTh = dot4(x, y) / (lx * ly); const bool shortp = FN == FN_SHORTMIX; const bool ambiguous = shortp && absW(cosTh) <= 4 * u;
  W s = (shortp && cosTh < 0) ? (W)-1 : (W)1; Geo g; geo(x, y, s, g);
  if (!shortp && g.Om > PI_W - FT<T>::MIXCUT) { o.nontrivial = false; return; }                    // nlerp through (almost) the origin: direction undetermined
  o.cls((s < 0 ? 2 : 0) + (std::cos(g.Om) > 1 - eps ? 1 : 0));
  glm::qua<T> r = shortp ? glm::shortMix(qx, qy, t) : glm::fastMix(qx, qy, t); put<T>(o, r); W got[4]; toW(r, got);
  if (!fin4(got)) { o.bad(1, "result is NaN/Inf for unit inputs"); return; }
  // conditioning of normalize(x(1-t)+yt): blend length L
  W L = 1; if (!shortp) { W bl[4]; for (int i = 0; i < 4; ++i) bl[i] = g.xh[i] * (1 - tw) + g.yh[i] * tw; L = len4(bl); }
  const W tol = C13_COEF * tolm(tw) * u * std::max<W>(1, 1 / L);
  Geo g2; if (ambiguous) { geo(x, y, -s, g2); W a1 = dot4(got, g.yh), a2 = dot4(got, g2.yh); if (tw > 0 && a2 > a1) { g = g2; s = -s; } }
  W gx = dot4(got, g.xh), ge = g.axis ? dot4(got, g.e) : 0, off[4]; for (int i = 0; i < 4; ++i) off[i] = got[i] - gx * g.xh[i] - ge * g.e[i];
  W radial = len4(got) - 1, ang = std::atan2(ge, gx);
  STAT(44 + FN * 2 + (sizeof(T) == 8), shortp ? "shortMix: max | |r|-1 | / (u cond)" : "fastMix: max | |r|-1 | / (u cond)", radial / (u * std::max<W>(1, 1 / L)));
  STAT(48 + FN * 2 + (sizeof(T) == 8), shortp ? "shortMix: max off-plane / (u cond)" : "fastMix: max off-plane / (u cond)", len4(off) / (u * std::max<W>(1, 1 / L)));
  if (!(absW(radial) <= tol)) { o.bad(2, "result is not of unit length"); return; }
  if (!(len4(off) <= tol)) { o.bad(3, "result leaves the great circle through x and +-y"); return; }
  if (shortp && tw == 1) { W ny[4]; for (int i = 0; i < 4; ++i) ny[i] = -got[i]; W gx2 = dot4(ny, g.xh), ge2 = g.axis ? dot4(ny, g.e) : 0; if (absW(std::atan2(ge2, gx2) - g.Om) < absW(ang - g.Om)) ang = std::atan2(ge2, gx2); }   // the end point rule allows either of +-y
  if (!(ang >= -tol && ang <= g.Om + tol)) { o.bad(4, shortp ? "result is not on the shorter arc between x and +-y" : "result is not on the arc between x and y"); return; }
  if (tw == 0) { W m = 0; for (int i = 0; i < 4; ++i) m = std::max(m, absW(got[i] - x[i])); if (!(m <= 4 * u)) { for (int i = 0; i < 4; ++i) o.want[i] = c.w[i]; o.nwant = 4; o.bad(6, "f(x,y,0) is not x"); return; } }
  if (tw == 1) { W m = 0; for (int i = 0; i < 4; ++i) m = std::max(m, absW(got[i] - s * y[i])); if (ambiguous || shortp) { W m2 = 0; for (int i = 0; i < 4; ++i) m2 = std::max(m2, absW(got[i] + s * y[i])); m = std::min(m, m2); }
    if (!(m <= 4 * u)) { for (int i = 0; i < 4; ++i) o.want[i] = FT<T>::bits((T)(s * y[i])); o.nwant = 4; o.bad(7, shortp ? "shortMix(x,y,1) is not +-y" : "fastMix(x,y,1) is not y"); return; } }
}

// ------------------------------------------------------------------------------------------- dual-quaternion lerp (DLB), t in [0,1]
static const double TRANS[4][2][3] = {{{0, 0, 0}, {1, 2, 3}}, {{-4, 0.5, 10}, {3, -7, 0.25}}, {{100, -100, 0.125}, {100, -100, 0.125}}, {{0.001, 0, -0.002}, {-5, 6, 7}}};
template <typename T> static void op_dualquat(const Case& c, Outcome& o) {
  const W u = unit_round<T>(); const W tiny = (W)std::numeric_limits<T>::denorm_min();
  glm::qua<T> qx = mkq<T>(c.w), qy = mkq<T>(c.w + 4); T t = FT<T>::get(c.w[8]); const double (*tr)[3] = TRANS[c.w[9] & 3]; const W tw = (W)t;
  { W x[4], y[4]; toW(qx, x); toW(qy, y); if (!(absW(len4(x) - 1) <= 4 * u) || !(absW(len4(y) - 1) <= 4 * u) || !(t >= 0 && t <= 1)) { o.nontrivial = false; return; } }
  glm::tdualquat<T> X(qx, glm::vec<3, T>((T)tr[0][0], (T)tr[0][1], (T)tr[0][2])), Y(qy, glm::vec<3, T>((T)tr[1][0], (T)tr[1][1], (T)tr[1][2]));
  W xr[4], xd[4], yr[4], yd[4]; toW(X.real, xr); toW(X.dual, xd); toW(Y.real, yr); toW(Y.dual, yd);             // the actual operands
  const W cosTh = dot4(xr, yr); const bool ambiguous = absW(cosTh) <= 4 * u; W s = cosTh < 0 ? (W)-1 : (W)1; o.cls(s < 0 ? 1 : 0);
  glm::tdualquat<T> R = glm::lerp(X, Y, t); W rr[4], rd[4]; toW(R.real, rr); toW(R.dual, rd); put<T>(o, R.real);
  if (!fin4(rr) || !fin4(rd)) { o.bad(1, "dual-quaternion lerp is NaN/Inf"); return; }
  for (int pass = 0; pass < (ambiguous ? 2 : 1); ++pass) {
    W ss = pass ? -s : s; bool ok = true, ok0 = true, ok1 = true; W refr[4];
    for (int i = 0; i < 4; ++i) { const W* xs[2] = {xr, xd}; const W* ys[2] = {yr, yd}; const W* rs[2] = {rr, rd};
      for (int h = 0; h < 2; ++h) { W ref = xs[h][i] * (1 - tw) + ss * ys[h][i] * tw, mag = absW(xs[h][i]) * absW(1 - tw) + absW(ys[h][i]) * absW(tw); if (h == 0) refr[i] = ref;
        if (pass == 0 && !ambiguous) STAT(41, "dualquat lerp: max err / (u*sum|terms|)", absW(rs[h][i] - ref) / (u * mag + tiny));
        if (!(absW(rs[h][i] - ref) <= 10 * u * mag + tiny)) ok = false;
        if (tw == 0 && !(absW(rs[h][i] - xs[h][i]) <= 2 * u * (absW(xs[h][i]) + absW(ys[h][i])) + tiny)) ok0 = false;
        if (tw == 1 && !(absW(rs[h][i] - ss * ys[h][i]) <= 2 * u * (absW(xs[h][i]) + absW(ys[h][i])) + tiny)) ok1 = false; } }
    if (ok && ok0 && ok1) break;
    if (pass + 1 < (ambiguous ? 2 : 1)) continue;
    want<T>(o, refr);
    if (!ok0) { o.bad(3, "dual-quaternion lerp(x,y,0) is not x"); return; }
    if (!ok1) { o.bad(4, "dual-quaternion lerp(x,y,1) is not +-y"); return; }
    o.bad(2, "dual-quaternion lerp is not the affine blend x*(1-a) +- y*a"); return;
  }
  // normalisation rule: normalize(lerp) has a unit real part on the shorter arc between x.real and +-y.real
  glm::tdualquat<T> N = glm::normalize(R); W nr[4]; toW(N.real, nr); put<T>(o, N.real);
  if (!fin4(nr)) { o.bad(5, "normalize(lerp) is NaN/Inf"); return; }
  STAT(52 + (sizeof(T) == 8), "dualquat: max | |normalize(lerp).real| - 1 | / u", (len4(nr) - 1) / u);
  if (!(absW(len4(nr) - 1) <= 8 * u)) { o.bad(6, "real part of normalize(lerp(x,y,a)) is not of unit length"); return; }
  if (!ambiguous) { Geo g; geo(xr, yr, s, g); W gx = dot4(nr, g.xh), ge = g.axis ? dot4(nr, g.e) : 0, off[4]; for (int i = 0; i < 4; ++i) off[i] = nr[i] - gx * g.xh[i] - ge * g.e[i];
    W ang = std::atan2(ge, gx), tol = 16 * u; STAT(54 + (sizeof(T) == 8), "dualquat: max off-plane / u", len4(off) / u);
    if (!(len4(off) <= tol)) { o.bad(7, "real part of normalize(lerp) leaves the great circle through x.real and +-y.real"); return; }
    if (!(ang >= -tol && ang <= g.Om + tol)) { o.bad(8, "real part of normalize(lerp) is not on the shorter arc between x.real and +-y.real"); return; } }
}

// ------------------------------------------------------------------------------------------- squad (built from mix): end points and unit length
template <typename T> static void op_squad(const Case& c, Outcome& o) {
  const W u = unit_round<T>();
  glm::qua<T> q1 = mkq<T>(c.w), q2 = mkq<T>(c.w + 4); T h = FT<T>::get(c.w[8]); W x[4], y[4]; toW(q1, x); toW(q2, y); const W hw = (W)h;
  W lx = len4(x), ly = len4(y); if (!(absW(lx - 1) <= 4 * u) || !(absW(ly - 1) <= 4 * u) || !(h >= 0 && h <= 1)) { o.nontrivial = false; return; }
  const W cosTh = dot4(x, y) / (lx * ly); if (!(cosTh >= 0)) { o.nontrivial = false; return; }             // keep every inner mix on a well-conditioned (<= pi/2) oriented arc
  Geo g; geo(x, y, 1, g); o.cls(std::cos(g.Om) > 1 - eps_of<T>() ? 1 : 0);
  // control points on the same arc at 1/3 and 2/3 (rounded to T): squad must stay on the circle and hit q1, q2 at h = 0, 1
  W p1[4], p2[4]; point(g, g.Om / 3, p1); point(g, 2 * g.Om / 3, p2);
  glm::qua<T> s1 = glm::qua<T>::wxyz((T)p1[0], (T)p1[1], (T)p1[2], (T)p1[3]), s2 = glm::qua<T>::wxyz((T)p2[0], (T)p2[1], (T)p2[2], (T)p2[3]);
  glm::qua<T> r = glm::squad(q1, q2, s1, s2, h); put<T>(o, r); W got[4]; toW(r, got);
  if (!fin4(got)) { o.bad(1, "squad is NaN/Inf for unit inputs"); return; }
  const W tol = 64 * u;                                                                          // three nested mix calls with factors in [0,1]: 3 x (10*(1+1) u) rounded up; measured <= 6.3 u
  STAT(56 + (sizeof(T) == 8), "squad: max | |r|-1 | / u", (len4(got) - 1) / u);
  if (!(absW(len4(got) - 1) <= tol)) { o.bad(2, "squad result is not of unit length"); return; }
  if (hw == 0) { W m = 0; for (int i = 0; i < 4; ++i) m = std::max(m, absW(got[i] - x[i])); STAT(58, "squad end point h=0 |r-q1|/u", m / u); if (!(m <= 8 * u)) { for (int i = 0; i < 4; ++i) o.want[i] = c.w[i]; o.nwant = 4; o.bad(3, "squad(q1,q2,s1,s2,0) is not q1"); return; } }
  if (hw == 1) { W m = 0; for (int i = 0; i < 4; ++i) m = std::max(m, absW(got[i] - y[i])); STAT(59, "squad end point h=1 |r-q2|/u", m / u); if (!(m <= 8 * u)) { for (int i = 0; i < 4; ++i) o.want[i] = c.w[4 + i]; o.nwant = 4; o.bad(4, "squad(q1,q2,s1,s2,1) is not q2"); return; } }
  if (g.axis) { W gx = dot4(got, g.xh), ge = dot4(got, g.e), off[4]; for (int i = 0; i < 4; ++i) off[i] = got[i] - gx * g.xh[i] - ge * g.e[i]; STAT(60 + (sizeof(T) == 8), "squad: max off-plane / u", len4(off) / u);
    if (!(len4(off) <= tol)) { o.bad(5, "squad of four points of one great circle leaves that circle"); return; } }
}

// ------------------------------------------------------------------------------------------- domains
template <typename T> struct Tab {
  static std::vector<std::array<T, 4>> X[2];          // 0 quick, 1 thorough
  static std::vector<std::array<W, 3>> AX[2];
  static std::vector<W> TH;
};
template <typename T> std::vector<std::array<T, 4>> Tab<T>::X[2];
template <typename T> std::vector<std::array<W, 3>> Tab<T>::AX[2];
template <typename T> std::vector<W> Tab<T>::TH;

template <typename T> static std::array<T, 4> normq(W w, W x, W y, W z) { W l = std::sqrt(w * w + x * x + y * y + z * z); return {(T)(w / l), (T)(x / l), (T)(y / l), (T)(z / l)}; }
template <typename T> static std::array<T, 4> aaq(W ang, W ax, W ay, W az) { W l = std::sqrt(ax * ax + ay * ay + az * az), s = std::sin(ang / 2) / l; return {(T)std::cos(ang / 2), (T)(s * ax), (T)(s * ay), (T)(s * az)}; }

template <typename T> static void build_tables() {
  std::vector<std::array<T, 4>> q;
  q.push_back(normq<T>(1, 0, 0, 0)); q.push_back(normq<T>(0, 0, 0, 1)); q.push_back(normq<T>(1, 2, 3, 4)); q.push_back(normq<T>(0.5L, 0.5L, 0.5L, 0.5L));
  q.push_back(normq<T>(-2, -1, -2, 1)); q.push_back(aaq<T>(1.0L, 0.36L, 0.48L, 0.8L)); q.push_back(aaq<T>(4.0L, 1, 2, 2)); q.push_back(aaq<T>(2e-3L, 1, 1, 1));
  q.push_back(normq<T>(0, 1, 0, 0)); q.push_back(normq<T>(0, 0, 1, 0)); q.push_back(normq<T>(-1, 0, 0, 0)); q.push_back(normq<T>(0.5L, -0.5L, 0.5L, -0.5L));
  q.push_back(normq<T>(4, -3, 2, -1)); q.push_back(normq<T>(1, 1, 0, 0)); q.push_back(normq<T>(0, 1, 0, 1)); q.push_back(normq<T>(1, 0, 0, -1));
  q.push_back(aaq<T>(2e-5L, 0, 0, 1)); q.push_back(aaq<T>(2.5L, -0.6L, 0, 0.8L)); q.push_back(aaq<T>(3.0L, 0, -1, 0)); q.push_back(normq<T>(1, 1e-3L, 1e-6L, 1e-9L));
  q.push_back(normq<T>(0.6L, 0, 0.8L, 0)); q.push_back(normq<T>(0, 0.28L, 0, 0.96L)); q.push_back(aaq<T>(PI_W - 1e-4L, 3, -4, 12)); q.push_back(normq<T>(-1e-7L, 3, 4, 12));
  Tab<T>::X[0] = q;                                                                       // 24
  std::vector<std::array<T, 4>> big = q;                                                  // thorough: + every direction of {-1,0,1}^4 (80)
  for (int a = -1; a <= 1; ++a) for (int b = -1; b <= 1; ++b) for (int cc = -1; cc <= 1; ++cc) for (int d = -1; d <= 1; ++d) if (a || b || cc || d) big.push_back(normq<T>(a, b, cc, d));
  Tab<T>::X[1] = big;
  auto ax = [](W a, W b, W c) { W l = std::sqrt(a * a + b * b + c * c); return std::array<W, 3>{a / l, b / l, c / l}; };
  std::vector<std::array<W, 3>> A = {ax(1, 0, 0), ax(0, 0, 1), ax(1, -2, 3)};
  A.push_back(ax(0, 1, 0)); A.push_back(ax(1, 1, 1)); A.push_back(ax(-0.6L, 0, 0.8L)); Tab<T>::AX[0] = A;
  A.push_back(ax(-1, 0, 0)); A.push_back(ax(0, -1, 0)); A.push_back(ax(0, 0, -1)); A.push_back(ax(1, 1, 0)); A.push_back(ax(0, 1, -1)); A.push_back(ax(1e-3L, 1, 1e-6L)); A.push_back(ax(3, 4, -12)); Tab<T>::AX[1] = A;
  // Theta ladder (4-D angle between x and y)
  const W eps = eps_of<T>(), u = unit_round<T>(); std::vector<W> th; th.push_back(0);
  for (int j = 0; j <= 36; ++j) th.push_back(1e-9L * std::pow(10.0L, j / 4.0L));                  // 1e-9 .. 1
  th.push_back(1.25L); th.push_back(1.5L);
  for (int m = 1; m <= 16; ++m) th.push_back(std::acos(1 - m * eps / 2));                         // every representable cosine just below 1: 1-eps is m = 2
  { W thr = std::acos(1 - eps); for (W f : {3.0L, 4.0L, 6.0L, 10.0L, 30.0L}) th.push_back(f * thr); }
  size_t n = th.size(); for (size_t i = 0; i < n; ++i) th.push_back(PI_W - th[i]);               // mirrored: y near -x, down to pi - 1e-9 and pi exactly
  for (W f : {0.0L, 0.25L, 0.5L, 1.0L, 2.0L, 3.0L, 4.0L, 8.0L, 16.0L, 256.0L}) { th.push_back(PI_W / 2 - f * u); if (f != 0) th.push_back(PI_W / 2 + f * u); }   // both sides of cos = 0
  for (W d : {1e-3L, 0.1L, 0.5L}) { th.push_back(PI_W / 2 - d); th.push_back(PI_W / 2 + d); }
  Tab<T>::TH = th;
}
// pair index -> words x(4), y(4) with y = +-(x * r(axis, Theta)) computed in long double and rounded once
template <typename T, int SET> static void gen_pair(uint64_t i, uint64_t* w) {
  const auto& X = Tab<T>::X[SET]; const auto& A = Tab<T>::AX[SET]; const auto& TH = Tab<T>::TH;
  int sg = (int)(i % 2); i /= 2; W th = TH[i % TH.size()]; i /= TH.size(); const auto& a = A[i % A.size()]; i /= A.size(); const auto& x = X[i % X.size()];
  W rw = std::cos(th), sn = std::sin(th), rx = sn * a[0], ry = sn * a[1], rz = sn * a[2], xw = x[0], xx = x[1], xy = x[2], xz = x[3];
  if (th == 0) { rw = 1; rx = ry = rz = 0; } if (th == PI_W) { rw = -1; rx = ry = rz = 0; }
  W y[4] = {xw * rw - xx * rx - xy * ry - xz * rz, xw * rx + xx * rw + xy * rz - xz * ry, xw * ry - xx * rz + xy * rw + xz * rx, xw * rz + xx * ry - xy * rx + xz * rw};
  for (int k = 0; k < 4; ++k) { w[k] = FT<T>::bits(x[k]); w[4 + k] = FT<T>::bits((T)(sg ? -y[k] : y[k])); }
}
template <typename T, int SET> static Domain pairs() {
  uint64_t n = (uint64_t)Tab<T>::X[SET].size() * Tab<T>::AX[SET].size() * Tab<T>::TH.size() * 2; char nm[160];
  std::snprintf(nm, sizeof nm, "PAIRS<%s>(x in ROT[%zu], y = +-x*r(axis[%zu], Theta[%zu]))", FT<T>::name(), Tab<T>::X[SET].size(), Tab<T>::AX[SET].size(), Tab<T>::TH.size());
  return func(nm, n, 8, gen_pair<T, SET>);
}
// all ordered pairs of the rotation table (generic, exactly orthogonal and exactly antipodal pairs)
template <typename T, int SET> static void gen_pp(uint64_t i, uint64_t* w) { const auto& X = Tab<T>::X[SET]; const auto& y = X[i % X.size()]; const auto& x = X[(i / X.size()) % X.size()]; for (int k = 0; k < 4; ++k) { w[k] = FT<T>::bits(x[k]); w[4 + k] = FT<T>::bits(y[k]); } }
template <typename T, int SET> static Domain pp() { char nm[96]; std::snprintf(nm, sizeof nm, "ROT[%zu]^2<%s>", Tab<T>::X[SET].size(), FT<T>::name()); return func(nm, (uint64_t)Tab<T>::X[SET].size() * Tab<T>::X[SET].size(), 8, gen_pp<T, SET>); }

template <typename T> static void reg(Engine& E) {
  build_tables<T>(); const std::string tn = FT<T>::name();
  std::vector<uint64_t> tv, t01; for (double t : {-2.0, -1.0, -0.5, 0.0, 1e-7, 0.25, 0.5, 0.75, 1.0 - 1e-7, 1.0, 1.5, 2.0, 3.0}) { T tt = (T)t; tv.push_back(FT<T>::bits(tt)); if (tt >= 0 && tt <= 1) t01.push_back(FT<T>::bits(tt)); }
  Domain TALL = list("t13<" + tn + ">{-2,-1,-.5,0,1e-7,.25,.5,.75,1-1e-7,1,1.5,2,3}", tv, true), T01 = list("t7<" + tn + ">{0,1e-7,.25,.5,.75,1-1e-7,1}", t01, true);
  std::vector<uint64_t> kv; for (int k = -3; k <= 3; ++k) kv.push_back((uint64_t)(int64_t)k); Domain K = list("spin{-3..3}", kv, true);
  Domain TR2 = range("translation pair 0..1", 0, 2, true), TR4 = range("translation pair 0..3", 0, 4, true);
  const std::vector<std::string> c4(CLS4, CLS4 + 4);
  auto P = [](const char* nm, std::vector<Domain> d) { return product(nm, std::move(d)); };
  { Op& op = E.add("slerp<" + tn + ">", op_sph<T, FN_SLERP>); op.classes = c4;
    op.quick = {P("pairs x t", {pairs<T, 0>(), TALL}), P("rot^2 x t", {pp<T, 0>(), TALL})}; op.thorough = {P("pairs x t", {pairs<T, 1>(), TALL}), P("rot^2 x t", {pp<T, 1>(), TALL})}; }
  { Op& op = E.add("mix<" + tn + ">", op_sph<T, FN_MIX>); op.classes = {c4[0], c4[1]};
    op.quick = {P("pairs x t", {pairs<T, 0>(), TALL}), P("rot^2 x t", {pp<T, 0>(), TALL})}; op.thorough = {P("pairs x t", {pairs<T, 1>(), TALL}), P("rot^2 x t", {pp<T, 1>(), TALL})}; }
  { Op& op = E.add("slerp+spin<" + tn + ">", op_sph<T, FN_SPIN>); op.classes = c4;
    op.quick = {P("pairs x t x k", {pairs<T, 0>(), TALL, K}), P("rot^2 x t x k", {pp<T, 0>(), TALL, K})}; op.thorough = {P("pairs x t x k", {pairs<T, 1>(), TALL, K}), P("rot^2 x t x k", {pp<T, 1>(), TALL, K})}; }
  { Op& op = E.add("lerp(quat)+compatibility lerp(vec4)<" + tn + ">", op_lerp<T>); op.classes = {"a in [0,1]", "a outside [0,1] (compatibility lerp only)"};
    op.quick = {P("pairs x t", {pairs<T, 0>(), TALL}), P("rot^2 x t", {pp<T, 0>(), TALL})}; op.thorough = {P("pairs x t", {pairs<T, 1>(), TALL}), P("rot^2 x t", {pp<T, 1>(), TALL})}; }
  { Op& op = E.add("shortMix<" + tn + ">", op_gtxmix<T, FN_SHORTMIX>); op.classes = c4;
    op.quick = {P("pairs x t01", {pairs<T, 0>(), T01}), P("rot^2 x t01", {pp<T, 0>(), T01})}; op.thorough = {P("pairs x t01", {pairs<T, 1>(), T01}), P("rot^2 x t01", {pp<T, 1>(), T01})}; }
  { Op& op = E.add("fastMix<" + tn + ">", op_gtxmix<T, FN_FASTMIX>); op.classes = {c4[0], c4[1]};
    op.quick = {P("pairs x t01", {pairs<T, 0>(), T01}), P("rot^2 x t01", {pp<T, 0>(), T01})}; op.thorough = {P("pairs x t01", {pairs<T, 1>(), T01}), P("rot^2 x t01", {pp<T, 1>(), T01})}; }
  { Op& op = E.add("dualquat lerp<" + tn + ">", op_dualquat<T>); op.classes = {"dot(real,real) >= 0", "dot(real,real) < 0 (sign flip)"};
    op.quick = {P("pairs x t01 x trans", {pairs<T, 0>(), T01, TR2}), P("rot^2 x t01 x trans", {pp<T, 0>(), T01, TR4})}; op.thorough = {P("pairs x t01 x trans", {pairs<T, 1>(), T01, TR4}), P("rot^2 x t01 x trans", {pp<T, 1>(), T01, TR4})}; }
  { Op& op = E.add("squad<" + tn + ">", op_squad<T>); op.classes = {"q1,q2 apart (trig mix)", "q1,q2 within the linear-fallback cone"};
    op.quick = {P("pairs x t01", {pairs<T, 0>(), T01}), P("rot^2 x t01", {pp<T, 0>(), T01})}; op.thorough = {P("pairs x t01", {pairs<T, 1>(), T01}), P("rot^2 x t01", {pp<T, 1>(), T01})}; }
}

int main(int argc, char** argv) {
  Engine E; E.property = "C13";
  E.kf_ids = {"KF-C13-spin-ignored-in-linear-fallback", "KF-C13-spin-acos-conditioning"};
  E.assumptions = {"reference great-circle point evaluated in x87 long double (2^-64) from the rounded inputs; inputs are unit quaternions up to 4u",
                   "mix/fastMix (oriented, no sign flip) are checked for separations <= pi - 1e-2 (float) / pi - 1e-5 (double) only",
                   "when |dot(x,y)| <= 4u either of +-y is accepted as the near end point"};
  reg<float>(E); reg<double>(E);
#ifdef C13_STATS
  std::atexit(stat_dump);
#endif
  return E.main(argc, argv);
}
