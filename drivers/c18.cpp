// C18 — power-of-two / multiple / bitfield utilities: complete 8/16-bit domains, lattices for 32/64-bit.
#define GLM_ENABLE_EXPERIMENTAL
#include <glm/glm.hpp>
#include <glm/ext/scalar_integer.hpp>
#include <glm/ext/vector_integer.hpp>
#include <glm/gtc/round.hpp>
#include <glm/gtc/bitfield.hpp>
#include <glm/gtc/integer.hpp>
#include <glm/gtc/type_precision.hpp>
#include <glm/gtx/integer.hpp>
#include <glm/gtx/bit.hpp>
#include "glmx.hpp"
#include <type_traits>
using namespace glmx;

enum { KF_ROTATE = 0, KF_POWNEG0 = 1 };

static inline uint64_t wmask(int w) { return w == 64 ? ~0ull : ((1ull << w) - 1); }
template <typename T> static inline uint64_t pat(T v) { return (uint64_t)(typename std::make_unsigned<T>::type)v; }
template <typename T> static inline T val(uint64_t p) { return (T)(typename std::make_unsigned<T>::type)p; }
template <typename T> static inline __int128 sval(uint64_t p) { return (__int128)val<T>(p); }   // mathematical value
template <typename T> static inline __int128 tmax() { return (__int128)std::numeric_limits<T>::max(); }
template <typename T> static inline __int128 tmin() { return (__int128)std::numeric_limits<T>::min(); }
static inline uint64_t lane(uint64_t x, int k, int w) {
  uint64_t m = wmask(w); x &= m;
  switch (k) { case 0: return x; case 1: return ~x & m; case 2: return ((x << 3) | (x >> (w - 3))) & m; default: return (x * 0x9E3779B97F4A7C15ull + 0x7F4A7C15ull) & m; }
}
static inline bool ispow2(__int128 v) { return v > 0 && (v & (v - 1)) == 0; }
static inline __int128 p2ceil(__int128 v) { __int128 p = 1; while (p < v) p <<= 1; return p; }
static inline __int128 p2floor(__int128 v) { __int128 p = 1; while (p * 2 <= v) p <<= 1; return p; }

// ------------------------------------------------------------- power-of-two family (domain: x > 0, result representable)
template <typename T> static void op_pow2(const Case& c, Outcome& o) {
  const int w = sizeof(T) * 8; uint64_t xp = c.w[0] & wmask(w); __int128 x = sval<T>(xp);
  if (x == 0) {   // outside the statement's value domain (counted trivial), but no precondition excludes a zero: isPowerOfTwo / prevPowerOfTwo / floorPowerOfTwo are
    // still evaluated, scalar and with zero lanes next to non-zero ones, so that an instrumented build (C20) sees what they execute for it
    T z = val<T>(xp); uint64_t acc = (uint64_t)glm::isPowerOfTwo(z) + (uint64_t)glm::prevPowerOfTwo(z) + (uint64_t)glm::floorPowerOfTwo(z);
#define P2Z(L) { glm::vec<L, T> v(z); if (L > 1) v[L - 1] = T(6); acc += (uint64_t)glm::prevPowerOfTwo(v)[0] + (uint64_t)glm::floorPowerOfTwo(v)[L - 1] + (uint64_t)glm::isPowerOfTwo(v)[0]; }
    P2Z(1) P2Z(2) P2Z(3) P2Z(4)
    o.res(acc); o.nontrivial = false; return; }
  if (x <= 0) { o.nontrivial = false; return; }
  __int128 up = p2ceil(x), dn = p2floor(x); bool p2 = ispow2(x); bool upok = up <= tmax<T>();
  o.cls(p2 ? 0 : 1);
  char m[160];
#define CHK(CLS, NAME, GOT, WANT) { __int128 g = (__int128)(GOT), wv = (WANT); o.res((uint64_t)g); o.exp((uint64_t)wv); if (g != wv) { std::snprintf(m, sizeof m, "%s: not the documented power of two", NAME); o.bad(CLS, m); return; } }
  { bool g = glm::isPowerOfTwo(val<T>(xp)); o.res(g); o.exp(p2); if (g != p2) { o.bad(1, "isPowerOfTwo"); return; } }
  CHK(2, "prevPowerOfTwo", glm::prevPowerOfTwo(val<T>(xp)), dn)
  CHK(3, "floorPowerOfTwo", glm::floorPowerOfTwo(val<T>(xp)), dn)
  CHK(4, "powerOfTwoBelow", glm::powerOfTwoBelow(val<T>(xp)), dn)
  CHK(5, "highestBitValue", glm::highestBitValue(val<T>(xp)), dn)
  { __int128 lo = x & -x; CHK(6, "lowestBitValue", glm::lowestBitValue(val<T>(xp)), lo) }
  if (upok) {
    CHK(7, "nextPowerOfTwo", glm::nextPowerOfTwo(val<T>(xp)), up)
    CHK(8, "ceilPowerOfTwo", glm::ceilPowerOfTwo(val<T>(xp)), up)
    CHK(9, "powerOfTwoAbove", glm::powerOfTwoAbove(val<T>(xp)), up)
    // nearest power of two; exact ties (x = 3*2^k) may go either way
    __int128 du = up - x, dd = x - dn;
    { __int128 g = (__int128)glm::roundPowerOfTwo(val<T>(xp)); o.res((uint64_t)g); o.exp((uint64_t)(du < dd ? up : dn)); if (!((du <= dd && g == up) || (dd <= du && g == dn))) { o.bad(10, "roundPowerOfTwo: not the nearest power of two"); return; } }
    { __int128 g = (__int128)glm::powerOfTwoNearest(val<T>(xp)); o.res((uint64_t)g); o.exp((uint64_t)(du < dd ? up : dn)); if (!((du <= dd && g == up) || (dd <= du && g == dn))) { o.bad(11, "powerOfTwoNearest: not the nearest power of two"); return; } }
  }
  // vector overloads: lanes derived from x, made positive and small enough to have representable results
#define P2V(L) { glm::vec<L, T> v; __int128 lv[4]; for (int k = 0; k < L; ++k) { uint64_t lp = lane(xp, k, w) & (wmask(w) >> 2); if (!lp) lp = 5; v[k] = val<T>(lp); lv[k] = sval<T>(lp); } \
    glm::vec<L, bool> ip = glm::isPowerOfTwo(v); glm::vec<L, T> np = glm::nextPowerOfTwo(v), pp = glm::prevPowerOfTwo(v), cp = glm::ceilPowerOfTwo(v), fp = glm::floorPowerOfTwo(v), rp = glm::roundPowerOfTwo(v); \
    for (int k = 0; k < L; ++k) { __int128 u = p2ceil(lv[k]), d = p2floor(lv[k]); \
      if (ip[k] != ispow2(lv[k]) || (__int128)np[k] != u || (__int128)pp[k] != d || (__int128)cp[k] != u || (__int128)fp[k] != d || !(((u - lv[k]) <= (lv[k] - d) && (__int128)rp[k] == u) || ((lv[k] - d) <= (u - lv[k]) && (__int128)rp[k] == d))) \
        { o.res((uint64_t)np[k], (uint64_t)pp[k]); o.exp((uint64_t)u, (uint64_t)d); o.bad(20 + L, "power-of-two vec overload: wrong component"); return; } } }
  P2V(1) P2V(2) P2V(3) P2V(4)
}

// ------------------------------------------------------------------ multiples (m >= 1, result representable)
template <typename T> static void op_multiple(const Case& c, Outcome& o) {
  const int w = sizeof(T) * 8; uint64_t xp = c.w[0] & wmask(w), mp = c.w[1] & wmask(w); __int128 x = sval<T>(xp), m = sval<T>(mp);
  if (m < 1) { o.nontrivial = false; return; }
  auto fl = [](__int128 a, __int128 b) { __int128 q = a / b; if ((a % b != 0) && (a < 0)) --q; return q * b; };
  __int128 dn = fl(x, m), up = dn == x ? x : dn + m;
  bool upok = up <= tmax<T>(), dnok = dn >= tmin<T>();
  o.cls(dn == x ? 0 : x < 0 ? 2 : 1);
  char msg[160];
#define MCHK(CLS, NAME, GOT, WANT) { __int128 g = (__int128)(GOT), wv = (WANT); o.res((uint64_t)g); o.exp((uint64_t)wv); if (g != wv) { std::snprintf(msg, sizeof msg, "%s: not the documented multiple", NAME); o.bad(CLS, msg); return; } }
  { bool g = glm::isMultiple(val<T>(xp), val<T>(mp)); o.res(g); o.exp(dn == x); if (g != (dn == x)) { o.bad(1, "isMultiple"); return; } }
  if (upok) { MCHK(2, "nextMultiple", glm::nextMultiple(val<T>(xp), val<T>(mp)), up) MCHK(3, "ceilMultiple", glm::ceilMultiple(val<T>(xp), val<T>(mp)), up) }
  if (dnok) { MCHK(4, "prevMultiple", glm::prevMultiple(val<T>(xp), val<T>(mp)), dn) MCHK(5, "floorMultiple", glm::floorMultiple(val<T>(xp), val<T>(mp)), dn) }
  if (upok && dnok) { __int128 g = (__int128)glm::roundMultiple(val<T>(xp), val<T>(mp)); __int128 du = up - x, dd = x - dn; o.res((uint64_t)g); o.exp((uint64_t)(du < dd ? up : dn));
    if (!((du <= dd && g == up) || (dd <= du && g == dn))) { o.bad(6, "roundMultiple: not the nearest multiple"); return; } }
  // vector overloads (vec,vec) and (vec,scalar); lanes kept small so results are representable
#define MV(L) { glm::vec<L, T> v, mv; __int128 lv[4], lm[4]; for (int k = 0; k < L; ++k) { uint64_t lp = lane(xp, k, w); __int128 sv = sval<T>(lp) / 4; __int128 mm = ((sval<T>(lane(mp, k, w)) % 61) + 61) % 61 + 1; if (k == 0) mm = m > tmax<T>() / 4 ? 1 : m; \
      v[k] = (T)sv; mv[k] = (T)mm; lv[k] = sv; lm[k] = mm; } \
    glm::vec<L, bool> im = glm::isMultiple(v, mv), ims = glm::isMultiple(v, mv[0]); glm::vec<L, T> nm = glm::nextMultiple(v, mv), pm = glm::prevMultiple(v, mv), nms = glm::nextMultiple(v, mv[0]), pms = glm::prevMultiple(v, mv[0]), cm = glm::ceilMultiple(v, mv), fm = glm::floorMultiple(v, mv); \
    for (int k = 0; k < L; ++k) { __int128 d = fl(lv[k], lm[k]), u = d == lv[k] ? d : d + lm[k], d0 = fl(lv[k], lm[0]), u0 = d0 == lv[k] ? d0 : d0 + lm[0]; \
      bool ok = im[k] == (d == lv[k]) && ims[k] == (d0 == lv[k]); \
      if (u <= tmax<T>()) ok = ok && (__int128)nm[k] == u && (__int128)cm[k] == u; if (u0 <= tmax<T>()) ok = ok && (__int128)nms[k] == u0; \
      if (d >= tmin<T>()) ok = ok && (__int128)pm[k] == d && (__int128)fm[k] == d; if (d0 >= tmin<T>()) ok = ok && (__int128)pms[k] == d0; \
      if (!ok) { o.res((uint64_t)nm[k], (uint64_t)pm[k]); o.exp((uint64_t)u, (uint64_t)d); o.bad(20 + L, "multiple vec overload: wrong component"); return; } } }
  MV(1) MV(2) MV(3) MV(4)
}
// floating forms: x = k/4, m in a small exactly representable set; all arithmetic exact
template <typename F> static void op_fmultiple(const Case& c, Outcome& o) {
  int k = (int)(int64_t)c.w[0] - 200; const double ms[] = {0.25, 0.5, 1, 1.5, 2, 3, 4, 8, 0.75};
  double m = ms[c.w[1]]; double x = k / 4.0;
  double dn = std::floor(x / m) * m, up = std::ceil(x / m) * m;
  o.cls(dn == x ? 0 : x < 0 ? 2 : 1);
  F gc = glm::ceilMultiple((F)x, (F)m), gf = glm::floorMultiple((F)x, (F)m), gr = glm::roundMultiple((F)x, (F)m);
  o.res(b64(gc), b64(gf)); o.exp(b64(up), b64(dn));
  if ((double)gc != up) { o.bad(1, "ceilMultiple(float): not the smallest multiple >= x"); return; }
  if ((double)gf != dn) { o.bad(2, "floorMultiple(float): not the largest multiple <= x"); return; }
  double du = up - x, dd = x - dn; o.res(b64(gr)); o.exp(b64(du < dd ? up : dn));
  if (!((du <= dd && (double)gr == up) || (dd <= du && (double)gr == dn))) { o.bad(3, "roundMultiple(float): not the nearest multiple"); return; }
  glm::vec<3, F> vc = glm::ceilMultiple(glm::vec<3, F>((F)x, (F)(x + 0.25), (F)-x), glm::vec<3, F>((F)m)), vf = glm::floorMultiple(glm::vec<3, F>((F)x, (F)(x + 0.25), (F)-x), glm::vec<3, F>((F)m));
  const double xs[3] = {x, x + 0.25, -x};
  for (int i = 0; i < 3; ++i) if ((double)vc[i] != std::ceil(xs[i] / m) * m || (double)vf[i] != std::floor(xs[i] / m) * m) { o.res(b64(vc[i]), b64(vf[i])); o.exp(b64(std::ceil(xs[i] / m) * m), b64(std::floor(xs[i] / m) * m)); o.bad(4, "ceil/floorMultiple(float) vec overload"); return; }
}

// ------------------------------------------------------------------------------------------------ findNSB
template <typename T> static void op_findNSB(const Case& c, Outcome& o) {
  const int w = sizeof(T) * 8; uint64_t xp = c.w[0] & wmask(w); int n = (int)c.w[1];
  auto ref = [&](uint64_t p, int nn) { int cnt = 0; for (int i = 0; i < w; ++i) if ((p >> i) & 1) { if (++cnt == nn) return i; } return -1; };
  int want = ref(xp, n), got = glm::findNSB(val<T>(xp), n); o.res((uint64_t)(int64_t)got); o.exp((uint64_t)(int64_t)want);
  o.cls(want < 0 ? 0 : (std::is_signed<T>::value && (xp >> (w - 1))) ? 2 : 1);
  if (got != want) { o.bad(1, "findNSB: not the position of the n-th set bit"); return; }
#define NSBV(L) { glm::vec<L, T> v; glm::vec<L, int> nv; for (int k = 0; k < L; ++k) { v[k] = val<T>(lane(xp, k, w)); nv[k] = 1 + (n + k * 3) % (w + 1); } glm::vec<L, int> r = glm::findNSB(v, nv); \
    for (int k = 0; k < L; ++k) if (r[k] != ref(lane(xp, k, w), nv[k])) { o.res((uint64_t)(int64_t)r[k], k); o.exp((uint64_t)(int64_t)ref(lane(xp, k, w), nv[k])); o.bad(20 + L, "findNSB vec overload: wrong component"); return; } }
  NSBV(1) NSBV(2) NSBV(3) NSBV(4)
}

// ------------------------------------------------------------------------------- mask / fill / rotate
template <typename T> static void op_mask(const Case& c, Outcome& o) {
  const int w = sizeof(T) * 8; int n = (int)c.w[0]; uint64_t want = wmask(n) & wmask(w); if (n == 0) want = 0;
  uint64_t got = pat(glm::mask(val<T>((uint64_t)n))); o.res(got); o.exp(want); o.cls(n == 0 ? 0 : n == w ? 1 : 2);
  if (got != want) { o.bad(1, "mask(n): not n low bits set"); return; }
  glm::vec<4, T> r = glm::mask(glm::vec<4, T>((T)n, (T)((n + 1) % (w + 1)), (T)0, (T)w));
  const int ns[4] = {n, (n + 1) % (w + 1), 0, w};
  for (int k = 0; k < 4; ++k) { uint64_t wk = ns[k] == 0 ? 0 : (wmask(ns[k]) & wmask(w)); if (pat(r[k]) != wk) { o.res(pat(r[k]), k); o.exp(wk); o.bad(2, "mask vec overload"); return; } }
}
template <typename T> static void op_fill(const Case& c, Outcome& o) {
  const int w = sizeof(T) * 8; uint64_t xp = c.w[0] & wmask(w); int first = (int)(c.w[1] / 128), cnt = (int)(c.w[1] % 128);
  if (first >= w) { o.nontrivial = false; return; }   // FirstBit must name an existing bit (first == width only pairs with count 0 and is not a bit position)
  uint64_t f = cnt == 0 ? 0 : ((wmask(cnt) << first) & wmask(w));
  uint64_t g1 = pat(glm::bitfieldFillOne(val<T>(xp), first, cnt)), g0 = pat(glm::bitfieldFillZero(val<T>(xp), first, cnt));
  o.res(g1, g0); o.exp(xp | f, xp & ~f); o.cls(cnt == 0 ? 0 : cnt == w ? 1 : 2);
  if (g1 != (xp | f)) { o.bad(1, "bitfieldFillOne: wrong bit pattern"); return; }
  if (g0 != (xp & ~f)) { o.bad(2, "bitfieldFillZero: wrong bit pattern"); return; }
  glm::vec<3, T> v(val<T>(lane(xp, 0, w)), val<T>(lane(xp, 1, w)), val<T>(lane(xp, 2, w))); glm::vec<3, T> r1 = glm::bitfieldFillOne(v, first, cnt), r0 = glm::bitfieldFillZero(v, first, cnt);
  for (int k = 0; k < 3; ++k) if (pat(r1[k]) != (lane(xp, k, w) | f) || pat(r0[k]) != (lane(xp, k, w) & ~f)) { o.res(pat(r1[k]), pat(r0[k])); o.exp(lane(xp, k, w) | f, lane(xp, k, w) & ~f); o.bad(3, "bitfieldFill vec overload"); return; }
}
// legacy model of the recorded rotate defect: the bodies of Left and Right are exchanged
template <typename T> static uint64_t legacy_rot(uint64_t xp, int s, bool right_named) {
  const int w = sizeof(T) * 8; xp &= wmask(w); if (s == 0) return xp;
  return right_named ? (((xp << s) | (xp >> (w - s))) & wmask(w)) : (((xp >> s) | (xp << (w - s))) & wmask(w));   // the function named Right rotates left and vice versa
}
template <typename T> static void op_rotate(const Case& c, Outcome& o) {
  const int w = sizeof(T) * 8; uint64_t xp = c.w[0] & wmask(w); int s = (int)c.w[1];
  uint64_t wl = ((xp << s) | (s ? xp >> (w - s) : 0)) & wmask(w), wr = ((xp >> s) | (s ? xp << (w - s) : 0)) & wmask(w);
  uint64_t gl = pat(glm::bitfieldRotateLeft(val<T>(xp), s)), gr = pat(glm::bitfieldRotateRight(val<T>(xp), s));
  o.res(gl, gr); o.exp(wl, wr); o.cls(s == 0 ? 0 : 1);
  if (gl != wl || gr != wr) {
    if ((gl == wl || gl == legacy_rot<T>(xp, s, false)) && (gr == wr || gr == legacy_rot<T>(xp, s, true))) o.kf = KF_ROTATE;
    o.bad(1, "bitfieldRotateLeft/Right: not the rotation in the named direction"); return; }
  glm::vec<3, T> v(val<T>(lane(xp, 0, w)), val<T>(lane(xp, 1, w)), val<T>(lane(xp, 2, w))); glm::vec<3, T> rl = glm::bitfieldRotateLeft(v, s), rr = glm::bitfieldRotateRight(v, s);
  for (int k = 0; k < 3; ++k) { uint64_t l = lane(xp, k, w); uint64_t el = ((l << s) | (s ? l >> (w - s) : 0)) & wmask(w), er = ((l >> s) | (s ? l << (w - s) : 0)) & wmask(w);
    if (pat(rl[k]) != el || pat(rr[k]) != er) { o.res(pat(rl[k]), pat(rr[k])); o.exp(el, er);
      if ((pat(rl[k]) == el || pat(rl[k]) == legacy_rot<T>(l, s, false)) && (pat(rr[k]) == er || pat(rr[k]) == legacy_rot<T>(l, s, true))) o.kf = KF_ROTATE;
      o.bad(2, "bitfieldRotateLeft/Right vec overload"); return; } }
}

// ------------------------------------------------------------------------------- interleave / deinterleave
static uint64_t ref_interleave(const uint64_t* a, int n, int w, int rw) { uint64_t r = 0; for (int i = 0; i < w; ++i) for (int k = 0; k < n; ++k) if (n * i + k < rw && ((a[k] >> i) & 1)) r |= 1ull << (n * i + k); return r; }
static void op_il2_8(const Case& c, Outcome& o) {
  uint64_t a[2] = {c.w[0] & 0xff, c.w[0] >> 8 & 0xff}; uint64_t want = ref_interleave(a, 2, 8, 16);
  uint64_t g = glm::bitfieldInterleave((glm::uint8)a[0], (glm::uint8)a[1]); o.res(g); o.exp(want); o.cls(0);
  if (g != want) { o.bad(1, "bitfieldInterleave(u8,u8)"); return; }
  if ((uint16_t)glm::bitfieldInterleave((glm::int8)a[0], (glm::int8)a[1]) != want) { o.bad(2, "bitfieldInterleave(i8,i8)"); return; }
  if (glm::bitfieldInterleave(glm::u8vec2(a[0], a[1])) != want) { o.bad(3, "bitfieldInterleave(u8vec2)"); return; }
  glm::u8vec2 d = glm::bitfieldDeinterleave((glm::uint16)want); if (d.x != a[0] || d.y != a[1]) { o.res(d.x, d.y); o.exp(a[0], a[1]); o.bad(4, "bitfieldDeinterleave(u16) does not invert bitfieldInterleave"); return; }
}
static void op_il2_16(const Case& c, Outcome& o) {
  uint64_t a[2] = {c.w[0] & 0xffff, c.w[0] >> 16 & 0xffff}; uint64_t want = ref_interleave(a, 2, 16, 32);
  uint64_t g = glm::bitfieldInterleave((glm::uint16)a[0], (glm::uint16)a[1]); o.res(g); o.exp(want); o.cls(0);
  if (g != want) { o.bad(1, "bitfieldInterleave(u16,u16)"); return; }
  if ((uint32_t)glm::bitfieldInterleave((glm::int16)a[0], (glm::int16)a[1]) != want) { o.bad(2, "bitfieldInterleave(i16,i16)"); return; }
  if (glm::bitfieldInterleave(glm::u16vec2(a[0], a[1])) != want) { o.bad(3, "bitfieldInterleave(u16vec2)"); return; }
  glm::u16vec2 d = glm::bitfieldDeinterleave((glm::uint32)want); if (d.x != a[0] || d.y != a[1]) { o.res(d.x, d.y); o.exp(a[0], a[1]); o.bad(4, "bitfieldDeinterleave(u32) does not invert bitfieldInterleave"); return; }
}
static void op_il2_32(const Case& c, Outcome& o) {
  uint64_t a[2] = {c.w[0] & 0xffffffffu, c.w[1] & 0xffffffffu}; uint64_t want = ref_interleave(a, 2, 32, 64);
  uint64_t g = glm::bitfieldInterleave((glm::uint32)a[0], (glm::uint32)a[1]); o.res(g); o.exp(want); o.cls(0);
  if (g != want) { o.bad(1, "bitfieldInterleave(u32,u32)"); return; }
  if ((uint64_t)glm::bitfieldInterleave((glm::int32)a[0], (glm::int32)a[1]) != want) { o.bad(2, "bitfieldInterleave(i32,i32)"); return; }
  if (glm::bitfieldInterleave(glm::u32vec2(a[0], a[1])) != want) { o.bad(3, "bitfieldInterleave(u32vec2)"); return; }
  glm::u32vec2 d = glm::bitfieldDeinterleave((glm::uint64)want); if (d.x != a[0] || d.y != a[1]) { o.res(d.x, d.y); o.exp(a[0], a[1]); o.bad(4, "bitfieldDeinterleave(u64) does not invert bitfieldInterleave"); return; }
}
static void op_il3(const Case& c, Outcome& o) {
  o.cls(0);
  { uint64_t a[3] = {c.w[0] & 0xff, c.w[1] & 0xff, c.w[2] & 0xff}; uint64_t want = ref_interleave(a, 3, 8, 32);
    uint64_t g = glm::bitfieldInterleave((glm::uint8)a[0], (glm::uint8)a[1], (glm::uint8)a[2]); o.res(g); o.exp(want);
    if (g != want) { o.bad(1, "bitfieldInterleave(u8 x3)"); return; }
    if ((uint32_t)glm::bitfieldInterleave((glm::int8)a[0], (glm::int8)a[1], (glm::int8)a[2]) != want) { o.bad(2, "bitfieldInterleave(i8 x3)"); return; }
    if (glm::bitfieldInterleave(glm::u8vec3(a[0], a[1], a[2])) != want) { o.bad(3, "bitfieldInterleave(u8vec3)"); return; } }
  { uint64_t a[3] = {c.w[0] & 0xffff, c.w[1] & 0xffff, c.w[2] & 0xffff}; uint64_t want = ref_interleave(a, 3, 16, 64);
    uint64_t g = glm::bitfieldInterleave((glm::uint16)a[0], (glm::uint16)a[1], (glm::uint16)a[2]); o.res(g); o.exp(want);
    if (g != want) { o.bad(4, "bitfieldInterleave(u16 x3)"); return; }
    if ((uint64_t)glm::bitfieldInterleave((glm::int16)a[0], (glm::int16)a[1], (glm::int16)a[2]) != want) { o.bad(5, "bitfieldInterleave(i16 x3)"); return; }
    if (glm::bitfieldInterleave(glm::u16vec3(a[0], a[1], a[2])) != want) { o.bad(6, "bitfieldInterleave(u16vec3)"); return; } }
  { uint64_t a[3] = {c.w[0] & 0x1fffff, c.w[1] & 0x1fffff, c.w[2] & 0x1fffff}; uint64_t want = ref_interleave(a, 3, 21, 64);   // 3 x 21 bits fit in 64
    uint64_t g = glm::bitfieldInterleave((glm::uint32)a[0], (glm::uint32)a[1], (glm::uint32)a[2]); o.res(g); o.exp(want);
    if (g != want) { o.bad(7, "bitfieldInterleave(u32 x3) on 21-bit operands"); return; }
    if ((uint64_t)glm::bitfieldInterleave((glm::int32)a[0], (glm::int32)a[1], (glm::int32)a[2]) != want) { o.bad(8, "bitfieldInterleave(i32 x3)"); return; }
    if (glm::bitfieldInterleave(glm::u32vec3(a[0], a[1], a[2])) != want) { o.bad(9, "bitfieldInterleave(u32vec3)"); return; } }
}
static void op_il4(const Case& c, Outcome& o) {
  o.cls(0);
  { uint64_t a[4] = {c.w[0] & 0xff, c.w[1] & 0xff, c.w[2] & 0xff, c.w[3] & 0xff}; uint64_t want = ref_interleave(a, 4, 8, 32);
    uint64_t g = glm::bitfieldInterleave((glm::uint8)a[0], (glm::uint8)a[1], (glm::uint8)a[2], (glm::uint8)a[3]); o.res(g); o.exp(want);
    if (g != want) { o.bad(1, "bitfieldInterleave(u8 x4)"); return; }
    if ((uint32_t)glm::bitfieldInterleave((glm::int8)a[0], (glm::int8)a[1], (glm::int8)a[2], (glm::int8)a[3]) != want) { o.bad(2, "bitfieldInterleave(i8 x4)"); return; }
    if (glm::bitfieldInterleave(glm::u8vec4(a[0], a[1], a[2], a[3])) != want) { o.bad(3, "bitfieldInterleave(u8vec4)"); return; } }
  { uint64_t a[4] = {c.w[0] & 0xffff, c.w[1] & 0xffff, c.w[2] & 0xffff, c.w[3] & 0xffff}; uint64_t want = ref_interleave(a, 4, 16, 64);
    uint64_t g = glm::bitfieldInterleave((glm::uint16)a[0], (glm::uint16)a[1], (glm::uint16)a[2], (glm::uint16)a[3]); o.res(g); o.exp(want);
    if (g != want) { o.bad(4, "bitfieldInterleave(u16 x4)"); return; }
    if ((uint64_t)glm::bitfieldInterleave((glm::int16)a[0], (glm::int16)a[1], (glm::int16)a[2], (glm::int16)a[3]) != want) { o.bad(5, "bitfieldInterleave(i16 x4)"); return; }
    if (glm::bitfieldInterleave(glm::u16vec4(a[0], a[1], a[2], a[3])) != want) { o.bad(6, "bitfieldInterleave(u16vec4)"); return; } }
}

// ------------------------------------------------------------------ gtc/gtx integer maths (exact mathematical values)
static void op_gtxint(const Case& c, Outcome& o) {
  uint32_t xp = (uint32_t)c.w[0]; int x = (int)xp; o.cls(x < 0 ? 1 : 0);
  // sqrt: floor(sqrt(x)) for x >= 0
  if (x >= 0) { int g = glm::sqrt(x); int64_t r = (int64_t)std::sqrt((double)x); while (r * r > x) --r; while ((r + 1) * (r + 1) <= x) ++r; o.res((uint32_t)g); o.exp((uint64_t)r); if (g != r) { o.bad(1, "gtx sqrt(int): not floor(sqrt(x))"); return; } }
  { glm::uint g = glm::sqrt((glm::uint)xp); int64_t r = (int64_t)std::sqrt((double)xp); while (r * r > (int64_t)xp) --r; while ((r + 1) * (r + 1) <= (int64_t)xp) ++r; o.res(g); o.exp((uint64_t)r); if (g != (glm::uint)r) { o.bad(2, "gtx sqrt(uint): not floor(sqrt(x))"); return; } }
  // integer log2 (gtc/integer, vector form) = floor(log2 x) for x > 0; nlz
  if (x > 0) { glm::ivec2 l = glm::log2(glm::ivec2(x, (x >> 3) | 1)); int e0 = 31 - __builtin_clz(xp), e1 = 31 - __builtin_clz((xp >> 3) | 1); o.res((uint32_t)l.x, (uint32_t)l.y); o.exp(e0, e1); if (l.x != e0 || l.y != e1) { o.bad(3, "gtc log2(ivec): not floor(log2 x)"); return; } }
  if (xp) { glm::uint g = glm::nlz((glm::uint)xp); o.res(g); o.exp(__builtin_clz(xp)); if (g != (glm::uint)__builtin_clz(xp)) { o.bad(4, "gtx nlz"); return; } }
}
static void op_gtxpowmod(const Case& c, Outcome& o) {
  int x = (int)(int64_t)c.w[0] - 40; glm::uint y = (glm::uint)c.w[1]; o.cls(x < 0 ? 1 : 0);
  // pow: exact when representable
  __int128 p = 1; bool fits = true; for (glm::uint i = 0; i < y; ++i) { p *= x; if (p > 2147483647 || p < -(__int128)2147483648ll) { fits = false; break; } }
  if (fits) { int g = glm::pow(x, y); o.res((uint32_t)g); o.exp((uint64_t)(int64_t)p); if (g != (int)p) { if (x < 0 && y == 0 && g == -1) o.kf = KF_POWNEG0; o.bad(1, "gtx pow(int,uint): not x^y"); if (o.kf < 0) return; o.fail = true; return; } }
  if (x >= 0) { __int128 q = 1; bool f2 = true; for (glm::uint i = 0; i < y; ++i) { q *= x; if (q > 4294967295ll) { f2 = false; break; } } if (f2) { glm::uint g = glm::pow((glm::uint)x, y); o.res(g); o.exp((uint64_t)q); if (g != (glm::uint)q) { o.bad(2, "gtx pow(uint,uint): not x^y"); return; } } }
  // mod: mathematical (non-negative) remainder for y > 0
  if (y > 0 && y < 100000) { int g = glm::mod(x, (int)y); int r = ((x % (int)y) + (int)y) % (int)y; o.res((uint32_t)g); o.exp((uint32_t)r); if (g != r) { o.bad(3, "gtx mod(int,int)"); return; }
    // negative divisor: x - y*floor(x/y), the result has the sign of y (documented as 'Modulus. Returns x - y * floor(x / y)')
    if (x > -1000000 && x < 1000000) { const int ny = -(int)y; long long q = (long long)x / ny; if ((long long)x % ny != 0 && ((x < 0) != (ny < 0))) --q; int want = (int)((long long)x - (long long)ny * q); int gn = glm::mod(x, ny);
      if (gn != want) { o.res((uint32_t)gn); o.exp((uint32_t)want); o.bad(7, "gtx mod(int,int) with a negative divisor is not x - y*floor(x/y)"); return; } }
    if (x >= 0) { glm::uint gu = glm::mod((glm::uint)x, y); if (gu != (glm::uint)x % y) { o.res(gu); o.exp((glm::uint)x % y); o.bad(4, "gtx mod(uint,uint)"); return; } } }
  // factorial up to 12
  if (x >= 0 && x <= 12 && y == 0) { int64_t f = 1; for (int i = 2; i <= x; ++i) f *= i; int g = glm::factorial(x); o.res((uint32_t)g); o.exp((uint64_t)f); if (g != f) { o.bad(5, "gtx factorial"); return; }
    glm::ivec3 v = glm::factorial(glm::ivec3(x, (x + 5) % 13, (x + 9) % 13)); int64_t f1 = 1, f2 = 1; for (int i = 2; i <= (x + 5) % 13; ++i) f1 *= i; for (int i = 2; i <= (x + 9) % 13; ++i) f2 *= i;
    if (v.x != f || v.y != f1 || v.z != f2) { o.bad(6, "gtx factorial vec overload"); return; } }
}

template <typename T> static void reg(Engine& E, const char* tn) {
  const int w = sizeof(T) * 8; std::string t = tn; const bool sg = std::is_signed<T>::value;
  Domain all = w <= 16 ? INT_ALL(w) : INT_EDGE(w);
  { Op& op = E.add("pow2-family<" + t + ">", op_pow2<T>); op.quick = {all}; op.classes = {"power-of-two", "other"}; op.note = "domain x > 0 (non-positive inputs are skipped and counted as trivial)"; }
  { std::vector<uint64_t> ms; int mmax = w == 8 ? (sg ? 127 : 255) : 0;
    if (mmax) for (int m = 1; m <= mmax; ++m) ms.push_back(m);
    else { for (uint64_t m : {1, 2, 3, 4, 5, 6, 7, 8, 9, 10, 12, 15, 16, 17, 31, 32, 33, 60, 64, 100, 127, 128, 129, 255, 256, 257, 1000, 1023, 1024, 4096, 32767}) ms.push_back(m); if (w >= 32) for (uint64_t m : {65535ull, 65536ull, 65537ull, 1000000ull, 2147483647ull}) ms.push_back(m); if (w == 64) for (uint64_t m : {4294967296ull, 4294967297ull, 1ull << 40, 1000000000000ull}) ms.push_back(m); }
    Domain md = list("MULTIPLES" + std::to_string(w), ms, w == 8);
    Op& op = E.add("multiples<" + t + ">", op_multiple<T>); op.quick = {product(all.name + " x " + md.name, {all, md})}; op.classes = {"already-multiple", "positive-non-multiple"}; if (sg) op.classes.push_back("negative-non-multiple"); }
  { Domain ns = range("N(1..w+1)", 1, w + 1, true);
    Op& op = E.add("findNSB<" + t + ">", op_findNSB<T>); op.quick = {product(all.name + " x N", {all, ns})}; op.classes = {"fewer-than-n-bits", "found"}; if (sg) op.classes.push_back("found-in-negative"); }
  { Op& op = E.add("mask<" + t + ">", op_mask<T>); op.quick = {range("COUNT(0..w)", 0, w + 1, true)}; op.classes = {"0", "width", "other"}; }
  { Op& op = E.add("bitfieldFillOne/Zero<" + t + ">", op_fill<T>); Domain vals = w <= 8 ? all : list("INT" + std::to_string(w) + "_PAT", {0, wmask(w), 0x5555555555555555ull & wmask(w), 0x0123456789ABCDEFull & wmask(w), 1ull << (w - 1), 1});
    op.quick = {product(vals.name + " x OFFBITS", {vals, OFFBITS(w)})}; op.classes = {"count=0", "count=width", "other"}; }
  { Op& op = E.add("bitfieldRotate<" + t + ">", op_rotate<T>); op.quick = {product(all.name + " x SHIFT(0..w-1)", {all, range("SHIFT", 0, w, true)})}; op.classes = {"shift=0", "shift>0"}; }
}

#if GLM_ARCH & GLM_ARCH_SSE2_BIT
// the raw SSE2 kernels of glm/simd/integer.h (anchor file): 32-bit x and y in the low 64-bit lanes (interleave2) or in the two lanes of one register (interleave);
// the low 64 bits of the result hold bit i of x at 2i and bit i of y at 2i+1
static void op_simd_interleave(const Case& c, Outcome& o) {
  uint32_t x = (uint32_t)c.w[0], y = (uint32_t)c.w[1]; uint64_t want = 0; for (int i = 0; i < 32; ++i) { want |= (uint64_t)((x >> i) & 1) << (2 * i); want |= (uint64_t)((y >> i) & 1) << (2 * i + 1); }
  uint64_t g2 = (uint64_t)_mm_cvtsi128_si64(glm_i128_interleave2(_mm_set_epi64x(0, x), _mm_set_epi64x(0, y))), g1 = (uint64_t)_mm_cvtsi128_si64(glm_i128_interleave(_mm_set_epi64x(y, x)));
  o.cls((x | y) >> 16 ? 1 : 0); o.res(g2, g1); o.exp(want, want);
  if (g2 != want) { o.bad(1, "glm_i128_interleave2(x, y): low 64 bits are not the bit interleave of x and y"); return; }
  if (g1 != want) { o.bad(2, "glm_i128_interleave(x | y << 64): low 64 bits are not the bit interleave of x and y"); return; }
}
#endif

int main(int argc, char** argv) {
  Engine E; E.property = "C18"; E.kf_ids = {"KF-C18-rotate-swapped", "KF-C18-pow-neg-zero"};
  E.assumptions = {"reference = loop-based definitions (nearest power of two / multiple in the named direction, n-th set bit, bit i of operand k at n*i+k) in 128-bit arithmetic"};
  reg<glm::int8>(E, "i8"); reg<glm::uint8>(E, "u8"); reg<glm::int16>(E, "i16"); reg<glm::uint16>(E, "u16");
  reg<glm::int32>(E, "i32"); reg<glm::uint32>(E, "u32"); reg<glm::int64>(E, "i64"); reg<glm::uint64>(E, "u64");
  { Op& op = E.add("ceil/floor/roundMultiple<float>", op_fmultiple<float>); op.quick = {product("x=k/4,k=-200..200 x 9 multiples", {range("K", 0, 401, true), range("M", 0, 9, true)})}; op.classes = {"already-multiple", "positive-non-multiple", "negative-non-multiple"}; }
  { Op& op = E.add("ceil/floor/roundMultiple<double>", op_fmultiple<double>); op.quick = {product("x=k/4,k=-200..200 x 9 multiples", {range("K", 0, 401, true), range("M", 0, 9, true)})}; op.classes = {"already-multiple", "positive-non-multiple", "negative-non-multiple"}; }
#if GLM_ARCH & GLM_ARCH_SSE2_BIT
  { Op& op = E.add("SSE2 kernels glm_i128_interleave / glm_i128_interleave2 (glm/simd/integer.h)", op_simd_interleave); Domain e32 = INT_EDGE(32); op.quick = {product("INT32_EDGE^2", {e32, e32})}; op.classes = {"both below 2^16", "a bit at or above 2^16"}; }
#endif
  { Op& op = E.add("bitfieldInterleave/Deinterleave 2x8", op_il2_8); op.quick = {range("ALL 2^16 (x,y) pairs", 0, 1ull << 16, true)}; }
  { Op& op = E.add("bitfieldInterleave/Deinterleave 2x16", op_il2_16); Domain e16 = INT_EDGE(16);
    std::vector<uint64_t> pr; for (uint64_t a : *e16.list) for (uint64_t b : *e16.list) pr.push_back(a | (b << 16));
    op.quick = {list("INT16_EDGE^2 pairs", pr)}; op.thorough = {range("ALL 2^32 (x,y) pairs", 0, 1ull << 32, true)}; }
  { Op& op = E.add("bitfieldInterleave/Deinterleave 2x32", op_il2_32); Domain e32 = INT_EDGE(32); op.quick = {product("INT32_EDGE^2", {e32, e32})}; }
  { std::vector<uint64_t> s3 = {0, 0xffffffffu, 1, 0x80000000u, 0x55555555u, 0xAAAAAAAAu, 0x01234567u, 0x89ABCDEFu, 0x00ff00ffu, 0x0000ffffu, 0x00100000u, 0x001fffffu, 0x8000u, 0x80u, 0x7fu, 0xfedcba98u};
    for (int i = 0; i < 32; ++i) s3.push_back(1u << i);
    Domain d3 = list("PAT32(48 patterns incl. every single bit)", s3);
    Op& op = E.add("bitfieldInterleave 3 operands (u8/u16/u32, signed, vec3)", op_il3); op.quick = {product("PAT32^3", {d3, d3, d3})};
    Domain a8 = range("U8_ALL", 0, 256, true); op.thorough = {product("PAT32^3", {d3, d3, d3}), product("U8_ALL^3", {a8, a8, a8})};
    Op& op4 = E.add("bitfieldInterleave 4 operands (u8/u16, signed, vec4)", op_il4); Domain d4 = list("PAT32_small", std::vector<uint64_t>(s3.begin(), s3.begin() + 32)); op4.quick = {product("PAT^4", {d4, d4, d4, d4})};
    op4.thorough = {product("PAT32^4", {d3, d3, d3, d3})}; }
  { Op& op = E.add("gtx sqrt/nlz, gtc log2 (int)", op_gtxint); op.quick = {INT_EDGE(32), range("0..2^20", 0, 1ull << 20, false)}; op.thorough = {range("INT32_ALL", 0, 1ull << 32, true)}; op.classes = {"non-negative", "negative"}; }
  { Op& op = E.add("gtx pow/mod/factorial", op_gtxpowmod); op.quick = {product("x=-40..60 x y=0..40", {range("X", 0, 101, true), range("Y", 0, 41, true)})}; op.classes = {"x>=0", "x<0"}; }
  return E.main(argc, argv);
}
