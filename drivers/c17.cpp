// C17 — swizzles and constructors select and place exactly the named components.
//
// The quantifier of this property is over *programs*: every swizzle name (2-, 3-, 4-letter words over xyzw / rgba /
// stpq, valid for source lengths 2..4) in the three implementations (member functions, operator/union proxies, gtx
// free functions), every write through a duplicate-free operator swizzle, and every vector / matrix / quaternion
// constructor signature.  The alphabet is generated inside this TU: nested X-macros enumerate the 3 x 336 names (the
// index tuple is derived from the *position of each letter in its letter set*, never from GLM), templates enumerate
// the constructor signatures from the declared overload shapes.
//
// Build configurations (the same source; which swizzle implementation exists is GLM's own decision, read back in the evidence):
//   default                                              : free functions, vector / matrix / quaternion constructors, shape conversions (packed qualifiers)
//   -DGLM_FORCE_SWIZZLE                                  : the same + member-function swizzles
//   -DGLM_FORCE_INTRINSICS -msse2                        : the same as default + aligned qualifiers (SIMD constructor specialisations)
//   -DGLM_FORCE_SWIZZLE -DGLM_FORCE_INTRINSICS -msse2    : operator swizzles only - reads through the proxy -> vec conversion, write sequences,
//                                                          swizzle constructors, packed and aligned (g++ needs 20-45 ms per vec temporary in this
//                                                          mode, clang++ does not: prefer clang++ for this configuration; both work)
// Parts: -DGLMX_PART=k, k = 0..18, compile in parallel (table at the registration in main); without GLMX_PART everything is in one binary.
//
// Feature macros for families that do not compile on the tree this driver was written against.  While a macro is absent the family is left
// out of the build and the op "accessor / constructor families excluded ..." reports it as a violation; give the macro once the tree is repaired:
//   -DC17_HAVE_ALIGNED_UVEC2_SWIZZLE   2-letter operator swizzles of aligned uint vectors (type_vec_simd.inl: _swizzle_base1<L,uint,Q,..,true> assigns __m128i to an 8-byte storage)
//   -DC17_HAVE_VEC4_SSSV1              vec4(scalar, scalar, scalar, vec1): the only one of the 16 scalar/vec1 mixes that is not declared (type_vec4.hpp);
//                                      the generic template takes it and static_casts a vec1 (ill-formed)
//   -DC17_HAVE_ALIGNED_VEC2_3LETTER    3-letter operator swizzles of aligned float/int/uint vec2 (_MM_SHUFFLE with E3 = -1: g++ accepts the immediate,
//                                      clang does not; included by default under g++, excluded under clang)
// Families that are detected at compile time by SFINAE (no macro needed) and reported at run time: proxies without a value conversion
// (3-letter swizzles of packed vec2, all swizzles of aligned vectors whose element type is not float/int/uint), duplicate-free proxies
// without operator= (3-letter swizzles of vec4 that name w), free functions without a viable overload (xyzz(vec4)).
#define GLM_ENABLE_EXPERIMENTAL
#include <glm/glm.hpp>
#include <glm/gtc/quaternion.hpp>
#include <glm/gtc/type_precision.hpp>
#include <glm/gtx/vec_swizzle.hpp>
#include "glmx.hpp"
#include <csetjmp>
#include <csignal>
#include <string>
#include <type_traits>
#include <utility>
using namespace glmx;

#if defined(GLMX_PART)
#define PART(k) (GLMX_PART == (k))
#else
#define PART(k) 1
#endif
#define C17_OPER (GLM_CONFIG_SWIZZLE == GLM_SWIZZLE_OPERATOR)
#define C17_FUNC (GLM_CONFIG_SWIZZLE == GLM_SWIZZLE_FUNCTION)
#define C17_ALIGNED (GLM_CONFIG_ALIGNED_GENTYPES == GLM_ENABLE)
#if !defined(C17_HAVE_ALIGNED_VEC2_3LETTER) && !defined(__clang__)
#define C17_HAVE_ALIGNED_VEC2_3LETTER 1
#endif

#ifdef C17_HAVE_VEC4_SSSV1
#define C17_VEC4_SSSV1 1
#else
#define C17_VEC4_SSSV1 0
#endif

enum { KF_SAME_SWIZZLE_ASSIGN = 0, KF_VEC4_3LETTER_W_NOT_WRITABLE, KF_VEC2_3LETTER_NO_CONVERSION, KF_ALIGNED_OTHER_NO_CONVERSION, KF_FREE_XYZZ_VEC4_MISSING, KF_ALIGNED_UVEC2, KF_ALIGNED_VEC2_3LETTER, KF_VEC4_SSSV1, KF_ALIGNED_VEC2_WIDE_LOAD };

// =========================================================================================== the name alphabet
// X(S, NAME, N, i0, i1, i2, i3): letter set S (0 xyzw, 1 rgba, 2 stpq), the identifier, its length and the index of
// every letter inside its set (unused positions 0).  Built by pasting letters, so the tuple follows from the name.
#define C17_N2b(X, S, P_, pi, A_, B_, C_, D_) X(S, P_##A_, 2, pi, 0, 0, 0) X(S, P_##B_, 2, pi, 1, 0, 0) X(S, P_##C_, 2, pi, 2, 0, 0) X(S, P_##D_, 2, pi, 3, 0, 0)
#define C17_N2(X, S, A_, B_, C_, D_) C17_N2b(X, S, A_, 0, A_, B_, C_, D_) C17_N2b(X, S, B_, 1, A_, B_, C_, D_) C17_N2b(X, S, C_, 2, A_, B_, C_, D_) C17_N2b(X, S, D_, 3, A_, B_, C_, D_)
#define C17_N3c(X, S, P_, pi, pj, A_, B_, C_, D_) X(S, P_##A_, 3, pi, pj, 0, 0) X(S, P_##B_, 3, pi, pj, 1, 0) X(S, P_##C_, 3, pi, pj, 2, 0) X(S, P_##D_, 3, pi, pj, 3, 0)
#define C17_N3b(X, S, P_, pi, A_, B_, C_, D_) C17_N3c(X, S, P_##A_, pi, 0, A_, B_, C_, D_) C17_N3c(X, S, P_##B_, pi, 1, A_, B_, C_, D_) C17_N3c(X, S, P_##C_, pi, 2, A_, B_, C_, D_) C17_N3c(X, S, P_##D_, pi, 3, A_, B_, C_, D_)
#define C17_N3(X, S, A_, B_, C_, D_) C17_N3b(X, S, A_, 0, A_, B_, C_, D_) C17_N3b(X, S, B_, 1, A_, B_, C_, D_) C17_N3b(X, S, C_, 2, A_, B_, C_, D_) C17_N3b(X, S, D_, 3, A_, B_, C_, D_)
#define C17_N4d(X, S, P_, pi, pj, pk, A_, B_, C_, D_) X(S, P_##A_, 4, pi, pj, pk, 0) X(S, P_##B_, 4, pi, pj, pk, 1) X(S, P_##C_, 4, pi, pj, pk, 2) X(S, P_##D_, 4, pi, pj, pk, 3)
#define C17_N4c(X, S, P_, pi, pj, A_, B_, C_, D_) C17_N4d(X, S, P_##A_, pi, pj, 0, A_, B_, C_, D_) C17_N4d(X, S, P_##B_, pi, pj, 1, A_, B_, C_, D_) C17_N4d(X, S, P_##C_, pi, pj, 2, A_, B_, C_, D_) C17_N4d(X, S, P_##D_, pi, pj, 3, A_, B_, C_, D_)
#define C17_N4b(X, S, P_, pi, A_, B_, C_, D_) C17_N4c(X, S, P_##A_, pi, 0, A_, B_, C_, D_) C17_N4c(X, S, P_##B_, pi, 1, A_, B_, C_, D_) C17_N4c(X, S, P_##C_, pi, 2, A_, B_, C_, D_) C17_N4c(X, S, P_##D_, pi, 3, A_, B_, C_, D_)
#define C17_N4(X, S, A_, B_, C_, D_) C17_N4b(X, S, A_, 0, A_, B_, C_, D_) C17_N4b(X, S, B_, 1, A_, B_, C_, D_) C17_N4b(X, S, C_, 2, A_, B_, C_, D_) C17_N4b(X, S, D_, 3, A_, B_, C_, D_)
#define C17_SET(X, S, A_, B_, C_, D_) C17_N2(X, S, A_, B_, C_, D_) C17_N3(X, S, A_, B_, C_, D_) C17_N4(X, S, A_, B_, C_, D_)
#define C17_XYZW(X) C17_SET(X, 0, x, y, z, w)
#define C17_ALL(X) C17_SET(X, 0, x, y, z, w) C17_SET(X, 1, r, g, b, a) C17_SET(X, 2, s, t, p, q)

// code of a name: set*336 + base(N) + i0 + 4 i1 + 16 i2 + 64 i3,  base(2) = 0, base(3) = 16, base(4) = 80
#define C17_CODE(S, N, i0, i1, i2, i3) ((S) * 336 + ((N) == 2 ? 0 : (N) == 3 ? 16 : 80) + (i0) + 4 * (i1) + 16 * (i2) + 64 * (i3))
#define C17_MAX4(a, b, c, d) ((a) > (b) ? ((a) > (c) ? ((a) > (d) ? (a) : (d)) : ((c) > (d) ? (c) : (d))) : ((b) > (c) ? ((b) > (d) ? (b) : (d)) : ((c) > (d) ? (c) : (d))))
#define C17_DUPFREE(N, i0, i1, i2, i3) ((i0) != (i1) && ((N) < 3 || ((i0) != (i2) && (i1) != (i2))) && ((N) < 4 || ((i0) != (i3) && (i1) != (i3) && (i2) != (i3))))

struct Name { int set, n, idx[4]; char s[5]; };
static Name decode(int code) {   // the oracle: letter -> index, independent of GLM
  static const char* LET[3] = {"xyzw", "rgba", "stpq"};
  Name m; m.set = code / 336; int r = code % 336; m.n = r < 16 ? 2 : r < 80 ? 3 : 4; r -= (m.n == 2 ? 0 : m.n == 3 ? 16 : 80);
  for (int k = 0; k < 4; ++k) { m.idx[k] = k < m.n ? (r >> (2 * k)) & 3 : 0; m.s[k] = k < m.n ? LET[m.set][m.idx[k]] : 0; } m.s[4] = 0; return m;
}
static bool name_valid(const Name& m, int L) { for (int k = 0; k < m.n; ++k) if (m.idx[k] >= L) return false; return true; }
static bool name_dupfree(const Name& m) { for (int a = 0; a < m.n; ++a) for (int b = a + 1; b < m.n; ++b) if (m.idx[a] == m.idx[b]) return false; return true; }
static std::vector<uint64_t> name_codes(int L, int nsets, bool dupfree_only) {
  std::vector<uint64_t> v; for (int c = 0; c < 336 * nsets; ++c) { Name m = decode(c); if (name_valid(m, L) && (!dupfree_only || name_dupfree(m))) v.push_back((uint64_t)c); } return v;
}

// oracle self-check: the code computed from the pasted letters must decode to the spelling of the pasted identifier
static const char* spelled(int code) {
  switch (code) {
#define X(S, NAME, N, i0, i1, i2, i3) case C17_CODE(S, N, i0, i1, i2, i3): return #NAME;
    C17_ALL(X)
#undef X
  } return "";
}
static void op_alphabet(const Case& c, Outcome& o) {
  const int code = (int)c.w[0]; const Name m = decode(code); o.cls(m.n - 2);
  if (std::strcmp(spelled(code), m.s) != 0 || (int)std::strlen(m.s) != m.n) { o.bad(98, "ORACLE: name code and spelling disagree"); return; }
  static const char* LET[3] = {"xyzw", "rgba", "stpq"}; for (int k = 0; k < m.n; ++k) if (LET[m.set][m.idx[k]] != m.s[k]) { o.bad(99, "ORACLE: decoded index does not match the letter"); return; }
}

// =========================================================================================== values
template <typename A> static inline uint64_t bits_of(A a) { return (uint64_t)(int64_t)a; }
static inline uint64_t bits_of(float a) { return b32(a); }
static inline uint64_t bits_of(double a) { return b64(a); }
static inline uint64_t bits_of(bool a) { return a ? 1 : 0; }
template <typename T> struct TN;
#define C17_TN(T, S) template <> struct TN<T> { static const char* name() { return S; } };
C17_TN(float, "float") C17_TN(double, "double") C17_TN(int, "int") C17_TN(glm::uint, "uint") C17_TN(glm::int8, "i8") C17_TN(glm::uint16, "u16") C17_TN(bool, "bool")
static const char* qname(glm::qualifier q) {
  switch ((int)q) { case (int)glm::packed_highp: return "highp"; case (int)glm::packed_mediump: return "mediump"; case (int)glm::packed_lowp: return "lowp";
#if C17_ALIGNED
    case (int)glm::aligned_highp: return "aligned_highp"; case (int)glm::aligned_mediump: return "aligned_mediump"; case (int)glm::aligned_lowp: return "aligned_lowp";
#endif
  } return "?"; }

static bool is_aligned_q(glm::qualifier q) {
#if C17_ALIGNED
  return q == glm::aligned_highp || q == glm::aligned_mediump || q == glm::aligned_lowp;
#else
  (void)q; return false;
#endif
}
// source tags for the accessor part: 4 distinct values per pattern; bool: the pattern is a 4-bit mask (all 16 masks enumerated)
enum { NPAT_NUM = 4, NPAT_BOOL = 16 };
template <typename T> static inline T tag(int pat, int i) {
  if (std::is_same<T, bool>::value) return (T)((pat >> i) & 1);
  if (std::is_floating_point<T>::value) {
    static const double V[NPAT_NUM][4] = {{2, 3, 5, 7}, {-1.5, 2.25, -3.75, 1000.5}, {-0.0, 1e30, -1e-30, 0.0}, {7, 5, 3, 2}};
    if ((pat & 3) == 2 && i == 1) return (T)std::numeric_limits<double>::infinity();
    return (T)V[pat & 3][i]; }
  static const long long V[NPAT_NUM][4] = {{2, 3, 5, 7}, {11, 1000003, 17, 2147483629}, {101, 103, 107, 109}, {7, 5, 3, 2}};
  long long v = V[pat & 3][i]; if (std::is_signed<T>::value && (pat & 3) == 1 && (i & 1) == 0) v = -v; return (T)v;
}
template <typename T> struct NPat { enum { value = std::is_same<T, bool>::value ? (int)NPAT_BOOL : (int)NPAT_NUM }; };

template <int N, typename T, glm::qualifier Q> static inline int put(T* out, const glm::vec<N, T, Q>& r) { for (int i = 0; i < N; ++i) out[i] = r[i]; return N; }

// =========================================================================================== A. reading accessors
enum { IMPL_FREE = 0, IMPL_MEMBER = 1, IMPL_OPER = 2 };
enum { R_INVALID = -1, R_MISSING = -2, R_EXCLUDED = -3, R_NOTWRITABLE = -4 };

// ---- gtx/vec_swizzle free functions (xyzw names only); a name without a viable overload is reported, not a build failure
#define X(S, NAME, N, i0, i1, i2, i3) \
  template <class V, class T> static auto fr_##NAME(const V& v, T* out, int) -> decltype(put(out, glm::NAME(v))) { return put(out, glm::NAME(v)); } \
  template <class V, class T> static int fr_##NAME(const V&, T*, long) { return R_MISSING; }
C17_XYZW(X)
#undef X
template <int L, class V, typename T> static int read_free(const V& v, int code, T* out) {
  switch (code) {
#define X(S, NAME, N, i0, i1, i2, i3) case C17_CODE(S, N, i0, i1, i2, i3): if constexpr (C17_MAX4(i0, i1, i2, i3) < L) return fr_##NAME(v, out, 0); else return R_INVALID;
    C17_XYZW(X)
#undef X
  } return R_INVALID;
}
#if C17_FUNC
template <int L, class V, typename T> static int read_member(V& v, int code, T* out) {
  switch (code) {
#define X(S, NAME, N, i0, i1, i2, i3) case C17_CODE(S, N, i0, i1, i2, i3): if constexpr (C17_MAX4(i0, i1, i2, i3) < L) return put(out, v.NAME()); else return R_INVALID;
    C17_ALL(X)
#undef X
  } return R_INVALID;
}
#endif
#if C17_OPER
template <class S, class = void> struct has_call : std::false_type {};
template <class S> struct has_call<S, std::void_t<decltype(std::declval<const S&>()())>> : std::true_type {};
// families whose accessor body is ill-formed on the current tree (see the head of the file)
template <int L, int N, typename T, bool AL> struct excluded { enum { value =
#if !defined(C17_HAVE_ALIGNED_UVEC2_SWIZZLE)
    (AL && N == 2 && std::is_same<T, glm::uint>::value) ||
#endif
#if !defined(C17_HAVE_ALIGNED_VEC2_3LETTER)
    (AL && L == 2 && N == 3 && (std::is_same<T, float>::value || std::is_same<T, int>::value || std::is_same<T, glm::uint>::value)) ||
#endif
    false }; };
template <int L, class V, typename T, glm::qualifier Q> static int read_oper(V& v, int code, T* out) {
  switch (code) {
#define X(S, NAME, N, i0, i1, i2, i3) case C17_CODE(S, N, i0, i1, i2, i3): if constexpr (C17_MAX4(i0, i1, i2, i3) < L) { \
      if constexpr (excluded<L, N, T, glm::detail::is_aligned<Q>::value>::value) return R_EXCLUDED; \
      else if constexpr (has_call<decltype(v.NAME)>::value) { glm::vec<N, T, Q> r_ = v.NAME; return put(out, r_); } else return R_MISSING; } else return R_INVALID;
    C17_ALL(X)
#undef X
  } return R_INVALID;
}
#endif

// a 16-byte aligned home for the source vector with readable padding behind it (aligned vec2 swizzles load 16 bytes, see op_wide_load)
// the vector under test lives in a padded, zeroed home so that an access past the object cannot crash an ordinary build;
// in a sanitizer build it lives at the end of an exactly-sized heap block instead, so that the same access IS reported (C20)
#ifdef GLMX_SANITIZE
#include <cstdlib>
template <class V> struct Home { V* p; V& v; Home() : p(static_cast<V*>(std::aligned_alloc(alignof(V), sizeof(V)))), v(*p) {} ~Home() { std::free(p); } Home(const Home&) = delete; };
#define HOME_ZERO(h) std::memset((void*)(h).p, 0, sizeof(*(h).p))
#else
template <class V> struct alignas(16) Home { V v; char pad[16]; };
#define HOME_ZERO(h) std::memset(&(h), 0, sizeof(h))
#endif

template <int IMPL, int L, typename T, glm::qualifier Q> static void op_read(const Case& c, Outcome& o) {
  typedef glm::vec<L, T, Q> V; const int code = (int)c.w[0], pat = (int)c.w[1]; const Name nm = decode(code);
  if (!name_valid(nm, L)) { o.bad(90, "ORACLE: the domain produced a name that is not valid for this source length"); return; }
  T src[4]; Home<V> h; HOME_ZERO(h); V& v = h.v; for (int i = 0; i < L; ++i) { src[i] = tag<T>(pat, i); v[i] = src[i]; }
  T out[4] = {T(0), T(0), T(0), T(0)}; int n = R_INVALID;
  if constexpr (IMPL == IMPL_FREE) n = read_free<L>(v, code, out);
#if C17_FUNC
  if constexpr (IMPL == IMPL_MEMBER) n = read_member<L>(v, code, out);
#endif
#if C17_OPER
  if constexpr (IMPL == IMPL_OPER) n = read_oper<L, V, T, Q>(v, code, out);
#endif
  o.cls(nm.n - 2); char m[160];
  if (n == R_EXCLUDED) { o.nontrivial = false; return; }   // reported once per family by op_excluded
  if (n == R_INVALID) { o.bad(91, "ORACLE: accessor dispatch does not know this name"); return; }
  if (n == R_MISSING) {
    if (IMPL == IMPL_OPER && L == 2 && nm.n == 3) o.kf = KF_VEC2_3LETTER_NO_CONVERSION;                                           // GLM_SWIZZLE2_3_MEMBERS passes E3 = -1, the value conversion is specialised for E3 = 3
    else if (IMPL == IMPL_OPER && is_aligned_q(Q) && !std::is_same<T, float>::value && !std::is_same<T, int>::value && !std::is_same<T, glm::uint>::value) o.kf = KF_ALIGNED_OTHER_NO_CONVERSION;   // only float/int/uint have an aligned _swizzle_base1
    else if (IMPL == IMPL_FREE && L == 4 && nm.n == 4 && nm.idx[0] == 0 && nm.idx[1] == 1 && nm.idx[2] == 2 && nm.idx[3] == 2) o.kf = KF_FREE_XYZZ_VEC4_MISSING;
    std::snprintf(m, sizeof m, "%s of a vec%d<%s,%s>: the accessor does not exist / has no value conversion (using it does not compile)", nm.s, L, TN<T>::name(), qname(Q)); o.res((uint64_t)code); o.bad(30 + nm.n, m); return; }
  if (n != nm.n) { std::snprintf(m, sizeof m, "%s of a vec%d<%s>: result has %d components, the name has %d", nm.s, L, TN<T>::name(), n, nm.n); o.res((uint64_t)n); o.exp((uint64_t)nm.n); o.bad(2, m); return; }
  for (int k = 0; k < nm.n; ++k) if (bits_of(out[k]) != bits_of(src[nm.idx[k]])) {
    std::snprintf(m, sizeof m, "%s of a vec%d<%s,%s>: result component %d is not source component %d", nm.s, L, TN<T>::name(), qname(Q), k, nm.idx[k]);
    o.res(bits_of(out[k]), (uint64_t)k); o.exp(bits_of(src[nm.idx[k]])); o.bad(10 + nm.n, m); return; }
  for (int i = 0; i < L; ++i) if (bits_of((T)v[i]) != bits_of(src[i])) { std::snprintf(m, sizeof m, "reading %s changed source component %d", nm.s, i); o.bad(3, m); return; }
}

template <int IMPL, int L, typename T, glm::qualifier Q> static void reg_read(Engine& E) {
  static const char* IN[3] = {"gtx/vec_swizzle free function", "member function", "operator-form (proxy -> vec conversion)"};
  const int nsets = IMPL == IMPL_FREE ? 1 : 3;
  Op& op = E.add(std::string("read ") + IN[IMPL] + " of vec" + std::to_string(L) + "<" + TN<T>::name() + "," + qname(Q) + ">", op_read<IMPL, L, T, Q>);
  op.quick = {product(std::string("ALL_NAMES(L=") + std::to_string(L) + (nsets == 3 ? ", xyzw+rgba+stpq" : ", xyzw") + ") x TAG patterns", {list("names", name_codes(L, nsets, false), true), range("pattern", 0, NPat<T>::value, true)})};
  op.classes = {"2-letter", "3-letter", "4-letter"};
}
template <int IMPL, typename T, glm::qualifier Q> static void reg_read234(Engine& E) { reg_read<IMPL, 2, T, Q>(E); reg_read<IMPL, 3, T, Q>(E); reg_read<IMPL, 4, T, Q>(E); }

static void op_excluded(const Case& c, Outcome& o) {
  o.cls(0);
  switch ((int)c.w[0]) {
    case 0:
#if C17_OPER && C17_ALIGNED && !defined(C17_HAVE_ALIGNED_UVEC2_SWIZZLE)
      o.kf = KF_ALIGNED_UVEC2; o.bad(40, "2-letter operator swizzles of aligned uint vectors (e.g. aligned_uvec4::xy) do not compile: type_vec_simd.inl _swizzle_base1<L,uint,Q,..,true> assigns __m128i to the 8-byte storage of vec<2,uint,aligned>"); return;
#endif
      break;
    case 1:
#if C17_OPER && C17_ALIGNED && !defined(C17_HAVE_ALIGNED_VEC2_3LETTER)
      o.kf = KF_ALIGNED_VEC2_3LETTER; o.bad(41, "3-letter operator swizzles of aligned float/int/uint vec2 (e.g. aligned_vec2::xxy) do not compile with this compiler: _MM_SHUFFLE(E3=-1,..) is not an 8-bit immediate"); return;
#endif
      break;
    case 2:
#if !C17_VEC4_SSSV1
      o.kf = KF_VEC4_SSSV1; o.bad(42, "vec4(scalar, scalar, scalar, vec1) does not compile: of the 16 scalar/vec1 mixes only (X, Y, Z, vec<1,W,Q>) is not declared, the generic template static_casts the vec1"); return;
#endif
      break;
  }
}

// =========================================================================================== B. writes through operator swizzles
#if C17_OPER
enum { W_ASSIGN_VEC, W_ASSIGN_SCALAR, W_ADD, W_SUB, W_MUL, W_DIV, W_ASSIGN_OTHER_SAME, W_ASSIGN_SELF_FIRST, W_ASSIGN_SELF_REV, W_ASSIGN_SELF, W_ADD_SELF, W_SUB_SELF, W_MUL_SELF, W_DIV_SELF, NWOPS };
static const char* WNAME[NWOPS] = {"v.S = rhs", "v.S = scalar", "v.S += rhs", "v.S -= rhs", "v.S *= rhs", "v.S /= rhs", "v.S = u.S (same swizzle of another vector)", "v.S = v.xy[z[w]] (swizzle of the same vector)",
                                   "v.S = v.yx / v.zyx / v.wzyx (swizzle of the same vector)", "v.S = v (self aliasing)", "v.S += v", "v.S -= v", "v.S *= v", "v.S /= v"};
template <int N, class V> static inline auto& first_of(V& v) { if constexpr (N == 2) return v.xy; else if constexpr (N == 3) return v.xyz; else return v.xyzw; }
template <int N, class V> static inline auto& rev_of(V& v) { if constexpr (N == 2) return v.yx; else if constexpr (N == 3) return v.zyx; else return v.wzyx; }
template <int N, int L, typename T, glm::qualifier Q, class S, class V> static int wr(S& s, V& v, int op, const T* rhs, const S& us) {
  glm::vec<N, T, Q> r; for (int k = 0; k < N; ++k) r[k] = rhs[k];
  switch (op) {
    case W_ASSIGN_VEC: s = r; return 1; case W_ASSIGN_SCALAR: s = rhs[0]; return 1; case W_ADD: s += r; return 1; case W_SUB: s -= r; return 1; case W_MUL: s *= r; return 1; case W_DIV: s /= r; return 1;
    case W_ASSIGN_OTHER_SAME: s = us; return 1;
    case W_ASSIGN_SELF_FIRST: if constexpr (has_call<S>::value && !excluded<L, N, T, glm::detail::is_aligned<Q>::value>::value) { s = first_of<N>(v); return 1; } else return R_MISSING;   // needs the proxy -> vec conversion (its absence is reported by the read ops)
    case W_ASSIGN_SELF_REV: if constexpr (has_call<S>::value && !excluded<L, N, T, glm::detail::is_aligned<Q>::value>::value) { s = rev_of<N>(v); return 1; } else return R_MISSING;
  }
  if constexpr (N == L) switch (op) { case W_ASSIGN_SELF: s = v; return 1; case W_ADD_SELF: s += v; return 1; case W_SUB_SELF: s -= v; return 1; case W_MUL_SELF: s *= v; return 1; case W_DIV_SELF: s /= v; return 1; }
  return R_INVALID;
}
template <int L, class V, typename T, glm::qualifier Q> static int write_impl(V& v, V& u, int code, int op, const T* rhs) {
  switch (code) {
#define X(S, NAME, N, i0, i1, i2, i3) case C17_CODE(S, N, i0, i1, i2, i3): if constexpr (C17_MAX4(i0, i1, i2, i3) < L && C17_DUPFREE(N, i0, i1, i2, i3)) { \
      if constexpr (std::is_assignable<decltype((v.NAME)), glm::vec<N, T, Q> const&>::value) return wr<N, L, T, Q>(v.NAME, v, op, rhs, u.NAME); else return R_NOTWRITABLE; } else return R_INVALID;
    C17_ALL(X)
#undef X
  } return R_INVALID;
}
// model value type: signed integers are modelled in 64 bits so that a sequence leaving the int range is cut, not undefined
template <typename T> struct ModelT { typedef T type; };
template <> struct ModelT<int> { typedef long long type; };
static inline bool step_valid(uint64_t w, int L) { int code = (int)(w >> 4), op = (int)(w & 15); if (code >= 1008 || op >= NWOPS) return false; Name m = decode(code); return name_valid(m, L) && name_dupfree(m) && (op < W_ASSIGN_SELF || m.n == L); }
template <int L, typename T, glm::qualifier Q> static void op_write(const Case& c, Outcome& o) {
  typedef glm::vec<L, T, Q> V; typedef typename ModelT<T>::type M;
  static const long long START[4] = {2, 3, 5, 7}, OTHER[4] = {257, 263, 269, 271}, RHS[4] = {11, 13, 17, 19};
  Home<V> hv, hu; HOME_ZERO(hv); HOME_ZERO(hu); V& v = hv.v; V& u = hu.v; M m[4]; T rhs[4];
  for (int i = 0; i < 4; ++i) rhs[i] = (T)RHS[i];
  for (int i = 0; i < L; ++i) { v[i] = (T)START[i]; u[i] = (T)OTHER[i]; m[i] = (M)START[i]; }
  int len = 0; for (int k = 0; k < c.n; ++k) if (c.w[k] != 0xffff) ++len;
  for (int step = 0, k = 0; k < c.n; ++k) {
    if (c.w[k] == 0xffff) continue;
    if (!step_valid(c.w[k], L)) { o.bad(92, "ORACLE: the domain produced an invalid write step"); return; }
    const int code = (int)(c.w[k] >> 4), op = (int)(c.w[k] & 15); const Name nm = decode(code);
    // ---- array model
    M old[4]; for (int i = 0; i < L; ++i) old[i] = m[i];
    for (int j = 0; j < nm.n; ++j) { M& e = m[nm.idx[j]]; M t;
      switch (op) {
        case W_ASSIGN_VEC: e = (M)rhs[j]; break; case W_ASSIGN_SCALAR: e = (M)rhs[0]; break; case W_ADD: e = (M)(e + (M)rhs[j]); break; case W_SUB: e = (M)(e - (M)rhs[j]); break; case W_MUL: e = (M)(e * (M)rhs[j]); break; case W_DIV: e = (M)(e / (M)rhs[j]); break;
        case W_ASSIGN_OTHER_SAME: e = (M)(T)OTHER[nm.idx[j]]; break; case W_ASSIGN_SELF_FIRST: e = old[j]; break; case W_ASSIGN_SELF_REV: e = old[nm.n - 1 - j]; break;
        case W_ASSIGN_SELF: e = old[j]; break; case W_ADD_SELF: e = (M)(e + old[j]); break; case W_SUB_SELF: e = (M)(e - old[j]); break; case W_MUL_SELF: e = (M)(e * old[j]); break;
        case W_DIV_SELF: t = old[j]; if (t == (M)0 || std::is_integral<T>::value) { o.nontrivial = false; return; } e = (M)(e / t); break; } }   // integer self-division is left to the float types: a faulty aliasing could trap on a zero quotient
    if (std::is_same<T, int>::value) for (int i = 0; i < L; ++i) if ((long long)m[i] > (1ll << 30) || (long long)m[i] < -(1ll << 30)) { o.nontrivial = false; return; }   // would overflow int: outside the operator's domain
    // ---- the real object
    unsigned char before[sizeof(V)]; std::memcpy(before, &v, sizeof(V));
    { int rc = write_impl<L, V, T, Q>(v, u, code, op, rhs); if (rc == R_MISSING) { o.nontrivial = false; return; }
      if (rc == R_NOTWRITABLE) { if (step > 0 || op != W_ASSIGN_VEC) { o.nontrivial = false; return; }   // reported once per name, at the first write form
        char msg[160]; std::snprintf(msg, sizeof msg, "duplicate-free swizzle %s of vec%d<%s,%s> is not writable (v.%s = vec%d does not compile)", nm.s, L, TN<T>::name(), qname(Q), nm.s, nm.n);
        bool has3 = false; for (int j = 0; j < nm.n; ++j) has3 = has3 || nm.idx[j] == 3; if (L == 4 && nm.n == 3 && has3) o.kf = KF_VEC4_3LETTER_W_NOT_WRITABLE;
        o.res((uint64_t)code); o.bad(70, msg); return; }
      if (rc != 1) { o.bad(93, "ORACLE: write dispatch does not know this (name, op)"); return; } }
    for (int i = 0; i < L; ++i) if (bits_of((T)v[i]) != bits_of((T)m[i])) {
      bool named = false; for (int j = 0; j < nm.n; ++j) named = named || nm.idx[j] == i;
      char msg[160]; std::snprintf(msg, sizeof msg, "step %d: %s with S=%s on vec%d<%s,%s>: component %d (%s by S) differs from the array model", step, WNAME[op], nm.s, L, TN<T>::name(), qname(Q), i, named ? "named" : "NOT named");
      o.res(bits_of((T)v[i]), (uint64_t)((step << 8) | i)); o.exp(bits_of((T)m[i]));
      if (op == W_ASSIGN_OTHER_SAME) {   // legacy model: the implicit copy assignment of the proxy copies its 1-byte buffer, i.e. byte 0 of the vector
        unsigned char leg[sizeof(V)]; std::memcpy(leg, before, sizeof(V)); leg[0] = reinterpret_cast<const unsigned char*>(&u)[0];
        bool same = true; for (int q = 0; q < L; ++q) same = same && bits_of((T)v[q]) == bits_of(reinterpret_cast<const V*>(leg)->operator[](q));
        if (same) o.kf = KF_SAME_SWIZZLE_ASSIGN; }
      o.bad(1 + op + (named ? 0 : 20), msg); return; }
    for (int i = 0; i < L; ++i) if (bits_of((T)u[i]) != bits_of((T)OTHER[i])) { o.bad(50, "a write through v.S changed another vector"); return; }
    ++step;
  }
  uint64_t h = 0x17; for (int i = 0; i < L; ++i) h = mix64(h, bits_of((T)m[i])); o.st(h); o.cls(len == 0 ? 0 : 1);
}
static Domain write_steps(int L) { std::vector<uint64_t> v; for (uint64_t code = 0; code < 1008; ++code) for (uint64_t op = 0; op < NWOPS; ++op) if (step_valid(code * 16 + op, L)) v.push_back(code * 16 + op); return list("WRITE_STEPS(L=" + std::to_string(L) + ": duplicate-free names x 14 write forms)", v, true); }
template <int L, typename T, glm::qualifier Q> static void reg_write(Engine& E, int qdepth, int tdepth) {
  Op& op = E.add(std::string("write sequences through operator swizzles of vec") + std::to_string(L) + "<" + TN<T>::name() + "," + qname(Q) + ">", op_write<L, T, Q>);
  auto doms = [&](int depth) { std::vector<Domain> d; d.push_back(list("EMPTY_SEQUENCE", {0xffff}, true)); Domain s = write_steps(L);
    for (int k = 1; k <= depth; ++k) { std::vector<Domain> subs(k, s); d.push_back(k == 1 ? s : product("ALL_SEQUENCES(length " + std::to_string(k) + ")", subs)); } return d; };
  op.quick = doms(qdepth); op.thorough = doms(tdepth); op.classes = {"initial", "after-write"};
}

// ---- swizzle constructors (operator form): vec(proxy), vec3(proxy2, s), vec3(s, proxy2), vec4(proxy2, proxy2), vec4(s, s, proxy2), vec4(s, proxy2, s), vec4(proxy2, s, s), vec4(proxy3, s), vec4(s, proxy3)
enum { SC_SAME, SC_V3_P2S, SC_V3_SP2, SC_V4_P2P2_A, SC_V4_P2P2_B, SC_V4_SSP2, SC_V4_SP2S, SC_V4_P2SS, SC_V4_P3S, SC_V4_SP3, NSC };
static const char* SCNAME[NSC] = {"vecN(v.S)", "vec3(v.S2, s)", "vec3(s, v.S2)", "vec4(v.S2, v.yx)", "vec4(v.xy, v.S2)", "vec4(s, s, v.S2)", "vec4(s, v.S2, s)", "vec4(v.S2, s, s)", "vec4(v.S3, s)", "vec4(s, v.S3)"};
template <int N, typename T, glm::qualifier Q, class S, class V> static int sc(const S& s, V& v, int form, T a, T b, T* out) {
  switch (form) { case SC_SAME: { glm::vec<N, T, Q> r(s); return put(out, r); } }
  if constexpr (N == 2) switch (form) {
    case SC_V3_P2S: { glm::vec<3, T, Q> r(s, a); return put(out, r); } case SC_V3_SP2: { glm::vec<3, T, Q> r(a, s); return put(out, r); }
    case SC_V4_P2P2_A: { glm::vec<4, T, Q> r(s, v.yx); return put(out, r); } case SC_V4_P2P2_B: { glm::vec<4, T, Q> r(v.xy, s); return put(out, r); }
    case SC_V4_SSP2: { glm::vec<4, T, Q> r(a, b, s); return put(out, r); } case SC_V4_SP2S: { glm::vec<4, T, Q> r(a, s, b); return put(out, r); } case SC_V4_P2SS: { glm::vec<4, T, Q> r(s, a, b); return put(out, r); } }
  if constexpr (N == 3) switch (form) { case SC_V4_P3S: { glm::vec<4, T, Q> r(s, a); return put(out, r); } case SC_V4_SP3: { glm::vec<4, T, Q> r(a, s); return put(out, r); } }
  return R_INVALID;
}
template <int L, class V, typename T, glm::qualifier Q> static int sc_impl(V& v, int code, int form, T a, T b, T* out) {
  switch (code) {
#define X(S, NAME, N, i0, i1, i2, i3) case C17_CODE(S, N, i0, i1, i2, i3): if constexpr (C17_MAX4(i0, i1, i2, i3) < L && !(L == 2 && N == 3) && !excluded<L, N, T, glm::detail::is_aligned<Q>::value>::value) return sc<N, T, Q>(v.NAME, v, form, a, b, out); else return R_INVALID;
    C17_XYZW(X)
#undef X
  } return R_INVALID;
}
static bool sc_valid(uint64_t code, uint64_t form, int L) { if (code >= 336 || form >= NSC) return false; Name m = decode((int)code); if (!name_valid(m, L) || (L == 2 && m.n == 3)) return false;
  if (form == SC_SAME) return true; if (form >= SC_V3_P2S && form <= SC_V4_P2SS) return m.n == 2; return m.n == 3; }
template <int L, typename T, glm::qualifier Q> static void op_swzctor(const Case& c, Outcome& o) {
  typedef glm::vec<L, T, Q> V; const int code = (int)c.w[0], form = (int)c.w[1], pat = (int)c.w[2]; const Name nm = decode(code); o.cls(0);
  if (!sc_valid(c.w[0], c.w[1], L)) { o.bad(94, "ORACLE: invalid swizzle-constructor case"); return; }
  T src[4]; Home<V> h; HOME_ZERO(h); V& v = h.v; for (int i = 0; i < L; ++i) { src[i] = tag<T>(pat, i); v[i] = src[i]; }
  const T a = tag<T>(pat ^ 1, 0), b = tag<T>(pat ^ 1, 1) ; T out[4] = {T(0), T(0), T(0), T(0)}, want[4]; int wn = 0;
  auto S = [&]() { for (int k = 0; k < nm.n; ++k) want[wn++] = src[nm.idx[k]]; };
  switch (form) { case SC_SAME: S(); break; case SC_V3_P2S: S(); want[wn++] = a; break; case SC_V3_SP2: want[wn++] = a; S(); break; case SC_V4_P2P2_A: S(); want[wn++] = src[1]; want[wn++] = src[0]; break; case SC_V4_P2P2_B: want[wn++] = src[0]; want[wn++] = src[1]; S(); break;
    case SC_V4_SSP2: want[wn++] = a; want[wn++] = b; S(); break; case SC_V4_SP2S: want[wn++] = a; S(); want[wn++] = b; break; case SC_V4_P2SS: S(); want[wn++] = a; want[wn++] = b; break; case SC_V4_P3S: S(); want[wn++] = a; break; case SC_V4_SP3: want[wn++] = a; S(); break; }
  int n = sc_impl<L, V, T, Q>(v, code, form, a, b, out);
  if (n == R_INVALID) { if (excluded<L, 2, T, glm::detail::is_aligned<Q>::value>::value || excluded<L, 3, T, glm::detail::is_aligned<Q>::value>::value) { o.nontrivial = false; return; } o.bad(95, "ORACLE: swizzle-constructor dispatch does not know this case"); return; }
  char m[160];
  if (n != wn) { std::snprintf(m, sizeof m, "%s with S=%s: wrong length", SCNAME[form], nm.s); o.bad(2, m); return; }
  for (int k = 0; k < wn; ++k) if (bits_of(out[k]) != bits_of(want[k])) { std::snprintf(m, sizeof m, "%s with S=%s from vec%d<%s,%s>: component %d is not the argument component in left-to-right order", SCNAME[form], nm.s, L, TN<T>::name(), qname(Q), k);
    o.res(bits_of(out[k]), (uint64_t)k); o.exp(bits_of(want[k])); o.bad(10 + form, m); return; }
}
template <int L, typename T, glm::qualifier Q> static void reg_swzctor(Engine& E) {
  std::vector<uint64_t> flat; for (uint64_t code = 0; code < 336; ++code) for (uint64_t f = 0; f < NSC; ++f) if (sc_valid(code, f, L)) for (uint64_t p = 0; p < 2; ++p) { flat.push_back(code); flat.push_back(f); flat.push_back(p); }
  Op& op = E.add(std::string("swizzle constructors from operator swizzles of vec") + std::to_string(L) + "<" + TN<T>::name() + "," + qname(Q) + ">", op_swzctor<L, T, Q>);
  op.quick = {rows("ALL xyzw NAMES x applicable constructor forms x 2 TAG patterns", 3, flat, true)}; op.classes = {"checked"};
}

// ---- an aligned vec2 must be readable wherever an aligned vec2 may live (8-byte alignment); its 3/4-letter swizzles load 16 bytes
static thread_local sigjmp_buf g_jmp; static thread_local volatile int g_armed = 0;
static void on_fault(int sig) { if (g_armed) { g_armed = 0; siglongjmp(g_jmp, 1); } std::signal(sig, SIG_DFL); std::raise(sig); }
template <typename T, glm::qualifier Q> __attribute__((noinline)) static void wide_read(glm::vec<2, T, Q>* p, T* out) { glm::vec<4, T, Q> r = p->yxyx; put(out, r); }
template <typename T, glm::qualifier Q> static void op_wide_load(const Case& c, Outcome& o) {
  typedef glm::vec<2, T, Q> V; o.cls(0);
  static_assert(sizeof(V) == 8 && alignof(V) == 8, "layout of an aligned 2-vector of 4-byte elements");
  alignas(16) static thread_local unsigned char buf[64]; std::memset(buf, 0, sizeof buf);
  V* p = new (buf + 8 * (c.w[0] & 3)) V(tag<T>(0, 0), tag<T>(0, 1));   // offsets 0, 8, 16, 24: every address an array of aligned vec2 produces
  struct sigaction sa, old1, old2; std::memset(&sa, 0, sizeof sa); sa.sa_handler = on_fault; sa.sa_flags = SA_NODEFER; sigemptyset(&sa.sa_mask);
  static std::once_flag once; std::call_once(once, [&]() { sigaction(SIGSEGV, &sa, &old1); sigaction(SIGBUS, &sa, &old2); });
  T out[4] = {T(0), T(0), T(0), T(0)}; volatile bool crashed = false;
  if (sigsetjmp(g_jmp, 1) == 0) { g_armed = 1; wide_read<T, Q>(p, out); g_armed = 0; } else crashed = true;
  if (crashed) { o.res(8 * (c.w[0] & 3)); o.kf = KF_ALIGNED_VEC2_WIDE_LOAD; o.bad(60, "aligned vec2 .yxyx faults: the SIMD swizzle does a 16-byte aligned load from an 8-byte, 8-byte-aligned object (reads past the vector)"); return; }
  const T want[4] = {tag<T>(0, 1), tag<T>(0, 0), tag<T>(0, 1), tag<T>(0, 0)};
  for (int k = 0; k < 4; ++k) if (bits_of(out[k]) != bits_of(want[k])) { o.res(bits_of(out[k]), (uint64_t)k); o.exp(bits_of(want[k])); o.bad(61, "aligned vec2 .yxyx: wrong component"); return; }
}
#endif  // C17_OPER

// =========================================================================================== C. constructors
// argument value for slot `slot` (running index of the consumed component) of source type U, converted to T by the oracle's static_cast.
// Patterns are chosen so that the conversion is observable (fraction, sign, > 255, > 65535, not representable in float) and never undefined
// (float -> integer only when the truncated value is representable).  Returns false when the pattern is not admissible for (U, T).
enum { NPAT_CTOR = 5 };
template <typename U, typename T> static bool gen(int pat, int slot, U& u) {
  const bool t_float = std::is_floating_point<T>::value, t_bool = std::is_same<T, bool>::value, t_signed = std::is_signed<T>::value, t_i8 = std::is_same<T, glm::int8>::value;
  if constexpr (std::is_same<U, bool>::value) { u = (((slot + 1) >> pat) & 1) != 0; return true; }
  else if constexpr (std::is_floating_point<U>::value) {
    switch (pat) {
      case 0: u = (U)(slot + 1.5); return true;
      case 1: u = (U)(-(slot + 2.75)); return t_float || t_bool || t_signed;
      case 2: u = (U)(300.25 + 7 * slot); return !t_i8;
      case 3: u = (U)(slot % 3 == 0 ? 0.0 : slot % 3 == 1 ? 0.5 : -0.5); return true;
      default: u = (U)(slot & 1 ? 0.1 : 16777217.0 + 2 * slot); return !(t_i8 || std::is_same<T, glm::uint16>::value); } }
  else if constexpr (std::is_same<U, int>::value) {
    switch (pat) { case 0: u = slot + 2; return true; case 1: u = -(slot + 3); return true; case 2: u = 1000 + 37 * slot; return true; case 3: u = slot & 1 ? 16777217 + 2 * slot : 70001 + 131 * slot; return true; default: u = slot & 1 ? -2147483647 + slot : 2147483647 - slot; return true; } }
  else if constexpr (std::is_same<U, glm::uint>::value) {
    switch (pat) { case 0: u = slot + 2u; return true; case 1: u = 4000000000u - 13u * slot; return true; case 2: u = 1000u + 37u * slot; return true; case 3: u = slot & 1 ? 16777217u + 2u * slot : 70001u + 131u * slot; return true; default: u = slot & 1 ? 0u : 4294967295u - slot; return true; } }
  else if constexpr (std::is_same<U, glm::int8>::value) {
    switch (pat) { case 0: u = (U)(slot + 2); return true; case 1: u = (U)(-(slot + 3)); return true; case 2: u = (U)(100 + slot); return true; case 3: u = (U)(-128 + slot); return true; default: u = (U)(slot & 1 ? 0 : 127 - slot); return true; } }
  else { static_assert(std::is_same<U, glm::uint16>::value, "element type list");
    switch (pat) { case 0: u = (U)(slot + 2); return true; case 1: u = (U)(65535 - slot); return true; case 2: u = (U)(1000 + 37 * slot); return true; case 3: u = (U)(256 + 255 * slot); return true; default: u = (U)(slot & 1 ? 0 : 32768 + slot); return true; } }
}
struct Flat { uint64_t e[20]; int n = 0; bool ok = true; };          // expected components (bit patterns of static_cast<T>(argument component)), left to right
struct Desc { int kind, c, r; const char* tn; const char* qn; };     // kind 0 scalar, 1 vec (c components), 2 mat (c x r)
template <typename U> struct Sc {   // scalar argument
  typedef U type;
  template <typename T> static U make(int pat, int& slot, Flat& f) { U u = U(); if (!gen<U, T>(pat, slot, u)) f.ok = false; f.e[f.n++] = bits_of(static_cast<T>(u)); ++slot; return u; }
  static Desc desc() { return {0, 1, 1, TN<U>::name(), ""}; } };
template <int KK, typename U, glm::qualifier P> struct Vc {   // vector argument
  typedef glm::vec<KK, U, P> type;
  template <typename T> static type make(int pat, int& slot, Flat& f) { type v; for (int k = 0; k < KK; ++k) { U u = U(); if (!gen<U, T>(pat, slot, u)) f.ok = false; v[k] = u; f.e[f.n++] = bits_of(static_cast<T>(u)); ++slot; } return v; }
  static Desc desc() { return {1, KK, 1, TN<U>::name(), qname(P)}; } };
template <int C, int R, typename U, glm::qualifier P> struct Mc {   // matrix argument (same shape: cross-type / cross-qualifier conversion)
  typedef glm::mat<C, R, U, P> type;
  template <typename T> static type make(int pat, int& slot, Flat& f) { type m; for (int c = 0; c < C; ++c) for (int r = 0; r < R; ++r) { U u = U(); if (!gen<U, T>(pat, slot, u)) f.ok = false; m[c][r] = u; f.e[f.n++] = bits_of(static_cast<T>(u)); ++slot; } return m; }
  static Desc desc() { return {2, C, R, TN<U>::name(), qname(P)}; } };
template <class D> struct Dst;
template <int L, typename T, glm::qualifier Q> struct Dst<glm::vec<L, T, Q>> { typedef T elem; enum { N = L, DIAG_R = 0 }; static T get(const glm::vec<L, T, Q>& d, int i) { return d[i]; } static Desc desc() { return {1, L, 1, TN<T>::name(), qname(Q)}; } };
template <int C, int R, typename T, glm::qualifier Q> struct Dst<glm::mat<C, R, T, Q>> { typedef T elem; enum { N = C * R, DIAG_R = R }; static T get(const glm::mat<C, R, T, Q>& d, int i) { return d[i / R][i % R]; } static Desc desc() { return {2, C, R, TN<T>::name(), qname(Q)}; } };

enum { RULE_CONCAT = 0, RULE_BROADCAST = 1, RULE_DIAGONAL = 2 };
typedef void (*CtorFn)(int pat, Outcome& o);
static std::string desc_str(const Desc& d) { std::string s = d.kind == 0 ? std::string(d.tn) : d.kind == 1 ? "vec" + std::to_string(d.c) + "<" + d.tn + "," + d.qn + ">" : "mat" + std::to_string(d.c) + "x" + std::to_string(d.r) + "<" + d.tn + "," + d.qn + ">"; return s; }
// the judgement is not a template: it sees bit patterns only
__attribute__((noinline)) static void ctor_judge(Outcome& o, int rule, int n, int diag_r, const uint64_t* got, const Flat& f, uint64_t zero, const Desc& dst, const Desc* args, int nargs) {
  if (!f.ok) { o.nontrivial = false; return; }
  if (rule == RULE_CONCAT && f.n < n) { o.bad(96, "ORACLE: signature supplies fewer components than the destination holds"); return; }
  for (int i = 0; i < n; ++i) {
    uint64_t want = rule == RULE_CONCAT ? f.e[i] : rule == RULE_BROADCAST ? f.e[0] : ((i / diag_r) == (i % diag_r) ? f.e[0] : zero);
    if (got[i] != want) { std::string nm = desc_str(dst) + "("; for (int a = 0; a < nargs; ++a) nm += (a ? ", " : "") + desc_str(args[a]); nm += ")";
      char m[160]; std::snprintf(m, sizeof m, "%s: component %d is not %s", nm.c_str(), i, rule == RULE_CONCAT ? "static_cast<T>(i-th argument component, left to right)" : rule == RULE_BROADCAST ? "static_cast<T>(the single argument)" : "the scalar on / zero off the diagonal");
      o.res(got[i], (uint64_t)i); o.exp(want); o.bad(1 + rule, m); return; } }
}
template <int RULE, class D, class... A> struct Sig {
  static void run(int pat, Outcome& o) {
    typedef typename Dst<D>::elem T; Flat f; int slot = 0;
    D d{A::template make<T>(pat, slot, f)...};          // a braced list evaluates its elements left to right
    uint64_t got[16]; for (int i = 0; i < (int)Dst<D>::N; ++i) got[i] = bits_of(Dst<D>::get(d, i));
    const Desc args[] = {A::desc()...};
    ctor_judge(o, RULE, Dst<D>::N, Dst<D>::DIAG_R ? Dst<D>::DIAG_R : 1, got, f, bits_of(T(0)), Dst<D>::desc(), args, (int)sizeof...(A));
  }
};
// element type list and qualifier pairs
template <int I> struct Ty; template <> struct Ty<0> { typedef float type; }; template <> struct Ty<1> { typedef double type; }; template <> struct Ty<2> { typedef int type; }; template <> struct Ty<3> { typedef glm::uint type; };
template <> struct Ty<4> { typedef glm::int8 type; }; template <> struct Ty<5> { typedef glm::uint16 type; }; template <> struct Ty<6> { typedef bool type; };
enum { NTY = 7 };
template <int U0, int STEP, int I> using ArgT = typename Ty<(U0 + STEP * I) % NTY>::type;     // STEP 0: all arguments of one type; STEP 1: argument i has type (U0 + i) mod 7
template <size_t... I, class F> static void static_for_impl(std::index_sequence<I...>, F&& f) { (f(std::integral_constant<int, (int)I>{}), ...); }
template <int N, class F> static void static_for(F&& f) { static_for_impl(std::make_index_sequence<N>{}, f); }
template <bool B, class X, class Y> using Sel = typename std::conditional<B, X, Y>::type;
// scalar-or-vec1 by mask bit
template <int MASK, int I, class U, glm::qualifier VQ> using SV = Sel<((MASK >> I) & 1) != 0, Vc<1, U, VQ>, Sc<U>>;

struct CtorTable { std::vector<CtorFn> fn; template <class S> void add() { fn.push_back(&S::run); } };

// vec<L,T,Q> signatures for one (U0, STEP) argument-type scheme and source qualifier P
template <int L, typename T, glm::qualifier Q, glm::qualifier P, int U0, int ST> static void add_vec_sigs(CtorTable& t) {
  typedef glm::vec<L, T, Q> D;
#define AT(i) ArgT<U0, ST, i>
  if constexpr (L == 1) {
    t.add<Sig<RULE_CONCAT, D, Vc<1, AT(0), P>>>(); t.add<Sig<RULE_CONCAT, D, Vc<2, AT(0), P>>>(); t.add<Sig<RULE_CONCAT, D, Vc<3, AT(0), P>>>(); t.add<Sig<RULE_CONCAT, D, Vc<4, AT(0), P>>>();
  } else if constexpr (L == 2) {
    static_for<4>([&](auto m) { constexpr int M = decltype(m)::value; t.add<Sig<RULE_CONCAT, D, SV<M, 0, AT(0), Q>, SV<M, 1, AT(1), Q>>>(); });
    t.add<Sig<RULE_CONCAT, D, Vc<2, AT(0), P>>>(); t.add<Sig<RULE_CONCAT, D, Vc<3, AT(0), P>>>(); t.add<Sig<RULE_CONCAT, D, Vc<4, AT(0), P>>>(); t.add<Sig<RULE_BROADCAST, D, Vc<1, AT(0), P>>>();
  } else if constexpr (L == 3) {
    static_for<8>([&](auto m) { constexpr int M = decltype(m)::value; t.add<Sig<RULE_CONCAT, D, SV<M, 0, AT(0), Q>, SV<M, 1, AT(1), Q>, SV<M, 2, AT(2), Q>>>(); });
    static_for<2>([&](auto m) { constexpr int M = decltype(m)::value; t.add<Sig<RULE_CONCAT, D, Vc<2, AT(0), P>, SV<M, 0, AT(1), P>>>(); t.add<Sig<RULE_CONCAT, D, SV<M, 0, AT(0), P>, Vc<2, AT(1), P>>>(); });
    t.add<Sig<RULE_CONCAT, D, Vc<3, AT(0), P>>>(); t.add<Sig<RULE_CONCAT, D, Vc<4, AT(0), P>>>(); t.add<Sig<RULE_BROADCAST, D, Vc<1, AT(0), P>>>();
  } else {
    static_for<16>([&](auto m) { constexpr int M = decltype(m)::value; if constexpr (M != 8 || C17_VEC4_SSSV1) t.add<Sig<RULE_CONCAT, D, SV<M, 0, AT(0), Q>, SV<M, 1, AT(1), Q>, SV<M, 2, AT(2), Q>, SV<M, 3, AT(3), Q>>>(); });
    static_for<4>([&](auto m) { constexpr int M = decltype(m)::value;
      t.add<Sig<RULE_CONCAT, D, Vc<2, AT(0), P>, SV<M, 0, AT(1), P>, SV<M, 1, AT(2), P>>>(); t.add<Sig<RULE_CONCAT, D, SV<M, 0, AT(0), P>, Vc<2, AT(1), P>, SV<M, 1, AT(2), P>>>(); t.add<Sig<RULE_CONCAT, D, SV<M, 0, AT(0), P>, SV<M, 1, AT(1), P>, Vc<2, AT(2), P>>>(); });
    static_for<2>([&](auto m) { constexpr int M = decltype(m)::value; t.add<Sig<RULE_CONCAT, D, Vc<3, AT(0), P>, SV<M, 0, AT(1), P>>>(); t.add<Sig<RULE_CONCAT, D, SV<M, 0, AT(0), P>, Vc<3, AT(1), P>>>(); });
    t.add<Sig<RULE_CONCAT, D, Vc<2, AT(0), P>, Vc<2, AT(1), P>>>(); t.add<Sig<RULE_CONCAT, D, Vc<4, AT(0), P>>>(); t.add<Sig<RULE_BROADCAST, D, Vc<1, AT(0), P>>>();
  }
#undef AT
}
template <int TI> struct TIdx { enum { value = TI }; };
template <typename T> struct IndexOf; template <> struct IndexOf<float> : TIdx<0> {}; template <> struct IndexOf<double> : TIdx<1> {}; template <> struct IndexOf<int> : TIdx<2> {}; template <> struct IndexOf<glm::uint> : TIdx<3> {};
template <> struct IndexOf<glm::int8> : TIdx<4> {}; template <> struct IndexOf<glm::uint16> : TIdx<5> {}; template <> struct IndexOf<bool> : TIdx<6> {};
// all signatures of vec<L,T,*>: full (U,T) cross-type square and rotating argument types for (Q,P) = (highp,highp); same-type and one rotation for the other qualifier pairs
template <int L, typename T, glm::qualifier Q, glm::qualifier P, bool FULL> static void add_vec_qp(CtorTable& t) {
  constexpr int TI = IndexOf<T>::value;
  t.add<Sig<RULE_BROADCAST, glm::vec<L, T, Q>, Sc<T>>>();                       // explicit vec(T scalar)
  if constexpr (FULL) { static_for<NTY>([&](auto u) { add_vec_sigs<L, T, Q, P, decltype(u)::value, 0>(t); add_vec_sigs<L, T, Q, P, decltype(u)::value, 1>(t); }); }
  else { add_vec_sigs<L, T, Q, P, TI, 0>(t); add_vec_sigs<L, T, Q, P, (TI + 1) % NTY, 1>(t); }
}
template <int L, typename T> static CtorTable& vec_table() {
  static CtorTable t; static std::once_flag once;
  std::call_once(once, [&]() {
    add_vec_qp<L, T, glm::highp, glm::highp, true>(t); add_vec_qp<L, T, glm::highp, glm::lowp, false>(t); add_vec_qp<L, T, glm::mediump, glm::highp, false>(t); add_vec_qp<L, T, glm::lowp, glm::mediump, false>(t);
#if C17_ALIGNED
    add_vec_qp<L, T, glm::aligned_highp, glm::aligned_highp, true>(t); add_vec_qp<L, T, glm::aligned_highp, glm::packed_highp, false>(t); add_vec_qp<L, T, glm::packed_highp, glm::aligned_highp, false>(t);
    add_vec_qp<L, T, glm::aligned_mediump, glm::aligned_mediump, false>(t); add_vec_qp<L, T, glm::aligned_lowp, glm::aligned_lowp, false>(t);
#endif
  });
  return t;
}
template <int L, typename T> static void op_vec_ctor(const Case& c, Outcome& o) { o.cls(0); CtorTable& t = vec_table<L, T>(); if (c.w[0] >= t.fn.size()) { o.bad(97, "ORACLE: signature index out of range"); return; } t.fn[c.w[0]]((int)c.w[1], o); }
template <int L, typename T> static void reg_vec_ctor(Engine& E) {
  Op& op = E.add(std::string("constructors of vec") + std::to_string(L) + "<" + TN<T>::name() + ",*> (all declared argument shapes x scalar/vec1 mixes x source types x qualifier pairs)", op_vec_ctor<L, T>);
  op.quick = {product("ALL_SIGNATURES x value patterns", {range("signature", 0, vec_table<L, T>().fn.size(), true), range("pattern", 0, NPAT_CTOR, true)})}; op.classes = {"checked"};
  op.note = std::to_string(vec_table<L, T>().fn.size()) + " constructor signatures";
}
template <typename T> static void reg_vec_ctors(Engine& E) { reg_vec_ctor<1, T>(E); reg_vec_ctor<2, T>(E); reg_vec_ctor<3, T>(E); reg_vec_ctor<4, T>(E); }

// ---- matrices: mat(s) diagonal, mat(C*R scalars), mat(C column vectors), mat(mat<C,R,U,P>)
template <class D, class IS, int U0, int ST> struct ScalarsSig; template <class D, size_t... I, int U0, int ST> struct ScalarsSig<D, std::index_sequence<I...>, U0, ST> { typedef Sig<RULE_CONCAT, D, Sc<ArgT<U0, ST, (int)I>>...> type; };
template <class D, int R, glm::qualifier Q, class IS, int U0, int ST> struct ColumnsSig; template <class D, int R, glm::qualifier Q, size_t... I, int U0, int ST> struct ColumnsSig<D, R, Q, std::index_sequence<I...>, U0, ST> { typedef Sig<RULE_CONCAT, D, Vc<R, ArgT<U0, ST, (int)I>, Q>...> type; };
template <int C, int R, typename T, glm::qualifier Q, glm::qualifier P, bool FULL> static void add_mat_qp(CtorTable& t) {
  typedef glm::mat<C, R, T, Q> D; constexpr int TI = IndexOf<T>::value;
  t.add<Sig<RULE_DIAGONAL, D, Sc<T>>>();
  auto scheme = [&](auto u, auto st) { constexpr int U0 = decltype(u)::value, ST = decltype(st)::value;
    t.add<typename ScalarsSig<D, std::make_index_sequence<C * R>, U0, ST>::type>(); t.add<typename ColumnsSig<D, R, Q, std::make_index_sequence<C>, U0, ST>::type>();
    if constexpr (ST == 0) t.add<Sig<RULE_CONCAT, D, Mc<C, R, ArgT<U0, 0, 0>, P>>>(); };
  if constexpr (FULL) static_for<NTY>([&](auto u) { scheme(u, std::integral_constant<int, 0>{}); scheme(u, std::integral_constant<int, 1>{}); });
  else { scheme(std::integral_constant<int, TI>{}, std::integral_constant<int, 0>{}); scheme(std::integral_constant<int, (TI + 1) % NTY>{}, std::integral_constant<int, 1>{}); }
}
template <int C, int R, typename T> static CtorTable& mat_table() {
  static CtorTable t; static std::once_flag once;
  std::call_once(once, [&]() { add_mat_qp<C, R, T, glm::highp, glm::highp, true>(t); add_mat_qp<C, R, T, glm::mediump, glm::lowp, false>(t);
#if C17_ALIGNED
    add_mat_qp<C, R, T, glm::aligned_highp, glm::aligned_highp, false>(t); add_mat_qp<C, R, T, glm::aligned_highp, glm::packed_highp, false>(t); add_mat_qp<C, R, T, glm::packed_highp, glm::aligned_highp, false>(t);
#endif
  });
  return t;
}
template <int C, int R, typename T> static void op_mat_ctor(const Case& c, Outcome& o) { o.cls(0); CtorTable& t = mat_table<C, R, T>(); if (c.w[0] >= t.fn.size()) { o.bad(97, "ORACLE: signature index out of range"); return; } t.fn[c.w[0]]((int)c.w[1], o); }
template <int C, int R, typename T> static void reg_mat_ctor(Engine& E) {
  Op& op = E.add(std::string("constructors of mat") + std::to_string(C) + "x" + std::to_string(R) + "<" + TN<T>::name() + ",*> (diagonal, C*R scalars, C columns, same-shape conversion; source types x qualifier pairs)", op_mat_ctor<C, R, T>);
  op.quick = {product("ALL_SIGNATURES x value patterns", {range("signature", 0, mat_table<C, R, T>().fn.size(), true), range("pattern", 0, NPAT_CTOR, true)})}; op.classes = {"checked"};
  op.note = std::to_string(mat_table<C, R, T>().fn.size()) + " constructor signatures";
}
template <typename T> static void reg_mat_ctors(Engine& E) { reg_mat_ctor<2, 2, T>(E); reg_mat_ctor<2, 3, T>(E); reg_mat_ctor<2, 4, T>(E); reg_mat_ctor<3, 2, T>(E); reg_mat_ctor<3, 3, T>(E); reg_mat_ctor<3, 4, T>(E); reg_mat_ctor<4, 2, T>(E); reg_mat_ctor<4, 3, T>(E); reg_mat_ctor<4, 4, T>(E); }

// ---- the 81 shape conversions mat<C,R>(mat<C2,R2>) on tagged sources (thin: the operand lattices live in C02)
template <int C, int R, int C2, int R2, typename T> static bool conv_one(int pat, Outcome& o) {
  glm::mat<C2, R2, T> s; for (int c = 0; c < C2; ++c) for (int r = 0; r < R2; ++r) s[c][r] = (T)((pat ? -1 : 1) * (10 * (c + 1) + (r + 1)));
  glm::mat<C, R, T> d(s);
  for (int c = 0; c < C; ++c) for (int r = 0; r < R; ++r) { T want = (c < C2 && r < R2) ? s[c][r] : (c == r ? T(1) : T(0));
    if (bits_of(d[c][r]) != bits_of(want)) { char m[160]; std::snprintf(m, sizeof m, "mat%dx%d(mat%dx%d)<%s>: element [%d][%d] is not the source element / the identity padding", C, R, C2, R2, TN<T>::name(), c, r);
      o.res(bits_of(d[c][r]), (uint64_t)(c * 4 + r)); o.exp(bits_of(want)); o.bad(1, m); return false; } }
  return true;
}
template <int C2, int R2, typename T> static void op_shape(const Case& c, Outcome& o) { o.cls(0); int p = (int)c.w[0];
  conv_one<2, 2, C2, R2, T>(p, o) && conv_one<2, 3, C2, R2, T>(p, o) && conv_one<2, 4, C2, R2, T>(p, o) && conv_one<3, 2, C2, R2, T>(p, o) && conv_one<3, 3, C2, R2, T>(p, o) && conv_one<3, 4, C2, R2, T>(p, o) && conv_one<4, 2, C2, R2, T>(p, o) && conv_one<4, 3, C2, R2, T>(p, o) && conv_one<4, 4, C2, R2, T>(p, o); }
template <int C2, int R2, typename T> static void reg_shape(Engine& E) { Op& op = E.add(std::string("9 shape conversions from mat") + std::to_string(C2) + "x" + std::to_string(R2) + "<" + TN<T>::name() + ">", op_shape<C2, R2, T>); op.quick = {range("TAG, -TAG", 0, 2, true)}; op.classes = {"checked"}; }
template <typename T> static void reg_shapes(Engine& E) { reg_shape<2, 2, T>(E); reg_shape<2, 3, T>(E); reg_shape<2, 4, T>(E); reg_shape<3, 2, T>(E); reg_shape<3, 3, T>(E); reg_shape<3, 4, T>(E); reg_shape<4, 2, T>(E); reg_shape<4, 3, T>(E); reg_shape<4, 4, T>(E); }

// ---- quaternions: qua(w,x,y,z) [or (x,y,z,w) under GLM_FORCE_QUAT_DATA_XYZW], qua::wxyz, qua(s, vec3), qua(qua<U,P>), qua(qua<T,P>); compared through named members
template <typename T, typename U, glm::qualifier Q, glm::qualifier P> static void qua_checks(int form, int pat, Outcome& o) {
  T w, x, y, z; U uw, ux, uy, uz; int slot = 0; bool ok = true;
  ok = gen<T, T>(pat, slot++, w) && ok; ok = gen<T, T>(pat, slot++, x) && ok; ok = gen<T, T>(pat, slot++, y) && ok; ok = gen<T, T>(pat, slot++, z) && ok; slot = 0;
  ok = gen<U, T>(pat, slot++, uw) && ok; ok = gen<U, T>(pat, slot++, ux) && ok; ok = gen<U, T>(pat, slot++, uy) && ok; ok = gen<U, T>(pat, slot++, uz) && ok;
  if (!ok) { o.nontrivial = false; return; }
  glm::qua<T, Q> q; T want[4] = {w, x, y, z}; const char* what = "";
  switch (form) {
#ifdef GLM_FORCE_QUAT_DATA_XYZW
    case 0: q = glm::qua<T, Q>(x, y, z, w); what = "qua(x, y, z, w)"; break;
#else
    case 0: q = glm::qua<T, Q>(w, x, y, z); what = "qua(w, x, y, z)"; break;
#endif
    case 1: q = glm::qua<T, Q>::wxyz(w, x, y, z); what = "qua::wxyz(w, x, y, z)"; break;
    case 2: q = glm::qua<T, Q>(w, glm::vec<3, T, Q>(x, y, z)); what = "qua(s, vec3)"; break;
    case 3: { glm::qua<U, P> s = glm::qua<U, P>::wxyz(uw, ux, uy, uz); q = glm::qua<T, Q>(s); want[0] = static_cast<T>(uw); want[1] = static_cast<T>(ux); want[2] = static_cast<T>(uy); want[3] = static_cast<T>(uz); what = "qua<T,Q>(qua<U,P>)"; } break;
    default: { glm::qua<T, P> s = glm::qua<T, P>::wxyz(w, x, y, z); glm::qua<T, Q> r(s); q = r; what = "qua<T,Q>(qua<T,P>)"; } break; }
  const T got[4] = {q.w, q.x, q.y, q.z};
  for (int i = 0; i < 4; ++i) if (bits_of(got[i]) != bits_of(want[i])) { char m[160]; std::snprintf(m, sizeof m, "%s <%s,%s> from <%s,%s>: member %c is not the argument of that name", what, TN<T>::name(), qname(Q), TN<U>::name(), qname(P), "wxyz"[i]);
    o.res(bits_of(got[i]), (uint64_t)i); o.exp(bits_of(want[i])); o.bad(1 + form, m); return; }
}
static void op_qua(const Case& c, Outcome& o) { o.cls(0); const int form = (int)c.w[0], ty = (int)c.w[1], pat = (int)c.w[2];
  switch (ty) { case 0: qua_checks<float, double, glm::highp, glm::highp>(form, pat, o); break; case 1: qua_checks<double, float, glm::highp, glm::highp>(form, pat, o); break; case 2: qua_checks<float, float, glm::highp, glm::lowp>(form, pat, o); break; case 3: qua_checks<double, double, glm::mediump, glm::highp>(form, pat, o); break;
    case 4: qua_checks<float, double, glm::lowp, glm::mediump>(form, pat, o); break;
#if C17_ALIGNED
    case 5: qua_checks<float, double, glm::aligned_highp, glm::packed_highp>(form, pat, o); break; case 6: qua_checks<float, float, glm::packed_highp, glm::aligned_highp>(form, pat, o); break; case 7: qua_checks<double, float, glm::aligned_highp, glm::aligned_highp>(form, pat, o); break;
#endif
    default: o.nontrivial = false; } }

// ---- configuration read-back (every part registers it, so no part is empty in any configuration)
static void op_config(const Case&, Outcome& o) { o.cls(0); o.res((uint64_t)GLM_CONFIG_SWIZZLE, (uint64_t)C17_ALIGNED); }

int main(int argc, char** argv) {
  Engine E; E.property = "C17"; E.kf_ids = {"KF-C17-same-swizzle-copy-assign", "KF-C17-vec4-3letter-w-not-writable", "KF-C17-vec2-3letter-no-conversion", "KF-C17-aligned-other-types-no-conversion", "KF-C17-free-xyzz-vec4-missing",
               "KF-C17-aligned-uvec2-swizzle-ill-formed", "KF-C17-aligned-vec2-3letter-ill-formed", "KF-C17-vec4-sssv1-not-declared", "KF-C17-aligned-vec2-wide-load"};
  E.assumptions = {"the index tuple of a swizzle name is derived from the position of each letter in xyzw / rgba / stpq inside this driver (token pasting), never read from GLM",
                   "gtx/vec_swizzle.hpp offers xyzw names only; rgba / stpq are checked in the member-function and operator forms",
                   "vec1 has no member/operator swizzles in this tree (commented out in type_vec1.hpp); vec1 sources are checked through the free functions only",
                   "constructor oracle: concatenate the argument components left to right and static_cast each to the destination element type with the same compiler; value patterns avoid undefined float->integer conversions (inadmissible (pattern, U, T) combinations are counted trivial)",
                   "cross-type constructor signatures: every (U,T) in {float,double,int,uint,i8,u16,bool}^2 with all arguments of type U, and with argument i of type (U+i) mod 7, for the (highp,highp) [and (aligned_highp,aligned_highp)] qualifier pair; the other qualifier pairs use U = T and one rotating scheme",
                   "write sequences: signed-int sequences whose exact value leaves +-2^30 and self-divisions by a zero component are cut (counted trivial)",
                   "the operator-swizzle build registers only what is specific to it (operator reads/writes/swizzle constructors); free functions, quaternion, matrix and vector constructors are checked in the other builds",
                   "operator-form packed reads cover float/int/double (one element-type-generic template), aligned reads float/int/uint (one SIMD specialisation each) and double (generic fallback)",
                   "which swizzle implementation is compiled is GLM's decision (GLM_CONFIG_SWIZZLE); on gcc/clang operator swizzles and aligned types exist only with GLM_FORCE_INTRINSICS"};
  E.extra_json["swizzle_impl"] = C17_OPER ? "\"operator\"" : C17_FUNC ? "\"function\"" : "\"disabled\"";
  E.extra_json["aligned_types"] = C17_ALIGNED ? "true" : "false";
  { Op& op = E.add("configuration read-back (GLM_CONFIG_SWIZZLE, aligned gentypes)", op_config); op.quick = {range("ONE", 0, 1, true)}; op.classes = {"checked"}; }
  typedef glm::uint uint_t;
  // Part table (NPARTS = 19).  Operator-swizzle build: 0 excluded families / wide loads / aligned double, 1-6 packed reads (float, int, double; vec2+vec3 | vec4),
  // 7-12 aligned reads (float, int, uint), 13-18 write sequences + swizzle constructors.  Other builds: 0 free functions / quaternions / shape conversions,
  // 1-3 member-function reads (GLM_FORCE_SWIZZLE only), 4-10 vector constructors per element type, 11-13 matrix constructors; 14-18 hold the read-back only.
#define FREE_ALL(T, Q) reg_read<IMPL_FREE, 1, T, glm::Q>(E); reg_read234<IMPL_FREE, T, glm::Q>(E);
#define OPER_LO(T, Q) reg_read<IMPL_OPER, 2, T, glm::Q>(E); reg_read<IMPL_OPER, 3, T, glm::Q>(E);
#define OPER_HI(T, Q) reg_read<IMPL_OPER, 4, T, glm::Q>(E);
#define WRITE_ALL(T, Q) reg_write<2, T, glm::Q>(E, 3, 3); reg_write<3, T, glm::Q>(E, 2, 3); reg_write<4, T, glm::Q>(E, 2, 2);
#define SWZCTOR_ALL(T, Q) reg_swzctor<2, T, glm::Q>(E); reg_swzctor<3, T, glm::Q>(E); reg_swzctor<4, T, glm::Q>(E);
#if PART(0)
  { Op& op = E.add("oracle self-check: the 3 x 336 generated names against their letter -> index decoding", op_alphabet); op.quick = {range("ALL_NAME_CODES", 0, 1008, true)}; op.classes = {"2-letter", "3-letter", "4-letter"}; }
  { Op& op = E.add("accessor / constructor families excluded from this build because they do not compile", op_excluded); op.quick = {range("family", 0, 3, true)}; op.classes = {"checked"}; }
#endif
#if C17_OPER
  // ======== operator-swizzle build: only what is specific to it (every vec temporary is very slow to compile under g++ in this mode)
#if PART(0) && C17_ALIGNED
  { Op& op = E.add("aligned vec2<float> .yxyx at every 8-byte aligned address", op_wide_load<float, glm::aligned_highp>); op.quick = {range("offset/8", 0, 4, true)}; op.classes = {"checked"}; }
  { Op& op = E.add("aligned vec2<int> .yxyx at every 8-byte aligned address", op_wide_load<int, glm::aligned_highp>); op.quick = {range("offset/8", 0, 4, true)}; op.classes = {"checked"}; }
  reg_read234<IMPL_OPER, double, glm::aligned_highp>(E);      // no value conversion exists on this tree: every name is reported, nothing heavy is instantiated
#endif
#if PART(1)
  OPER_LO(float, highp)
#endif
#if PART(2)
  OPER_HI(float, highp)
#endif
#if PART(3)
  OPER_LO(int, highp)
#endif
#if PART(4)
  OPER_HI(int, highp)
#endif
#if PART(5)
  OPER_LO(double, highp)
#endif
#if PART(6)
  OPER_HI(double, highp)
#endif
#if C17_ALIGNED
#if PART(7)
  OPER_LO(float, aligned_highp)
#endif
#if PART(8)
  OPER_HI(float, aligned_highp)
#endif
#if PART(9)
  OPER_LO(int, aligned_highp)
#endif
#if PART(10)
  OPER_HI(int, aligned_highp)
#endif
#if PART(11)
  OPER_LO(uint_t, aligned_highp)
#endif
#if PART(12)
  OPER_HI(uint_t, aligned_highp)
#endif
#endif
#if PART(13)
  WRITE_ALL(float, highp) SWZCTOR_ALL(float, highp)
#endif
#if PART(14)
  WRITE_ALL(int, highp) SWZCTOR_ALL(int, highp)
#endif
#if PART(15)
  WRITE_ALL(double, highp) SWZCTOR_ALL(double, highp)
#endif
#if C17_ALIGNED
#if PART(16)
  WRITE_ALL(float, aligned_highp) SWZCTOR_ALL(float, aligned_highp)
#endif
#if PART(17)
  WRITE_ALL(int, aligned_highp) SWZCTOR_ALL(int, aligned_highp)
#endif
#if PART(18)
  WRITE_ALL(double, aligned_highp) WRITE_ALL(uint_t, aligned_highp)
#endif
#endif
#else
  // ======== builds without operator swizzles
#if PART(0)
  FREE_ALL(float, highp) FREE_ALL(int, highp) FREE_ALL(uint_t, highp) FREE_ALL(double, highp) FREE_ALL(bool, highp) FREE_ALL(float, mediump) FREE_ALL(float, lowp)
#if C17_ALIGNED
  FREE_ALL(float, aligned_highp) FREE_ALL(int, aligned_highp) FREE_ALL(double, aligned_highp)
#endif
  { Op& op = E.add("quaternion constructors: (w,x,y,z), wxyz(), (s, vec3), cross-type, cross-qualifier", op_qua); op.quick = {product("forms x type/qualifier pairs x patterns", {range("form", 0, 5, true), range("types", 0, C17_ALIGNED ? 8 : 5, true), range("pattern", 0, NPAT_CTOR, true)})}; op.classes = {"checked"}; }
  reg_shapes<float>(E); reg_shapes<int>(E); reg_shapes<double>(E);
#endif
#if C17_FUNC
#if PART(1)
  reg_read234<IMPL_MEMBER, float, glm::highp>(E); reg_read234<IMPL_MEMBER, bool, glm::highp>(E);
#endif
#if PART(2)
  reg_read234<IMPL_MEMBER, int, glm::highp>(E); reg_read234<IMPL_MEMBER, uint_t, glm::highp>(E);
#endif
#if PART(3)
  reg_read234<IMPL_MEMBER, double, glm::highp>(E); reg_read234<IMPL_MEMBER, float, glm::lowp>(E); reg_read234<IMPL_MEMBER, float, glm::mediump>(E);
#endif
#endif
#if PART(4)
  reg_vec_ctors<float>(E);
#endif
#if PART(5)
  reg_vec_ctors<int>(E);
#endif
#if PART(6)
  reg_vec_ctors<double>(E);
#endif
#if PART(7)
  reg_vec_ctors<uint_t>(E);
#endif
#if PART(8)
  reg_vec_ctors<glm::int8>(E);
#endif
#if PART(9)
  reg_vec_ctors<glm::uint16>(E);
#endif
#if PART(10)
  reg_vec_ctors<bool>(E);
#endif
#if PART(11)
  reg_mat_ctors<float>(E);
#endif
#if PART(12)
  reg_mat_ctors<int>(E);
#endif
#if PART(13)
  reg_mat_ctors<double>(E);
#endif
#endif
  return E.main(argc, argv);
}
