// C08 — projection builders map their view volume onto the configured clip volume; the unsuffixed and
// half-suffixed builders are exactly the variant selected by GLM_FORCE_LEFT_HANDED / GLM_FORCE_DEPTH_ZERO_TO_ONE;
// project/unProject are mutually inverse and send the clip cube to viewport x [0,1].
// The same source is compiled in the four clip-control configurations (no flag, -DGLM_FORCE_LEFT_HANDED,
// -DGLM_FORCE_DEPTH_ZERO_TO_ONE, both).  Development aid: C08_STATS=1 in the environment prints the measured
// maxima (error / tolerance unit) to stderr at exit; nothing is printed otherwise.
#include <glm/glm.hpp>
#include <glm/ext/matrix_clip_space.hpp>
#include <glm/ext/matrix_projection.hpp>
#include <glm/gtc/matrix_transform.hpp>
#include "glmx.hpp"
#include <cfloat>
using namespace glmx;
typedef long double LD;
typedef __float128 Q;

// The configuration this build is *supposed* to have, derived from the command-line macros only (not from setup.hpp).
#ifdef GLM_FORCE_LEFT_HANDED
static const bool CFG_LH = true;
#else
static const bool CFG_LH = false;
#endif
#ifdef GLM_FORCE_DEPTH_ZERO_TO_ONE
static const bool CFG_ZO = true;
#else
static const bool CFG_ZO = false;
#endif
// fully suffixed variants, index V: 0 LH_ZO, 1 LH_NO, 2 RH_ZO, 3 RH_NO
static const char* const VNAME[4] = {"LH_ZO", "LH_NO", "RH_ZO", "RH_NO"};
static inline bool v_lh(int v) { return v < 2; }
static inline bool v_zo(int v) { return (v & 1) == 0; }
static inline int v_of(bool lh, bool zo) { return (lh ? 0 : 2) + (zo ? 0 : 1); }

template <typename F> struct FT;
template <> struct FT<float> { enum { IDX = 0 }; static float get(uint64_t b) { return f32(b); } static uint64_t bits(float f) { return b32(f); } static bool same(float a, float b) { return same32(a, b); }
  static LD U() { return std::ldexp((LD)1, -24); } static const char* name() { return "float"; } };
template <> struct FT<double> { enum { IDX = 1 }; static double get(uint64_t b) { return f64(b); } static uint64_t bits(double f) { return b64(f); } static bool same(double a, double b) { return same64(a, b); }
  static LD U() { return std::ldexp((LD)1, -53); } static const char* name() { return "double"; } };
template <typename F> using M4 = glm::mat<4, 4, F, glm::defaultp>;
template <typename F> using V3 = glm::vec<3, F, glm::defaultp>;
static inline LD ab(LD x) { return x < 0 ? -x : x; }
static inline Q abq(Q x) { return x < 0 ? -x : x; }

// ------------------------------------------------------------------ measured maxima (development aid, see header)
enum { S_ORTHO2D, S_ORTHO, S_FRUSTUM, S_PERSP, S_PFOV, S_INF, S_TWEAK, S_EQ_PF, S_EQ_FOV, S_PROJECT, S_UNPROJECT, S_ROUNDTRIP_OBJ, S_ROUNDTRIP_WIN, S_PICK, S_N };
static const char* const SNAME[S_N] = {"ortho2D", "ortho", "frustum", "perspective", "perspectiveFov", "infinitePerspective", "tweakedInfinitePerspective", "perspective~frustum", "perspectiveFov~perspective",
  "project", "unProject", "unProject(project)", "project(unProject)", "pickMatrix"};
static std::atomic<uint64_t> g_stat[2][S_N];
static inline void stat(int ty, int slot, LD ratio) {
  if (!(ratio >= 0)) return; uint64_t b = b64((double)ratio), cur = g_stat[ty][slot].load(std::memory_order_relaxed);
  while (b > cur && !g_stat[ty][slot].compare_exchange_weak(cur, b)) {}
}
static void print_stats() { if (!std::getenv("C08_STATS")) return; for (int t = 0; t < 2; ++t) for (int s = 0; s < S_N; ++s) std::fprintf(stderr, "C08_STATS %-6s %-28s max err/unit = %.4g\n", t ? "double" : "float", SNAME[s], f64(g_stat[t][s].load())); }

// ------------------------------------------------------------------ builder tables
template <typename F> struct Fn { typedef M4<F> (*f6)(F, F, F, F, F, F); typedef M4<F> (*f5)(F, F, F, F, F); typedef M4<F> (*f4)(F, F, F, F); typedef M4<F> (*f3)(F, F, F); };
template <typename F> static M4<F> orthoV(int v, F l, F r, F b, F t, F n, F f) { static const typename Fn<F>::f6 T[4] = {glm::orthoLH_ZO<F>, glm::orthoLH_NO<F>, glm::orthoRH_ZO<F>, glm::orthoRH_NO<F>}; return T[v](l, r, b, t, n, f); }
template <typename F> static M4<F> frustumV(int v, F l, F r, F b, F t, F n, F f) { static const typename Fn<F>::f6 T[4] = {glm::frustumLH_ZO<F>, glm::frustumLH_NO<F>, glm::frustumRH_ZO<F>, glm::frustumRH_NO<F>}; return T[v](l, r, b, t, n, f); }
template <typename F> static M4<F> perspV(int v, F fy, F a, F n, F f) { static const typename Fn<F>::f4 T[4] = {glm::perspectiveLH_ZO<F>, glm::perspectiveLH_NO<F>, glm::perspectiveRH_ZO<F>, glm::perspectiveRH_NO<F>}; return T[v](fy, a, n, f); }
template <typename F> static M4<F> pfovV(int v, F fy, F w, F h, F n, F f) { static const typename Fn<F>::f5 T[4] = {glm::perspectiveFovLH_ZO<F>, glm::perspectiveFovLH_NO<F>, glm::perspectiveFovRH_ZO<F>, glm::perspectiveFovRH_NO<F>}; return T[v](fy, w, h, n, f); }
template <typename F> static M4<F> infV(int v, F fy, F a, F n) { static const typename Fn<F>::f3 T[4] = {glm::infinitePerspectiveLH_ZO<F>, glm::infinitePerspectiveLH_NO<F>, glm::infinitePerspectiveRH_ZO<F>, glm::infinitePerspectiveRH_NO<F>}; return T[v](fy, a, n); }

// ------------------------------------------------------------------ oracle (i): corners of the view volume -> corners of the clip volume
// The matrix entries are taken as they are (exact values of type F), the map is evaluated in long double and each
// normalised coordinate is compared with its target within cc * u * (sum of |terms| of that clip coordinate) / w:
// every entry of these closed-form matrices is a quotient of one sum/product of parameters (<= 3 roundings, or a
// libm tan/sin/cos plus <= 4 roundings for the fov based ones), so its relative error is a few u.
// w must be positive: the volume lies in front of the eye (-z for RH, +z for LH).
template <typename F> static bool map_point(const M4<F>& M, const LD E[3], const LD tgt[3], int ncomp, LD cc, Outcome& o, int slot, const char* what) {
  static const char* const CN[3] = {"x", "y", "z"};
  const LD v[4] = {E[0], E[1], E[2], 1}; LD clip[4], as[4];
  for (int r = 0; r < 4; ++r) { clip[r] = 0; as[r] = 0; for (int c = 0; c < 4; ++c) { LD t = (LD)M[c][r] * v[c]; clip[r] += t; as[r] += ab(t); } }
  if (!(clip[3] > 0)) { char m[160]; std::snprintf(m, sizeof m, "%s: clip w = %.6Lg is not positive for a point of the view volume (wrong viewing direction)", what, clip[3]); o.res(b64((double)clip[3])); o.exp(b64(1.0)); o.bad(1, m); return false; }
  for (int i = 0; i < ncomp; ++i) {
    LD ndc = clip[i] / clip[3], unit = FT<F>::U() * as[i] / clip[3], err = ab(ndc - tgt[i]);
    if (unit > 0) stat(FT<F>::IDX, slot, err / unit); else if (err > 0) stat(FT<F>::IDX, slot, 1e30L);
    if (!(err <= cc * unit)) { char m[160]; std::snprintf(m, sizeof m, "%s: eye point (%.5Lg,%.5Lg,%.5Lg) has ndc %s = %.9Lg, must be %.9Lg", what, E[0], E[1], E[2], CN[i], ndc, tgt[i]);
      o.res(b64((double)ndc), (uint64_t)i); o.exp(b64((double)tgt[i])); o.bad(2 + i, m); return false; }
  }
  return true;
}
static const LD C_RATIONAL = 12;  // entries with <= 3 roundings (ortho, frustum, pickMatrix): proven bound 3u, x4
static const LD C_TRIG = 16;      // entries through tan (2u) + 2 roundings = 4u, or cos/sin (2u each) + 3 roundings = 7u (perspectiveFov)

template <typename F> static void op_ortho2d(const Case& c, Outcome& o) {
  F l = FT<F>::get(c.w[0]), r = FT<F>::get(c.w[1]), b = FT<F>::get(c.w[2]), t = FT<F>::get(c.w[3]); o.cls(0);
  M4<F> M = glm::ortho(l, r, b, t);
  for (int k = 0; k < 12; ++k) { LD z = (LD)(k / 4) - 1; LD E[3] = {(LD)((k & 1) ? r : l), (LD)((k & 2) ? t : b), z}, tg[3] = {(LD)((k & 1) ? 1 : -1), (LD)((k & 2) ? 1 : -1), 0};
    if (!map_point(M, E, tg, 2, C_RATIONAL, o, S_ORTHO2D, "ortho(l,r,b,t)")) return; }
}
// 8 corners of a box/frustum volume: near rectangle [l,r]x[b,t] at distance n, far rectangle scaled by `grow` at distance f
template <typename F> static bool volume_corners(const M4<F>& M, int v, LD l, LD r, LD b, LD t, LD n, LD f, LD grow, LD cc, Outcome& o, int slot, const char* what) {
  const LD dir = v_lh(v) ? 1 : -1, zn = v_zo(v) ? 0 : -1;
  for (int k = 0; k < 8; ++k) { bool fr = (k & 4) != 0; LD s = fr ? grow : 1;
    LD E[3] = {((k & 1) ? r : l) * s, ((k & 2) ? t : b) * s, dir * (fr ? f : n)}, tg[3] = {(LD)((k & 1) ? 1 : -1), (LD)((k & 2) ? 1 : -1), fr ? (LD)1 : zn};
    if (!map_point(M, E, tg, 3, cc, o, slot, what)) return false; }
  return true;
}
template <typename F> static void op_ortho(const Case& c, Outcome& o) {
  int v = (int)c.w[0]; o.cls(v); F l = FT<F>::get(c.w[1]), r = FT<F>::get(c.w[2]), b = FT<F>::get(c.w[3]), t = FT<F>::get(c.w[4]), n = FT<F>::get(c.w[5]), f = FT<F>::get(c.w[6]);
  char nm[32]; std::snprintf(nm, sizeof nm, "ortho%s", VNAME[v]);
  volume_corners(orthoV<F>(v, l, r, b, t, n, f), v, l, r, b, t, n, f, (LD)1, C_RATIONAL, o, S_ORTHO, nm);
}
template <typename F> static void op_frustum(const Case& c, Outcome& o) {
  int v = (int)c.w[0]; o.cls(v); F l = FT<F>::get(c.w[1]), r = FT<F>::get(c.w[2]), b = FT<F>::get(c.w[3]), t = FT<F>::get(c.w[4]), n = FT<F>::get(c.w[5]), f = FT<F>::get(c.w[6]);
  char nm[32]; std::snprintf(nm, sizeof nm, "frustum%s", VNAME[v]);
  volume_corners(frustumV<F>(v, l, r, b, t, n, f), v, l, r, b, t, n, f, (LD)f / (LD)n, C_RATIONAL, o, S_FRUSTUM, nm);
}
template <typename F> static void op_perspective(const Case& c, Outcome& o) {
  int v = (int)c.w[0]; o.cls(v); F fy = FT<F>::get(c.w[1]), a = FT<F>::get(c.w[2]), n = FT<F>::get(c.w[3]), f = FT<F>::get(c.w[4]);
  LD t = (LD)n * std::tan((LD)fy / 2), r = t * (LD)a; char nm[32]; std::snprintf(nm, sizeof nm, "perspective%s", VNAME[v]);
  volume_corners(perspV<F>(v, fy, a, n, f), v, -r, r, -t, t, n, f, (LD)f / (LD)n, C_TRIG, o, S_PERSP, nm);
}
template <typename F> static void op_perspectiveFov(const Case& c, Outcome& o) {
  int v = (int)c.w[0]; o.cls(v); F fy = FT<F>::get(c.w[1]), w = FT<F>::get(c.w[2]), h = FT<F>::get(c.w[3]), n = FT<F>::get(c.w[4]), f = FT<F>::get(c.w[5]);
  LD t = (LD)n * std::tan((LD)fy / 2), r = t * ((LD)w / (LD)h); char nm[32]; std::snprintf(nm, sizeof nm, "perspectiveFov%s", VNAME[v]);
  volume_corners(pfovV<F>(v, fy, w, h, n, f), v, -r, r, -t, t, n, f, (LD)f / (LD)n, C_TRIG, o, S_PFOV, nm);
}
// far plane at infinity: near rectangle -> z = -1|0; along the view direction at distance 2^k n (k = 1..60) the lateral
// boundary stays on x,y = +-1 and depth is 1 + (znear - 1) / 2^k (the unique projective depth with near -> znear, infinity -> lim),
// strictly increasing and never above 1.  The depth sequence is evaluated in binary128 (exact for these operands).
template <typename F> static bool infinite_volume(const M4<F>& M, bool lh, LD znear, LD lim, LD t, LD r, LD n, Outcome& o, int slot, const char* what) {
  const LD dir = lh ? 1 : -1;
  for (int k = 0; k < 4; ++k) { LD E[3] = {(k & 1) ? r : -r, (k & 2) ? t : -t, dir * n}, tg[3] = {(LD)((k & 1) ? 1 : -1), (LD)((k & 2) ? 1 : -1), znear}; if (!map_point(M, E, tg, 3, C_TRIG, o, slot, what)) return false; }
  Q prev = (Q)-2;
  for (int e = 1; e <= 60; ++e) {
    LD s = std::ldexp((LD)1, e);
    for (int k = 0; k < 4; ++k) { LD E[3] = {((k & 1) ? r : -r) * s, ((k & 2) ? t : -t) * s, dir * n * s}, tg[3] = {(LD)((k & 1) ? 1 : -1), (LD)((k & 2) ? 1 : -1), lim + (znear - lim) / s}; if (!map_point(M, E, tg, 3, C_TRIG, o, slot, what)) return false; }
    Q z = (Q)(dir * n * s), zc = (Q)M[2][2] * z + (Q)M[3][2], w = (Q)M[2][3] * z + (Q)M[3][3], d = zc / w;
    if (!(w > 0)) { o.bad(1, "infinite projection: w not positive on the view axis"); return false; }
    if (!(d > prev)) { char m[160]; std::snprintf(m, sizeof m, "%s: depth is not strictly increasing with distance (at 2^%d * near)", what, e); o.res(b64((double)d), (uint64_t)e); o.exp(b64((double)prev)); o.bad(6, m); return false; }
    if (!(d <= 1)) { char m[160]; std::snprintf(m, sizeof m, "%s: depth exceeds 1 at distance 2^%d * near (1 + %.3g)", what, e, (double)(d - 1)); o.res(b64((double)(d - 1)), (uint64_t)e); o.exp(0); o.bad(7, m); return false; }
    prev = d;
  }
  return true;
}
template <typename F> static void op_infinite(const Case& c, Outcome& o) {
  int v = (int)c.w[0]; o.cls(v); F fy = FT<F>::get(c.w[1]), a = FT<F>::get(c.w[2]), n = FT<F>::get(c.w[3]);
  LD t = (LD)n * std::tan((LD)fy / 2), r = t * (LD)a; char nm[40]; std::snprintf(nm, sizeof nm, "infinitePerspective%s", VNAME[v]);
  infinite_volume(infV<F>(v, fy, a, n), v_lh(v), v_zo(v) ? (LD)0 : (LD)-1, (LD)1, t, r, n, o, S_INF, nm);
}
// tweakedInfinitePerspective (Lengyel): right-handed, near -> -1, infinity -> 1 - ep (so that rounding can never push depth above 1)
template <typename F> static void op_tweaked(const Case& c, Outcome& o) {
  F fy = FT<F>::get(c.w[0]), a = FT<F>::get(c.w[1]), n = FT<F>::get(c.w[2]); int which = (int)c.w[3]; o.cls(which);
  F ep = which == 2 ? (F)0.0009765625 : std::numeric_limits<F>::epsilon();
  M4<F> M = which == 0 ? glm::tweakedInfinitePerspective(fy, a, n) : glm::tweakedInfinitePerspective(fy, a, n, ep);
  LD t = (LD)n * std::tan((LD)fy / 2), r = t * (LD)a;
  infinite_volume(M, false, (LD)-1, (LD)1 - (LD)ep, t, r, n, o, S_TWEAK, which == 0 ? "tweakedInfinitePerspective(fovy,aspect,near)" : "tweakedInfinitePerspective(fovy,aspect,near,ep)");
}

// ------------------------------------------------------------------ oracle (ii): perspective == symmetric frustum, perspectiveFov == perspective(w/h)
// entrywise |a-b| <= 16 u max(|a|,|b|).  Worst cases by counting roundings (libm call <= 1 ulp = 2u):
//   perspective[0][0] 2 roundings vs frustum(-r,r,-t,t) with t = n*tan, r = t*aspect formed in F: 3 roundings -> <= 5u
//   perspectiveFov[0][0] = cos/sin*h/w: 2 libm + 3 roundings = 7u vs perspective: w/h, tan, 2 roundings = 5u -> <= 12u
template <typename F> static bool close_mats(const M4<F>& A, const M4<F>& B, Outcome& o, int slot, const char* what) {
  for (int c = 0; c < 4; ++c) for (int r = 0; r < 4; ++r) { LD a = A[c][r], b = B[c][r], m = std::max(ab(a), ab(b)), err = ab(a - b);
    if (m > 0) stat(FT<F>::IDX, slot, err / (FT<F>::U() * m));
    if (!(err <= 16 * FT<F>::U() * m)) { char msg[160]; std::snprintf(msg, sizeof msg, "%s: entry [%d][%d] %.9Lg vs %.9Lg", what, c, r, a, b); o.res(FT<F>::bits(A[c][r]), (uint64_t)(c * 4 + r)); o.exp(FT<F>::bits(B[c][r])); o.bad(1, msg); return false; } }
  return true;
}
template <typename F> static void op_persp_is_frustum(const Case& c, Outcome& o) {
  int v = (int)c.w[0]; o.cls(v); F fy = FT<F>::get(c.w[1]), a = FT<F>::get(c.w[2]), n = FT<F>::get(c.w[3]), f = FT<F>::get(c.w[4]);
  F t = n * std::tan(fy / (F)2), r = t * a; char nm[64]; std::snprintf(nm, sizeof nm, "perspective%s != frustum%s(-r,r,-t,t,n,f)", VNAME[v], VNAME[v]);
  close_mats(perspV<F>(v, fy, a, n, f), frustumV<F>(v, -r, r, -t, t, n, f), o, S_EQ_PF, nm);
}
template <typename F> static void op_fov_is_persp(const Case& c, Outcome& o) {
  int v = (int)c.w[0]; o.cls(v); F fy = FT<F>::get(c.w[1]), w = FT<F>::get(c.w[2]), h = FT<F>::get(c.w[3]), n = FT<F>::get(c.w[4]), f = FT<F>::get(c.w[5]);
  char nm[64]; std::snprintf(nm, sizeof nm, "perspectiveFov%s(fov,w,h) != perspective%s(fov,w/h)", VNAME[v], VNAME[v]);
  close_mats(pfovV<F>(v, fy, w, h, n, f), perspV<F>(v, fy, w / h, n, f), o, S_EQ_FOV, nm);
}

// ------------------------------------------------------------------ oracle (iii): dispatch, bit-identical
template <typename F> static bool same_mat(const M4<F>& a, const M4<F>& b, int& ci, int& ri) { for (int c = 0; c < 4; ++c) for (int r = 0; r < 4; ++r) if (!FT<F>::same(a[c][r], b[c][r])) { ci = c; ri = r; return false; } return true; }
template <typename F> struct Disp { const M4<F>* got; int want; const char* suffix; };
template <typename F> static void dispatch_check(Outcome& o, const char* fam, const M4<F> full[4], const Disp<F>* d, int nd) {
  for (int i = 0; i < nd; ++i) { int ci = 0, ri = 0;
    if (!same_mat(*d[i].got, full[d[i].want], ci, ri)) { const char* is = "none of the four variants"; for (int j = 0; j < 4; ++j) { int a, b; if (same_mat(*d[i].got, full[j], a, b)) is = VNAME[j]; }
      char m[160]; std::snprintf(m, sizeof m, "%s%s must be %s%s in this configuration (%s) but equals %s (entry [%d][%d])", fam, d[i].suffix, fam, VNAME[d[i].want], VNAME[v_of(CFG_LH, CFG_ZO)], is, ci, ri);
      o.res(FT<F>::bits((*d[i].got)[ci][ri]), (uint64_t)(ci * 4 + ri)); o.exp(FT<F>::bits(full[d[i].want][ci][ri])); o.bad(1 + i, m); return; } }
}
#define DISPATCH5(FAM, NAME, ...)                                                                                                  \
  M4<F> full[4]; for (int v = 0; v < 4; ++v) full[v] = FAM##V<F>(v, __VA_ARGS__);                                                   \
  M4<F> un = glm::NAME(__VA_ARGS__), zo = glm::NAME##ZO(__VA_ARGS__), no = glm::NAME##NO(__VA_ARGS__), lh = glm::NAME##LH(__VA_ARGS__), rh = glm::NAME##RH(__VA_ARGS__); \
  const Disp<F> d[5] = {{&un, v_of(CFG_LH, CFG_ZO), ""}, {&zo, v_of(CFG_LH, true), "ZO"}, {&no, v_of(CFG_LH, false), "NO"}, {&lh, v_of(true, CFG_ZO), "LH"}, {&rh, v_of(false, CFG_ZO), "RH"}};
template <typename F> static void op_disp_ortho(const Case& c, Outcome& o) {
  o.cls(0); F l = FT<F>::get(c.w[0]), r = FT<F>::get(c.w[1]), b = FT<F>::get(c.w[2]), t = FT<F>::get(c.w[3]), n = FT<F>::get(c.w[4]), f = FT<F>::get(c.w[5]);
  DISPATCH5(ortho, ortho, l, r, b, t, n, f) dispatch_check<F>(o, "ortho", full, d, 5);
}
template <typename F> static void op_disp_frustum(const Case& c, Outcome& o) {
  o.cls(0); F l = FT<F>::get(c.w[0]), r = FT<F>::get(c.w[1]), b = FT<F>::get(c.w[2]), t = FT<F>::get(c.w[3]), n = FT<F>::get(c.w[4]), f = FT<F>::get(c.w[5]);
  DISPATCH5(frustum, frustum, l, r, b, t, n, f) dispatch_check<F>(o, "frustum", full, d, 5);
}
template <typename F> static void op_disp_persp(const Case& c, Outcome& o) {
  o.cls(0); F fy = FT<F>::get(c.w[0]), a = FT<F>::get(c.w[1]), n = FT<F>::get(c.w[2]), f = FT<F>::get(c.w[3]);
  DISPATCH5(persp, perspective, fy, a, n, f) dispatch_check<F>(o, "perspective", full, d, 5);
}
template <typename F> static void op_disp_pfov(const Case& c, Outcome& o) {
  o.cls(0); F fy = FT<F>::get(c.w[0]), w = FT<F>::get(c.w[1]), h = FT<F>::get(c.w[2]), n = FT<F>::get(c.w[3]), f = FT<F>::get(c.w[4]);
  DISPATCH5(pfov, perspectiveFov, fy, w, h, n, f) dispatch_check<F>(o, "perspectiveFov", full, d, 5);
}
template <typename F> static void op_disp_inf(const Case& c, Outcome& o) {
  o.cls(0); F fy = FT<F>::get(c.w[0]), a = FT<F>::get(c.w[1]), n = FT<F>::get(c.w[2]);
  M4<F> full[4]; for (int v = 0; v < 4; ++v) full[v] = infV<F>(v, fy, a, n);
  M4<F> un = glm::infinitePerspective(fy, a, n);
#ifdef C08_HAVE_INFINITEPERSPECTIVE_LH_RH   // declared in matrix_clip_space.hpp but not defined in the current tree (link error): enable once defined
  M4<F> lh = glm::infinitePerspectiveLH(fy, a, n), rh = glm::infinitePerspectiveRH(fy, a, n);
  const Disp<F> d[3] = {{&un, v_of(CFG_LH, CFG_ZO), ""}, {&lh, v_of(true, CFG_ZO), "LH"}, {&rh, v_of(false, CFG_ZO), "RH"}}; dispatch_check<F>(o, "infinitePerspective", full, d, 3);
#else
  const Disp<F> d[1] = {{&un, v_of(CFG_LH, CFG_ZO), ""}}; dispatch_check<F>(o, "infinitePerspective", full, d, 1);
#endif
}
static void op_readback(const Case&, Outcome& o) {
  o.cls(0); const int want = (CFG_LH ? GLM_CLIP_CONTROL_LH_BIT : GLM_CLIP_CONTROL_RH_BIT) | (CFG_ZO ? GLM_CLIP_CONTROL_ZO_BIT : GLM_CLIP_CONTROL_NO_BIT);
  o.res((uint64_t)GLM_CONFIG_CLIP_CONTROL); o.exp((uint64_t)want);
  if (GLM_CONFIG_CLIP_CONTROL != want) o.bad(1, "GLM_CONFIG_CLIP_CONTROL is not the combination selected by GLM_FORCE_LEFT_HANDED / GLM_FORCE_DEPTH_ZERO_TO_ONE");
  const int bitsv[4] = {GLM_CLIP_CONTROL_ZO_BIT, GLM_CLIP_CONTROL_NO_BIT, GLM_CLIP_CONTROL_LH_BIT, GLM_CLIP_CONTROL_RH_BIT};
  for (int i = 0; i < 4; ++i) for (int j = 0; j < i; ++j) if (bitsv[i] & bitsv[j]) o.bad(2, "GLM_CLIP_CONTROL_*_BIT values overlap");
  if (GLM_CLIP_CONTROL_LH_ZO != (GLM_CLIP_CONTROL_LH_BIT | GLM_CLIP_CONTROL_ZO_BIT) || GLM_CLIP_CONTROL_LH_NO != (GLM_CLIP_CONTROL_LH_BIT | GLM_CLIP_CONTROL_NO_BIT) ||
      GLM_CLIP_CONTROL_RH_ZO != (GLM_CLIP_CONTROL_RH_BIT | GLM_CLIP_CONTROL_ZO_BIT) || GLM_CLIP_CONTROL_RH_NO != (GLM_CLIP_CONTROL_RH_BIT | GLM_CLIP_CONTROL_NO_BIT)) o.bad(3, "GLM_CLIP_CONTROL_xx_yy is not the union of its two bits");
}

// ------------------------------------------------------------------ oracle (iv): project / unProject
// Reference = the defining formula evaluated in long double, carried together with a first-order running error bound
// (EB arithmetic: every operation adds u*|result| to the propagated error of its operands) for a straightforward
// evaluation in type F.  A result is accepted within KEB * bound; KEB = 4 allows for an equivalent operation order
// (reciprocal-multiply, other summation order, other cofactor grouping in the 4x4 inverse).  The bound scales with the
// conditioning of the pipeline by construction, nothing is tuned per case.
static const LD KEB = 4;
struct EB { LD v, e; bool ok; };
template <typename F> struct EA {
  static LD u() { return FT<F>::U(); }
  static EB ex(LD v) { EB r = {v, 0, true}; return r; }
  static EB neg(EB a) { a.v = -a.v; return a; }
  static EB add(EB a, EB b) { LD v = a.v + b.v, p = a.e + b.e; EB r = {v, p + u() * (ab(v) + p), a.ok && b.ok}; return r; }
  static EB sub(EB a, EB b) { return add(a, neg(b)); }
  static EB mul(EB a, EB b) { LD v = a.v * b.v, p = ab(a.v) * b.e + ab(b.v) * a.e + a.e * b.e; EB r = {v, p + u() * (ab(v) + p), a.ok && b.ok}; return r; }
  static EB div(EB a, EB b) { if (!a.ok || !b.ok || !(ab(b.v) > 2 * b.e)) { EB r = {0, 0, false}; return r; } LD v = a.v / b.v, p = (a.e + ab(v) * b.e) / (ab(b.v) - b.e); EB r = {v, p + u() * (ab(v) + p), true}; return r; }
  static EB pow2(EB a, LD k) { a.v *= k; a.e *= ab(k); return a; }   // exact scaling
};
template <typename F> struct EM { EB m[4][4]; };   // m[col][row]
template <typename F> static EM<F> em_of(const M4<F>& M) { EM<F> r; for (int c = 0; c < 4; ++c) for (int k = 0; k < 4; ++k) r.m[c][k] = EA<F>::ex((LD)M[c][k]); return r; }
template <typename F> static void em_mulv(const EM<F>& A, const EB x[4], EB out[4]) { typedef EA<F> E; for (int r = 0; r < 4; ++r) { EB s = E::mul(A.m[0][r], x[0]); for (int c = 1; c < 4; ++c) s = E::add(s, E::mul(A.m[c][r], x[c])); out[r] = s; } }
template <typename F> static EM<F> em_mul(const EM<F>& A, const EM<F>& B) { EM<F> R; for (int c = 0; c < 4; ++c) em_mulv(A, B.m[c], R.m[c]); return R; }
template <typename F> static EB em_det3(const EM<F>& A, const int rr[3], const int cc[3]) { typedef EA<F> E;
#define AT(i, j) A.m[cc[j]][rr[i]]
  EB t0 = E::mul(AT(0, 0), E::sub(E::mul(AT(1, 1), AT(2, 2)), E::mul(AT(1, 2), AT(2, 1))));
  EB t1 = E::mul(AT(0, 1), E::sub(E::mul(AT(1, 0), AT(2, 2)), E::mul(AT(1, 2), AT(2, 0))));
  EB t2 = E::mul(AT(0, 2), E::sub(E::mul(AT(1, 0), AT(2, 1)), E::mul(AT(1, 1), AT(2, 0))));
#undef AT
  return E::add(E::sub(t0, t1), t2);
}
template <typename F> static bool em_inverse(const EM<F>& A, EM<F>& R) { typedef EA<F> E; EB cof[4][4];   // cof[row][col]
  for (int i = 0; i < 4; ++i) for (int j = 0; j < 4; ++j) { int rr[3], cc[3], a = 0, b = 0; for (int k = 0; k < 4; ++k) { if (k != i) rr[a++] = k; if (k != j) cc[b++] = k; }
    EB d = em_det3(A, rr, cc); cof[i][j] = ((i + j) & 1) ? E::neg(d) : d; }
  EB det = E::mul(A.m[0][0], cof[0][0]); for (int j = 1; j < 4; ++j) det = E::add(det, E::mul(A.m[j][0], cof[0][j]));
  for (int r = 0; r < 4; ++r) for (int c = 0; c < 4; ++c) { R.m[c][r] = E::div(cof[c][r], det); if (!R.m[c][r].ok) return false; }
  return true;
}
struct Viewport { LD x, y, w, h; };
// window = viewport origin + (ndc.xy + 1)/2 * viewport size; depth = (ndc.z + 1)/2 for NO, ndc.z for ZO  (clip cube -> viewport x [0,1])
template <typename F> static bool eb_project(const EB p[3], const EM<F>& model, const EM<F>& proj, const Viewport& vp, bool zo, EB out[3]) { typedef EA<F> E;
  EB p4[4] = {p[0], p[1], p[2], E::ex(1)}, e4[4], c4[4]; em_mulv(model, p4, e4); em_mulv(proj, e4, c4);
  EB n[3]; for (int i = 0; i < 3; ++i) { n[i] = E::div(c4[i], c4[3]); if (!n[i].ok) return false; }
  out[0] = E::add(E::mul(E::add(E::pow2(n[0], 0.5L), E::ex(0.5L)), E::ex(vp.w)), E::ex(vp.x));
  out[1] = E::add(E::mul(E::add(E::pow2(n[1], 0.5L), E::ex(0.5L)), E::ex(vp.h)), E::ex(vp.y));
  out[2] = zo ? n[2] : E::add(E::pow2(n[2], 0.5L), E::ex(0.5L));
  return true;
}
template <typename F> static bool eb_unproject(const EB w[3], const EM<F>& model, const EM<F>& proj, const Viewport& vp, bool zo, EB out[3]) { typedef EA<F> E;
  EM<F> A = em_mul(proj, model), I; if (!em_inverse(A, I)) return false;
  EB fx = E::div(E::sub(w[0], E::ex(vp.x)), E::ex(vp.w)), fy = E::div(E::sub(w[1], E::ex(vp.y)), E::ex(vp.h));
  EB n4[4] = {E::sub(E::pow2(fx, 2), E::ex(1)), E::sub(E::pow2(fy, 2), E::ex(1)), zo ? w[2] : E::sub(E::pow2(w[2], 2), E::ex(1)), E::ex(1)}, h[4]; em_mulv(I, n4, h);
  for (int i = 0; i < 3; ++i) { out[i] = E::div(h[i], h[3]); if (!out[i].ok) return false; }
  return true;
}
template <typename F> static bool eb_accept(const V3<F>& got, const EB ref[3], Outcome& o, int slot, int vclass, const char* what) {
  static const char* const CN[3] = {"x", "y", "z"};
  for (int i = 0; i < 3; ++i) { LD err = ab((LD)got[i] - ref[i].v); if (ref[i].e > 0) stat(FT<F>::IDX, slot, err / ref[i].e); else if (err > 0) stat(FT<F>::IDX, slot, 1e30L);
    if (!(err <= KEB * ref[i].e)) { char m[160]; std::snprintf(m, sizeof m, "%s: %s = %.12Lg, must be %.12Lg (+-%.3Lg)", what, CN[i], (LD)got[i], ref[i].v, KEB * ref[i].e);
      o.res(FT<F>::bits(got[i]), (uint64_t)i); o.exp(FT<F>::bits((F)ref[i].v)); o.bad(vclass, m); return false; } }
  return true;
}
// pipelines: kind 0 identity (the clip cube itself), 1 ortho, 2 frustum, 3 perspective; all matrices of the depth convention under test
static const double PNF[6][2] = {{0.1, 10}, {1, 2}, {1, 1000}, {0.01, 1e5}, {2e7, 1e8}, {1e-5, 1e-2}};   // the last two: volumes whose homogeneous w = 1/depth is far below / above 1 (absolute thresholds on w show there)
static const double PGRID[9] = {-1, -0.75, -0.5, -0.25, 0, 0.25, 0.5, 0.75, 1}, PDEPTH[6] = {0, 0.1, 0.25, 0.5, 1, 1.25};   // quick uses the sub-grid {-1,-.5,0,.75,1} x {0,.25,1,1.25}; 1.25 = a point beyond the far plane (the maps are projective maps of all space, not of the volume only)
template <typename F, typename U, bool ZO> static void op_project(const Case& c, Outcome& o) {
  typedef EA<F> E; typedef glm::vec<4, U, glm::defaultp> VP;
  const int kind = (int)c.w[0], nfi = (int)c.w[1], mdl = (int)c.w[2], hand = (int)c.w[3]; const bool lh = hand == 1;
  if (kind == 0 && (nfi != 0 || hand != 0)) { o.nontrivial = false; return; }
  o.cls(kind);
  const LD ga = PGRID[c.w[4]], gb = PGRID[c.w[5]], gd = PDEPTH[c.w[6]];
  const long vx = (long)(int64_t)c.w[7], vy = (long)(int64_t)c.w[8], vw = (long)(int64_t)c.w[9], vh = (long)(int64_t)c.w[10];
  const VP viewport((U)vx, (U)vy, (U)vw, (U)vh); const Viewport vp = {(LD)vx, (LD)vy, (LD)vw, (LD)vh};
  const int v = v_of(lh, ZO); const F n = (F)PNF[nfi][0], f = (F)PNF[nfi][1]; const LD dir = lh ? 1 : -1, zn = ZO ? 0 : -1;
  M4<F> proj(1), model(1); LD eye[3];
  const LD ze = (LD)n + gd * ((LD)f - (LD)n);
  if (kind == 0) { eye[0] = ga; eye[1] = gb; eye[2] = zn + gd * (1 - zn); }
  else if (kind == 1) { proj = orthoV<F>(v, (F)-2, (F)3, (F)-1, (F)1.5, n, f); eye[0] = -2 + (ga + 1) / 2 * 5; eye[1] = -1 + (gb + 1) / 2 * 2.5L; eye[2] = dir * ze; }
  else if (kind == 2) { proj = frustumV<F>(v, (F)-1, (F)2, (F)-0.5, (F)1, n, f); eye[0] = (-1 + (ga + 1) / 2 * 3) * ze / n; eye[1] = (-0.5L + (gb + 1) / 2 * 1.5L) * ze / n; eye[2] = dir * ze; }
  else { const F fy = (F)0.78539816339744830962, as = (F)(4.0 / 3.0); proj = perspV<F>(v, fy, as, n, f); LD th = std::tan((LD)fy / 2); eye[0] = ga * th * (LD)as * ze; eye[1] = gb * th * ze; eye[2] = dir * ze; }
  V3<F> p;
  if (mdl == 0) p = V3<F>((F)eye[0], (F)eye[1], (F)eye[2]);
  else { // model = translate(0.5,-0.25,-3) * (2 * rotation by a quarter turn about y): exact entries, exact inverse
    model = M4<F>((F)0, (F)0, (F)-2, (F)0, (F)0, (F)2, (F)0, (F)0, (F)2, (F)0, (F)0, (F)0, (F)0.5, (F)-0.25, (F)-3, (F)1);
    LD d[3] = {eye[0] - 0.5L, eye[1] + 0.25L, eye[2] + 3}; p = V3<F>((F)(-d[2] / 2), (F)(d[1] / 2), (F)(d[0] / 2));
    // non-affine matrices in the model slot: 2 = the same transform scaled homogeneously (bottom row (0,0,0,2)), 3 = the whole projection * model product with an identity projection
    if (mdl == 2) model = model * (F)2;
    if (mdl == 3) { model = proj * model; proj = M4<F>(1); } }
  const EM<F> em = em_of(model), ep = em_of(proj);
  // (a) project against the defining formula
  const EB pe[3] = {E::ex(p[0]), E::ex(p[1]), E::ex(p[2])}; EB W[3];
  if (!eb_project(pe, em, ep, vp, ZO, W)) { o.nontrivial = false; return; }
  const V3<F> win = ZO ? glm::projectZO(p, model, proj, viewport) : glm::projectNO(p, model, proj, viewport);
  o.res(FT<F>::bits(win[0]), FT<F>::bits(win[2])); o.exp(FT<F>::bits((F)W[0].v), FT<F>::bits((F)W[2].v));
  if (!eb_accept(win, W, o, S_PROJECT, 1, ZO ? "projectZO" : "projectNO")) return;
  if (kind == 0 && mdl == 0 && ab(ga) == 1 && ab(gb) == 1 && (gd == 0 || gd == 1)) {   // corners of the clip cube -> corners of viewport x [0,1] (self-check of the reference)
    LD wx = ga > 0 ? vp.x + vp.w : vp.x, wy = gb > 0 ? vp.y + vp.h : vp.y, wz = gd; if (W[0].v != wx || W[1].v != wy || W[2].v != wz) { o.bad(91, "ORACLE: reference does not send the clip-cube corner to the viewport corner"); return; } }
  // (b) unProject(project(p)) == p : the bound of the computed window position is propagated through the inverse map
  EB P2[3]; bool okb = eb_unproject(W, em, ep, vp, ZO, P2);
  if (okb) { for (int i = 0; i < 3; ++i) if (!(ab(P2[i].v - (LD)p[i]) <= 0.05L * P2[i].e + 1e-4900L)) { o.bad(92, "ORACLE: long double reference of unProject(project(p)) is not p"); return; }
    const V3<F> back = ZO ? glm::unProjectZO(win, model, proj, viewport) : glm::unProjectNO(win, model, proj, viewport);
    EB want[3] = {{(LD)p[0], P2[0].e, true}, {(LD)p[1], P2[1].e, true}, {(LD)p[2], P2[2].e, true}};
    if (!eb_accept(back, want, o, S_ROUNDTRIP_OBJ, 2, ZO ? "unProjectZO(projectZO(p)) != p" : "unProjectNO(projectNO(p)) != p")) return; }
  // (c) unProject of a window position against the defining formula, (d) project(unProject(w)) == w
  const V3<F> w((F)vx + (F)((ga + 1) / 2) * (F)vw, (F)vy + (F)((gb + 1) / 2) * (F)vh, (F)gd);
  const EB we[3] = {E::ex(w[0]), E::ex(w[1]), E::ex(w[2])}; EB P[3];
  if (eb_unproject(we, em, ep, vp, ZO, P)) {
    const V3<F> obj = ZO ? glm::unProjectZO(w, model, proj, viewport) : glm::unProjectNO(w, model, proj, viewport);
    if (!eb_accept(obj, P, o, S_UNPROJECT, 3, ZO ? "unProjectZO" : "unProjectNO")) return;
    EB W2[3];
    if (eb_project(P, em, ep, vp, ZO, W2)) { for (int i = 0; i < 3; ++i) if (!(ab(W2[i].v - (LD)w[i]) <= 0.05L * W2[i].e + 1e-4900L)) { o.bad(93, "ORACLE: long double reference of project(unProject(w)) is not w"); return; }
      const V3<F> again = ZO ? glm::projectZO(obj, model, proj, viewport) : glm::projectNO(obj, model, proj, viewport);
      EB want[3] = {{(LD)w[0], W2[0].e, true}, {(LD)w[1], W2[1].e, true}, {(LD)w[2], W2[2].e, true}};
      if (!eb_accept(again, want, o, S_ROUNDTRIP_WIN, 4, ZO ? "projectZO(unProjectZO(w)) != w" : "projectNO(unProjectNO(w)) != w")) return; }
  } else if (!okb) { o.nontrivial = false; }
  // (e) dispatch of the unsuffixed functions in this configuration
  if (ZO == CFG_ZO) {
    const V3<F> a = glm::project(p, model, proj, viewport), b = glm::unProject(w, model, proj, viewport);
    const V3<F> b0 = ZO ? glm::unProjectZO(w, model, proj, viewport) : glm::unProjectNO(w, model, proj, viewport);
    for (int i = 0; i < 3; ++i) { if (!FT<F>::same(a[i], win[i])) { o.res(FT<F>::bits(a[i]), (uint64_t)i); o.exp(FT<F>::bits(win[i])); o.bad(5, ZO ? "project is not projectZO under GLM_FORCE_DEPTH_ZERO_TO_ONE" : "project is not projectNO in a [-1,1] depth configuration"); return; }
      if (!FT<F>::same(b[i], b0[i])) { o.res(FT<F>::bits(b[i]), (uint64_t)i); o.exp(FT<F>::bits(b0[i])); o.bad(6, ZO ? "unProject is not unProjectZO under GLM_FORCE_DEPTH_ZERO_TO_ONE" : "unProject is not unProjectNO in a [-1,1] depth configuration"); return; } }
  }
}
// pickMatrix: the pick region (window rectangle center +- delta/2), expressed in normalised device coordinates of the
// viewport, is mapped onto the whole clip square x,y = +-1; z and w are untouched.
template <typename F, typename U> static void op_pick(const Case& c, Outcome& o) {
  typedef glm::vec<4, U, glm::defaultp> VP; typedef glm::vec<2, F, glm::defaultp> V2; o.cls(0);
  static const double FR[3] = {0.1, 0.5, 0.9}, DL[3][2] = {{1, 1}, {5, 3}, {0.5, 100}};
  const long vx = (long)(int64_t)c.w[0], vy = (long)(int64_t)c.w[1], vw = (long)(int64_t)c.w[2], vh = (long)(int64_t)c.w[3];
  const V2 center((F)vx + (F)FR[c.w[4]] * (F)vw, (F)vy + (F)FR[c.w[5]] * (F)vh), delta((F)DL[c.w[6]][0], (F)DL[c.w[6]][1]);
  const M4<F> P = glm::pickMatrix(center, delta, VP((U)vx, (U)vy, (U)vw, (U)vh));
  const LD org[2] = {(LD)vx, (LD)vy}, sz[2] = {(LD)vw, (LD)vh};
  for (int k = 0; k < 8; ++k) { const LD s[2] = {(LD)((k & 1) ? 1 : -1), (LD)((k & 2) ? 1 : -1)}, z = (k & 4) ? 0.5L : -1; LD q[4];
    for (int i = 0; i < 2; ++i) { LD W = (LD)center[i] + s[i] * (LD)delta[i] / 2; q[i] = 2 * (W - org[i]) / sz[i] - 1; } q[2] = z; q[3] = 1;
    LD out[4]; for (int r = 0; r < 4; ++r) { out[r] = 0; for (int cc = 0; cc < 4; ++cc) out[r] += (LD)P[cc][r] * q[cc]; }
    for (int i = 0; i < 4; ++i) { LD want = i < 2 ? s[i] : q[i];
      // leaf terms of row i: (size*q + size - 2*center + 2*origin)/delta, each formed with <= 3 roundings
      LD unit = i < 2 ? FT<F>::U() * (sz[i] * ab(q[i]) + sz[i] + 2 * ab((LD)center[i]) + 2 * ab(org[i])) / (LD)delta[i] : FT<F>::U() * ab(q[i]);
      LD err = ab(out[i] - want); stat(FT<F>::IDX, S_PICK, err / unit);
      if (!(err <= C_RATIONAL * unit)) { char m[160]; std::snprintf(m, sizeof m, "pickMatrix: corner (%+.0Lf,%+.0Lf) of the pick region goes to component %d = %.9Lg, must be %.9Lg", s[0], s[1], i, out[i], want);
        o.res(b64((double)out[i]), (uint64_t)i); o.exp(b64((double)want)); o.bad(1 + i, m); return; } } }
}

// ------------------------------------------------------------------ domains
template <typename F> static Domain vals(const std::string& name, const std::vector<double>& v) { std::vector<uint64_t> b; for (double x : v) b.push_back(FT<F>::bits((F)x)); return list(name, b); }
template <typename F> static Domain pairs(const std::string& name, const std::vector<double>& v) { std::vector<uint64_t> b; for (double x : v) for (double y : v) if ((F)x < (F)y) { b.push_back(FT<F>::bits((F)x)); b.push_back(FT<F>::bits((F)y)); } return rows(name, 2, b); }
static Domain ints(const std::string& name, const std::vector<long>& v) { std::vector<uint64_t> b; for (long x : v) b.push_back((uint64_t)(int64_t)x); return list(name, b, true); }

template <typename F> static void reg(Engine& E) {
  const std::string t = std::string("<") + FT<F>::name() + ">"; const double PI = 3.14159265358979323846;
  const std::vector<double> LRq = {-3, -1, -0.5, 0, 0.25, 1, 2, 7}, LRt = {-1000, -3, -1, -0.5, -0.001, 0, 0.001, 0.1, 0.25, 1, 2, 3, 7, 100, 12345.678};
  const std::vector<double> NFq = {0.01, 0.1, 1, 2, 10, 1000, 1e5}, NFt = {0.001, 0.01, 0.1, 0.5, 1, 2, 3, 10, 100, 1000, 1e4, 1e5, 1e6};
  const std::vector<double> FVq = {PI / 180, PI / 6, PI / 4, PI / 2, 2 * PI / 3, PI - 0.01}, FVt = {0.001, PI / 180, PI / 6, PI / 4, 1, PI / 3, PI / 2, 2, 2 * PI / 3, 3, PI - 0.01, PI - 0.001};
  const std::vector<double> ASq = {0.1, 0.5, 1, 4.0 / 3, 16.0 / 9, 10}, ASt = {0.01, 0.1, 0.5, 0.75, 1, 4.0 / 3, 16.0 / 9, 2, 2.39, 10, 100};
  auto whd = [](const char* name, bool thorough) { // width/height pairs with the aspects above (both small and pixel-sized)
    std::vector<std::pair<double, double>> p = {{1, 10}, {1, 2}, {1, 1}, {4, 3}, {640, 480}, {16, 9}, {1920, 1080}, {10, 1}, {1, 1080}, {1920, 1}};
    if (thorough) { const double ws[] = {1, 3, 640, 800, 1920, 4096, 0.5}, hs[] = {1, 7, 480, 600, 1080, 2160, 0.25}; for (double w : ws) for (double h : hs) p.push_back({w, h}); }
    std::vector<uint64_t> b; std::set<std::pair<uint64_t, uint64_t>> seen; for (auto& x : p) { uint64_t a = FT<F>::bits((F)x.first), c = FT<F>::bits((F)x.second); if (seen.insert({a, c}).second) { b.push_back(a); b.push_back(c); } } return rows(name, 2, b); };
  const Domain V = range("VARIANT{LH_ZO,LH_NO,RH_ZO,RH_NO}", 0, 4, true);
  const Domain LRQ = pairs<F>("l<r from {-3,-1,-.5,0,.25,1,2,7}", LRq), BTQ = pairs<F>("b<t from {-3,-1,-.5,0,.25,1,2,7}", LRq), NFQ = pairs<F>("0<n<f from {.01,.1,1,2,10,1e3,1e5}", NFq);
  const Domain LRT = pairs<F>("l<r from 15 values in [-1000,12345.678]", LRt), BTT = pairs<F>("b<t from 15 values in [-1000,12345.678]", LRt), NFT = pairs<F>("0<n<f from 13 values in [1e-3,1e6]", NFt);
  const Domain FVQ = vals<F>("fovy in {pi/180,pi/6,pi/4,pi/2,2pi/3,pi-.01}", FVq), FVT = vals<F>("fovy: 12 values in [0.001,pi-0.001]", FVt);
  const Domain ASQ = vals<F>("aspect in {.1,.5,1,4/3,16/9,10}", ASq), AST = vals<F>("aspect: 11 values in [0.01,100]", ASt);
  const Domain WHQ = whd("(width,height): 10 pairs", false), WHT = whd("(width,height): 10 + 7x7 pairs", true);
  const Domain NQ = vals<F>("near in {.01,.1,1,2,10,1e3,1e5}", NFq), NT = vals<F>("near: 13 values in [1e-3,1e6]", NFt);
  const std::vector<std::string> VC = {"LH_ZO", "LH_NO", "RH_ZO", "RH_NO"};
  auto add = [&](const std::string& name, CheckFn fn, Domain q, Domain th, std::vector<std::string> cls) { Op& op = E.add(name + t, fn); op.quick = {q}; op.thorough = {th}; op.classes = cls; };
  add("ortho(l,r,b,t) maps the rectangle to x,y=+-1", op_ortho2d<F>, product("LRxBT", {LRQ, BTQ}), product("LRxBT (thorough)", {LRT, BTT}), {"all"});
  add("ortho{LH,RH}_{ZO,NO} volume corners", op_ortho<F>, product("VxLRxBTxNF", {V, LRQ, BTQ, NFQ}), product("VxLRxBTxNF (thorough)", {V, LRT, BTT, NFT}), VC);
  add("frustum{LH,RH}_{ZO,NO} volume corners", op_frustum<F>, product("VxLRxBTxNF", {V, LRQ, BTQ, NFQ}), product("VxLRxBTxNF (thorough)", {V, LRT, BTT, NFT}), VC);
  add("perspective{LH,RH}_{ZO,NO} volume corners", op_perspective<F>, product("VxFOVYxASPECTxNF", {V, FVQ, ASQ, NFQ}), product("VxFOVYxASPECTxNF (thorough)", {V, FVT, AST, NFT}), VC);
  add("perspectiveFov{LH,RH}_{ZO,NO} volume corners", op_perspectiveFov<F>, product("VxFOVxWHxNF", {V, FVQ, WHQ, NFQ}), product("VxFOVxWHxNF (thorough)", {V, FVT, WHT, NFT}), VC);
  add("infinitePerspective{LH,RH}_{ZO,NO} near corners, depth -> 1 at 2^k*near", op_infinite<F>, product("VxFOVYxASPECTxNEAR", {V, FVQ, ASQ, NQ}), product("VxFOVYxASPECTxNEAR (thorough)", {V, FVT, AST, NT}), VC);
  add("tweakedInfinitePerspective near corners, depth -> 1-ep", op_tweaked<F>, product("FOVYxASPECTxNEARxEP", {FVQ, ASQ, NQ, range("EP{default,epsilon,2^-10}", 0, 3, true)}),
      product("FOVYxASPECTxNEARxEP (thorough)", {FVT, AST, NT, range("EP{default,epsilon,2^-10}", 0, 3, true)}), {"default-ep", "epsilon", "2^-10"});
  add("perspective == frustum(symmetric)", op_persp_is_frustum<F>, product("VxFOVYxASPECTxNF", {V, FVQ, ASQ, NFQ}), product("VxFOVYxASPECTxNF (thorough)", {V, FVT, AST, NFT}), VC);
  add("perspectiveFov(fov,w,h) == perspective(fov,w/h)", op_fov_is_persp<F>, product("VxFOVxWHxNF", {V, FVQ, WHQ, NFQ}), product("VxFOVxWHxNF (thorough)", {V, FVT, WHT, NFT}), VC);
  const std::vector<std::string> DC = {std::string("configuration ") + VNAME[v_of(CFG_LH, CFG_ZO)]};
  add("dispatch ortho/orthoZO/orthoNO/orthoLH/orthoRH", op_disp_ortho<F>, product("LRxBTxNF", {LRQ, BTQ, NFQ}), product("LRxBTxNF (thorough)", {LRT, BTT, NFT}), DC);
  add("dispatch frustum/frustumZO/frustumNO/frustumLH/frustumRH", op_disp_frustum<F>, product("LRxBTxNF", {LRQ, BTQ, NFQ}), product("LRxBTxNF (thorough)", {LRT, BTT, NFT}), DC);
  add("dispatch perspective/ZO/NO/LH/RH", op_disp_persp<F>, product("FOVYxASPECTxNF", {FVQ, ASQ, NFQ}), product("FOVYxASPECTxNF (thorough)", {FVT, AST, NFT}), DC);
  add("dispatch perspectiveFov/ZO/NO/LH/RH", op_disp_pfov<F>, product("FOVxWHxNF", {FVQ, WHQ, NFQ}), product("FOVxWHxNF (thorough)", {FVT, WHT, NFT}), DC);
  add("dispatch infinitePerspective", op_disp_inf<F>, product("FOVYxASPECTxNEAR", {FVQ, ASQ, NQ}), product("FOVYxASPECTxNEAR (thorough)", {FVT, AST, NT}), DC);
  // project / unProject / pickMatrix
  const Domain VXY = ints("viewport origin {0,10,-5}", {0, 10, -5}), VW = ints("viewport width {1,640,1920}", {1, 640, 1920}), VH = ints("viewport height {1,480,1080}", {1, 480, 1080});
  const Domain PIPE = product("KIND{cube,ortho,frustum,perspective}xNF{(.1,10),(1,2),(1,1e3),(.01,1e5),(2e7,1e8),(1e-5,1e-2)}xMODEL{I,TRS,2*TRS,P*TRS with proj=I}xHAND{RH,LH}", {range("KIND", 0, 4, true), range("NF", 0, 6, true), range("MODEL", 0, 4, true), range("HAND", 0, 2, true)});
  const Domain PTS = product("POINT{-1,-.5,0,.75,1}^2x{0,.25,1,1.25}", {ints("A", {0, 2, 4, 7, 8}), ints("B", {0, 2, 4, 7, 8}), ints("D", {0, 2, 4, 5})});
  const Domain PTT = product("POINT{-1,-.75,..,1}^2x{0,.1,.25,.5,1,1.25}", {range("A", 0, 9, true), range("B", 0, 9, true), range("D", 0, 6, true)});
  const Domain PD = product("PIPELINExPOINTxVIEWPORT", {PIPE, PTS, VXY, VXY, VW, VH}), PDT = product("PIPELINExPOINTxVIEWPORT (thorough)", {PIPE, PTT, VXY, VXY, VW, VH});
  const std::vector<std::string> KC = {"clip cube (identity)", "ortho", "frustum", "perspective"};
  add("projectNO/unProjectNO (+ unsuffixed dispatch), viewport of T", op_project<F, F, false>, PD, PDT, KC);
  add("projectZO/unProjectZO (+ unsuffixed dispatch), viewport of T", op_project<F, F, true>, PD, PDT, KC);
  add("projectNO/unProjectNO (+ unsuffixed dispatch), int viewport", op_project<F, int, false>, PD, PDT, KC);
  add("projectZO/unProjectZO (+ unsuffixed dispatch), int viewport", op_project<F, int, true>, PD, PDT, KC);
  const Domain PK = product("VIEWPORTxCENTER{.1,.5,.9}^2xDELTA{(1,1),(5,3),(.5,100)}", {VXY, VXY, VW, VH, range("CX", 0, 3, true), range("CY", 0, 3, true), range("DELTA", 0, 3, true)});
  add("pickMatrix maps the pick region to the clip square, viewport of T", op_pick<F, F>, PK, PK, {"all"});
  add("pickMatrix maps the pick region to the clip square, int viewport", op_pick<F, int>, PK, PK, {"all"});
}

int main(int argc, char** argv) {
  Engine E; E.property = "C08"; std::atexit(print_stats);
  E.assumptions = {"the driver is compiled once per clip-control configuration; the expected configuration is derived from the GLM_FORCE_* macros on the command line, not from glm/detail/setup.hpp",
    "geometric oracles take the returned matrix entries as exact and evaluate the map in long double (depth at 2^k*near in binary128); tolerance c*u*sum|terms|/w with c = 12 (rational entries) or 16 (entries through tan/sin/cos)",
    "project/unProject oracles: defining formula in long double with a first-order running error bound for an evaluation in T, accepted within 4x the bound",
    "infinitePerspectiveLH/infinitePerspectiveRH are declared but not defined in the tree (link error); they are checked only when C08_HAVE_INFINITEPERSPECTIVE_LH_RH is defined"};
  E.extra_json["clip_control"] = std::string("\"") + VNAME[v_of(CFG_LH, CFG_ZO)] + "\"";
  { Op& op = E.add("GLM_CONFIG_CLIP_CONTROL read back", op_readback); op.quick = {range("ONE", 0, 1, true)}; op.classes = {"checked"}; }
  reg<float>(E); reg<double>(E);
  return E.main(argc, argv);
}
