// C01 — every component-wise function/operator on vec<L,T,Q> returns in component i what the scalar overload
// returns for component i; scalar arguments broadcast.  Alphabet = op x overload shape x L(1..4) x T x Q, inputs =
// complete products of a special-value lattice, every tuple visited in every lane.
// Compiled in parts (-DGLMX_PART=k) so that the template instantiations build in parallel.
#define GLM_ENABLE_EXPERIMENTAL
#include <glm/glm.hpp>
#include <glm/ext/scalar_common.hpp>
#include <glm/ext/vector_common.hpp>
#include <glm/ext/scalar_integer.hpp>
#include <glm/ext/vector_integer.hpp>
#include <glm/ext/scalar_relational.hpp>
#include <glm/ext/vector_relational.hpp>
#include <glm/ext/matrix_relational.hpp>
#include <glm/ext/matrix_common.hpp>
#include <glm/ext/scalar_reciprocal.hpp>
#include <glm/ext/vector_reciprocal.hpp>
#include <glm/gtc/type_precision.hpp>
#include <glm/gtc/integer.hpp>
#include <glm/gtx/component_wise.hpp>
#include <glm/gtx/extended_min_max.hpp>
#include "glmx.hpp"
#include <type_traits>
#include <cfloat>
#include <cstring>
using namespace glmx;
#define PART(k) (!defined(GLMX_PART) || GLMX_PART == k)
// the three qualifiers of the statement; in a GLM_FORCE_DEFAULT_ALIGNED_GENTYPES + intrinsics build they name the aligned forms, i.e. the SIMD kernels
// are what is compared with the scalar overloads
#if GLM_CONFIG_ALIGNED_GENTYPES == GLM_ENABLE && defined(GLM_FORCE_DEFAULT_ALIGNED_GENTYPES)
#define QHIGH glm::aligned_highp
#define ALIGNED_CFG 1
#define QMED glm::aligned_mediump
#define QLOW glm::aligned_lowp
#else
#define QHIGH glm::highp
#define ALIGNED_CFG 0
#define QMED glm::mediump
#define QLOW glm::lowp
#endif

// ----------------------------------------------------------------------------------- value lattices per element type
static bool g_thorough = false;   // set from "--tier thorough" before the operations are registered: the value lattices (and with them every domain) grow
// thorough tier: the quick lattice first (same indices), then extra values.  8-bit types become COMPLETE (all 256 values, all 65536 pairs).
template <typename T> struct VL { static size_t make_quick_size() { return 23; } static std::vector<T> make() {
  std::vector<T> v; typedef typename std::make_unsigned<T>::type U; const int w = sizeof(T) * 8; U m = (U)~(U)0;
  U pats[] = {0, 1, 2, 3, 4, 7, 8, 15, 16, 31, 100, (U)(m >> 1), (U)((m >> 1) + 1), m, (U)(m - 1), (U)((m >> 1) - 1), (U)((m >> 1) + 2), (U)(0x5555555555555555ull), (U)(0xAAAAAAAAAAAAAAAAull), (U)(0x0123456789ABCDEFull), (U)((U)1 << (w - 2)), (U)(m - 7), (U)(m - 99)};
  for (U p : pats) v.push_back((T)p);
  if (g_thorough) { std::set<U> seen(std::begin(pats), std::end(pats)); auto add = [&](U p) { if (seen.insert(p).second) v.push_back((T)p); };
    if (w == 8) { for (unsigned p = 0; p < 256; ++p) add((U)p); }
    else { for (int i = 0; i < w; ++i) { U b = (U)((U)1 << i); add(b); add((U)(b + 1)); add((U)(b - 1)); add((U)(0 - b)); add((U)(0 - b - 1)); add((U)(b | (b >> 1))); }
      for (U k = 5; k < 40; ++k) { add(k); add((U)(0 - k)); } for (U k : {(U)255, (U)256, (U)1000, (U)10000, (U)12345, (U)46340, (U)46341, (U)65535}) { add(k); add((U)(0 - k)); }
      add((U)0x3333333333333333ull); add((U)0xCCCCCCCCCCCCCCCCull); add((U)0x0F0F0F0F0F0F0F0Full); add((U)0xF0F0F0F0F0F0F0F0ull); add((U)0x00FF00FF00FF00FFull); add((U)0xFEDCBA9876543210ull); add((U)0xDEADBEEFCAFEF00Dull); } }
  return v; } };
static inline void more_f32(std::vector<float>& v) { std::set<uint64_t> seen; for (float f : v) seen.insert(b32(f)); auto add = [&](float f) { if (seen.insert(b32(f)).second) v.push_back(f); if (seen.insert(b32(-f)).second) v.push_back(-f); };
  for (int e : {-149, -140, -127, -126, -125, -100, -64, -32, -24, -23, -12, -8, -4, -3, -2, -1, 0, 1, 2, 3, 4, 7, 8, 12, 22, 23, 24, 25, 30, 31, 32, 33, 52, 53, 62, 63, 64, 100, 126, 127}) { float b = std::ldexp(1.0f, e); add(b); if (e >= -126) { add(b * 1.00000012f); add(b * 1.5f); add(b * 1.99999988f); add(b * 1.25f); } }
  for (uint32_t mnt : {2u, 3u, 0x400000u, 0x7ffffeu, 0x555555u}) add(f32(mnt));
  for (int k = 0; k <= 24; ++k) add(k + 0.5f); for (int k = 4; k <= 24; ++k) add((float)k);
  for (float f : {0.2f, 0.25f, 0.3f, 0.4f, 0.6f, 0.666666687f, 0.7f, 0.75f, 0.8f, 0.9f, 1.1f, 1.57079637f, 0.785398185f, 6.28318548f, 10.f, 57.2957802f, 0.0174532924f, 127.f, 128.f, 1000.f, 32767.f, 32768.f, 65535.f, 1e-3f, 1e-5f, 1e-10f, 1e-30f, 1e5f, 1e10f, 1e30f, 88.7228394f, 88.72284f, -87.3365479f, 709.f}) add(f);
  v.push_back(f32(0x7fa00000u)); v.push_back(f32(0xffffffffu)); }
static inline void more_f64(std::vector<double>& v) { std::set<uint64_t> seen; for (double f : v) seen.insert(b64(f)); auto add = [&](double f) { if (seen.insert(b64(f)).second) v.push_back(f); if (seen.insert(b64(-f)).second) v.push_back(-f); };
  for (int e : {-1074, -1060, -1023, -1022, -1021, -1000, -500, -149, -126, -64, -53, -52, -32, -24, -12, -8, -4, -3, -2, -1, 0, 1, 2, 3, 4, 7, 8, 12, 23, 24, 31, 32, 33, 51, 52, 53, 54, 62, 63, 64, 127, 128, 500, 1000, 1022, 1023}) { double b = std::ldexp(1.0, e); add(b); if (e >= -1022) { add(b * 1.0000000000000002); add(b * 1.5); add(b * 1.9999999999999998); add(b * 1.25); } }
  for (uint64_t mnt : {2ull, 3ull, 0x8000000000000ull, 0xffffffffffffeull, 0x5555555555555ull}) add(f64(mnt));
  for (int k = 0; k <= 24; ++k) add(k + 0.5); for (int k = 4; k <= 24; ++k) add((double)k);
  for (double f : {0.2, 0.25, 0.3, 0.4, 0.6, 2.0 / 3, 0.7, 0.75, 0.8, 0.9, 1.1, 1.5707963267948966, 0.78539816339744828, 6.2831853071795862, 10., 57.295779513082323, 0.017453292519943295, 127., 128., 1000., 32767., 32768., 65535., 1e-3, 1e-5, 1e-10, 1e-30, 1e-300, 1e5, 1e10, 1e30, 1e300, 709.78271289338397, 709.782712893384, -745.13321910194122, 3.4028234663852886e38, 1.1754943508222875e-38, 16777217., 9007199254740993.}) add(f);
  v.push_back(f64(0x7ff4000000000000ull)); v.push_back(f64(0xffffffffffffffffull)); }
template <> struct VL<float> { static size_t make_quick_size() { return f32_spec_values().size(); } static std::vector<float> make() { std::vector<float> v; for (uint64_t b : f32_spec_values()) v.push_back(f32(b)); if (g_thorough) more_f32(v); return v; } };
template <> struct VL<double> { static size_t make_quick_size() { return f64_spec_values().size(); } static std::vector<double> make() { std::vector<double> v; for (uint64_t b : f64_spec_values()) v.push_back(f64(b)); if (g_thorough) more_f64(v); return v; } };
template <> struct VL<bool> { static size_t make_quick_size() { return 2; } static std::vector<bool> make() { return {false, true}; } };
template <typename T> static const std::vector<T>& values() { static const std::vector<T> v = VL<T>::make(); return v; }
// ternary operations sweep the first n3() values (the quick lattice, plus 96 more in the thorough tier): the cube of the whole thorough lattice is out of reach
template <typename T> static size_t n3() { size_t q = VL<T>::make_quick_size(); return std::min(values<T>().size(), g_thorough ? q + 96 : q); }
template <typename T> static inline T pick(uint64_t base, int lane, int salt) { const std::vector<T>& v = values<T>(); return v[(base + (uint64_t)lane * (17 + 12 * salt)) % v.size()]; }

template <typename A> static inline bool same_bits(A a, A b) { return a == b; }
static inline bool same_bits(float a, float b) { return same32(a, b); }
static inline bool same_bits(double a, double b) { return same64(a, b); }
template <typename A> static inline bool same_value(A a, A b) { return a == b; }
static inline bool same_value(float a, float b) { return value32(a, b); }
static inline bool same_value(double a, double b) { return value64(a, b); }
template <typename A> static inline uint64_t bits_of(A a) { return (uint64_t)(int64_t)a; }
static inline uint64_t bits_of(float a) { return b32(a); }
static inline uint64_t bits_of(double a) { return b64(a); }
static inline uint64_t bits_of(bool a) { return a; }
enum Cmp { BITS, VALUE, ULPS, LOWPREL };
template <typename A> static inline bool is_snan(A) { return false; }
static inline bool is_snan(float x) { uint64_t b = b32(x); return isnan32(b) && !(b & 0x400000u); }
static inline bool is_snan(double x) { uint64_t b = b64(x); return isnan64(b) && !(b & 0x8000000000000ull); }
// aligned lowp only: functions that feed a hardware reciprocal (relative error 2^-12) into a function that is singular or discontinuous there
// (acos/asin/atanh of 1/x at |x| = 1, cosh/sinh beyond 2^126 in coth, the clamp of smoothstep for nearly equal edges) have no relative error bound at all: outside what the statement promises for lowp
static inline bool aligned_lowp_skip(const char* n) { for (const char* k : {"asec", "acsc", "acot", "asech", "acsch", "acoth", "coth", "smoothstep"}) if (std::strcmp(n, k) == 0) return true; return false; }
static thread_local bool g_lowp_skip = false;
// aligned lowp only: the hardware reciprocal / reciprocal-square-root estimates are defined on operands of moderate magnitude (their results under- or overflow
// beyond 2^+-126); lowp kernels are compared on operands that are zero or within [1e-30, 1e30]
template <class A> static inline bool lp_ok(A x) { if (!std::is_floating_point<A>::value) return true; double d = std::fabs((double)x); return d == 0 || (d >= 1e-30 && d <= 1e30); }
template <class A, class... R> static inline bool lp_ok(A x, R... r) { return lp_ok(x) && lp_ok(r...); }
#define LPOK(Q, ...) (!(ALIGNED_CFG && QN<Q>::id == 2) || lp_ok(__VA_ARGS__))
static thread_local int g_checked = 0; static thread_local uint64_t g_dig = 0;   // digest of every scalar and vector result of the case (C15/C03 compare it across configurations)   // number of lane comparisons actually executed for the current case (vacuity accounting)
template <typename A> static inline bool cmp_lane(A a, A b, int cmp, bool lowp, double mag = 0) {
  ++g_checked; { A da = a, db = b; if (std::is_floating_point<A>::value && cmp != BITS) { if (da == 0) da = 0; if (db == 0) db = 0; }   /* where the sign of zero is not prescribed it is not part of the observation */
    g_dig = mix64(mix64(g_dig, da != da ? 0x7ff8ull : bits_of(da)), db != db ? 0x7ff8ull : bits_of(db)); }
  if (std::is_floating_point<A>::value && a == 0 && b == 0) return true;   // +0 and -0 are the same value: the statement compares values ("identical"), and SIMD kernels (abs, ceil, round of -0) legitimately differ from libm in the sign of a zero
  if (ALIGNED_CFG && lowp && std::is_floating_point<A>::value && g_lowp_skip) return true;   // see aligned_lowp_skip()
  if (ALIGNED_CFG && lowp && std::is_floating_point<A>::value) {           // aligned lowp kernels are GLM's deliberate fast approximations (rcp / rsqrt): within 2^-8 relative, finite results only
    double x = (double)a, y = (double)b; if (x != x || y != y || std::isinf(x) || std::isinf(y) || !(mag - mag == 0)) return true;
    return std::fabs(x - y) <= std::ldexp(1.0, -8) * std::max(mag, std::max(std::fabs(x), std::fabs(y))) + (sizeof(A) == 4 ? 1e-37 : 1e-300); }
  if (cmp == BITS) return same_bits(a, b); if (cmp == VALUE) return same_value(a, b);
  if (std::is_floating_point<A>::value) { double x = (double)a, y = (double)b; if (x != x || y != y || std::isinf(x) || std::isinf(y) || !(mag - mag == 0)) return true;    // composite formulas: only finite results are compared
    double u = sizeof(A) == 4 ? 5.97e-8 : 1.12e-16; if (cmp == LOWPREL) return lowp ? std::fabs(x - y) <= std::ldexp(1.0, -8) * std::fabs(y) : same_bits(a, b);
    return std::fabs(x - y) <= 8 * u * std::max(mag, std::max(std::fabs(x), std::fabs(y))) + (sizeof(A) == 4 ? 1e-44 : 1e-322); }
  return a == b;
}
template <glm::qualifier Q> struct QN; template <> struct QN<QHIGH> { enum { id = 0 }; }; template <> struct QN<QMED> { enum { id = 1 }; }; template <> struct QN<QLOW> { enum { id = 2 }; };

// an OP provides: name(), f(args...) valid for scalars and vectors, CMP, pre(args...) on scalars
#define DEF_FN(NAME, CMPV) struct F_##NAME { static const char* name() { return #NAME; } enum { CMP = CMPV }; template <class... A> static auto f(A... a) -> decltype(glm::NAME(a...)) { return glm::NAME(a...); } template <class... A> static bool pre(A...) { return true; } template <class... A> static double mag(A...) { return 0; } };
#define DEF_FN_PRE(NAME, CMPV, ...) struct F_##NAME { static const char* name() { return #NAME; } enum { CMP = CMPV }; template <class... A> static auto f(A... a) -> decltype(glm::NAME(a...)) { return glm::NAME(a...); } template <class... A> static double mag(A...) { return 0; } __VA_ARGS__ };

#define REPORT(L, Q, MSGFMT) { char m_[160]; std::snprintf(m_, sizeof m_, MSGFMT " [L=%d, Q=%d, lane %d]", OP::name(), L, (int)QN<Q>::id, k); o.bad(L * 4 + QN<Q>::id, m_); return false; }

// ---- unary: vec f(vec) vs scalar f(T)
template <class OP, typename T, int L, glm::qualifier Q> static bool u1(uint64_t i, Outcome& o) {
  glm::vec<L, T, Q> v; T a[4]; for (int k = 0; k < L; ++k) { a[k] = pick<T>(i, k, 0); v[k] = a[k]; }
  for (int k = 0; k < L; ++k) if (!(OP::pre(a[k]) && LPOK(Q, a[k]))) return true;
  auto r = OP::f(v);
  for (int k = 0; k < L; ++k) { auto s = OP::f(a[k]); typedef decltype(s) RT; if (!cmp_lane((RT)r[k], s, OP::CMP, QN<Q>::id == 2)) { o.res(bits_of((RT)r[k]), bits_of(a[k])); o.exp(bits_of(s)); REPORT(L, Q, "%s(vec)[i] != scalar overload on component i") } }
  return true;
}
template <class OP, typename T, glm::qualifier Q> static bool u1q(uint64_t i, Outcome& o) { return u1<OP, T, 1, Q>(i, o) && u1<OP, T, 2, Q>(i, o) && u1<OP, T, 3, Q>(i, o) && u1<OP, T, 4, Q>(i, o); }
template <class OP, typename T> static void op_u1(const Case& c, Outcome& o) { o.cls(0); g_checked = 0; g_dig = 0; g_lowp_skip = aligned_lowp_skip(OP::name()); struct G { Outcome& o; ~G() { if (!g_checked) o.nontrivial = false; o.dg(g_dig); } } g_{o}; if (!u1q<OP, T, QHIGH>(c.w[0], o)) return; if (!u1q<OP, T, QLOW>(c.w[0], o)) return; u1q<OP, T, QMED>(c.w[0], o); }

// ---- binary: vv, and (optionally) vs / sv broadcast forms
template <class OP, typename T, typename T2, int L, glm::qualifier Q, int SHAPES> static bool b2(uint64_t i, uint64_t j, Outcome& o) {
  glm::vec<L, T, Q> v; glm::vec<L, T2, Q> w; T a[4]; T2 b[4]; for (int k = 0; k < L; ++k) { a[k] = pick<T>(i, k, 0); b[k] = pick<T2>(j, k, 1); v[k] = a[k]; w[k] = b[k]; }
  bool ok = true; for (int k = 0; k < L; ++k) ok = ok && (OP::pre(a[k], b[k]) && LPOK(Q, a[k], b[k]));
  if (ok) { auto r = OP::f(v, w); for (int k = 0; k < L; ++k) { auto s = OP::f(a[k], b[k]); typedef decltype(s) RT; if (!cmp_lane((RT)r[k], s, OP::CMP, QN<Q>::id == 2, OP::mag(a[k], b[k]))) { o.res(bits_of((RT)r[k]), bits_of(a[k])); o.exp(bits_of(s)); REPORT(L, Q, "%s(vec,vec)[i] != scalar overload on component i") } } }
  if constexpr ((SHAPES & 1) != 0) { bool ok2 = true; for (int k = 0; k < L; ++k) ok2 = ok2 && (OP::pre(a[k], b[0]) && LPOK(Q, a[k], b[0]));      // (vec, scalar) == (vec, vec(scalar))
    if (ok2) { auto r = OP::f(v, b[0]); auto rb = OP::f(v, glm::vec<L, T2, Q>(b[0])); for (int k = 0; k < L; ++k) { auto s = OP::f(a[k], b[0]); typedef decltype(s) RT; if (!cmp_lane((RT)r[k], s, OP::CMP, QN<Q>::id == 2) || !cmp_lane((RT)r[k], (RT)rb[k], OP::CMP == BITS ? BITS : OP::CMP, QN<Q>::id == 2)) { o.res(bits_of((RT)r[k]), bits_of(a[k])); o.exp(bits_of(s)); REPORT(L, Q, "%s(vec,scalar): scalar must act as its broadcast") } } } }
  if constexpr ((SHAPES & 2) != 0) { bool ok3 = true; for (int k = 0; k < L; ++k) ok3 = ok3 && (OP::pre(a[0], b[k]) && LPOK(Q, a[0], b[k]));      // (scalar, vec)
    if (ok3) { auto r = OP::f(a[0], w); for (int k = 0; k < L; ++k) { auto s = OP::f(a[0], b[k]); typedef decltype(s) RT; if (!cmp_lane((RT)r[k], s, OP::CMP, QN<Q>::id == 2)) { o.res(bits_of((RT)r[k]), bits_of(b[k])); o.exp(bits_of(s)); REPORT(L, Q, "%s(scalar,vec): scalar must act as its broadcast") } } } }
  if constexpr ((SHAPES & 4) != 0 && L > 1) { bool ok4 = true; for (int k = 0; k < L; ++k) ok4 = ok4 && (OP::pre(a[k], b[0]) && LPOK(Q, a[k], b[0])) && (OP::pre(a[0], b[k]) && LPOK(Q, a[0], b[k]));   // vec op vec1, vec1 op vec
    if (ok4) { auto r = OP::f(v, glm::vec<1, T2, Q>(b[0])); auto r2 = OP::f(glm::vec<1, T, Q>(a[0]), w); for (int k = 0; k < L; ++k) { auto s = OP::f(a[k], b[0]); auto s2 = OP::f(a[0], b[k]); typedef decltype(s) RT;
        if (!cmp_lane((RT)r[k], s, OP::CMP, QN<Q>::id == 2) || !cmp_lane((RT)r2[k], s2, OP::CMP, QN<Q>::id == 2)) { o.res(bits_of((RT)r[k]), bits_of((RT)r2[k])); o.exp(bits_of(s), bits_of(s2)); REPORT(L, Q, "%s with a vec1 operand: vec1 must act as a broadcast scalar") } } } }
  return true;
}
template <class OP, typename T, typename T2, glm::qualifier Q, int SH> static bool b2q(uint64_t i, uint64_t j, Outcome& o) { return b2<OP, T, T2, 1, Q, SH>(i, j, o) && b2<OP, T, T2, 2, Q, SH>(i, j, o) && b2<OP, T, T2, 3, Q, SH>(i, j, o) && b2<OP, T, T2, 4, Q, SH>(i, j, o); }
template <class OP, typename T, typename T2, int SH> static void op_b2(const Case& c, Outcome& o) { o.cls(0); g_checked = 0; g_dig = 0; g_lowp_skip = aligned_lowp_skip(OP::name()); struct G { Outcome& o; ~G() { if (!g_checked) o.nontrivial = false; o.dg(g_dig); } } g_{o}; if (!b2q<OP, T, T2, QHIGH, SH>(c.w[0], c.w[1], o)) return; if (!b2q<OP, T, T2, QLOW, SH>(c.w[0], c.w[1], o)) return; b2q<OP, T, T2, QMED, SH>(c.w[0], c.w[1], o); }

// ---- ternary: vvv and the scalar-edge variants  SHAPES: 1 = (v,s,s)  2 = (v,v,s)  4 = (s,s,v)
template <class OP, typename T, typename T3, int L, glm::qualifier Q, int SHAPES> static bool t3(uint64_t i, uint64_t j, uint64_t l, Outcome& o) {
  glm::vec<L, T, Q> v, w; glm::vec<L, T3, Q> x; T a[4], b[4]; T3 cc[4]; for (int k = 0; k < L; ++k) { a[k] = pick<T>(i, k, 0); b[k] = pick<T>(j, k, 1); cc[k] = pick<T3>(l, k, 2); v[k] = a[k]; w[k] = b[k]; x[k] = cc[k]; }
  bool ok = true; for (int k = 0; k < L; ++k) ok = ok && (OP::pre(a[k], b[k], cc[k]) && LPOK(Q, a[k], b[k], cc[k]));
  if (ok) { auto r = OP::f(v, w, x); for (int k = 0; k < L; ++k) { auto s = OP::f(a[k], b[k], cc[k]); typedef decltype(s) RT; if (!cmp_lane((RT)r[k], s, OP::CMP, QN<Q>::id == 2, OP::mag(a[k], b[k], cc[k]))) { o.res(bits_of((RT)r[k]), bits_of(a[k])); o.exp(bits_of(s)); REPORT(L, Q, "%s(vec,vec,vec)[i] != scalar overload on component i") } } }
  if constexpr ((SHAPES & 1) != 0) { bool ok2 = true; for (int k = 0; k < L; ++k) ok2 = ok2 && (OP::pre(a[k], b[0], (T)cc[0]) && LPOK(Q, a[k], b[0], (T)cc[0])); if (ok2) { auto r = OP::f(v, b[0], (T)cc[0]); for (int k = 0; k < L; ++k) { auto s = OP::f(a[k], b[0], (T)cc[0]); typedef decltype(s) RT; if (!cmp_lane((RT)r[k], s, OP::CMP, QN<Q>::id == 2, OP::mag(a[k], b[0], (T)cc[0]))) { o.res(bits_of((RT)r[k]), bits_of(a[k])); o.exp(bits_of(s)); REPORT(L, Q, "%s(vec,scalar,scalar): scalars must act as broadcasts") } } } }
  if constexpr ((SHAPES & 2) != 0) { bool ok2 = true; for (int k = 0; k < L; ++k) ok2 = ok2 && (OP::pre(a[k], b[k], cc[0]) && LPOK(Q, a[k], b[k], cc[0])); if (ok2) { auto r = OP::f(v, w, cc[0]); for (int k = 0; k < L; ++k) { auto s = OP::f(a[k], b[k], cc[0]); typedef decltype(s) RT; if (!cmp_lane((RT)r[k], s, OP::CMP, QN<Q>::id == 2, OP::mag(a[k], b[k], cc[0]))) { o.res(bits_of((RT)r[k]), bits_of(a[k])); o.exp(bits_of(s)); REPORT(L, Q, "%s(vec,vec,scalar): scalar must act as its broadcast") } } } }
  if constexpr ((SHAPES & 4) != 0) { bool ok2 = true; for (int k = 0; k < L; ++k) ok2 = ok2 && (OP::pre(a[0], b[0], cc[k]) && LPOK(Q, a[0], b[0], cc[k])); if (ok2) { auto r = OP::f(a[0], b[0], x); for (int k = 0; k < L; ++k) { auto s = OP::f(a[0], b[0], cc[k]); typedef decltype(s) RT; if (!cmp_lane((RT)r[k], s, OP::CMP, QN<Q>::id == 2, OP::mag(a[0], b[0], cc[k]))) { o.res(bits_of((RT)r[k]), bits_of(cc[k])); o.exp(bits_of(s)); REPORT(L, Q, "%s(scalar,scalar,vec): scalars must act as broadcasts") } } } }
  return true;
}
template <class OP, typename T, typename T3, glm::qualifier Q, int SH> static bool t3q(uint64_t i, uint64_t j, uint64_t l, Outcome& o) { return t3<OP, T, T3, 1, Q, SH>(i, j, l, o) && t3<OP, T, T3, 2, Q, SH>(i, j, l, o) && t3<OP, T, T3, 3, Q, SH>(i, j, l, o) && t3<OP, T, T3, 4, Q, SH>(i, j, l, o); }
template <class OP, typename T, typename T3, int SH> static void op_t3(const Case& c, Outcome& o) { o.cls(0); g_checked = 0; g_dig = 0; g_lowp_skip = aligned_lowp_skip(OP::name()); struct G { Outcome& o; ~G() { if (!g_checked) o.nontrivial = false; o.dg(g_dig); } } g_{o}; if (!t3q<OP, T, T3, QHIGH, SH>(c.w[0], c.w[1], c.w[2], o)) return; if (!t3q<OP, T, T3, QLOW, SH>(c.w[0], c.w[1], c.w[2], o)) return; t3q<OP, T, T3, QMED, SH>(c.w[0], c.w[1], c.w[2], o); }

template <typename T> static Domain D3() { return range("VALUES3<" + std::to_string(n3<T>()) + ">", 0, n3<T>(), false); }
template <typename T> static Domain D1() { return range("VALUES<" + std::to_string(values<T>().size()) + ">", 0, values<T>().size(), false); }
template <class OP, typename T> static void R1(Engine& E, const char* tn) { Op& op = E.add(std::string(OP::name()) + "(v) <" + tn + "> L=1..4 x {highp,mediump,lowp}", op_u1<OP, T>); op.quick = {D1<T>()}; }
template <class OP, typename T, typename T2, int SH> static void R2(Engine& E, const char* tn) { Op& op = E.add(std::string(OP::name()) + "(a,b) <" + tn + "> shapes vv" + ((SH & 1) ? ",vs" : "") + ((SH & 2) ? ",sv" : "") + ((SH & 4) ? ",v1" : "") + " L=1..4 x Q", op_b2<OP, T, T2, SH>); op.quick = {product("VALUES^2", {D1<T>(), D1<T2>()})}; }
template <class OP, typename T, typename T3, int SH> static void R3(Engine& E, const char* tn) { Op& op = E.add(std::string(OP::name()) + "(a,b,c) <" + tn + "> shapes vvv" + ((SH & 1) ? ",vss" : "") + ((SH & 2) ? ",vvs" : "") + ((SH & 4) ? ",ssv" : "") + " L=1..4 x Q", op_t3<OP, T, T3, SH>); op.quick = {product("VALUES3^3", {D3<T>(), D3<T>(), D3<T3>()})}; }

// ======================================================================================== function tables
DEF_FN(radians, BITS) DEF_FN(degrees, BITS) DEF_FN(sin, BITS) DEF_FN(cos, BITS) DEF_FN(tan, BITS) DEF_FN(asin, BITS) DEF_FN(acos, BITS) DEF_FN(atan, BITS) DEF_FN(sinh, BITS) DEF_FN(cosh, BITS) DEF_FN(tanh, BITS)
DEF_FN(asinh, BITS) DEF_FN(acosh, BITS) DEF_FN(atanh, BITS) DEF_FN(exp, BITS) DEF_FN(log, BITS) DEF_FN(exp2, BITS) DEF_FN(log2, BITS) DEF_FN(sqrt, BITS)
DEF_FN_PRE(inversesqrt, LOWPREL, template <class A> static bool pre(A x) { return x >= (A)1.1754944e-38f && x <= (A)1e37f; })   // lowp bit-trick is only defined on positive normal x with a normal result
DEF_FN_PRE(abs, BITS, template <class A> static bool pre(A x) { return !(std::is_integral<A>::value && std::is_signed<A>::value && x == std::numeric_limits<A>::min()); }) /* |most negative| is not representable */ DEF_FN(sign, BITS) DEF_FN(floor, BITS) DEF_FN(trunc, BITS) DEF_FN(round, BITS) DEF_FN(roundEven, BITS) DEF_FN(ceil, BITS) DEF_FN(fract, BITS) DEF_FN(isnan, BITS) DEF_FN(isinf, BITS)
DEF_FN(floatBitsToInt, BITS) DEF_FN(floatBitsToUint, BITS) DEF_FN(intBitsToFloat, BITS) DEF_FN(uintBitsToFloat, BITS)
DEF_FN(sec, BITS) DEF_FN(csc, BITS) DEF_FN(cot, BITS) DEF_FN(asec, BITS) DEF_FN(acsc, BITS) DEF_FN(acot, BITS) DEF_FN(sech, BITS) DEF_FN(csch, BITS) DEF_FN(coth, BITS) DEF_FN(asech, BITS) DEF_FN(acsch, BITS) DEF_FN(acoth, BITS)
DEF_FN(repeat, BITS) DEF_FN(mirrorClamp, BITS) DEF_FN(mirrorRepeat, ULPS)
DEF_FN_PRE(iround, BITS, template <class A> static bool pre(A x) { return x >= 0 && x < (A)2147483000.0; }) DEF_FN_PRE(uround, BITS, template <class A> static bool pre(A x) { return x >= 0 && x < (A)4294967000.0; })
DEF_FN(pow, BITS) DEF_FN(min, BITS) DEF_FN(max, BITS) DEF_FN(step, BITS) /* std::fmin(+0,-0) may return either zero; signalling NaN operands are outside the domain (platform minNum semantics) */
DEF_FN_PRE(fmin, VALUE, template <class A> static bool pre(A a, A b) { return !is_snan(a) && !is_snan(b); }) DEF_FN_PRE(fmax, VALUE, template <class A> static bool pre(A a, A b) { return !is_snan(a) && !is_snan(b); }) DEF_FN(ldexp, BITS)
// 3-operand forms (ext/scalar_common + ext/vector_common, gtx/extended_min_max): same functions, three arguments
// (with both ext/scalar_common.hpp and gtx/extended_min_max.hpp included the scalar 3-operand call is ambiguous, so the scalar side is the nested 2-operand form it is defined as)
#define DEF_FN3(ID, FN, CMPV, PRE) struct F_##ID { template <class... A> static double mag(A...) { return 0; } static const char* name() { return #FN "(3 operands)"; } enum { CMP = CMPV }; \
  template <glm::length_t L, class T, glm::qualifier Q> static glm::vec<L, T, Q> f(glm::vec<L, T, Q> a, glm::vec<L, T, Q> b, glm::vec<L, T, Q> c) { return glm::FN(a, b, c); } \
  template <class T, class = typename std::enable_if<std::is_arithmetic<T>::value>::type> static T f(T a, T b, T c) { return glm::FN(glm::FN(a, b), c); } template <class A> static bool pre(A a, A b, A c) { return PRE; } };
DEF_FN3(min3, min, BITS, true) DEF_FN3(max3, max, BITS, true) DEF_FN3(fmin3, fmin, VALUE, (!is_snan(a) && !is_snan(b) && !is_snan(c))) DEF_FN3(fmax3, fmax, VALUE, (!is_snan(a) && !is_snan(b) && !is_snan(c)))
DEF_FN_PRE(mod, ULPS, template <class A> static bool pre(A x, A y) { return x - x == 0 && y - y == 0 && y != 0; } template <class A> static double mag(A x, A y) { return 2 * std::fabs((double)x) + std::fabs((double)y); })
struct F_atan2 { template <class... A> static double mag(A...) { return 0; } static const char* name() { return "atan(y,x)"; } enum { CMP = BITS }; template <class A, class B> static auto f(A a, B b) -> decltype(glm::atan(a, b)) { return glm::atan(a, b); } template <class... A> static bool pre(A...) { return true; } };
DEF_FN_PRE(clamp, BITS, template <class A> static bool pre(A, A lo, A hi) { return !(lo > hi); }) DEF_FN_PRE(fclamp, VALUE, template <class A> static bool pre(A x, A lo, A hi) { return !(lo > hi) && !is_snan(x) && !is_snan(lo) && !is_snan(hi); })
DEF_FN_PRE(mix, ULPS, template <class A, class B> static bool pre(A x, A y, B a) { return true; } template <class A, class B> static double mag(A x, A y, B a) { return std::fabs((double)x * (1.0 - (double)a)) + std::fabs((double)y * (double)a); })   /* terms of the documented formula x*(1-a) + y*a */
struct F_mixsel { template <class... A> static double mag(A...) { return 0; } static const char* name() { return "mix(bool selector)"; } enum { CMP = BITS }; template <class... A> static auto f(A... a) -> decltype(glm::mix(a...)) { return glm::mix(a...); } template <class... A> static bool pre(A...) { return true; } };   /* a selection, not the blend formula: the unselected operand has no effect */
DEF_FN_PRE(smoothstep, ULPS, template <class A> static bool pre(A e0, A e1, A) { return e0 < e1; }) DEF_FN_PRE(fma, ULPS, template <class... A> static bool pre(A...) { return true; } template <class A> static double mag(A a, A b, A c) { return std::fabs((double)a * (double)b) + std::fabs((double)c); })
// integer functions
DEF_FN(bitCount, BITS) DEF_FN(findLSB, BITS) DEF_FN(findMSB, BITS) DEF_FN(bitfieldReverse, BITS) DEF_FN_PRE(isPowerOfTwo, BITS, template <class A> static bool pre(A x) { return !(std::is_signed<A>::value && x == std::numeric_limits<A>::min()); })   /* vector == scalar for negatives too (abs of the most negative value is undefined) */
DEF_FN_PRE(nextPowerOfTwo, BITS, template <class A> static bool pre(A x) { return x > 0 && x <= (A)(std::numeric_limits<A>::max() / 2); }) DEF_FN_PRE(prevPowerOfTwo, BITS, template <class A> static bool pre(A x) { return x > 0; })
DEF_FN_PRE(isMultiple, BITS, template <class A> static bool pre(A, A m) { return m > 0; })
DEF_FN_PRE(nextMultiple, BITS, template <class A> static bool pre(A x, A m) { return m > 0 && m <= (A)(std::numeric_limits<A>::max() / 4) && x <= (A)(std::numeric_limits<A>::max() - m) && (std::numeric_limits<A>::min() == 0 || x >= (A)(std::numeric_limits<A>::min() + m)); })
DEF_FN_PRE(prevMultiple, BITS, template <class A> static bool pre(A x, A m) { return m > 0 && m <= (A)(std::numeric_limits<A>::max() / 4) && x <= (A)(std::numeric_limits<A>::max() - m) && (std::numeric_limits<A>::min() == 0 || x >= (A)(std::numeric_limits<A>::min() + m)); })
DEF_FN_PRE(findNSB, BITS, template <class A> static bool pre(A, int n) { return n >= 1 && n <= 64; })
// relational functions have no scalar overload: the scalar side is the C++ operator
#define DEF_REL(NAME, OPR) struct F_##NAME { template <class... A> static double mag(A...) { return 0; } static const char* name() { return #NAME; } enum { CMP = BITS }; template <glm::length_t L, class T, glm::qualifier Q> static glm::vec<L, bool, Q> f(glm::vec<L, T, Q> a, glm::vec<L, T, Q> b) { return glm::NAME(a, b); } \
  template <class T, class = typename std::enable_if<std::is_arithmetic<T>::value>::type> static bool f(T a, T b) { return a OPR b; } template <class... A> static bool pre(A...) { return true; } };
DEF_REL(lessThan, <) DEF_REL(lessThanEqual, <=) DEF_REL(greaterThan, >) DEF_REL(greaterThanEqual, >=) DEF_REL(equal, ==) DEF_REL(notEqual, !=)
struct F_equalEps { template <class... A> static double mag(A...) { return 0; } static const char* name() { return "equal(x,y,epsilon)"; } enum { CMP = BITS }; template <class A, class B, class C> static auto f(A a, B b, C c) -> decltype(glm::equal(a, b, c)) { return glm::equal(a, b, c); } template <class... A> static bool pre(A...) { return true; } };
struct F_notEqualEps { template <class... A> static double mag(A...) { return 0; } static const char* name() { return "notEqual(x,y,epsilon)"; } enum { CMP = BITS }; template <class A, class B, class C> static auto f(A a, B b, C c) -> decltype(glm::notEqual(a, b, c)) { return glm::notEqual(a, b, c); } template <class... A> static bool pre(A...) { return true; } };
// operators: the scalar side is the C++ operator on T (with the result converted to T as GLM documents)
#define DEF_OPB(ID, OPR, CMPV, ...) struct O_##ID { template <class... A> static double mag(A...) { return 0; } static const char* name() { return "operator" #OPR; } enum { CMP = CMPV }; template <glm::length_t L, class T, glm::qualifier Q> static glm::vec<L, T, Q> f(glm::vec<L, T, Q> a, glm::vec<L, T, Q> b) { return a OPR b; } \
  template <glm::length_t L, class T, glm::qualifier Q> static glm::vec<L, T, Q> f(glm::vec<L, T, Q> a, T b) { return a OPR b; } template <glm::length_t L, class T, glm::qualifier Q> static glm::vec<L, T, Q> f(T a, glm::vec<L, T, Q> b) { return a OPR b; } \
  template <glm::length_t L, class T, glm::qualifier Q, class = typename std::enable_if<(L > 1)>::type> static glm::vec<L, T, Q> f(glm::vec<L, T, Q> a, glm::vec<1, T, Q> b) { return a OPR b; } template <glm::length_t L, class T, glm::qualifier Q, class = typename std::enable_if<(L > 1)>::type> static glm::vec<L, T, Q> f(glm::vec<1, T, Q> a, glm::vec<L, T, Q> b) { return a OPR b; } \
  template <class T, class = typename std::enable_if<std::is_arithmetic<T>::value>::type> static T f(T a, T b) { return (T)(a OPR b); } __VA_ARGS__ };
template <class T> static bool add_ok(T a, T b) { if (!std::is_integral<T>::value || !std::is_signed<T>::value || sizeof(T) < 4) return true; __int128 r = (__int128)a + b; return r >= std::numeric_limits<T>::min() && r <= std::numeric_limits<T>::max(); }
template <class T> static bool sub_ok(T a, T b) { if (!std::is_integral<T>::value || !std::is_signed<T>::value || sizeof(T) < 4) return true; __int128 r = (__int128)a - b; return r >= std::numeric_limits<T>::min() && r <= std::numeric_limits<T>::max(); }
template <class T> static bool mul_ok(T a, T b) { if (!std::is_integral<T>::value || !std::is_signed<T>::value || sizeof(T) < 4) return true; __int128 r = (__int128)a * b; return r >= std::numeric_limits<T>::min() && r <= std::numeric_limits<T>::max(); }
template <class T> static bool div_ok(T a, T b) { if (!std::is_integral<T>::value) return true; if (b == 0) return false; if (std::is_signed<T>::value && a == std::numeric_limits<T>::min() && b == (T)-1) return false; return true; }
template <class T> static bool shl_ok(T a, T b) { if (b < 0 || b >= (T)(sizeof(T) * 8)) return false; if (std::is_signed<T>::value) { if (a < 0) return false; __int128 r = (__int128)a << (int)b; return r <= std::numeric_limits<T>::max(); } return true; }
template <class T> static bool shr_ok(T, T b) { return !(b < 0) && b < (T)(sizeof(T) * 8); }
DEF_OPB(add, +, VALUE, template <class T> static bool pre(T a, T b) { return add_ok(a, b); }) DEF_OPB(sub, -, VALUE, template <class T> static bool pre(T a, T b) { return sub_ok(a, b); })
DEF_OPB(mul, *, VALUE, template <class T> static bool pre(T a, T b) { return mul_ok(a, b); }) DEF_OPB(div, /, VALUE, template <class T> static bool pre(T a, T b) { return div_ok(a, b); })
DEF_OPB(mod, %, BITS, template <class T> static bool pre(T a, T b) { return div_ok(a, b); }) DEF_OPB(and, &, BITS, template <class T> static bool pre(T, T) { return true; }) DEF_OPB(or, |, BITS, template <class T> static bool pre(T, T) { return true; })
DEF_OPB(xor, ^, BITS, template <class T> static bool pre(T, T) { return true; }) DEF_OPB(shl, <<, BITS, template <class T> static bool pre(T a, T b) { return shl_ok(a, b); }) DEF_OPB(shr, >>, BITS, template <class T> static bool pre(T a, T b) { return shr_ok(a, b); })
// compound assignment, unary operators, ++/--, ==/!=, logical: one combined check per (T, L, Q)
template <typename T, int L, glm::qualifier Q> static bool misc_ops(uint64_t i, uint64_t j, Outcome& o) {
  struct OP { static const char* name() { return "compound/unary"; } };
  glm::vec<L, T, Q> v, w; T a[4], b[4]; for (int k = 0; k < L; ++k) { a[k] = pick<T>(i, k, 0); b[k] = pick<T>(j, k, 1); v[k] = a[k]; w[k] = b[k]; }
  const bool isint = std::is_integral<T>::value; int k = 0;
#define CA(OPR, OKFN, CMPV, WHAT) { bool ok = true; for (int q = 0; q < L; ++q) ok = ok && OKFN(a[q], b[q]) && LPOK(Q, a[q], b[q]); if (ok) { glm::vec<L, T, Q> x = v; x OPR w; for (k = 0; k < L; ++k) { T s = a[k]; s OPR b[k]; if (!cmp_lane(x[k], s, CMPV, QN<Q>::id == 2)) { o.res(bits_of(x[k]), bits_of(a[k])); o.exp(bits_of(s)); REPORT(L, Q, "%s " WHAT " (vec)") } } } \
    bool ok2 = true; for (int q = 0; q < L; ++q) ok2 = ok2 && OKFN(a[q], b[0]) && LPOK(Q, a[q], b[0]); if (ok2) { glm::vec<L, T, Q> x = v; x OPR b[0]; glm::vec<L, T, Q> y = v; y OPR glm::vec<1, T, Q>(b[0]); for (k = 0; k < L; ++k) { T s = a[k]; s OPR b[0]; if (!cmp_lane(x[k], s, CMPV, QN<Q>::id == 2) || !cmp_lane(y[k], s, CMPV, QN<Q>::id == 2)) { o.res(bits_of(x[k]), bits_of(y[k])); o.exp(bits_of(s)); REPORT(L, Q, "%s " WHAT " (scalar / vec1 right-hand side)") } } } }
  CA(+=, add_ok, VALUE, "+=") CA(-=, sub_ok, VALUE, "-=") CA(*=, mul_ok, VALUE, "*=") CA(/=, div_ok, VALUE, "/=")
  // aliasing: the right-hand side is the vector itself, or a reference to one of its own components (every component must be combined with the OLD value)
#define CAA(OPR, OKFN, CMPV, WHAT) { bool ok = true; for (int q = 0; q < L; ++q) ok = ok && OKFN(a[q], a[q]) && OKFN(a[q], a[L - 1]) && LPOK(Q, a[q], a[L - 1]); if (ok) { glm::vec<L, T, Q> x = v; x OPR x; glm::vec<L, T, Q> y = v; y OPR y[L - 1]; \
      for (k = 0; k < L; ++k) { T s = a[k]; s OPR a[k]; T t = a[k]; t OPR a[L - 1]; if (!cmp_lane(x[k], s, CMPV, QN<Q>::id == 2) || !cmp_lane(y[k], t, CMPV, QN<Q>::id == 2)) { o.res(bits_of(x[k]), bits_of(y[k])); o.exp(bits_of(s), bits_of(t)); REPORT(L, Q, "%s " WHAT " with the right-hand side aliasing the vector / one of its components") } } } }
  CAA(+=, add_ok, VALUE, "+=") CAA(-=, sub_ok, VALUE, "-=") CAA(*=, mul_ok, VALUE, "*=") CAA(/=, div_ok, VALUE, "/=")
  if constexpr (std::is_integral<T>::value) { CA(%=, div_ok, BITS, "%=") CA(&=, [](T, T) { return true; }, BITS, "&=") CA(|=, [](T, T) { return true; }, BITS, "|=") CA(^=, [](T, T) { return true; }, BITS, "^=") CA(<<=, shl_ok, BITS, "<<=") CA(>>=, shr_ok, BITS, ">>=")
    { glm::vec<L, T, Q> x = ~v; for (k = 0; k < L; ++k) if (x[k] != (T)~a[k]) { o.res(bits_of(x[k])); o.exp(bits_of((T)~a[k])); REPORT(L, Q, "%s operator~") } } }
  { bool ok = true; for (int q = 0; q < L; ++q) ok = ok && sub_ok((T)0, a[q]); if (ok) { glm::vec<L, T, Q> x = -v; for (k = 0; k < L; ++k) if (!cmp_lane(x[k], (T)(-a[k]), VALUE, false)) { o.res(bits_of(x[k])); o.exp(bits_of((T)(-a[k]))); REPORT(L, Q, "%s unary minus") } } }
  { glm::vec<L, T, Q> x = +v; for (k = 0; k < L; ++k) if (!cmp_lane(x[k], a[k], BITS, false)) { REPORT(L, Q, "%s unary plus") } }
  { bool ok = true; for (int q = 0; q < L; ++q) ok = ok && add_ok(a[q], (T)1) && sub_ok(a[q], (T)1); if (ok) { glm::vec<L, T, Q> x = v, y = v; ++x; --y; glm::vec<L, T, Q> p = v, q2 = v; glm::vec<L, T, Q> pr = p++, qr = q2--;
      for (k = 0; k < L; ++k) if (!cmp_lane(x[k], (T)(a[k] + (T)1), VALUE, false) || !cmp_lane(y[k], (T)(a[k] - (T)1), VALUE, false) || !cmp_lane(p[k], (T)(a[k] + (T)1), VALUE, false) || !cmp_lane(q2[k], (T)(a[k] - (T)1), VALUE, false) || !cmp_lane(pr[k], a[k], BITS, false) || !cmp_lane(qr[k], a[k], BITS, false)) { o.res(bits_of(x[k]), bits_of(y[k])); REPORT(L, Q, "%s ++/-- (prefix and postfix)") } } }
  { bool eq = true; for (int q = 0; q < L; ++q) eq = eq && (a[q] == b[q]); k = 0; if ((v == w) != eq || (v != w) == eq) { o.res(v == w, v != w); o.exp(eq, !eq); REPORT(L, Q, "%s operator== / != (all components)") } }
  (void)isint; return true;
}
template <typename T> static void op_misc(const Case& c, Outcome& o) { o.cls(0); g_lowp_skip = false;
#define MQ(Q) if (!misc_ops<T, 1, Q>(c.w[0], c.w[1], o) || !misc_ops<T, 2, Q>(c.w[0], c.w[1], o) || !misc_ops<T, 3, Q>(c.w[0], c.w[1], o) || !misc_ops<T, 4, Q>(c.w[0], c.w[1], o)) return;
  MQ(QHIGH) MQ(QLOW) MQ(QMED) }
template <typename T> static void Rmisc(Engine& E, const char* tn) { Op& op = E.add(std::string("compound assignment, unary -,+,~, ++/--, ==/!= <") + tn + "> L=1..4 x Q", op_misc<T>); op.quick = {product("VALUES^2", {D1<T>(), D1<T>()})}; }
// bool vectors: && || ! not_ any all equal
static void op_bool(const Case& c, Outcome& o) { o.cls(0); uint64_t m = c.w[0], n = c.w[1];
#define BL(L) { glm::vec<L, bool> a, b; bool anya = false, alla = true; for (int k = 0; k < L; ++k) { a[k] = (m >> k) & 1; b[k] = (n >> k) & 1; anya = anya || a[k]; alla = alla && a[k]; } glm::vec<L, bool> x = a && b, y = a || b, nn = glm::not_(a), e = glm::equal(a, b), ne = glm::notEqual(a, b); \
    for (int k = 0; k < L; ++k) if (x[k] != (a[k] && b[k]) || y[k] != (a[k] || b[k]) || nn[k] != !a[k] || e[k] != (a[k] == b[k]) || ne[k] != (a[k] != b[k])) { o.res(m, n); o.bad(L, "bvec && || not_ equal notEqual: not component-wise"); return; } \
    if (glm::any(a) != anya || glm::all(a) != alla) { o.res(m, n); o.bad(10 + L, "any/all on bvec"); return; } }
  BL(1) BL(2) BL(3) BL(4) }
// frexp/modf/ldexp out-parameter forms, component reductions, matrix forms
template <typename T> static void op_outparam(const Case& c, Outcome& o) { o.cls(0); uint64_t i = c.w[0];
#define OPL(L, Q) { glm::vec<L, T, Q> v; T a[4]; for (int k = 0; k < L; ++k) { a[k] = pick<T>(i, k, 0); v[k] = a[k]; } glm::vec<L, int, Q> e(0); glm::vec<L, T, Q> ip(0); glm::vec<L, T, Q> m = glm::frexp(v, e), fr = glm::modf(v, ip); \
    for (int k = 0; k < L; ++k) { int es = 0; T is = 0; T ms = glm::frexp(a[k], es), fs = glm::modf(a[k], is); bool fin = a[k] - a[k] == 0; if (!same_bits(m[k], ms) || (fin && e[k] != es) || !same_bits(fr[k], fs) || !same_bits(ip[k], is)) { o.res(bits_of(m[k]), bits_of(fr[k])); o.exp(bits_of(ms), bits_of(fs)); o.bad(L * 4 + QN<Q>::id, "frexp/modf(vec, out vec): component i differs from the scalar overload"); return; } } \
    { glm::vec<L, T, Q> al = v; glm::vec<L, T, Q> fa = glm::modf(al, al); for (int k = 0; k < L; ++k) { T is = 0; T fs = glm::modf(a[k], is); if (!same_bits(fa[k], fs) || !same_bits(al[k], is)) { o.res(bits_of(fa[k]), bits_of(al[k])); o.exp(bits_of(fs), bits_of(is)); o.bad(70 + L * 4 + QN<Q>::id, "modf(v, v) (output aliases input): component i differs from the scalar overload"); return; } } }\
    glm::vec<L, int, Q> ex; for (int k = 0; k < L; ++k) ex[k] = (int)((i + 7 * k) % 41) - 20; glm::vec<L, T, Q> ld = glm::ldexp(v, ex); for (int k = 0; k < L; ++k) if (!same_bits(ld[k], glm::ldexp(a[k], ex[k]))) { o.res(bits_of(ld[k])); o.exp(bits_of(glm::ldexp(a[k], ex[k]))); o.bad(50 + L * 4 + QN<Q>::id, "ldexp(vec, ivec): component i differs from the scalar overload"); return; } }
  OPL(1, QHIGH) OPL(2, QHIGH) OPL(3, QHIGH) OPL(4, QHIGH) OPL(2, QLOW) OPL(3, QMED) OPL(4, QLOW) }
template <typename T> static void op_reduce(const Case& c, Outcome& o) { o.cls(0); uint64_t i = c.w[0];
#define RDL(L) { glm::vec<L, T> v; T a[4]; bool fin = true; for (int k = 0; k < L; ++k) { a[k] = pick<T>(i, k, 0); v[k] = a[k]; fin = fin && (a[k] - a[k] == 0); } T mn = a[0], mx = a[0], sum = a[0], prod = a[0]; for (int k = 1; k < L; ++k) { mn = glm::min(mn, a[k]); mx = glm::max(mx, a[k]); sum = (T)(sum + a[k]); prod = (T)(prod * a[k]); } \
    if (!same_value(glm::compMin(v), mn) || !same_value(glm::compMax(v), mx)) { o.res(bits_of(glm::compMin(v)), bits_of(glm::compMax(v))); o.exp(bits_of(mn), bits_of(mx)); o.bad(L, "compMin/compMax: not the fold of scalar min/max over the components"); return; } \
    if (std::is_floating_point<T>::value ? fin : (sizeof(T) < 4 || !std::is_signed<T>::value)) { if (!same_value(glm::compAdd(v), sum) || !same_value(glm::compMul(v), prod)) { o.res(bits_of(glm::compAdd(v)), bits_of(glm::compMul(v))); o.exp(bits_of(sum), bits_of(prod)); o.bad(10 + L, "compAdd/compMul: not the left fold of + / * over the components"); return; } } }
  RDL(1) RDL(2) RDL(3) RDL(4)
  // gtx/component_wise: compNormalize / compScale are component-wise (lane k of the vector result == the vec1 result on component k); fcompMin / fcompMax are the folds of fmin / fmax
#define RDX(L) { glm::vec<L, T> v; T a[4]; bool anynan = false; for (int k = 0; k < L; ++k) { a[k] = pick<T>(i, k, 0); v[k] = a[k]; anynan = anynan || a[k] != a[k] || is_snan(a[k]); } \
    if constexpr (std::is_integral<T>::value) { glm::vec<L, float> nf = glm::compNormalize<float>(v); glm::vec<L, double> nd = glm::compNormalize<double>(v); \
      for (int k = 0; k < L; ++k) { float sf = glm::compNormalize<float>(glm::vec<1, T>(a[k])).x; double sd = glm::compNormalize<double>(glm::vec<1, T>(a[k])).x; \
        if (!same_bits(nf[k], sf) || !same_bits(nd[k], sd)) { o.res(bits_of(nf[k]), (uint64_t)k); o.exp(bits_of(sf)); o.bad(30 + L, "compNormalize(vec)[k] != compNormalize(vec1(v[k]))"); return; } \
        if (!std::is_signed<T>::value && !same_bits(nd[k], (double)a[k] / (double)std::numeric_limits<T>::max())) { o.res(bits_of(nd[k]), (uint64_t)k); o.bad(34 + L, "compNormalize<double>(unsigned) is not value / max"); return; } } \
      glm::vec<L, T> back = glm::compScale<T>(nd); glm::vec<L, T> b1; for (int k = 0; k < L; ++k) b1[k] = glm::compScale<T>(glm::vec<1, double>(nd[k])).x; \
      for (int k = 0; k < L; ++k) if (back[k] != b1[k]) { o.res(bits_of(back[k]), (uint64_t)k); o.exp(bits_of(b1[k])); o.bad(40 + L, "compScale(vec)[k] != compScale(vec1(v[k]))"); return; } } \
    else if (!anynan) { T fm = a[0], fx = a[0]; for (int k = 1; k < L; ++k) { fm = glm::fmin(fm, a[k]); fx = glm::fmax(fx, a[k]); } \
      if (!same_value(glm::fcompMin(v), fm) || !same_value(glm::fcompMax(v), fx)) { o.res(bits_of(glm::fcompMin(v)), bits_of(glm::fcompMax(v))); o.exp(bits_of(fm), bits_of(fx)); o.bad(50 + L, "fcompMin/fcompMax: not the fold of fmin/fmax over the components"); return; } } }
  RDX(1) RDX(2) RDX(3) RDX(4) }
template <typename T> static void op_matrix(const Case& c, Outcome& o) { o.cls(0); uint64_t i = c.w[0], j = c.w[1], l = c.w[2];
#define MXL(C, R) { glm::mat<C, R, T> A, B, W; for (int cc = 0; cc < C; ++cc) for (int r = 0; r < R; ++r) { A[cc][r] = pick<T>(i, cc * R + r, 0); B[cc][r] = pick<T>(j, cc * R + r, 1); W[cc][r] = pick<T>(l, cc * R + r, 2); } \
    glm::mat<C, R, T> ab = glm::abs(A), mx = glm::mix(A, B, W), ms = glm::mix(A, B, W[0][0]); for (int cc = 0; cc < C; ++cc) for (int r = 0; r < R; ++r) { if (!same_bits(ab[cc][r], glm::abs(A[cc][r]))) { o.res(bits_of(ab[cc][r])); o.exp(bits_of(glm::abs(A[cc][r]))); o.bad(C * 4 + R, "abs(mat): not element-wise"); return; } \
      if (!cmp_lane(mx[cc][r], glm::mix(A[cc][r], B[cc][r], W[cc][r]), ULPS, false) || !cmp_lane(ms[cc][r], glm::mix(A[cc][r], B[cc][r], W[0][0]), ULPS, false)) { o.res(bits_of(mx[cc][r])); o.exp(bits_of(glm::mix(A[cc][r], B[cc][r], W[cc][r]))); o.bad(20 + C * 4 + R, "mix(mat,mat,a): not element-wise"); return; } } \
    glm::vec<C, bool> e = glm::equal(A, B), ne = glm::notEqual(A, B); T eps = glm::abs(W[0][0]); glm::vec<C, bool> ee = glm::equal(A, B, eps), nee = glm::notEqual(A, B, eps); \
    for (int cc = 0; cc < C; ++cc) { bool alleq = true, alle = true, anyne = false; for (int r = 0; r < R; ++r) { alleq = alleq && (A[cc][r] == B[cc][r]); alle = alle && glm::equal(A[cc][r], B[cc][r], eps); anyne = anyne || glm::notEqual(A[cc][r], B[cc][r], eps); } \
      if (e[cc] != alleq || ne[cc] == alleq || ee[cc] != alle || nee[cc] != anyne) { o.res(e[cc], ee[cc]); o.exp(alleq, alle); o.bad(40 + C * 4 + R, "equal/notEqual(mat,mat[,epsilon]): column verdict is not the conjunction of the element verdicts"); return; } } }
  MXL(2, 2) MXL(2, 3) MXL(2, 4) MXL(3, 2) MXL(3, 3) MXL(3, 4) MXL(4, 2) MXL(4, 3) MXL(4, 4) }

// uaddCarry / usubBorrow / umulExtended / imulExtended: vector overload == scalar overload per component, also when an output object is one of the operands
template <int L, glm::qualifier Q> static bool carry_one(uint64_t i, uint64_t j, Outcome& o) {
  typedef glm::vec<L, glm::uint, Q> UV; typedef glm::vec<L, int, Q> IV; UV x, y; glm::uint a[4], b[4]; for (int k = 0; k < L; ++k) { a[k] = pick<glm::uint>(i, k, 0); b[k] = pick<glm::uint>(j, k, 1); x[k] = a[k]; y[k] = b[k]; }
  UV c(77u), bw(77u), hi(77u), lo(77u); UV s = glm::uaddCarry(x, y, c), d = glm::usubBorrow(x, y, bw); glm::umulExtended(x, y, hi, lo);
  IV sx(x), sy(y), shi(77), slo(77); glm::imulExtended(sx, sy, shi, slo);
  UV ax = x, ay = y; UV s1 = glm::uaddCarry(ax, y, ax), s2 = glm::uaddCarry(x, ay, ay);          // carry aliases x / y
  UV bx = x, by = y; UV d1 = glm::usubBorrow(bx, y, bx), d2 = glm::usubBorrow(x, by, by);
  UV mx = x, my = y; glm::umulExtended(mx, my, mx, my);
  for (int k = 0; k < L; ++k) { glm::uint sc = 77, sb = 77, sh = 77, sl = 77; glm::uint ss = glm::uaddCarry(a[k], b[k], sc), sd = glm::usubBorrow(a[k], b[k], sb); glm::umulExtended(a[k], b[k], sh, sl); int ih = 77, il = 77; glm::imulExtended((int)a[k], (int)b[k], ih, il);
    const char* what = nullptr;
    if (s[k] != ss || c[k] != sc) what = "uaddCarry(vec)"; else if (d[k] != sd || bw[k] != sb) what = "usubBorrow(vec)"; else if (hi[k] != sh || lo[k] != sl) what = "umulExtended(vec)"; else if (shi[k] != ih || slo[k] != il) what = "imulExtended(vec)";
    else if (s1[k] != ss || ax[k] != sc || s2[k] != ss || ay[k] != sc) what = "uaddCarry(vec) with the carry aliasing an operand"; else if (d1[k] != sd || bx[k] != sb || d2[k] != sd || by[k] != sb) what = "usubBorrow(vec) with the borrow aliasing an operand";
    else if (mx[k] != sh || my[k] != sl) what = "umulExtended(vec) with the outputs aliasing the operands";
    if (what) { char m[160]; std::snprintf(m, sizeof m, "%s: component %d differs from the scalar overload [L=%d, Q=%d]", what, k, L, (int)QN<Q>::id); o.res(s[k], c[k]); o.exp(ss, sc); o.bad(L * 4 + QN<Q>::id, m); return false; } }
  return true; }
static void op_carry(const Case& c, Outcome& o) { o.cls(0);
#define CQ(Q) if (!carry_one<1, Q>(c.w[0], c.w[1], o) || !carry_one<2, Q>(c.w[0], c.w[1], o) || !carry_one<3, Q>(c.w[0], c.w[1], o) || !carry_one<4, Q>(c.w[0], c.w[1], o)) return;
  CQ(QHIGH) CQ(QLOW) CQ(QMED) }
template <typename T, int L, glm::qualifier Q> static bool findnsb_one(uint64_t i, uint64_t n, Outcome& o) {
  const int w = sizeof(T) * 8; glm::vec<L, T, Q> v; glm::vec<L, int, Q> c; for (int k = 0; k < L; ++k) { v[k] = pick<T>(i, k, 0); c[k] = 1 + (int)((n + 5 * k) % (w + 1)); }
  glm::vec<L, int, Q> r = glm::findNSB(v, c); for (int k = 0; k < L; ++k) { int s = glm::findNSB(v[k], c[k]); if (r[k] != s) { o.res((uint64_t)(int64_t)r[k], (uint64_t)k); o.exp((uint64_t)(int64_t)s); o.bad(L * 4 + QN<Q>::id, "findNSB(vec, ivec)[i] != findNSB(v[i], n[i])"); return false; } }
  return true; }
template <typename T> static void op_findnsb(const Case& c, Outcome& o) { o.cls(0);
#define NQ(Q) if (!findnsb_one<T, 1, Q>(c.w[0], c.w[1], o) || !findnsb_one<T, 2, Q>(c.w[0], c.w[1], o) || !findnsb_one<T, 3, Q>(c.w[0], c.w[1], o) || !findnsb_one<T, 4, Q>(c.w[0], c.w[1], o)) return;
  NQ(QHIGH) NQ(QLOW) NQ(QMED) }
template <typename T> static void reg_float_unary(Engine& E, const char* tn) {
  R1<F_radians, T>(E, tn); R1<F_degrees, T>(E, tn); R1<F_sin, T>(E, tn); R1<F_cos, T>(E, tn); R1<F_tan, T>(E, tn); R1<F_asin, T>(E, tn); R1<F_acos, T>(E, tn); R1<F_atan, T>(E, tn); R1<F_sinh, T>(E, tn); R1<F_cosh, T>(E, tn); R1<F_tanh, T>(E, tn);
  R1<F_asinh, T>(E, tn); R1<F_acosh, T>(E, tn); R1<F_atanh, T>(E, tn); R1<F_exp, T>(E, tn); R1<F_log, T>(E, tn); R1<F_exp2, T>(E, tn); R1<F_log2, T>(E, tn); R1<F_sqrt, T>(E, tn); R1<F_inversesqrt, T>(E, tn);
  R1<F_abs, T>(E, tn); R1<F_sign, T>(E, tn); R1<F_floor, T>(E, tn); R1<F_trunc, T>(E, tn); R1<F_round, T>(E, tn); R1<F_roundEven, T>(E, tn); R1<F_ceil, T>(E, tn); R1<F_fract, T>(E, tn); R1<F_isnan, T>(E, tn); R1<F_isinf, T>(E, tn);
}
template <typename T> static void reg_float_recip(Engine& E, const char* tn) {
  R1<F_sec, T>(E, tn); R1<F_csc, T>(E, tn); R1<F_cot, T>(E, tn); R1<F_asec, T>(E, tn); R1<F_acsc, T>(E, tn); R1<F_acot, T>(E, tn); R1<F_sech, T>(E, tn); R1<F_csch, T>(E, tn); R1<F_coth, T>(E, tn); R1<F_asech, T>(E, tn); R1<F_acsch, T>(E, tn); R1<F_acoth, T>(E, tn);
  R1<F_repeat, T>(E, tn); R1<F_mirrorClamp, T>(E, tn); R1<F_mirrorRepeat, T>(E, tn); R1<F_iround, T>(E, tn); R1<F_uround, T>(E, tn);
  { Op& op = E.add(std::string("frexp/modf/ldexp out-parameter forms <") + tn + ">", op_outparam<T>); op.quick = {D1<T>()}; }
  { Op& op = E.add(std::string("compAdd/compMul/compMin/compMax <") + tn + ">", op_reduce<T>); op.quick = {D1<T>()}; }
}
template <typename T> static void reg_float_nary(Engine& E, const char* tn) {
  R2<F_pow, T, T, 0>(E, tn); R2<F_atan2, T, T, 0>(E, tn); R2<F_mod, T, T, 1>(E, tn); R2<F_min, T, T, 1>(E, tn); R2<F_max, T, T, 1>(E, tn); R2<F_step, T, T, 2>(E, tn); R2<F_fmin, T, T, 1>(E, tn); R2<F_fmax, T, T, 1>(E, tn);
  R2<F_lessThan, T, T, 0>(E, tn); R2<F_lessThanEqual, T, T, 0>(E, tn); R2<F_greaterThan, T, T, 0>(E, tn); R2<F_greaterThanEqual, T, T, 0>(E, tn); R2<F_equal, T, T, 0>(E, tn); R2<F_notEqual, T, T, 0>(E, tn);
}
template <typename T> static void reg_float_ternary(Engine& E, const char* tn) {
  R3<F_min3, T, T, 0>(E, tn); R3<F_max3, T, T, 0>(E, tn); R3<F_fmin3, T, T, 0>(E, tn); R3<F_fmax3, T, T, 0>(E, tn);
  R3<F_clamp, T, T, 1>(E, tn); R3<F_fclamp, T, T, 1>(E, tn); R3<F_mix, T, T, 2>(E, tn); R3<F_smoothstep, T, T, 4>(E, tn); R3<F_fma, T, T, 0>(E, tn); R3<F_equalEps, T, T, 2>(E, tn); R3<F_notEqualEps, T, T, 2>(E, tn);
  { Op& op = E.add(std::string("mix(x,y,bool) <") + tn + ">", op_t3<F_mixsel, T, bool, 2>); op.quick = {product("VALUES^2 x {false,true}", {D1<T>(), D1<T>(), D1<bool>()})}; }
  { Op& op = E.add(std::string("abs/mix/equal/notEqual on all 9 matrix shapes <") + tn + ">", op_matrix<T>); Domain d = range("VALUES/3", 0, n3<T>() / 3, false); op.quick = {product("sub-lattice^3", {d, d, d})}; }
}
template <typename T> static void reg_float_ops(Engine& E, const char* tn) { R2<O_add, T, T, 7>(E, tn); R2<O_sub, T, T, 7>(E, tn); R2<O_mul, T, T, 7>(E, tn); R2<O_div, T, T, 7>(E, tn); Rmisc<T>(E, tn); }
template <typename T> static void reg_int(Engine& E, const char* tn) {
  R2<O_add, T, T, 7>(E, tn); R2<O_sub, T, T, 7>(E, tn); R2<O_mul, T, T, 7>(E, tn); R2<O_div, T, T, 7>(E, tn); R2<O_mod, T, T, 7>(E, tn); R2<O_and, T, T, 7>(E, tn); R2<O_or, T, T, 7>(E, tn); R2<O_xor, T, T, 7>(E, tn); R2<O_shl, T, T, 7>(E, tn); R2<O_shr, T, T, 7>(E, tn); Rmisc<T>(E, tn);
  R2<F_min, T, T, 1>(E, tn); R2<F_max, T, T, 1>(E, tn); R3<F_clamp, T, T, 1>(E, tn); R3<F_min3, T, T, 0>(E, tn); R3<F_max3, T, T, 0>(E, tn);
  R2<F_lessThan, T, T, 0>(E, tn); R2<F_lessThanEqual, T, T, 0>(E, tn); R2<F_greaterThan, T, T, 0>(E, tn); R2<F_greaterThanEqual, T, T, 0>(E, tn); R2<F_equal, T, T, 0>(E, tn); R2<F_notEqual, T, T, 0>(E, tn);
  R1<F_bitCount, T>(E, tn); R1<F_findLSB, T>(E, tn); R1<F_findMSB, T>(E, tn); R1<F_bitfieldReverse, T>(E, tn); R1<F_isPowerOfTwo, T>(E, tn); R1<F_nextPowerOfTwo, T>(E, tn); R1<F_prevPowerOfTwo, T>(E, tn);
  R2<F_isMultiple, T, T, 1>(E, tn); R2<F_nextMultiple, T, T, 1>(E, tn); R2<F_prevMultiple, T, T, 1>(E, tn);
  { Op& op = E.add(std::string("findNSB(v, ivec) <") + tn + "> L=1..4 x Q, per-lane counts", op_findnsb<T>); op.quick = {product("VALUES x N(1..w+1)", {D1<T>(), range("N", 1, sizeof(T) * 8 + 1, true)})}; }
  { Op& op = E.add(std::string("mix(x,y,bool) <") + tn + ">", op_t3<F_mixsel, T, bool, 2>); op.quick = {product("VALUES^2 x {false,true}", {D1<T>(), D1<T>(), D1<bool>()})}; }
  { Op& op = E.add(std::string("compAdd/compMul/compMin/compMax <") + tn + ">", op_reduce<T>); op.quick = {D1<T>()}; }
  if constexpr (std::is_signed<T>::value) { R1<F_abs, T>(E, tn); R1<F_sign, T>(E, tn); }
}

int main(int argc, char** argv) {
  for (int i = 1; i + 1 < argc; ++i) if (std::string(argv[i]) == "--tier" && std::string(argv[i + 1]) == "thorough") g_thorough = true;
  Engine E; E.property = "C01";
  E.assumptions = {"libm is a function: the same argument gives the same result in the scalar and in the vector call", "signed 32/64-bit arithmetic whose exact result is not representable, division by zero, INT_MIN/-1 and out-of-range shift counts are outside every operator's domain (skipped)"};
#if PART(0)
  reg_float_unary<float>(E, "float");
  { Op& op = E.add("floatBitsToInt(v) L=1..4 x Q", op_u1<F_floatBitsToInt, float>); op.quick = {D1<float>()}; } { Op& op = E.add("floatBitsToUint(v) L=1..4 x Q", op_u1<F_floatBitsToUint, float>); op.quick = {D1<float>()}; }
  { Op& op = E.add("intBitsToFloat(v) L=1..4 x Q", op_u1<F_intBitsToFloat, int>); op.quick = {D1<int>()}; } { Op& op = E.add("uintBitsToFloat(v) L=1..4 x Q", op_u1<F_uintBitsToFloat, glm::uint>); op.quick = {D1<glm::uint>()}; }
#endif
#if PART(1)
  reg_float_unary<double>(E, "double");
#endif
#if PART(2)
  reg_float_recip<float>(E, "float"); reg_float_recip<double>(E, "double"); { Op& op = E.add("bvec operators and any/all/not_", op_bool); op.quick = {product("masks^2", {range("M", 0, 16, true), range("N", 0, 16, true)})}; }
#endif
#if PART(3)
  reg_float_nary<float>(E, "float"); reg_float_ops<float>(E, "float");
#endif
#if PART(4)
  reg_float_nary<double>(E, "double"); reg_float_ops<double>(E, "double");
#endif
#if PART(5)
  reg_float_ternary<float>(E, "float");
#endif
#if PART(6)
  reg_float_ternary<double>(E, "double");
#endif
#if PART(7)
  reg_int<int>(E, "int");
#endif
#if PART(8)
  reg_int<glm::uint>(E, "uint");
  { Op& op = E.add("uaddCarry/usubBorrow/umulExtended/imulExtended (vec) == scalar per component, incl. aliased outputs, L=1..4 x Q", op_carry); op.quick = {product("VALUES^2", {D1<glm::uint>(), D1<glm::uint>()})}; }
#endif
#if PART(9)
  reg_int<glm::int8>(E, "i8");
#endif
#if PART(10)
  reg_int<glm::uint8>(E, "u8");
#endif
#if PART(13)
  reg_int<glm::uint16>(E, "u16");
#endif
#if PART(14)
  reg_int<glm::int16>(E, "i16");
#endif
#if PART(11)
  reg_int<glm::int64>(E, "i64");
#endif
#if PART(12)
  reg_int<glm::uint64>(E, "u64");
#endif
  return E.main(argc, argv);
}
