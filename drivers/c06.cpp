// C06 — pack/unpack consistency, quantisation, clamping, monotonicity and field layout for every format of
// glm/packing.hpp and glm/gtc/packing.hpp.  A format is described once (fields = offset/width/kind + adapters) and
// explored generically: every code of every field (code sweep) and every float of the sweep domain in every field
// (real sweep).  Half formats are decided by C07 and only checked for layout here.
#define GLM_ENABLE_EXPERIMENTAL
#include <glm/glm.hpp>
#include <glm/packing.hpp>
#include <glm/gtc/packing.hpp>
#include <glm/gtc/type_precision.hpp>
#include "glmx.hpp"
#include <cfloat>
using namespace glmx;

enum Kind { UNORM, SNORM, UINT_, SINT_, F11, F10, F16, E5M9 /* mantissa of shared-exponent format */, E5X /* the exponent field */, RAW };
struct Field { int off, w; Kind k; };
struct Format {
  const char* name; int nf; Field f[4]; bool real;           // real: components are reals (normalised / small float)
  uint64_t (*pack)(const double*); void (*unpack)(uint64_t, double*);
};
static inline uint64_t fmask(int w) { return w >= 64 ? ~0ull : ((1ull << w) - 1); }
static inline uint64_t getf(uint64_t p, const Field& f) { return (p >> f.off) & fmask(f.w); }
static inline int64_t sext(uint64_t c, int w) { return (c >> (w - 1)) & 1 ? (int64_t)(c | ~fmask(w)) : (int64_t)c; }

// reference decode of one field code (exact, as double)
static double ref_decode(const Field& f, uint64_t c) {
  switch (f.k) {
    case UNORM: return (double)c / (double)fmask(f.w);
    case SNORM: { if (f.w == 2) { int64_t s = sext(c, 2); return s < -1 ? -1.0 : (double)s; } double m = (double)(fmask(f.w - 1)); double v = (double)sext(c, f.w) / m; return v < -1.0 ? -1.0 : v; }
    case UINT_: case RAW: return (double)c;
    case SINT_: return (double)sext(c, f.w);
    case F11: { int e = (int)(c >> 6), m = (int)(c & 63); if (c == 0) return 0; if (e == 31) return m ? NAN : INFINITY; return std::ldexp(1.0 + m / 64.0, e - 15); }
    case F10: { int e = (int)(c >> 5), m = (int)(c & 31); if (c == 0) return 0; if (e == 31) return m ? NAN : INFINITY; return std::ldexp(1.0 + m / 32.0, e - 15); }
    case F16: { int sg = (int)(c >> 15) & 1, e = (int)(c >> 10) & 31, m = (int)(c & 1023); double v = e == 31 ? (m ? NAN : INFINITY) : e == 0 ? std::ldexp((double)m, -24) : std::ldexp(1024.0 + m, e - 25); return sg ? -v : v; }
    default: return (double)c;
  }
}
static bool canonical(const Field& f, uint64_t c) {
  switch (f.k) {
    case SNORM: return c != (1ull << (f.w - 1));                 // all but the most negative code
    case F11: return (c >> 6) != 31;                             // finite codes
    case F10: return (c >> 5) != 31;
    case F16: return ((c >> 10) & 31) != 31;
    default: return true;
  }
}
static inline bool dsame(double a, double b) { return a == b || (a != a && b != b); }

// ---------------------------------------------------------------------------------------- adapters
#define V2(c) glm::vec2((float)c[0], (float)c[1])
#define V3(c) glm::vec3((float)c[0], (float)c[1], (float)c[2])
#define V4(c) glm::vec4((float)c[0], (float)c[1], (float)c[2], (float)c[3])
#define OUTV(v, n) for (int i = 0; i < n; ++i) o[i] = (double)v[i];
static const Format FORMATS[] = {
  {"packUnorm2x16", 2, {{0, 16, UNORM}, {16, 16, UNORM}}, true, [](const double* c) -> uint64_t { return glm::packUnorm2x16(V2(c)); }, [](uint64_t p, double* o) { glm::vec2 v = glm::unpackUnorm2x16((glm::uint)p); OUTV(v, 2) }},
  {"packSnorm2x16", 2, {{0, 16, SNORM}, {16, 16, SNORM}}, true, [](const double* c) -> uint64_t { return glm::packSnorm2x16(V2(c)); }, [](uint64_t p, double* o) { glm::vec2 v = glm::unpackSnorm2x16((glm::uint)p); OUTV(v, 2) }},
  {"packUnorm4x8", 4, {{0, 8, UNORM}, {8, 8, UNORM}, {16, 8, UNORM}, {24, 8, UNORM}}, true, [](const double* c) -> uint64_t { return glm::packUnorm4x8(V4(c)); }, [](uint64_t p, double* o) { glm::vec4 v = glm::unpackUnorm4x8((glm::uint)p); OUTV(v, 4) }},
  {"packSnorm4x8", 4, {{0, 8, SNORM}, {8, 8, SNORM}, {16, 8, SNORM}, {24, 8, SNORM}}, true, [](const double* c) -> uint64_t { return glm::packSnorm4x8(V4(c)); }, [](uint64_t p, double* o) { glm::vec4 v = glm::unpackSnorm4x8((glm::uint)p); OUTV(v, 4) }},
  {"packUnorm1x8", 1, {{0, 8, UNORM}}, true, [](const double* c) -> uint64_t { return glm::packUnorm1x8((float)c[0]); }, [](uint64_t p, double* o) { o[0] = glm::unpackUnorm1x8((glm::uint8)p); }},
  {"packUnorm2x8", 2, {{0, 8, UNORM}, {8, 8, UNORM}}, true, [](const double* c) -> uint64_t { return glm::packUnorm2x8(V2(c)); }, [](uint64_t p, double* o) { glm::vec2 v = glm::unpackUnorm2x8((glm::uint16)p); OUTV(v, 2) }},
  {"packSnorm1x8", 1, {{0, 8, SNORM}}, true, [](const double* c) -> uint64_t { return glm::packSnorm1x8((float)c[0]); }, [](uint64_t p, double* o) { o[0] = glm::unpackSnorm1x8((glm::uint8)p); }},
  {"packSnorm2x8", 2, {{0, 8, SNORM}, {8, 8, SNORM}}, true, [](const double* c) -> uint64_t { return glm::packSnorm2x8(V2(c)); }, [](uint64_t p, double* o) { glm::vec2 v = glm::unpackSnorm2x8((glm::uint16)p); OUTV(v, 2) }},
  {"packUnorm1x16", 1, {{0, 16, UNORM}}, true, [](const double* c) -> uint64_t { return glm::packUnorm1x16((float)c[0]); }, [](uint64_t p, double* o) { o[0] = glm::unpackUnorm1x16((glm::uint16)p); }},
  {"packUnorm4x16", 4, {{0, 16, UNORM}, {16, 16, UNORM}, {32, 16, UNORM}, {48, 16, UNORM}}, true, [](const double* c) -> uint64_t { return glm::packUnorm4x16(V4(c)); }, [](uint64_t p, double* o) { glm::vec4 v = glm::unpackUnorm4x16(p); OUTV(v, 4) }},
  {"packSnorm1x16", 1, {{0, 16, SNORM}}, true, [](const double* c) -> uint64_t { return glm::packSnorm1x16((float)c[0]); }, [](uint64_t p, double* o) { o[0] = glm::unpackSnorm1x16((glm::uint16)p); }},
  {"packSnorm4x16", 4, {{0, 16, SNORM}, {16, 16, SNORM}, {32, 16, SNORM}, {48, 16, SNORM}}, true, [](const double* c) -> uint64_t { return glm::packSnorm4x16(V4(c)); }, [](uint64_t p, double* o) { glm::vec4 v = glm::unpackSnorm4x16(p); OUTV(v, 4) }},
  {"packSnorm3x10_1x2", 4, {{0, 10, SNORM}, {10, 10, SNORM}, {20, 10, SNORM}, {30, 2, SNORM}}, true, [](const double* c) -> uint64_t { return glm::packSnorm3x10_1x2(V4(c)); }, [](uint64_t p, double* o) { glm::vec4 v = glm::unpackSnorm3x10_1x2((glm::uint32)p); OUTV(v, 4) }},
  {"packUnorm3x10_1x2", 4, {{0, 10, UNORM}, {10, 10, UNORM}, {20, 10, UNORM}, {30, 2, UNORM}}, true, [](const double* c) -> uint64_t { return glm::packUnorm3x10_1x2(V4(c)); }, [](uint64_t p, double* o) { glm::vec4 v = glm::unpackUnorm3x10_1x2((glm::uint32)p); OUTV(v, 4) }},
  {"packUnorm2x4", 2, {{0, 4, UNORM}, {4, 4, UNORM}}, true, [](const double* c) -> uint64_t { return glm::packUnorm2x4(V2(c)); }, [](uint64_t p, double* o) { glm::vec2 v = glm::unpackUnorm2x4((glm::uint8)p); OUTV(v, 2) }},
  {"packUnorm4x4", 4, {{0, 4, UNORM}, {4, 4, UNORM}, {8, 4, UNORM}, {12, 4, UNORM}}, true, [](const double* c) -> uint64_t { return glm::packUnorm4x4(V4(c)); }, [](uint64_t p, double* o) { glm::vec4 v = glm::unpackUnorm4x4((glm::uint16)p); OUTV(v, 4) }},
  {"packUnorm1x5_1x6_1x5", 3, {{0, 5, UNORM}, {5, 6, UNORM}, {11, 5, UNORM}}, true, [](const double* c) -> uint64_t { return glm::packUnorm1x5_1x6_1x5(V3(c)); }, [](uint64_t p, double* o) { glm::vec3 v = glm::unpackUnorm1x5_1x6_1x5((glm::uint16)p); OUTV(v, 3) }},
  {"packUnorm3x5_1x1", 4, {{0, 5, UNORM}, {5, 5, UNORM}, {10, 5, UNORM}, {15, 1, UNORM}}, true, [](const double* c) -> uint64_t { return glm::packUnorm3x5_1x1(V4(c)); }, [](uint64_t p, double* o) { glm::vec4 v = glm::unpackUnorm3x5_1x1((glm::uint16)p); OUTV(v, 4) }},
  {"packUnorm2x3_1x2", 3, {{0, 3, UNORM}, {3, 3, UNORM}, {6, 2, UNORM}}, true, [](const double* c) -> uint64_t { return glm::packUnorm2x3_1x2(V3(c)); }, [](uint64_t p, double* o) { glm::vec3 v = glm::unpackUnorm2x3_1x2((glm::uint8)p); OUTV(v, 3) }},
  {"packF2x11_1x10", 3, {{0, 11, F11}, {11, 11, F11}, {22, 10, F10}}, true, [](const double* c) -> uint64_t { return glm::packF2x11_1x10(V3(c)); }, [](uint64_t p, double* o) { glm::vec3 v = glm::unpackF2x11_1x10((glm::uint32)p); OUTV(v, 3) }},
  {"packHalf2x16", 2, {{0, 16, F16}, {16, 16, F16}}, true, [](const double* c) -> uint64_t { return glm::packHalf2x16(V2(c)); }, [](uint64_t p, double* o) { glm::vec2 v = glm::unpackHalf2x16((glm::uint)p); OUTV(v, 2) }},
  {"packHalf1x16", 1, {{0, 16, F16}}, true, [](const double* c) -> uint64_t { return glm::packHalf1x16((float)c[0]); }, [](uint64_t p, double* o) { o[0] = glm::unpackHalf1x16((glm::uint16)p); }},
  {"packHalf4x16", 4, {{0, 16, F16}, {16, 16, F16}, {32, 16, F16}, {48, 16, F16}}, true, [](const double* c) -> uint64_t { return glm::packHalf4x16(V4(c)); }, [](uint64_t p, double* o) { glm::vec4 v = glm::unpackHalf4x16(p); OUTV(v, 4) }},
  // templated families (float and double sources)
  {"packUnorm<u8,4,float>", 4, {{0, 8, UNORM}, {8, 8, UNORM}, {16, 8, UNORM}, {24, 8, UNORM}}, true, [](const double* c) -> uint64_t { glm::u8vec4 r = glm::packUnorm<glm::uint8>(V4(c)); return r[0] | (r[1] << 8) | (r[2] << 16) | ((uint64_t)r[3] << 24); }, [](uint64_t p, double* o) { glm::vec4 v = glm::unpackUnorm<float>(glm::u8vec4(p & 255, (p >> 8) & 255, (p >> 16) & 255, (p >> 24) & 255)); OUTV(v, 4) }},
  {"packUnorm<u16,3,double>", 3, {{0, 16, UNORM}, {16, 16, UNORM}, {32, 16, UNORM}}, true, [](const double* c) -> uint64_t { glm::u16vec3 r = glm::packUnorm<glm::uint16>(glm::dvec3(c[0], c[1], c[2])); return r[0] | ((uint64_t)r[1] << 16) | ((uint64_t)r[2] << 32); }, [](uint64_t p, double* o) { glm::dvec3 v = glm::unpackUnorm<double>(glm::u16vec3(p & 65535, (p >> 16) & 65535, (p >> 32) & 65535)); OUTV(v, 3) }},
  {"packSnorm<i8,2,float>", 2, {{0, 8, SNORM}, {8, 8, SNORM}}, true, [](const double* c) -> uint64_t { glm::i8vec2 r = glm::packSnorm<glm::int8>(V2(c)); return (uint8_t)r[0] | ((uint64_t)(uint8_t)r[1] << 8); }, [](uint64_t p, double* o) { glm::vec2 v = glm::unpackSnorm<float>(glm::i8vec2((int8_t)(p & 255), (int8_t)((p >> 8) & 255))); OUTV(v, 2) }},
  {"packSnorm<i16,4,double>", 4, {{0, 16, SNORM}, {16, 16, SNORM}, {32, 16, SNORM}, {48, 16, SNORM}}, true, [](const double* c) -> uint64_t { glm::i16vec4 r = glm::packSnorm<glm::int16>(glm::dvec4(c[0], c[1], c[2], c[3])); return (uint16_t)r[0] | ((uint64_t)(uint16_t)r[1] << 16) | ((uint64_t)(uint16_t)r[2] << 32) | ((uint64_t)(uint16_t)r[3] << 48); }, [](uint64_t p, double* o) { glm::dvec4 v = glm::unpackSnorm<double>(glm::i16vec4((int16_t)p, (int16_t)(p >> 16), (int16_t)(p >> 32), (int16_t)(p >> 48))); OUTV(v, 4) }},
  // integer formats
  {"packI3x10_1x2", 4, {{0, 10, SINT_}, {10, 10, SINT_}, {20, 10, SINT_}, {30, 2, SINT_}}, false, [](const double* c) -> uint64_t { return glm::packI3x10_1x2(glm::ivec4((int)c[0], (int)c[1], (int)c[2], (int)c[3])); }, [](uint64_t p, double* o) { glm::ivec4 v = glm::unpackI3x10_1x2((glm::uint32)p); OUTV(v, 4) }},
  {"packU3x10_1x2", 4, {{0, 10, UINT_}, {10, 10, UINT_}, {20, 10, UINT_}, {30, 2, UINT_}}, false, [](const double* c) -> uint64_t { return glm::packU3x10_1x2(glm::uvec4((glm::uint)c[0], (glm::uint)c[1], (glm::uint)c[2], (glm::uint)c[3])); }, [](uint64_t p, double* o) { glm::uvec4 v = glm::unpackU3x10_1x2((glm::uint32)p); OUTV(v, 4) }},
  {"packInt2x8", 2, {{0, 8, SINT_}, {8, 8, SINT_}}, false, [](const double* c) -> uint64_t { return (uint16_t)glm::packInt2x8(glm::i8vec2((int)c[0], (int)c[1])); }, [](uint64_t p, double* o) { glm::i8vec2 v = glm::unpackInt2x8((glm::int16)p); OUTV(v, 2) }},
  {"packUint2x8", 2, {{0, 8, UINT_}, {8, 8, UINT_}}, false, [](const double* c) -> uint64_t { return glm::packUint2x8(glm::u8vec2((int)c[0], (int)c[1])); }, [](uint64_t p, double* o) { glm::u8vec2 v = glm::unpackUint2x8((glm::uint16)p); OUTV(v, 2) }},
  {"packInt4x8", 4, {{0, 8, SINT_}, {8, 8, SINT_}, {16, 8, SINT_}, {24, 8, SINT_}}, false, [](const double* c) -> uint64_t { return (uint32_t)glm::packInt4x8(glm::i8vec4((int)c[0], (int)c[1], (int)c[2], (int)c[3])); }, [](uint64_t p, double* o) { glm::i8vec4 v = glm::unpackInt4x8((glm::int32)p); OUTV(v, 4) }},
  {"packUint4x8", 4, {{0, 8, UINT_}, {8, 8, UINT_}, {16, 8, UINT_}, {24, 8, UINT_}}, false, [](const double* c) -> uint64_t { return glm::packUint4x8(glm::u8vec4((int)c[0], (int)c[1], (int)c[2], (int)c[3])); }, [](uint64_t p, double* o) { glm::u8vec4 v = glm::unpackUint4x8((glm::uint32)p); OUTV(v, 4) }},
  {"packInt2x16", 2, {{0, 16, SINT_}, {16, 16, SINT_}}, false, [](const double* c) -> uint64_t { return (uint32_t)glm::packInt2x16(glm::i16vec2((int)c[0], (int)c[1])); }, [](uint64_t p, double* o) { glm::i16vec2 v = glm::unpackInt2x16((int)p); OUTV(v, 2) }},
  {"packInt4x16", 4, {{0, 16, SINT_}, {16, 16, SINT_}, {32, 16, SINT_}, {48, 16, SINT_}}, false, [](const double* c) -> uint64_t { return (uint64_t)glm::packInt4x16(glm::i16vec4((int)c[0], (int)c[1], (int)c[2], (int)c[3])); }, [](uint64_t p, double* o) { glm::i16vec4 v = glm::unpackInt4x16((glm::int64)p); OUTV(v, 4) }},
  {"packUint2x16", 2, {{0, 16, UINT_}, {16, 16, UINT_}}, false, [](const double* c) -> uint64_t { return glm::packUint2x16(glm::u16vec2((int)c[0], (int)c[1])); }, [](uint64_t p, double* o) { glm::u16vec2 v = glm::unpackUint2x16((glm::uint)p); OUTV(v, 2) }},
  {"packUint4x16", 4, {{0, 16, UINT_}, {16, 16, UINT_}, {32, 16, UINT_}, {48, 16, UINT_}}, false, [](const double* c) -> uint64_t { return glm::packUint4x16(glm::u16vec4((int)c[0], (int)c[1], (int)c[2], (int)c[3])); }, [](uint64_t p, double* o) { glm::u16vec4 v = glm::unpackUint4x16(p); OUTV(v, 4) }},
  {"packInt2x32", 2, {{0, 32, SINT_}, {32, 32, SINT_}}, false, [](const double* c) -> uint64_t { return (uint64_t)glm::packInt2x32(glm::i32vec2((int)c[0], (int)c[1])); }, [](uint64_t p, double* o) { glm::i32vec2 v = glm::unpackInt2x32((glm::int64)p); OUTV(v, 2) }},
  {"packUint2x32", 2, {{0, 32, UINT_}, {32, 32, UINT_}}, false, [](const double* c) -> uint64_t { return glm::packUint2x32(glm::u32vec2((glm::uint)c[0], (glm::uint)c[1])); }, [](uint64_t p, double* o) { glm::u32vec2 v = glm::unpackUint2x32(p); OUTV(v, 2) }},
};
enum { NFORMATS = sizeof(FORMATS) / sizeof(FORMATS[0]) };

// ------------------------------------------------------------------ code sweep: [format, field, code, companion pattern]
static uint64_t companion(const Field& f, int k) {
  if (k == 0) return 0; if (k == 1) return fmask(f.w);
  if (f.k == F16) return 0x3555;
  uint64_t t = 0x2AB5A5A5A5A5A5A5ull & fmask(f.w);
  if (f.k == F11 && (t >> 6) == 31) t &= ~(1ull << 10); if (f.k == F10 && (t >> 5) == 31) t &= ~(1ull << 9);
  return t;
}
static void op_codes(const Case& c, Outcome& o) {
  const Format& F = FORMATS[c.w[0]]; int fi = (int)c.w[1]; uint64_t code = c.w[2]; int k = (int)c.w[3];
  if (fi >= F.nf || code > fmask(F.f[fi].w)) { o.nontrivial = false; return; }
  uint64_t p = 0, codes[4]; for (int j = 0; j < F.nf; ++j) { codes[j] = j == fi ? code : companion(F.f[j], k); p |= codes[j] << F.f[j].off; }
  double u[4] = {0, 0, 0, 0}, u2[4] = {0, 0, 0, 0}; F.unpack(p, u);
  bool canon = canonical(F.f[fi], code); o.cls(canon ? 0 : 1); char m[160];
  // (1) decoded values: the component order / field placement and the value each code stands for
  for (int j = 0; j < F.nf; ++j) { double ref = ref_decode(F.f[j], codes[j]); double tol = F.f[j].k == UNORM || F.f[j].k == SNORM ? 4 * 5.97e-8 * (std::fabs(ref) + 1e-30) : 0;
    if (!(dsame(u[j], ref) || std::fabs(u[j] - ref) <= tol)) { o.res(b64(u[j]), j); o.exp(b64(ref)); std::snprintf(m, sizeof m, "%s: component %d does not decode bits [%d,%d) (layout: first component in the least-significant bits)", F.name, j, F.f[j].off, F.f[j].off + F.f[j].w); o.bad(1, m); return; } }
  // (2) re-pack: every canonical field must come back unchanged
  uint64_t p2 = F.pack(u); o.res(p2); o.exp(p);
  for (int j = 0; j < F.nf; ++j) if (canonical(F.f[j], codes[j]) && getf(p2, F.f[j]) != codes[j]) { std::snprintf(m, sizeof m, "%s: pack(unpack(p)) changed canonical field %d", F.name, j); o.bad(2, m); return; }
  // (3) unpack(pack(unpack(p))) == unpack(p) for every word
  F.unpack(p2, u2); for (int j = 0; j < F.nf; ++j) if (!dsame(u[j], u2[j])) { o.res(b64(u2[j]), j); o.exp(b64(u[j])); std::snprintf(m, sizeof m, "%s: unpack(pack(unpack(p))) != unpack(p) in component %d", F.name, j); o.bad(3, m); return; }
  // (4) small floats: Inf/NaN codes decode to Inf/NaN (covered by (1)); finite codes are monotone in the code
  if ((F.f[fi].k == F11 || F.f[fi].k == F10) && canon && code + 1 <= fmask(F.f[fi].w) && canonical(F.f[fi], code + 1)) { uint64_t q = (p & ~(fmask(F.f[fi].w) << F.f[fi].off)) | ((code + 1) << F.f[fi].off); double v[4]; F.unpack(q, v); if (!(v[fi] > u[fi])) { o.bad(4, "small-float codes do not decode monotonically"); return; } }
}
// ------------------------------------------------------------------ real sweep: [format, field, float bits]
static void op_reals(const Case& c, Outcome& o) {
  const Format& F = FORMATS[c.w[0]]; int fi = (int)c.w[1]; float x = f32(c.w[2]);
  if (!F.real || fi >= F.nf || x != x) { o.nontrivial = false; return; }
  const Field& f = F.f[fi]; double comps[4] = {0.25, 0.5, 0.75, 1.0}, base[4] = {0.25, 0.5, 0.75, 1.0}; comps[fi] = x; base[fi] = 0;
  uint64_t p = F.pack(comps), pb = F.pack(base), code = getf(p, f); double v = ref_decode(f, code); char m[160];
  o.res(code); double lo = f.k == SNORM ? -1.0 : 0.0, hi = (f.k == F11) ? 65024.0 : (f.k == F10) ? 64512.0 : 1.0;
  double xc = (double)x < lo ? lo : (double)x > hi ? hi : (double)x; o.cls((double)x < lo ? 0 : (double)x > hi ? 2 : 1);
  // companions untouched (no cross-talk between fields)
  for (int j = 0; j < F.nf; ++j) if (j != fi && getf(p, F.f[j]) != getf(pb, F.f[j])) { std::snprintf(m, sizeof m, "%s: packing component %d disturbed field %d", F.name, fi, j); o.bad(1, m); return; }
  if (f.k == F16) {   // signed half: only the in-range part of the statement applies here (overflow to infinity is decided by C07)
    if (!(std::fabs((double)x) <= 65504.0)) { o.nontrivial = false; return; } o.cls(1); o.exp(b64((double)x));
    double ax = std::fabs((double)x); int e; std::frexp(ax, &e); double mstep = ax < std::ldexp(1.0, -14) ? std::ldexp(1.0, -24) : std::ldexp(1.0, e - 1 - 10);
    if (!(std::fabs(v - (double)x) <= mstep)) { std::snprintf(m, sizeof m, "%s: field %d decodes more than one mantissa step from x", F.name, fi); o.bad(8, m); return; }
  } else if (f.k == UNORM || f.k == SNORM) {
    double steps = f.k == UNORM ? (double)fmask(f.w) : (f.w == 2 ? 1.0 : (double)fmask(f.w - 1)); double step = 1.0 / steps;
    o.exp(b64(xc)); double err = std::fabs(v - xc), tol = step / 2 + 2 * 5.97e-8 * (std::fabs(xc) + step);       // half a step (+ rounding of x*scale in float)
    if (!(err <= tol)) { std::snprintf(m, sizeof m, "%s: field %d decodes more than half a quantisation step from clamp(x)", F.name, fi); o.bad(2, m); return; }
  } else {   // F11 / F10 (unsigned small floats, GLM interpretation: exponent 0 is 2^-15 with implicit one, code 0 is zero)
    int mb = f.k == F11 ? 6 : 5; o.exp(b64(xc));
    if (std::isinf(x) && x > 0) { if (!(std::isinf(v) && v > 0)) { o.bad(3, "small float: +inf must pack to the Inf code"); } return; }
    if (xc <= 0) { if (!(v == 0)) { std::snprintf(m, sizeof m, "%s: negative or zero input must pack to zero (field %d)", F.name, fi); o.bad(4, m); } return; }
    double minv = std::ldexp(1.0 + std::ldexp(1.0, -mb), -15);   // smallest non-zero code (2^-15 itself is the zero code)
    if (xc < minv) { if (!(v == 0 || v == minv)) { std::snprintf(m, sizeof m, "%s: sub-minimum input must pack to zero or the smallest code (field %d)", F.name, fi); o.bad(5, m); } return; }
    int e; std::frexp(xc, &e); double mstep = std::ldexp(1.0, e - 1 - mb);
    if (!(v == v) || !(std::fabs(v - xc) <= mstep) || std::isinf(v)) { std::snprintf(m, sizeof m, "%s: field %d decodes more than one mantissa step from clamp(x)", F.name, fi); o.bad(6, m); return; }
  }
  // monotone: the next float up never packs to a smaller value
  float xn = f32(c.w[2] + ((c.w[2] >> 31) ? (uint64_t)-1 : 1)); if (c.w[2] == 0x80000000u) xn = 0.f;
  if (xn == xn && !std::isinf(xn) && !std::isinf(x)) { comps[fi] = xn; double vn = ref_decode(f, getf(F.pack(comps), f)); if (vn == vn && v == v && vn < v) { o.res(code, getf(F.pack(comps), f)); o.bad(7, "packing is not monotone between adjacent floats"); return; } }
}

// ------------------------------------------------------------------ shared exponent format F3x9_E1x5
static double e5_decode(uint32_t w, int i) { uint32_t m = (w >> (9 * i)) & 511, e = w >> 27; return std::ldexp((double)m, (int)e - 24); }
static void op_e5_words(const Case& c, Outcome& o) {   // unpack . pack . unpack == unpack on words; decode = m * 2^(e-24), first component in the low bits
  uint32_t w = (uint32_t)c.w[0]; glm::vec3 u = glm::unpackF3x9_E1x5(w); o.cls(0);
  for (int i = 0; i < 3; ++i) if ((double)u[i] != e5_decode(w, i)) { o.res(b32(u[i]), i); o.exp(b64(e5_decode(w, i))); o.bad(1, "unpackF3x9_E1x5: component is not mantissa_i * 2^(exp-15-9) with component 0 in the low bits"); return; }
  uint32_t w2 = glm::packF3x9_E1x5(u); glm::vec3 u2 = glm::unpackF3x9_E1x5(w2); o.res(w2); o.exp(w);
  for (int i = 0; i < 3; ++i) if (u2[i] != u[i]) { o.bad(2, "unpackF3x9_E1x5(packF3x9_E1x5(unpack(p))) != unpack(p)"); return; }
}
static void op_e5_reals(const Case& c, Outcome& o) {   // [x bits, y bits, lane]
  float x = f32(c.w[0]), y = f32(c.w[1]); int lane = (int)c.w[2]; if (x != x || y != y) { o.nontrivial = false; return; }
  float comps[3] = {y, y, y}; comps[lane] = x; const double MAXV = 65408.0;
  uint32_t w = glm::packF3x9_E1x5(glm::vec3(comps[0], comps[1], comps[2])); o.res(w);
  double cl[3], mx = 0; for (int i = 0; i < 3; ++i) { cl[i] = comps[i] < 0 ? 0 : comps[i] > MAXV ? MAXV : (double)comps[i]; mx = std::max(mx, cl[i]); }
  o.cls(mx == 0 ? 0 : mx >= MAXV ? 2 : 1);
  uint32_t e = w >> 27; double step = std::ldexp(1.0, (int)e - 24); uint32_t mmax = 0; for (int i = 0; i < 3; ++i) mmax = std::max(mmax, (w >> (9 * i)) & 511);
  if (mx > 0 && e > 0 && mmax < 256) { o.bad(1, "packF3x9_E1x5: shared exponent is not the smallest one that holds the largest component"); return; }
  for (int i = 0; i < 3; ++i) { double v = e5_decode(w, i); o.exp(b64(cl[i])); if (!(std::fabs(v - cl[i]) <= step)) { o.res(w, i); o.bad(2, "packF3x9_E1x5: component decodes more than one mantissa step from clamp(x, 0, max)"); return; } }
}
// ------------------------------------------------------------------ packDouble2x32 / RGBM
static void op_double2x32(const Case& c, Outcome& o) {
  uint32_t a = (uint32_t)c.w[0], b = (uint32_t)c.w[1]; o.cls(0); double d = glm::packDouble2x32(glm::uvec2(a, b)); uint64_t bits = b64(d); o.res(bits); o.exp(a | ((uint64_t)b << 32));
  if (bits != (a | ((uint64_t)b << 32))) { o.bad(1, "packDouble2x32: first component must be the 32 least-significant bits"); return; }
  glm::uvec2 u = glm::unpackDouble2x32(d); if (u.x != a || u.y != b) { o.res(u.x, u.y); o.exp(a, b); o.bad(2, "unpackDouble2x32(packDouble2x32(v)) != v"); return; }
}
static void op_rgbm(const Case& c, Outcome& o) {
  float r = f32(c.w[0]), g = f32(c.w[1]), b = f32(c.w[2]); o.cls(0); glm::vec3 in(r, g, b); glm::vec4 p = glm::packRGBM(in); glm::vec3 u = glm::unpackRGBM(p);
  if (!(p.w > 0 && p.w <= 1)) { o.res(b32(p.w)); o.bad(1, "packRGBM: multiplier outside (0,1]"); return; }
  float q = p.w * 255.0f; if (std::fabs(q - std::round(q)) > 1e-3f) { o.res(b32(p.w)); o.bad(2, "packRGBM: multiplier is not an 8-bit quantised value"); return; }
  for (int i = 0; i < 3; ++i) if (!(std::fabs(u[i] - in[i]) <= 1e-5f * std::max(1.0f, std::fabs(in[i])))) { o.res(b32(u[i]), i); o.exp(b32(in[i])); o.bad(3, "unpackRGBM(packRGBM(c)) != c"); return; }
}

// ------------------------------------------------------------------ operands at the least alignment their type allows
// vec<L, uint8/int8> has alignof 1 and vec<L, uint16/int16> alignof 2: a caller may hold them at any such address (e.g. inside a
// packed vertex struct).  The result must not depend on the address (and, under the sanitizer build, no misaligned access may happen).
template <typename V, typename W, W (*PACK)(V const&), V (*UNPACK)(W)> static bool unaligned_one(const uint64_t* w, Outcome& o, const char* name) {
  typedef typename V::value_type T; alignas(16) unsigned char buf[64];
  V ref; for (int i = 0; i < (int)V::length(); ++i) ref[i] = (T)w[i];
  W want = PACK(ref);
  for (size_t off = alignof(V); off <= 3 * alignof(V) + 1 && off < 16; off += alignof(V)) { std::memcpy(buf + off, &ref, sizeof(V)); V const& at = *reinterpret_cast<V const*>(buf + off); W got = PACK(at);
    if (std::memcmp(&got, &want, sizeof(W)) != 0) { o.res((uint64_t)off); char m[160]; std::snprintf(m, sizeof m, "%s: result depends on the address of its operand (offset %zu from a 16-byte boundary)", name, off); o.bad(1, m); return false; } }
  V back = UNPACK(want); for (int i = 0; i < (int)V::length(); ++i) if (back[i] != ref[i]) { o.bad(2, "integer pack/unpack round trip"); return false; }
  return true;
}
static void op_unaligned(const Case& c, Outcome& o) { o.cls(0);
#define UA(V, W, P, U) if (!unaligned_one<glm::V, W, glm::P, glm::U>(c.w, o, #P)) return;
  UA(i8vec2, glm::int16, packInt2x8, unpackInt2x8) UA(u8vec2, glm::uint16, packUint2x8, unpackUint2x8) UA(i8vec4, glm::int32, packInt4x8, unpackInt4x8) UA(u8vec4, glm::uint32, packUint4x8, unpackUint4x8)
  UA(i16vec2, int, packInt2x16, unpackInt2x16) UA(u16vec2, glm::uint, packUint2x16, unpackUint2x16) UA(i16vec4, glm::int64, packInt4x16, unpackInt4x16) UA(u16vec4, glm::uint64, packUint4x16, unpackUint4x16)
  UA(i32vec2, glm::int64, packInt2x32, unpackInt2x32) UA(u32vec2, glm::uint64, packUint2x32, unpackUint2x32)
}

int main(int argc, char** argv) {
  Engine E; E.property = "C06";
  E.assumptions = {"small-float (11/10-bit) codes are interpreted as GLM documents them: exponent bias 15, implicit leading one for every non-zero code, exponent 31 = Inf/NaN; the statement constrains consistency, clamping, accuracy and layout, not subnormal semantics",
                   "NaN is not a real: NaN pack inputs are outside the domain; for half formats only codes, layout and in-range accuracy are checked here, rounding/overflow are decided by C07"};
  // code sweep domain: all (format, field, code) with width <= 16 complete; 32-bit fields over INT32_EDGE
  { std::vector<uint64_t> rowsv, rows32; Domain e32 = INT_EDGE(32);
    for (uint64_t fmt = 0; fmt < NFORMATS; ++fmt) for (int fi = 0; fi < FORMATS[fmt].nf; ++fi) for (int k = 0; k < 3; ++k) {
      int w = FORMATS[fmt].f[fi].w;
      if (w <= 16) for (uint64_t code = 0; code <= fmask(w); ++code) { rowsv.insert(rowsv.end(), {fmt, (uint64_t)fi, code, (uint64_t)k}); }
      else for (uint64_t code : *e32.list) rows32.insert(rows32.end(), {fmt, (uint64_t)fi, code, (uint64_t)k}); }
    Op& op = E.add("code sweep: every code of every field of every format (<=16-bit fields)", op_codes); op.quick = {rows("ALL_CODES(format x field x code x 3 companion patterns)", 4, rowsv, true), rows("32-bit fields x INT32_EDGE", 4, rows32, false)}; op.classes = {"canonical", "non-canonical"}; }
  // real sweep
  { Domain fmts = range("FORMAT", 0, NFORMATS, true), fld = range("FIELD", 0, 4, true); Domain edge = F32_EDGE();
    // grid around every quantisation step of the 8-bit and 4/5/6-bit formats: k/(2*steps) +- 1ulp
    std::vector<uint64_t> g; for (int steps : {1, 3, 7, 15, 31, 63, 127, 255, 511, 1023}) for (int k = -2 * steps - 2; k <= 2 * steps + 2; ++k) { float t = (float)((double)k / (2.0 * steps)); uint32_t b = (uint32_t)b32(t); for (int d = -2; d <= 2; ++d) g.push_back(b + d); }
    for (int k = 0; k <= 65535; k += 97) { float t = (float)((k + 0.5) / 65535.0); uint32_t b = (uint32_t)b32(t); for (int d = -1; d <= 1; ++d) { g.push_back(b + d); g.push_back((b + d) | 0x80000000u); } }
    for (uint32_t b : {0x38000000u, 0x477e0000u, 0x477c0000u, 0x477f8000u, 0x47000000u, 0x37800000u}) for (int d = -3; d <= 3; ++d) g.push_back(b + d);
    Domain grid = list("STEP_GRID(k/(2*steps) +-2ulp for every field width; small-float range ends)", g);
    Op& op = E.add("real sweep: quantisation, clamping, monotonicity, no cross-talk (every real field of every format)", op_reals);
    op.quick = {product("FORMAT x FIELD x STEP_GRID", {fmts, fld, grid}), product("FORMAT x FIELD x F32_EDGE", {fmts, fld, edge})}; op.classes = {"below-range", "in-range", "above-range"};
    // thorough: every float pattern through the five single-field scalar pack functions (formats 4,6,8,10 = Unorm1x8, Snorm1x8, Unorm1x16, Snorm1x16)
    std::vector<uint64_t> single; for (uint64_t fmt = 0; fmt < NFORMATS; ++fmt) if (FORMATS[fmt].nf == 1 && FORMATS[fmt].real) single.push_back(fmt);
    op.thorough = {op.quick[0], op.quick[1], product("SCALAR_PACKS x F32_ALL", {list("SINGLE_FIELD_FORMATS", single, true), range("FIELD0", 0, 1, true), F32_ALL()}),
                   product("FORMAT x FIELD x every 257th float", {fmts, fld, range("F32/257", 0, (1ull << 32) / 257, false, 257)})}; }
  { Op& op = E.add("F3x9_E1x5 words: unpack.pack.unpack == unpack, decode, layout", op_e5_words);
    std::vector<uint64_t> ws; for (uint32_t e = 0; e < 32; ++e) for (uint32_t m = 0; m < 512; ++m) for (int pos = 0; pos < 3; ++pos) for (uint32_t other : {0u, 511u, 0x155u}) { uint32_t w = e << 27; for (int i = 0; i < 3; ++i) w |= (i == pos ? m : other) << (9 * i); ws.push_back(w); }
    op.quick = {list("E5 per-field complete (exp x mantissa x position x 3 companions)", ws)}; op.thorough = {range("ALL 2^32 words", 0, 1ull << 32, true)}; }
  { Op& op = E.add("F3x9_E1x5 reals: one mantissa step, clamping, minimal shared exponent", op_e5_reals);
    std::vector<uint64_t> xs; for (uint32_t e = 100; e <= 146; ++e) for (uint32_t m : {0u, 1u, 0x7fffffu, 0x400000u, 0x3fffffu, 0x7f8000u, 0x7fc000u, 0x123456u, 0x7f0000u, 0x7e0000u}) { xs.push_back((e << 23) | m); } xs.push_back(0); xs.push_back(0x80000000u); xs.push_back(b32(-1.f)); xs.push_back(b32(65408.f)); xs.push_back(b32(65409.f)); xs.push_back(b32(1e10f)); xs.push_back(0x7f800000u);
    Domain dx = list("E5_REALS", xs); op.quick = {product("E5_REALS^2 x lane", {dx, dx, range("LANE", 0, 3, true)})}; op.classes = {"all-zero", "in-range", "clamped-to-max"}; }
  { Domain t = list("TAGS", {0, 1, 0x7f, 0x80, 0xff, 0x1234, 0x8000, 0xffff, 0x12345678, 0x80000000u, 0xffffffffu}); Op& op = E.add("integer pack functions on operands at every address their alignment allows", op_unaligned); op.quick = {product("TAGS^4", {t, t, t, t})}; }
  { Domain e32 = INT_EDGE(32); Op& op = E.add("packDouble2x32/unpackDouble2x32", op_double2x32); op.quick = {product("INT32_EDGE^2", {e32, e32})}; }
  { std::vector<uint64_t> cs; for (float v : {0.001f, 0.01f, 0.1f, 0.25f, 0.5f, 0.9f, 1.f, 1.5f, 2.f, 3.f, 5.9f, 6.f}) cs.push_back(b32(v)); Domain dc = list("RGBM_VALUES", cs);
    Op& op = E.add("packRGBM/unpackRGBM", op_rgbm); op.quick = {product("RGBM_VALUES^3", {dc, dc, dc})}; }
  return E.main(argc, argv);
}
