// C03 — SIMD-intrinsic builds return what the pure C++ path returns.
// One binary per ISA configuration (-DGLM_FORCE_INTRINSICS -msse2 ... -mavx2 -mfma -DGLM_FORCE_FMA [-DGLM_FORCE_QUAT_DATA_WXYZ]).
// Inside the binary every operation is evaluated on aligned_{highp,mediump,lowp} operands (Aligned=true specialisations,
// __m128/__m128i/__m256d storage) and on packed_* operands built from bit-identical components (generic code) and the two
// results are compared: value-identical for integer/bitwise/comparison/selection/conversion/rounding/single-rounding ops,
// |a-p| <= c*u*sum|terms| for multi-term expressions, relative 2^-11 (against the exact packed_highp value) only for lowp.
// Aligned vec3 operands are produced through every API-reachable construction path (the hidden 4th lane differs per path).
// Compiled in parts (-DGLMX_PART=k, k = 0..13) so that the template instantiations build in parallel; part 13 alone defines
// GLM_FORCE_SWIZZLE (operator swizzles), part 12 holds the raw intrinsic kernels.  Without GLMX_PART everything except the swizzles is built.
#define GLM_ENABLE_EXPERIMENTAL
#if defined(GLMX_PART) && GLMX_PART == 13
#define GLM_FORCE_SWIZZLE            // operator swizzles: _swizzle_base1<..., Aligned=true> (type_vec_simd.inl)
#endif
#include <glm/glm.hpp>
#include <glm/gtc/quaternion.hpp>
#include <glm/ext/vector_relational.hpp>
#include <glm/ext/matrix_relational.hpp>
#include <glm/ext/quaternion_geometric.hpp>
#include <glm/ext/quaternion_common.hpp>
#include "glmx.hpp"
#include <type_traits>
#include <cfloat>
#include <climits>
#include <new>
#include <array>
using namespace glmx;
#if GLM_CONFIG_ALIGNED_GENTYPES != GLM_ENABLE || GLM_CONFIG_SIMD != GLM_ENABLE || !(GLM_ARCH & GLM_ARCH_SSE2_BIT)
#error "C03 must be compiled with -DGLM_FORCE_INTRINSICS and an x86 SIMD level (-msse2 ... -mavx2): aligned types do not exist otherwise"
#endif
#define PART(k) (!defined(GLMX_PART) || GLMX_PART == k)

// ---- cells of the alphabet that do not compile on the unchanged tree (reported; -DC03_TRY_ALL re-enables all of them)
#ifndef C03_TRY_ALL
#  if !(GLM_ARCH & GLM_ARCH_SSE41_BIT)
#    define C03_NO_INT_MINMAX 1   // compute_{min,max,clamp}_vector<4,int|uint,Q,true> use _mm_min_epi32/_mm_max_epu32 (SSE4.1) under the SSE2 guard
#  endif
#  define C03_NO_INT4_BITFUNCS 1  // compute_bitfieldReverseStep/BitCountStep<4,uint,Q,true,true> return __m128i where vec<4,uint,Q> is required: bitCount / bitfieldReverse / findMSB (which calls bitCount) on aligned ivec4/uvec4 are ill-formed at every level
#  if (GLM_ARCH & GLM_ARCH_AVX2_BIT) && !defined(__FMA__)
#    define C03_NO_DOUBLE_FMA 1   // compute_fma<4,double,Q,true> uses _mm256_fmadd_pd whenever AVX2 is on, even without -mfma / GLM_FORCE_FMA (also hit by aligned dmat3/dmat4 products)
#  endif
#  define C03_NO_INT_XYZ 1        // generic convert_vec4_to_vec3 takes a vec3 and returns a vec4: xyz(aligned ivec4) is ill-formed
#endif

// ----------------------------------------------------------------------------------------------------------- basics
template <int K> struct QS;
template <> struct QS<0> { static constexpr glm::qualifier A = glm::aligned_highp, P = glm::packed_highp; };
template <> struct QS<1> { static constexpr glm::qualifier A = glm::aligned_mediump, P = glm::packed_mediump; };
template <> struct QS<2> { static constexpr glm::qualifier A = glm::aligned_lowp, P = glm::packed_lowp; };
static const char* const QNAME[3] = {"highp", "mediump", "lowp"};
template <typename T> struct TN; template <> struct TN<float> { static const char* n() { return "float"; } }; template <> struct TN<double> { static const char* n() { return "double"; } };
template <> struct TN<int> { static const char* n() { return "int"; } }; template <> struct TN<glm::uint> { static const char* n() { return "uint"; } };
template <typename T> static inline double unit() { return sizeof(T) == 4 ? 5.9604644775390625e-8 : 1.1102230246251565e-16; }   // u = 2^-24 / 2^-53
template <typename T> static inline double tiny() { return sizeof(T) == 4 ? 1e-44 : 1e-322; }

template <typename A> static inline uint64_t bits_of(A a) { return (uint64_t)(int64_t)a; }
static inline uint64_t bits_of(float a) { return b32(a); }
static inline uint64_t bits_of(double a) { return b64(a); }
static inline uint64_t bits_of(bool a) { return a; }
template <typename A> static inline bool same_value(A a, A b) { return a == b; }
#ifdef C03_STRICT_ZERO   // development aid: also distinguish +0 from -0 (not demanded by the property)
static inline bool same_value(float a, float b) { return same32(a, b); }
static inline bool same_value(double a, double b) { return same64(a, b); }
#else
static inline bool same_value(float a, float b) { return value32(a, b); }
static inline bool same_value(double a, double b) { return value64(a, b); }
#endif
template <typename A> static inline bool is_nan(A) { return false; }
static inline bool is_nan(float a) { return a != a; }
static inline bool is_nan(double a) { return a != a; }
template <typename A> static inline bool fin_(A) { return true; }
static inline bool fin_(float a) { return a - a == 0; }
static inline bool fin_(double a) { return a - a == 0; }

// value lattices: SPEC = special values (exact ops), MOD = moderate reals (multi-term ops: no overflow / underflow)
template <typename T> struct VL { static std::vector<T> spec() { typedef typename std::make_unsigned<T>::type U; U m = (U)~(U)0; const int w = sizeof(T) * 8;
    U pats[] = {0, 1, 2, 3, 4, 5, 7, 8, 15, 16, 31, 32, 33, 100, 255, 256, 65535, 65536, (U)(m >> 1), (U)((m >> 1) + 1), m, (U)(m - 1), (U)((m >> 1) - 1), (U)((m >> 1) + 2), (U)0x55555555u, (U)0xAAAAAAAAu, (U)0x01234567u, (U)0x89ABCDEFu, (U)((U)1 << (w - 2)), (U)(m - 7), (U)(m - 99), (U)0x00FF00FFu, (U)0x80000001u, (U)46341u, (U)0xFFFF0000u};
    std::vector<T> v; for (U p : pats) v.push_back((T)p); return v; }
  static std::vector<T> mod() { std::vector<T> v; const int s[] = {0, 1, 2, 3, 5, 7, 11, 13, 100, 255, 1000, 46340, -1, -2, -3, -7, -100, -32768, 17, 19, 23, 29, 31}; for (int x : s) v.push_back((T)x); return v; } };
template <> struct VL<float> { static std::vector<float> spec() { std::vector<float> v; for (uint64_t b : f32_spec_values()) v.push_back(f32(b)); return v; }
  static std::vector<float> mod() { return {0.f, 1.f, -1.f, 0.5f, -0.5f, 2.f, -2.f, 3.f, -3.f, 0.1f, -0.1f, 0.333333343f, -0.333333343f, 3.14159274f, -2.71828175f, 7.f, -7.f, 100.f, -100.f, 1e-3f, -1e-3f, 1.00000012f, 0.99999994f, 255.f, -256.f, 1.5f, -2.5f, 0.75f, 12345.678f, -0.001953125f, 65536.f, 1e-6f, -1e6f}; } };
template <> struct VL<double> { static std::vector<double> spec() { std::vector<double> v; for (uint64_t b : f64_spec_values()) v.push_back(f64(b)); return v; }
  static std::vector<double> mod() { return {0., 1., -1., 0.5, -0.5, 2., -2., 3., -3., 0.1, -0.1, 1. / 3, -1. / 3, 3.141592653589793, -2.718281828459045, 7., -7., 100., -100., 1e-3, -1e-3, 1.0000000000000002, 0.99999999999999989, 255., -256., 1.5, -2.5, 0.75, 12345.678, -0.001953125, 65536., 1e-6, -1e6}; } };
template <typename T> static const std::vector<T>& spec() { static const std::vector<T> v = VL<T>::spec(); return v; }
template <typename T> static const std::vector<T>& modv() { static const std::vector<T> v = VL<T>::mod(); return v; }
// EDGE lattices (thorough tier): F32_EDGE / reduced F64_EDGE / INT32_EDGE of the engine, as values
template <typename T> struct EL { static std::vector<T> make() { std::vector<T> v; for (uint64_t b : int_edge_values(32)) v.push_back((T)(uint32_t)b); return v; } };
template <> struct EL<float> { static std::vector<float> make() { Domain d = F32_EDGE(); std::vector<float> v; v.reserve(d.size); for (uint64_t i = 0; i < d.size; ++i) { uint64_t w; d.at(i, &w); v.push_back(f32(w)); } return v; } };
template <> struct EL<double> { static std::vector<double> make() { Domain d = F64_EDGE(false); std::vector<double> v; v.reserve(d.size / 4 + 1); for (uint64_t i = 0; i < d.size; i += 4) { uint64_t w; d.at(i, &w); v.push_back(f64(w)); } return v; } };
template <typename T> static const std::vector<T>& edgev() { static const std::vector<T> v = EL<T>::make(); return v; }
template <typename T> static const std::vector<T>& shiftv() { static const std::vector<T> v = [] { std::vector<T> r; for (int i = 0; i < 32; ++i) r.push_back((T)i); return r; }(); return v; }   // every shift count 0..31
template <typename T> static inline T pick(const std::vector<T>& v, uint64_t base, int lane, int salt) { return v[(base + (uint64_t)lane * (17 + 12 * salt)) % v.size()]; }

// values left in the hidden 4th lane of an aligned vec3 by the construction paths
template <typename T> struct Pad { static T v(int i) { const T p[3] = {(T)0, std::numeric_limits<T>::min(), (T)-1}; return p[i % 3]; } };   // int: 0 (division trap), INT_MIN, -1
template <> struct Pad<float> { static float v(int i) { const float p[3] = {std::numeric_limits<float>::quiet_NaN(), FLT_MAX, 0.f}; return p[i % 3]; } };
template <> struct Pad<double> { static double v(int i) { const double p[3] = {std::numeric_limits<double>::quiet_NaN(), DBL_MAX, 0.}; return p[i % 3]; } };
template <class V, typename T> static inline void prefill(unsigned char* buf, T pad) { for (size_t i = 0; i + sizeof(T) <= sizeof(V); i += sizeof(T)) std::memcpy(buf + i, &pad, sizeof(T)); __asm__ __volatile__("" : : "r"(buf) : "memory"); }   // the barrier keeps the stores: the object constructed in place afterwards finds them in its 4th lane
enum { NPATH3 = 8, NPATH4 = 3 };
// aligned vec3 through API-reachable paths only (never by writing .data): the member-wise constructors leave the 4th lane as
// found in the destination memory, which is modelled by constructing in place over memory holding a chosen value.
template <typename T, glm::qualifier A> static glm::vec<3, T, A> mk3(int path, const T* a) {
  typedef glm::vec<3, T, A> V3; typedef glm::vec<4, T, A> V4; typedef glm::vec<2, T, A> V2; alignas(32) unsigned char buf[sizeof(V3)];
  switch (path) {
    default: return V3(a[0], a[1], a[2]);                                                                   // 3-scalar ctor (SIMD ctor stores z in the 4th lane)
    case 1: { prefill<V3>(buf, Pad<T>::v(0)); V3* p = new (buf) V3(V4(a[0], a[1], a[2], Pad<T>::v(0))); return *p; }   // truncating an aligned vec4
    case 2: { prefill<V3>(buf, Pad<T>::v(1)); V3* p = new (buf) V3(V2(a[0], a[1]), a[2]); return *p; }                 // vec2 + scalar
    case 3: { prefill<V3>(buf, Pad<T>::v(2)); V3* p = new (buf) V3(a[0], V2(a[1], a[2])); return *p; }                 // scalar + vec2
    case 4: { V3 v(Pad<T>::v(1)); v.x = a[0]; v.y = a[1]; v.z = a[2]; return v; }                             // splat ctor, then component-wise writes
    case 5: { prefill<V3>(buf, Pad<T>::v(0)); V3* p = new (buf) V3(glm::vec<3, T, glm::packed_highp>(a[0], a[1], a[2])); return *p; }   // conversion from a packed vec3
    case 6: case 7: {
#ifdef C03_NO_INT_XYZ
      if (std::is_integral<T>::value) { prefill<V3>(buf, Pad<T>::v(path)); V3* p = new (buf) V3(V4(a[0], a[1], a[2], Pad<T>::v(path))); return *p; }
#endif
      return glm::xyz(V4(a[0], a[1], a[2], Pad<T>::v(path - 6))); }                                          // xyz(vec4): keeps w in the 4th lane
  }
}
template <typename T, glm::qualifier A> static glm::vec<4, T, A> mk4(int path, const T* a) {
  typedef glm::vec<4, T, A> V4;
  switch (path) { default: return V4(a[0], a[1], a[2], a[3]); case 1: return V4(glm::vec<4, T, glm::packed_highp>(a[0], a[1], a[2], a[3])); case 2: { V4 v(a[3]); v.x = a[0]; v.y = a[1]; v.z = a[2]; return v; } }
}
template <typename T, int L, glm::qualifier A> struct MK;
template <typename T, glm::qualifier A> struct MK<T, 3, A> { enum { NP = NPATH3 }; static glm::vec<3, T, A> a(int path, const T* x) { return mk3<T, A>(path, x); } template <glm::qualifier P> static glm::vec<3, T, P> p(const T* x) { return glm::vec<3, T, P>(x[0], x[1], x[2]); } };
template <typename T, glm::qualifier A> struct MK<T, 4, A> { enum { NP = NPATH4 }; static glm::vec<4, T, A> a(int path, const T* x) { return mk4<T, A>(path, x); } template <glm::qualifier P> static glm::vec<4, T, P> p(const T* x) { return glm::vec<4, T, P>(x[0], x[1], x[2], x[3]); } };

// ------------------------------------------------------------------------------------------- comparison of one result lane
enum { EXACT = 0, TOL = 1 };
#ifdef C03_MEASURE   // development aid: largest observed |a-p| / (u * magnitude) per op (never enabled in a registered build)
#include <map>
static std::mutex g_mm; static std::map<std::string, double> g_max;
static void measure(const char* op, double r) { std::lock_guard<std::mutex> g(g_mm); double& m = g_max[op]; if (r > m) m = r; }
struct MeasureDump { ~MeasureDump() { for (auto& kv : g_max) std::fprintf(stderr, "MEASURE %-40s max |a-p|/(u*mag) = %.3f\n", kv.first.c_str(), kv.second); } } g_measure_dump;
#else
static inline void measure(const char*, double) {}
#endif
struct Ctx { Outcome& o; const char* op; int L, K, path, kind; int checked; bool raw = false; };   // raw: violation class = kind (kernel ops)
static bool fail(Ctx& c, int lane, uint64_t got, uint64_t want, const char* what) {
  char m[160]; std::snprintf(m, sizeof m, "%s: aligned_%s result differs from packed_%s (%s) [L=%d, operand path %d, lane %d]", c.op, QNAME[c.K], QNAME[c.K], what, c.L, c.path, lane);
  c.o.res(got, (uint64_t)lane); c.o.exp(want); int kind = c.kind; if (kind == 0 && c.path > 0) kind = 6;   // kind 6: only an operand built through another path fails (4th-lane leak)
  c.o.bad(c.raw ? c.kind : kind * 8 + (c.L - 3) * 3 + c.K, m); return false;
}
// got = aligned result, want = packed result of the same qualifier, exact = packed_highp result (lowp reference);
// tol = absolute rounding tolerance (TOL), mag = sum of |terms| of the expression (lowp allowance 2^-11 * mag in TOL mode)
template <typename R> static bool lane_cmp(Ctx& c, int lane, R got, R want, R exact, int mode, bool lowp_approx, double tol, double mag) {
  ++c.checked;
  if (same_value(got, want)) return true;
  if (!std::is_floating_point<R>::value) return fail(c, lane, bits_of(got), bits_of(want), "integer/bool results must be identical");
  double g = (double)got, w = (double)want, e = (double)exact;
  if (lowp_approx) {                                                      // lowp may use rcp/rsqrt: relative error <= 2^-11
    double allowed = (mode == EXACT ? std::ldexp(1.0, -11) * std::fabs(e) : tol + std::ldexp(1.0, -11) * mag) + tiny<R>();
    if (fin_(got) && ((fin_(exact) && std::fabs(g - e) <= allowed) || (fin_(want) && std::fabs(g - w) <= allowed))) { measure((std::string("lowp allowance used by ") + c.op).c_str(), std::min(std::fabs(g - e), std::fabs(g - w)) / allowed); return true; }
    return fail(c, lane, bits_of(got), bits_of(exact), "lowp result is neither within 2^-11 (relative) of the exact packed_highp result nor of the packed_lowp result; want = packed_highp");
  }
  if (mode == EXACT) return fail(c, lane, bits_of(got), bits_of(want), "values must be identical");
  if (!fin_(got) || !fin_(want)) return fail(c, lane, bits_of(got), bits_of(want), "finite in one build, not finite in the other");
  measure(c.op, std::fabs(g - w) / tol);
  if (std::fabs(g - w) <= tol) return true;
  return fail(c, lane, bits_of(got), bits_of(want), "difference exceeds the rounding tolerance of the expression");
}
// comparison of whole results: scalars, vectors, matrices, quaternions.  magf(lane) = sum of |terms| for that lane, tolerance = C*u*magf(lane)
template <typename T> static inline double tol_of(double C, double mag) { return C * unit<T>() * mag + tiny<T>(); }
template <typename R, class MF, typename std::enable_if<std::is_arithmetic<R>::value, int>::type = 0> static bool cmp_any(Ctx& c, R ra, R rp, R rx, int mode, double C, bool lowp, MF magf) { double m = mode == TOL ? magf(0) : 0; return lane_cmp<R>(c, 0, ra, rp, rx, mode, lowp, tol_of<R>(C, m), m); }
template <int L, typename R, glm::qualifier QA, glm::qualifier QP, glm::qualifier QX, class MF> static bool cmp_any(Ctx& c, const glm::vec<L, R, QA>& ra, const glm::vec<L, R, QP>& rp, const glm::vec<L, R, QX>& rx, int mode, double C, bool lowp, MF magf) {
  for (int k = 0; k < L; ++k) { double m = mode == TOL ? magf(k) : 0; if (!lane_cmp<R>(c, k, (R)ra[k], (R)rp[k], (R)rx[k], mode, lowp, tol_of<R>(C, m), m)) return false; } return true; }
template <int CC, int RR, typename R, glm::qualifier QA, glm::qualifier QP, glm::qualifier QX, class MF> static bool cmp_any(Ctx& c, const glm::mat<CC, RR, R, QA>& ra, const glm::mat<CC, RR, R, QP>& rp, const glm::mat<CC, RR, R, QX>& rx, int mode, double C, bool lowp, MF magf) {
  for (int cc = 0; cc < CC; ++cc) for (int r = 0; r < RR; ++r) { double m = mode == TOL ? magf(cc * 4 + r) : 0; if (!lane_cmp<R>(c, cc * 4 + r, ra[cc][r], rp[cc][r], rx[cc][r], mode, lowp, tol_of<R>(C, m), m)) return false; } return true; }
template <typename R, glm::qualifier QA, glm::qualifier QP, glm::qualifier QX, class MF> static bool cmp_any(Ctx& c, const glm::qua<R, QA>& ra, const glm::qua<R, QP>& rp, const glm::qua<R, QX>& rx, int mode, double C, bool lowp, MF magf) {
  const R a[4] = {ra.x, ra.y, ra.z, ra.w}, p[4] = {rp.x, rp.y, rp.z, rp.w}, x[4] = {rx.x, rx.y, rx.z, rx.w};
  for (int k = 0; k < 4; ++k) { double m = mode == TOL ? magf(k) : 0; if (!lane_cmp<R>(c, k, a[k], p[k], x[k], mode, lowp, tol_of<R>(C, m), m)) return false; } return true; }

// ======================================================================================= lane-wise functions and operators
// OP: name(), CMP, LOWP (aligned_lowp float may go through rcp/rsqrt), C(), f(args...) for aligned and packed vectors alike,
// pre(a,b,c) per-lane domain, mag(a,b,c) per-lane sum of |terms| (TOL), kind(a,b,c) violation sub-class.
// N = number of arguments, SH = bit mask of the arguments that are passed as scalars (lane 0 of that argument is broadcast).
template <class OP, int N, int SH, class V, typename T> static auto call_shape(const V& v0, const V& v1, const V& v2, const T* s) -> decltype(OP::f(v0)) { (void)v1; (void)v2; (void)s; return OP::f(v0); }
template <class OP, int N, int SH, class V, typename T, typename std::enable_if<N == 2 && SH == 0, int>::type = 0> static auto call2(const V& v0, const V& v1, const T*) -> decltype(OP::f(v0, v1)) { return OP::f(v0, v1); }
template <class OP, int N, int SH, class V, typename T, typename std::enable_if<N == 2 && SH == 2, int>::type = 0> static auto call2(const V& v0, const V&, const T* s) -> decltype(OP::f(v0, s[1])) { return OP::f(v0, s[1]); }
template <class OP, int N, int SH, class V, typename T, typename std::enable_if<N == 2 && SH == 1, int>::type = 0> static auto call2(const V&, const V& v1, const T* s) -> decltype(OP::f(s[0], v1)) { return OP::f(s[0], v1); }
template <class OP, int N, int SH, class V, typename T, typename std::enable_if<N == 3 && SH == 0, int>::type = 0> static auto call3(const V& v0, const V& v1, const V& v2, const T*) -> decltype(OP::f(v0, v1, v2)) { return OP::f(v0, v1, v2); }
template <class OP, int N, int SH, class V, typename T, typename std::enable_if<N == 3 && SH == 6, int>::type = 0> static auto call3(const V& v0, const V&, const V&, const T* s) -> decltype(OP::f(v0, s[1], s[2])) { return OP::f(v0, s[1], s[2]); }
template <class OP, int N, int SH, class V, typename T, typename std::enable_if<N == 3 && SH == 4, int>::type = 0> static auto call3(const V& v0, const V& v1, const V&, const T* s) -> decltype(OP::f(v0, v1, s[2])) { return OP::f(v0, v1, s[2]); }
template <class OP, int N, int SH, class V, typename T, typename std::enable_if<N == 3 && SH == 3, int>::type = 0> static auto call3(const V&, const V&, const V& v2, const T* s) -> decltype(OP::f(s[0], s[1], v2)) { return OP::f(s[0], s[1], v2); }
template <int N> struct Caller;
template <> struct Caller<1> { template <class OP, int SH, class V, typename T> static auto go(const V& a, const V&, const V&, const T*) -> decltype(OP::f(a)) { return OP::f(a); } };
template <> struct Caller<2> { template <class OP, int SH, class V, typename T> static auto go(const V& a, const V& b, const V&, const T* s) -> decltype(call2<OP, 2, SH>(a, b, s)) { return call2<OP, 2, SH>(a, b, s); } };
template <> struct Caller<3> { template <class OP, int SH, class V, typename T> static auto go(const V& a, const V& b, const V& c, const T* s) -> decltype(call3<OP, 3, SH>(a, b, c, s)) { return call3<OP, 3, SH>(a, b, c, s); } };

template <class OP, typename T, int L, int K, int N, int SH> static bool lw_one(const std::vector<T>& lat, const std::vector<T>& lat1, const uint64_t* idx, Outcome& o, int& checked) {
  constexpr glm::qualifier A = QS<K>::A, P = QS<K>::P, X = glm::packed_highp; typedef MK<T, L, A> M;
  T v[3][4] = {}; for (int n = 0; n < N; ++n) for (int k = 0; k < 4; ++k) v[n][k] = pick<T>(n == 0 ? lat : lat1, idx[n], k, n);
  T s[3] = {v[0][0], v[1][0], v[2][0]}; for (int n = 0; n < 3; ++n) if ((SH >> n) & 1) for (int k = 0; k < 4; ++k) v[n][k] = s[n];
  // a lane outside the function's domain is not compared; for integer types (traps, undefined overflow) the whole vector is skipped
  bool in[4] = {false, false, false, false}; int nin = 0; for (int k = 0; k < L; ++k) { in[k] = OP::pre(v[0][k], v[1][k], v[2][k]); nin += in[k]; }
  if (nin == 0 || (std::is_integral<T>::value && nin != L)) return true;
  const bool lowp = K == 2 && OP::LOWP && std::is_same<T, float>::value;
  auto rp = Caller<N>::template go<OP, SH>(M::template p<P>(v[0]), M::template p<P>(v[1]), M::template p<P>(v[2]), s);
  auto rx = Caller<N>::template go<OP, SH>(M::template p<X>(v[0]), M::template p<X>(v[1]), M::template p<X>(v[2]), s);
  for (int path = 0; path < (int)M::NP; ++path) {
    auto ra = Caller<N>::template go<OP, SH>(M::a(path, v[0]), M::a(path, v[1]), M::a(path, v[2]), s);
    Ctx c{o, OP::name(), L, K, path, 0, 0};
    for (int k = 0; k < L; ++k) { if (!in[k]) continue; typedef typename std::decay<decltype(rp[k])>::type R; c.kind = OP::kind(v[0][k], v[1][k], v[2][k]);
      if (c.kind == 3) { if (lowp) continue; c.kind = 0; }            // kind 3: outside the operand range on which rcp/rsqrt are specified (denormal / huge): not demanded of lowp
      double m = OP::CMP == TOL ? OP::mag(v[0][k], v[1][k], v[2][k]) : 0;
      bool ok = lane_cmp<R>(c, k, (R)ra[k], (R)rp[k], (R)rx[k], OP::CMP, lowp, tol_of<T>(OP::C(), m), m); checked += c.checked; c.checked = 0; if (!ok) return false; }
  }
  return true;
}
template <class OP, typename T, int N, int SH, int LAT> static void op_lw(const Case& c, Outcome& o) {
  const bool edge = c.n > N && c.w[N] == 1;     // thorough tier: an extra word selects the EDGE lattice
  const std::vector<T>& lat = edge ? edgev<T>() : LAT == 1 ? modv<T>() : spec<T>(); const std::vector<T>& lat1 = LAT == 2 ? shiftv<T>() : lat; int checked = 0; uint64_t idx[3] = {c.w[0], N > 1 ? c.w[1] : 0, N > 2 ? c.w[2] : 0};
  bool ok = lw_one<OP, T, 4, 0, N, SH>(lat, lat1, idx, o, checked) && lw_one<OP, T, 3, 0, N, SH>(lat, lat1, idx, o, checked) && lw_one<OP, T, 4, 2, N, SH>(lat, lat1, idx, o, checked) && lw_one<OP, T, 3, 2, N, SH>(lat, lat1, idx, o, checked)
         && lw_one<OP, T, 4, 1, N, SH>(lat, lat1, idx, o, checked) && lw_one<OP, T, 3, 1, N, SH>(lat, lat1, idx, o, checked);
  (void)ok; if (!checked) o.nontrivial = false;
}
template <typename T> static Domain DL(int lat) { size_t n = lat == 1 ? modv<T>().size() : lat == 2 ? shiftv<T>().size() : spec<T>().size(); return range(std::string(lat == 1 ? "MOD<" : lat == 2 ? "SHIFT<" : "SPEC<") + std::to_string(n) + ">", 0, n, lat == 2); }
template <class OP, typename T, int N, int SH, int LAT> static void RL(Engine& E) {
  static const char* shapes[8] = {"", " (scalar first arg)", " (scalar 2nd arg)", " (scalar, scalar, vec)", " (vec, vec, scalar)", "", " (vec, scalar, scalar)", ""};
  Op& op = E.add(std::string(OP::name()) + shapes[SH] + " <" + TN<T>::n() + "> vec3(8 operand paths)/vec4 x aligned_{highp,mediump,lowp} vs packed, " + (LAT == 1 ? "moderate values" : LAT == 2 ? "special values x shift counts" : "special values"), op_lw<OP, T, N, SH, LAT>);
  std::vector<Domain> d; for (int n = 0; n < N; ++n) d.push_back(DL<T>(LAT == 2 ? (n ? 2 : 0) : LAT)); op.quick = {N == 1 ? d[0] : product(std::string(LAT == 1 ? "MOD^" : LAT == 2 ? "SPEC x SHIFT counts 0..31 ^" : "SPEC^") + std::to_string(N), d)};
  if (LAT != 1 && (N == 1 || (N == 2 && std::is_integral<T>::value))) { Domain e = range("EDGE<" + std::to_string(edgev<T>().size()) + ">", 0, edgev<T>().size(), false), sel = range("edge-lattice", 1, 1, true);
    if (N == 1) op.quick.push_back(product("EDGE lattice", {e, sel})); else op.thorough = {op.quick[0], product(LAT == 2 ? "EDGE x SHIFT counts" : "EDGE^2", {e, LAT == 2 ? d[1] : e, sel})}; }
}

#define KIND_DEFAULT (is_nan(a) || is_nan(b) || is_nan(c)) ? 1 : 0
#define FNX(ID, CALL, CMPV, LOWPV, CV, PRE, MAG, KIND) struct F_##ID { static const char* name() { return #ID; } enum { CMP = CMPV, LOWP = LOWPV }; static double C() { return CV; } \
  template <class... V> static auto f(const V&... v) -> decltype(CALL(v...)) { return CALL(v...); } \
  template <class T> static bool pre(T a, T b, T c) { (void)a; (void)b; (void)c; return PRE; } \
  template <class T> static double mag(T a, T b, T c) { double x = (double)a, y = (double)b, z = (double)c; (void)x; (void)y; (void)z; return MAG; } \
  template <class T> static int kind(T a, T b, T c) { (void)a; (void)b; (void)c; return KIND; } };
#define FN(NAME, CMPV, LOWPV, CV, PRE, MAG) FNX(NAME, glm::NAME, CMPV, LOWPV, CV, PRE, MAG, KIND_DEFAULT)
template <class T> static inline bool is_tie(T a) { return fin_(a) && std::fabs((double)a) < 4503599627370496.0 && std::fabs((double)a) - std::floor(std::fabs((double)a)) == 0.5; }
// rounding / selection / classification: identical values
FN(abs, EXACT, 0, 0, !(std::is_integral<T>::value && a == std::numeric_limits<T>::min()), 0) FN(sign, EXACT, 0, 0, true, 0) FN(floor, EXACT, 0, 0, true, 0) FN(ceil, EXACT, 0, 0, true, 0) FN(trunc, EXACT, 0, 0, true, 0)
FNX(round, glm::round, EXACT, 0, 0, true, 0, is_nan(a) ? 1 : is_tie(a) ? 2 : 0) FN(roundEven, EXACT, 0, 0, true, 0) FN(fract, EXACT, 0, 0, true, 0)
FN(min, EXACT, 0, 0, true, 0) FN(max, EXACT, 0, 0, true, 0) FN(clamp, EXACT, 0, 0, !(b > c), 0) FN(step, EXACT, 0, 0, true, 0) FN(isnan, EXACT, 0, 0, true, 0) FN(isinf, EXACT, 0, 0, true, 0)
FN(lessThan, EXACT, 0, 0, true, 0) FN(lessThanEqual, EXACT, 0, 0, true, 0) FN(greaterThan, EXACT, 0, 0, true, 0) FN(greaterThanEqual, EXACT, 0, 0, true, 0) FN(equal, EXACT, 0, 0, true, 0) FN(notEqual, EXACT, 0, 0, true, 0)
FN(floatBitsToInt, EXACT, 0, 0, true, 0) FN(floatBitsToUint, EXACT, 0, 0, true, 0) FN(intBitsToFloat, EXACT, 0, 0, true, 0) FN(uintBitsToFloat, EXACT, 0, 0, true, 0)
// single correctly rounded operations (lowp: hardware rsqrt / rcp allowed, domain = positive normal arguments with a normal result)
#define NORMAL_POS(x) ((x) >= (T)1.1754944e-38f && (x) <= (T)1e37f)
FNX(sqrt, glm::sqrt, EXACT, 1, 0, a >= 0 || is_nan(a), 0, is_nan(a) ? 1 : a == 0 ? 2 : !NORMAL_POS(a) ? 3 : 0)
FNX(inversesqrt, glm::inversesqrt, EXACT, 1, 0, a > 0 || is_nan(a), 0, is_nan(a) ? 1 : !NORMAL_POS(a) ? 3 : 0)
// library functions applied per component by the same functor in both builds
FN(exp, EXACT, 0, 0, true, 0) FN(log, EXACT, 0, 0, true, 0) FN(exp2, EXACT, 0, 0, true, 0) FN(log2, EXACT, 0, 0, true, 0) FN(sin, EXACT, 0, 0, true, 0) FN(cos, EXACT, 0, 0, true, 0) FN(atan, EXACT, 0, 0, true, 0) FN(pow, EXACT, 0, 0, true, 0)
FN(radians, EXACT, 0, 0, true, 0) FN(degrees, EXACT, 0, 0, true, 0)
// multi-term expressions: a few units of rounding of the largest intermediate term
FN(mod, TOL, 1, 4, fin_(a) && fin_(b) && b != 0, std::fabs(x) + std::fabs(y * std::floor(x / y)))
FN(mix, TOL, 0, 4, fin_(a) && fin_(b) && fin_(c), std::fabs(x * (1.0 - z)) + std::fabs(y * z) + std::fabs(x))
FN(smoothstep, TOL, 1, 16, fin_(a) && fin_(b) && fin_(c) && a < b, 3.0)
FN(fma, TOL, 0, 8, fin_(a) && fin_(b) && fin_(c) && std::fabs((double)a * (double)b) <= (double)std::numeric_limits<T>::max() / 4 && std::fabs((double)c) <= (double)std::numeric_limits<T>::max() / 4, std::fabs(x * y) + std::fabs(z))
// integer functions
FN(bitCount, EXACT, 0, 0, true, 0) FN(bitfieldReverse, EXACT, 0, 0, true, 0) FN(findLSB, EXACT, 0, 0, true, 0) FN(findMSB, EXACT, 0, 0, true, 0)
// operators (scalar operands broadcast)
template <class T> static bool add_ok(T a, T b) { if (!std::is_integral<T>::value || !std::is_signed<T>::value) return true; int64_t r = (int64_t)a + (int64_t)b; return r >= INT_MIN && r <= INT_MAX; }
template <class T> static bool sub_ok(T a, T b) { if (!std::is_integral<T>::value || !std::is_signed<T>::value) return true; int64_t r = (int64_t)a - (int64_t)b; return r >= INT_MIN && r <= INT_MAX; }
template <class T> static bool mul_ok(T a, T b) { if (!std::is_integral<T>::value || !std::is_signed<T>::value) return true; int64_t r = (int64_t)a * (int64_t)b; return r >= INT_MIN && r <= INT_MAX; }
template <class T> static bool div_ok(T a, T b) { if (!std::is_integral<T>::value) return true; if (b == 0) return false; return !(std::is_signed<T>::value && a == std::numeric_limits<T>::min() && b == (T)-1); }
template <class T> static bool shl_ok(T a, T b) { if (b < 0 || b >= (T)32) return false; if (std::is_signed<T>::value) { if (a < 0) return false; return ((int64_t)a << (int)b) <= INT_MAX; } return true; }
template <class T> static bool shr_ok(T, T b) { return !(b < 0) && b < (T)32; }
#define OPB(ID, OPR, LOWPV, PRE, KIND) struct O_##ID { static const char* name() { return "operator" #OPR; } enum { CMP = EXACT, LOWP = LOWPV }; static double C() { return 0; } \
  template <class A, class B> static auto f(const A& a, const B& b) -> decltype(a OPR b) { return a OPR b; } template <class T> static bool pre(T a, T b, T) { return PRE; } template <class T> static double mag(T, T, T) { return 0; } \
  template <class T> static int kind(T a, T b, T c) { (void)c; return KIND; } };
OPB(add, +, 0, add_ok(a, b), KIND_DEFAULT) OPB(sub, -, 0, sub_ok(a, b), KIND_DEFAULT) OPB(mul, *, 0, mul_ok(a, b), KIND_DEFAULT)
// lowp float division may use rcp: checked on normal operands whose quotient and reciprocal are normal; exact elsewhere for the other qualifiers
OPB(div, /, 1, div_ok(a, b), (is_nan(a) || is_nan(b)) ? 1 : (std::is_floating_point<T>::value && !(std::fabs((double)b) >= 1e-30 && std::fabs((double)b) <= 1e30 && (a == 0 || (std::fabs((double)a) >= 1e-30 && std::fabs((double)a) <= 1e30)))) ? 3 : 0)
OPB(rem, %, 0, div_ok(a, b), 0) OPB(and, &, 0, true, 0) OPB(or, |, 0, true, 0) OPB(xor, ^, 0, true, 0) OPB(shl, <<, 0, shl_ok(a, b), 0) OPB(shr, >>, 0, shr_ok(a, b), 0)
// compound assignment with vector / scalar right-hand side, returning the updated vector
#define OPC(ID, OPR, LOWPV, PRE) struct C_##ID { static const char* name() { return "operator" #OPR; } enum { CMP = EXACT, LOWP = LOWPV }; static double C() { return 0; } \
  template <class A, class B> static A f(const A& a, const B& b) { A r(a); r OPR b; return r; } template <class T> static bool pre(T a, T b, T) { return PRE; } template <class T> static double mag(T, T, T) { return 0; } \
  template <class T> static int kind(T a, T b, T c) { return KIND_DEFAULT; } };
OPC(adda, +=, 0, add_ok(a, b)) OPC(suba, -=, 0, sub_ok(a, b)) OPC(mula, *=, 0, mul_ok(a, b)) OPC(rema, %=, 0, div_ok(a, b)) OPC(anda, &=, 0, true) OPC(ora, |=, 0, true) OPC(xora, ^=, 0, true) OPC(shla, <<=, 0, shl_ok(a, b)) OPC(shra, >>=, 0, shr_ok(a, b))
struct U_neg { static const char* name() { return "unary operator-"; } enum { CMP = EXACT, LOWP = 0 }; static double C() { return 0; } template <class A> static A f(const A& a) { return -a; } template <class T> static bool pre(T a, T, T) { return sub_ok((T)0, a); } template <class T> static double mag(T, T, T) { return 0; } template <class T> static int kind(T a, T b, T c) { return KIND_DEFAULT; } };
struct U_not { static const char* name() { return "operator~"; } enum { CMP = EXACT, LOWP = 0 }; static double C() { return 0; } template <class A> static A f(const A& a) { return ~a; } template <class T> static bool pre(T, T, T) { return true; } template <class T> static double mag(T, T, T) { return 0; } template <class T> static int kind(T, T, T) { return 0; } };
struct U_incdec { static const char* name() { return "++v, v--"; } enum { CMP = EXACT, LOWP = 0 }; static double C() { return 0; } template <class A> static A f(const A& a) { A r(a); ++r; A s = r--; return s + r; } template <class T> static bool pre(T a, T, T) { return add_ok(a, (T)1) && add_ok((T)(a + (T)1), a); } template <class T> static double mag(T, T, T) { return 0; } template <class T> static int kind(T a, T b, T c) { return KIND_DEFAULT; } };

// ================================================================================================ explicit-component domains
template <typename T> static inline T val(uint64_t w);
template <> inline float val<float>(uint64_t w) { return f32(w); } template <> inline double val<double>(uint64_t w) { return f64(w); }
template <> inline int val<int>(uint64_t w) { return (int)(uint32_t)w; } template <> inline glm::uint val<glm::uint>(uint64_t w) { return (glm::uint)w; }
template <typename T> static inline uint64_t bitsT(T v) { return bits_of(v); }
// GRID<BASE,NW>: every NW-tuple over {-1,0,1,2} (BASE 4) or {-2,-1,0,1,2} (BASE 5): all arithmetic on them is exact, so both builds must agree exactly and branches are unambiguous
template <typename T, int BASE, int NW> static void gen_grid(uint64_t i, uint64_t* w) { for (int k = 0; k < NW; ++k) { int d = (int)(i % BASE); i /= BASE; w[k] = bitsT<T>((T)(d - (BASE == 4 ? 1 : 2))); } }
template <typename T, int BASE, int NW> static Domain GRID() { uint64_t n = 1; for (int k = 0; k < NW; ++k) n *= BASE; return func(std::string(BASE == 4 ? "{-1,0,1,2}^" : "{-2..2}^") + std::to_string(NW), n, NW, gen_grid<T, BASE, NW>, true); }
// MODV<NV>: NV vectors of 4 components drawn from the MOD lattice (every NV-tuple of lattice indices, lanes de-correlated)
template <typename T, int NV> static void gen_modv(uint64_t i, uint64_t* w) { const std::vector<T>& m = modv<T>(); for (int n = 0; n < NV; ++n) { uint64_t idx = i % m.size(); i /= m.size(); for (int k = 0; k < 4; ++k) w[n * 4 + k] = bitsT<T>(pick<T>(m, idx, k, n)); } }
template <typename T, int NV> static Domain MODV() { uint64_t n = 1; for (int k = 0; k < NV; ++k) n *= modv<T>().size(); return func("MOD-lattice vectors^" + std::to_string(NV), n, NV * 4, gen_modv<T, NV>, false); }
template <typename T> static inline bool allfin(const T (*v)[4], int nv, int L) { for (int n = 0; n < nv; ++n) for (int k = 0; k < L; ++k) if (!fin_(v[n][k])) return false; return true; }
template <typename T> static inline double adot(const T* a, const T* b, int L) { double s = 0; for (int k = 0; k < L; ++k) s += std::fabs((double)a[k] * (double)b[k]); return s; }
template <typename T> static inline long double xdot(const T* a, const T* b, int L) { long double s = 0; for (int k = 0; k < L; ++k) s += (long double)a[k] * (long double)b[k]; return s; }

// ========================================================================================================== geometric functions
struct G_dot { static const char* name() { return "dot"; } enum { NV = 2, MODE = TOL, LOWP = 0, L4 = 1 }; static double C() { return 8; }
  template <class V, class T> static auto f(const V& a, const V& b, const V&, T) -> decltype(glm::dot(a, b)) { return glm::dot(a, b); }
  template <class T> static bool dom(const T (*v)[4], T, int L) { return allfin(v, 2, L); } template <class T> static double mag(const T (*v)[4], T, int L, int, double) { return adot(v[0], v[1], L); } };
struct G_length { static const char* name() { return "length"; } enum { NV = 1, MODE = TOL, LOWP = 0, L4 = 1 }; static double C() { return 8; }
  template <class V, class T> static auto f(const V& a, const V&, const V&, T) -> decltype(glm::length(a)) { return glm::length(a); }
  template <class T> static bool dom(const T (*v)[4], T, int L) { return allfin(v, 1, L); } template <class T> static double mag(const T (*v)[4], T, int L, int, double) { return std::sqrt(adot(v[0], v[0], L)); } };
struct G_distance { static const char* name() { return "distance"; } enum { NV = 2, MODE = TOL, LOWP = 0, L4 = 1 }; static double C() { return 8; }
  template <class V, class T> static auto f(const V& a, const V& b, const V&, T) -> decltype(glm::distance(a, b)) { return glm::distance(a, b); }
  template <class T> static bool dom(const T (*v)[4], T, int L) { return allfin(v, 2, L); } template <class T> static double mag(const T (*v)[4], T, int L, int, double) { double s = 0; for (int k = 0; k < L; ++k) { double d = (double)v[0][k] - (double)v[1][k]; s += d * d; } return std::sqrt(s); } };
struct G_cross { static const char* name() { return "cross"; } enum { NV = 2, MODE = TOL, LOWP = 0, L4 = 0 }; static double C() { return 4; }
  template <class V, class T> static auto f(const V& a, const V& b, const V&, T) -> decltype(glm::cross(a, b)) { return glm::cross(a, b); }
  template <class T> static bool dom(const T (*v)[4], T, int L) { return allfin(v, 2, L); } template <class T> static double mag(const T (*v)[4], T, int, int k, double) { int i = (k + 1) % 3, j = (k + 2) % 3; return std::fabs((double)v[0][i] * v[1][j]) + std::fabs((double)v[1][i] * v[0][j]); } };
struct G_normalize { static const char* name() { return "normalize"; } enum { NV = 1, MODE = TOL, LOWP = 1, L4 = 1 }; static double C() { return 16; }
  template <class V, class T> static auto f(const V& a, const V&, const V&, T) -> decltype(glm::normalize(a)) { return glm::normalize(a); }
  template <class T> static bool dom(const T (*v)[4], T, int L) { return allfin(v, 1, L) && adot(v[0], v[0], L) > 0; } template <class T> static double mag(const T (*v)[4], T, int L, int k, double) { return std::fabs((double)v[0][k]) / std::sqrt(adot(v[0], v[0], L)); } };
struct G_reflect { static const char* name() { return "reflect"; } enum { NV = 2, MODE = TOL, LOWP = 0, L4 = 1 }; static double C() { return 16; }
  template <class V, class T> static auto f(const V& I, const V& N, const V&, T) -> decltype(glm::reflect(I, N)) { return glm::reflect(I, N); }
  template <class T> static bool dom(const T (*v)[4], T, int L) { return allfin(v, 2, L); } template <class T> static double mag(const T (*v)[4], T, int L, int k, double) { return std::fabs((double)v[0][k]) + 2 * std::fabs((double)v[1][k]) * adot(v[0], v[1], L); } };

template <class G, typename T, int L, int K> static bool geo_one(const T (*v)[4], T s, Outcome& o, int& checked) {
  if (!G::template dom<T>(v, s, L)) return true;
  constexpr glm::qualifier A = QS<K>::A, P = QS<K>::P, X = glm::packed_highp; typedef MK<T, L, A> M;
  auto rp = G::f(M::template p<P>(v[0]), M::template p<P>(v[1]), M::template p<P>(v[2]), s); auto rx = G::f(M::template p<X>(v[0]), M::template p<X>(v[1]), M::template p<X>(v[2]), s);
  for (int path = 0; path < (int)M::NP; ++path) { auto ra = G::f(M::a(path, v[0]), M::a(path, v[1]), M::a(path, v[2]), s); Ctx c{o, G::name(), L, K, path, 0, 0};
    bool ok = cmp_any(c, ra, rp, rx, G::MODE, G::C(), K == 2 && G::LOWP && std::is_same<T, float>::value, [&](int lane) { return G::template mag<T>(v, s, L, lane, 0.0); }); checked += c.checked; if (!ok) return false; }
  return true;
}
template <class G, typename T, int L> static bool geo_L(const T (*v)[4], T s, Outcome& o, int& checked) { return geo_one<G, T, L, 0>(v, s, o, checked) && geo_one<G, T, L, 2>(v, s, o, checked) && geo_one<G, T, L, 1>(v, s, o, checked); }
template <class G, typename T> static void op_geo(const Case& c, Outcome& o) {
  T v[3][4] = {}; for (int n = 0; n < G::NV; ++n) for (int k = 0; k < 4; ++k) v[n][k] = val<T>(c.w[n * 4 + k]);
  int checked = 0; bool ok = true; if constexpr (G::L4 != 0) ok = geo_L<G, T, 4>(v, (T)0, o, checked); if (ok) geo_L<G, T, 3>(v, (T)0, o, checked); if (!checked) o.nontrivial = false;
}
template <class G, typename T> static void RG(Engine& E, bool big) {
  Op& op = E.add(std::string(G::name()) + " <" + TN<T>::n() + "> vec3(8 operand paths)" + (G::L4 ? "/vec4" : "") + " x aligned_{highp,mediump,lowp} vs packed", op_geo<G, T>);
  if (G::NV == 1) { op.quick = {GRID<T, 5, 4>(), MODV<T, 1>()}; }
  else { op.quick = {GRID<T, 4, 8>(), MODV<T, 2>()}; if (big) op.thorough = {GRID<T, 5, 8>(), MODV<T, 2>()}; }
}

// ---- faceforward: which of +N / -N is returned must be the same in both builds; refract: zero vector (total internal reflection) or not
template <typename T, int L, int K> static bool ff_one(const T (*v)[4], Outcome& o, int& checked) {   // v[0] = N, v[1] = I, v[2] = Nref
  constexpr glm::qualifier A = QS<K>::A, P = QS<K>::P; typedef MK<T, L, A> M;
  long double d = xdot(v[2], v[1], L); double amb = 8 * unit<T>() * adot(v[2], v[1], L);
  T da = glm::dot(M::a(0, v[2]), M::a(0, v[1])), dp = glm::dot(M::template p<P>(v[2]), M::template p<P>(v[1]));
  if (!same_value(da, dp) && std::fabs((double)d) <= amb) return true;              // the sign of dot(Nref, I) is within rounding of zero and the two dots differ: not decidable
  auto rp = glm::faceforward(M::template p<P>(v[0]), M::template p<P>(v[1]), M::template p<P>(v[2]));
  for (int path = 0; path < (int)M::NP; ++path) { auto ra = glm::faceforward(M::a(path, v[0]), M::a(path, v[1]), M::a(path, v[2])); Ctx c{o, "faceforward", L, K, path, d == 0 ? 2 : 0, 0};
    bool ok = cmp_any(c, ra, rp, rp, EXACT, 0, false, [](int) { return 0.0; }); checked += c.checked; if (!ok) return false; }
  return true;
}
template <typename T> static void op_faceforward(const Case& c, Outcome& o) {
  T v[3][4] = {{2, 3, 5, 7}}; for (int n = 1; n < 3; ++n) for (int k = 0; k < 4; ++k) v[n][k] = val<T>(c.w[(n - 1) * 4 + k]);
  if (!allfin(v, 3, 4)) { o.nontrivial = false; return; } long double d4 = xdot(v[2], v[1], 4), d3 = xdot(v[2], v[1], 3); o.cls(d4 < 0 || d3 < 0 ? 0 : (d4 == 0 || d3 == 0) ? 1 : 2);
  int checked = 0; bool ok = ff_one<T, 4, 0>(v, o, checked) && ff_one<T, 3, 0>(v, o, checked) && ff_one<T, 4, 2>(v, o, checked) && ff_one<T, 3, 2>(v, o, checked) && ff_one<T, 4, 1>(v, o, checked) && ff_one<T, 3, 1>(v, o, checked);
  (void)ok; if (!checked) o.nontrivial = false;
}
// unit vectors (exact or correctly rounded) for refract; eta list + the critical eta of each (I, N) pair with its float neighbours
template <typename T> struct Units { std::vector<std::array<T, 4>> u3, u4; Units() {
    auto add = [](std::vector<std::array<T, 4>>& u, double x, double y, double z, double w) { double n = std::sqrt(x * x + y * y + z * z + w * w); u.push_back({(T)(x / n), (T)(y / n), (T)(z / n), (T)(w / n)}); u.push_back({(T)(-x / n), (T)(-y / n), (T)(-z / n), (T)(-w / n)}); };
    const double t3[][3] = {{1, 0, 0}, {0, 1, 0}, {0, 0, 1}, {3, 4, 0}, {0, 3, 4}, {4, 0, -3}, {1, 2, 2}, {-2, 1, 2}, {2, 3, 6}, {1, 1, 1}, {1, 1, 0}, {1, -1, 0}, {1, 4, 8}, {1, 0.001, 0}, {0.001, 1, 0.001}, {12, 15, 16}};
    for (auto& t : t3) add(u3, t[0], t[1], t[2], 0);
    const double t4[][4] = {{1, 0, 0, 0}, {0, 0, 0, 1}, {1, 1, 1, 1}, {1, -1, 1, -1}, {3, 4, 0, 0}, {0, 0, 3, 4}, {1, 2, 2, 4}, {2, 4, 5, 6}, {1, 1, 0, 0}, {1, 2, 3, 4}, {1, 0.001, 0, 0.001}, {4, 0, 0, -3}, {0, 1, 0, 0}, {0, 0, 1, 0}, {1, 1, 1, 0}, {2, 3, 6, 0}};
    for (auto& t : t4) add(u4, t[0], t[1], t[2], t[3]); } };
template <typename T> static const std::vector<std::array<T, 4>>& units(int L) { static const Units<T> u; return L == 3 ? u.u3 : u.u4; }
template <typename T> static const std::vector<T>& etas() { static const std::vector<T> e = {(T)0, (T)0.25, (T)0.5, (T)0.75, (T)(1 / 1.5), (T)(1 / 1.33), (T)0.9, (T)0.99999994f, (T)1, (T)1.00000012f, (T)1.1, (T)1.25, (T)1.33, (T)1.5, (T)2, (T)2.42, (T)4, (T)-1, (T)-1.5, (T)10}; return e; }
enum { NCRIT = 7 };   // critical eta, +-1, +-2, +-3 representable neighbours
template <typename T, int L, int K> static bool refr_one(uint64_t ii, uint64_t ni, uint64_t ei, Outcome& o, int& checked, int& cls) {
  constexpr glm::qualifier A = QS<K>::A, P = QS<K>::P; typedef MK<T, L, A> M; const auto& U = units<T>(L); const auto& E = etas<T>();
  T v[3][4] = {}; for (int k = 0; k < 4; ++k) { v[0][k] = U[ii % U.size()][k]; v[1][k] = U[ni % U.size()][k]; }
  long double d = xdot(v[1], v[0], L); T eta;
  if (ei < E.size()) eta = E[ei]; else { long double s2 = 1 - d * d; if (!(s2 > 1e-6L)) return true; eta = (T)(1 / std::sqrt((double)s2)); int steps = (int)(ei - E.size()) - NCRIT / 2; for (int q = 0; q < std::abs(steps); ++q) eta = std::nextafter(eta, steps > 0 ? (T)100 : (T)0); }
  long double k = 1 - (long double)eta * eta * (1 - d * d); double dk = 8 * unit<T>() * (1 + (double)eta * eta * (1 + 2 * adot(v[1], v[0], L) * adot(v[1], v[0], L)));
  T da = glm::dot(M::a(0, v[1]), M::a(0, v[0])), dp = glm::dot(M::template p<P>(v[1]), M::template p<P>(v[0]));
  const bool samedot = same_value(da, dp);       // same dot => both builds evaluate the same correctly rounded operation sequence for k: the branch must agree even at the critical angle
  if (!samedot && std::fabs((double)k) <= dk) { cls = 2; return true; }
  auto rp = glm::refract(M::template p<P>(v[0]), M::template p<P>(v[1]), eta);
  bool pzero = true; for (int q = 0; q < L; ++q) pzero = pzero && rp[q] == 0;
  const bool tir = std::fabs((double)k) <= dk ? pzero : k < 0;      // within rounding of the critical angle (and identical dots): the branch the pure path took is the reference
  cls = tir ? 1 : 0;
  for (int path = 0; path < (int)M::NP; ++path) { auto ra = glm::refract(M::a(path, v[0]), M::a(path, v[1]), eta); Ctx c{o, "refract", L, K, path, 0, 0};
    bool azero = true, anan = false; for (int q = 0; q < L; ++q) { azero = azero && ra[q] == 0; anan = anan || is_nan((T)ra[q]); }
    ++checked;
    if (tir) { c.kind = 4; if (!azero) return fail(c, 0, bits_of((T)ra[0]), bits_of((T)rp[0]), "total internal reflection: the pure path returns the zero vector, the SIMD path does not"); continue; }
    if (anan || (azero && !pzero)) { c.kind = 5; return fail(c, 0, bits_of((T)ra[0]), bits_of((T)rp[0]), "refraction (k >= 0): the pure path returns the refracted vector, the SIMD path returns zero / NaN"); }
    double sk = std::sqrt(std::max((double)k, 0.0));
    bool ok = cmp_any(c, ra, rp, rp, TOL, 8, false, [&](int q) { return std::fabs((double)eta * v[0][q]) + (std::fabs((double)eta * (double)d) + sk) * std::fabs((double)v[1][q]) + (samedot ? 0 : std::fabs((double)v[1][q]) * dk / (2 * std::max(sk, std::sqrt(dk))) / (8 * unit<T>())); });
    checked += c.checked; if (!ok) return false; }
  return true;
}
template <typename T> static void op_refract(const Case& c, Outcome& o) {
  int checked = 0, cls = 2, cl4 = 2; bool ok = refr_one<T, 3, 0>(c.w[0], c.w[1], c.w[2], o, checked, cls) && refr_one<T, 4, 0>(c.w[0], c.w[1], c.w[2], o, checked, cl4) && refr_one<T, 3, 2>(c.w[0], c.w[1], c.w[2], o, checked, cls) && refr_one<T, 4, 2>(c.w[0], c.w[1], c.w[2], o, checked, cl4)
    && refr_one<T, 3, 1>(c.w[0], c.w[1], c.w[2], o, checked, cls) && refr_one<T, 4, 1>(c.w[0], c.w[1], c.w[2], o, checked, cl4);
  (void)ok; o.cls(cls); if (!checked) o.nontrivial = false;
}

// ==================================================================================================================== matrices
// S x S matrices (S = 3, 4).  Aligned matrices are filled column by column; mat3 columns go through the vec3 operand paths.
template <typename T, int S, glm::qualifier A> static glm::mat<S, S, T, A> mkMA(int path, const T (*m)[4]) { glm::mat<S, S, T, A> r; for (int c = 0; c < S; ++c) r[c] = MK<T, S, A>::a(path, m[c]); return r; }
template <typename T, int S, glm::qualifier P> static glm::mat<S, S, T, P> mkMP(const T (*m)[4]) { glm::mat<S, S, T, P> r; for (int c = 0; c < S; ++c) for (int k = 0; k < S; ++k) r[c][k] = m[c][k]; return r; }
static const int MPATHS[3] = {0, 6, 2};     // operand paths used for matrix columns (vec3: ctor, xyz(vec4) with NaN in the 4th lane, vec2+scalar over FLT_MAX; vec4: ctor, -, component writes)
// long double determinant and permanent of |.| of the n x n matrix a (row-major indices irrelevant here)
static long double ldet(const long double a[4][4], int n, bool perm) {
  if (n == 1) return perm ? fabsl(a[0][0]) : a[0][0];
  long double s = 0; for (int j = 0; j < n; ++j) { long double m[4][4]; for (int r = 1; r < n; ++r) { int cc = 0; for (int c = 0; c < n; ++c) if (c != j) m[r - 1][cc++] = a[r][c]; }
    long double t = ldet(m, n - 1, perm); s += perm ? fabsl(a[0][j]) * t : ((j & 1) ? -a[0][j] * t : a[0][j] * t); } return s;
}
template <typename T, int S> static void minor_of(const T (*m)[4], int ci, int ri, long double out[4][4]) { int rr = 0; for (int c = 0; c < S; ++c) { if (c == ci) continue; int kk = 0; for (int r = 0; r < S; ++r) { if (r == ri) continue; out[rr][kk++] = m[c][r]; } ++rr; } }
template <typename T, int S> static void tolong(const T (*m)[4], long double out[4][4]) { for (int c = 0; c < S; ++c) for (int r = 0; r < S; ++r) out[c][r] = m[c][r]; }

template <typename T, int S, int K> static bool mat_one(const T (*a)[4], const T (*b)[4], const T* v, T s, Outcome& o, int& checked) {
  constexpr glm::qualifier A = QS<K>::A, P = QS<K>::P, X = glm::packed_highp; const bool lowp = K == 2 && std::is_same<T, float>::value;
  auto pa = mkMP<T, S, P>(a), pb = mkMP<T, S, P>(b); auto xa = mkMP<T, S, X>(a), xb = mkMP<T, S, X>(b); auto pv = MK<T, S, A>::template p<P>(v); auto xv = MK<T, S, A>::template p<X>(v);
  long double la[4][4], tmp[4][4]; tolong<T, S>(a, la); const long double det = ldet(la, S, false), per = ldet(la, S, true);
  for (int pi = 0; pi < 3; ++pi) { const int path = MPATHS[pi]; if (S == 4 && path == 6) continue;
    auto aa = mkMA<T, S, A>(path, a), ab = mkMA<T, S, A>(path, b); auto av = MK<T, S, A>::a(path % MK<T, S, A>::NP, v); auto zero = [](int) { return 0.0; };
#define MCHK(NAME, KIND, EXPR_A, EXPR_P, EXPR_X, MODE, CC, LOWPF, ...) { Ctx c{o, NAME, S, K, path, KIND, 0}; bool ok = cmp_any(c, EXPR_A, EXPR_P, EXPR_X, MODE, CC, LOWPF, __VA_ARGS__); checked += c.checked; if (!ok) return false; }
    MCHK("mat + mat", 0, aa + ab, pa + pb, xa + xb, EXACT, 0, false, zero) MCHK("mat - mat", 0, aa - ab, pa - pb, xa - xb, EXACT, 0, false, zero) MCHK("mat * scalar", 0, aa * s, pa * s, xa * s, EXACT, 0, false, zero) MCHK("scalar * mat", 0, s * aa, s * pa, s * xa, EXACT, 0, false, zero)
    MCHK("-mat", 0, -aa, -pa, -xa, EXACT, 0, false, zero) MCHK("matrixCompMult", 0, glm::matrixCompMult(aa, ab), glm::matrixCompMult(pa, pb), glm::matrixCompMult(xa, xb), EXACT, 0, false, zero)
    MCHK("transpose", 0, glm::transpose(aa), glm::transpose(pa), glm::transpose(xa), EXACT, 0, false, zero) MCHK("outerProduct", 0, glm::outerProduct(aa[0], av), glm::outerProduct(pa[0], pv), glm::outerProduct(xa[0], xv), EXACT, 0, false, zero)
    if (s != 0) MCHK("mat / scalar", 0, aa / s, pa / s, xa / s, EXACT, 0, lowp && std::fabs((double)s) >= 1e-30 && std::fabs((double)s) <= 1e30, zero)
    { bool ea = aa == ab, ep = pa == pb, na = aa != ab, np = pa != pb, sa = aa == aa, sp = pa == pa; Ctx c{o, "mat == / != mat", S, K, path, 0, 0}; checked += 3; if (ea != ep || na != np || sa != sp) return fail(c, 0, (uint64_t)ea | ((uint64_t)na << 1) | ((uint64_t)sa << 2), (uint64_t)ep | ((uint64_t)np << 1) | ((uint64_t)sp << 2), "matrix comparison verdicts must be identical"); }
#if !(defined(C03_NO_DOUBLE_FMA))
    const bool prod = true;
#else
    const bool prod = !std::is_same<T, double>::value;
#endif
    if (prod) { MCHK("mat * mat", 0, aa * ab, pa * pb, xa * xb, TOL, 16, false, [&](int l) { double m = 0; for (int q = 0; q < S; ++q) m += std::fabs((double)a[q][l % 4] * (double)b[l / 4][q]); return m; }) }
    MCHK("mat * vec", 0, aa * av, pa * pv, xa * xv, TOL, 16, false, [&](int r) { double m = 0; for (int q = 0; q < S; ++q) m += std::fabs((double)a[q][r] * (double)v[q]); return m; })
    MCHK("vec * mat", 0, av * aa, pv * pa, xv * xa, TOL, 16, false, [&](int cc) { double m = 0; for (int q = 0; q < S; ++q) m += std::fabs((double)a[cc][q] * (double)v[q]); return m; })
    MCHK("determinant", 0, glm::determinant(aa), glm::determinant(pa), glm::determinant(xa), TOL, 16, false, [&](int) { return (double)per; })
    if (fabsl(det) > 256 * unit<T>() * per) {       // inverse: each entry is cofactor / determinant; both carry the rounding of their own expansion
      MCHK("inverse", 0, glm::inverse(aa), glm::inverse(pa), glm::inverse(xa), TOL, 16, false, [&](int l) { minor_of<T, S>(a, l % 4, l / 4, tmp); long double pm = ldet(tmp, S - 1, true), cf = fabsl(ldet(tmp, S - 1, false)); return (double)(pm / fabsl(det) + cf * per / (det * det)); }) }
  }
  return true;
}
template <typename T> static void mat_inputs(const Case& c, T (*a)[4], T (*b)[4], T* v, T& s) {
  // w[0] = mode: 0: a = 16-bit 0/1 pattern w[1] (+ variant w[2]: 0 raw, 1 a + 3I, 2 entries scaled to tagged primes), b = tagged primes;  1: MOD lattice indices w[1], w[2]
  static const int prime[16] = {2, 3, 5, 7, 11, 13, 17, 19, 23, 29, 31, 37, 41, 43, 47, 53};
  if (c.w[0] == 0) { for (int cc = 0; cc < 4; ++cc) for (int r = 0; r < 4; ++r) { int bit = (int)((c.w[1] >> (cc * 4 + r)) & 1); a[cc][r] = (T)(c.w[2] == 2 ? bit * prime[(cc * 4 + r + 5) % 16] : bit) + (T)((c.w[2] == 1 && cc == r) ? 3 : 0); b[cc][r] = (T)(((cc + r) & 1) ? -prime[cc * 4 + r] : prime[cc * 4 + r]); } for (int k = 0; k < 4; ++k) v[k] = (T)prime[12 - 3 * k]; s = (T)3; }
  else { const std::vector<T>& m = modv<T>(); for (int cc = 0; cc < 4; ++cc) for (int r = 0; r < 4; ++r) { a[cc][r] = pick<T>(m, c.w[1] + (uint64_t)cc * 7, r, cc % 3); b[cc][r] = pick<T>(m, c.w[2] + (uint64_t)cc * 5, r, (cc + 1) % 3); } for (int k = 0; k < 4; ++k) v[k] = pick<T>(m, c.w[1] + c.w[2], k, 2); s = pick<T>(m, c.w[2], 1, 1); }
}
template <typename T, int S> static void op_mat(const Case& c, Outcome& o) {
  T a[4][4], b[4][4], v[4], s; mat_inputs<T>(c, a, b, v, s); int checked = 0;
  bool ok = mat_one<T, S, 0>(a, b, v, s, o, checked) && mat_one<T, S, 2>(a, b, v, s, o, checked) && mat_one<T, S, 1>(a, b, v, s, o, checked); (void)ok; if (!checked) o.nontrivial = false;
}
template <typename T, int S> static void RM(Engine& E) {
  Op& op = E.add(std::string("mat") + std::to_string(S) + " <" + TN<T>::n() + ">: + - *s /s -m compMult transpose outerProduct == != m*m m*v v*m determinant inverse, aligned_{highp,mediump,lowp} vs packed", op_mat<T, S>);
  uint64_t nb = S == 4 ? 65536 : 512; size_t nm = modv<T>().size();
  op.quick = {product("{0,1}^(SxS) patterns x {raw, +3I, tagged}", {range("mode0", 0, 1), range("pattern", 0, nb), range("variant", 0, 3)}), product("MOD lattice matrices^2", {range("mode1", 1, 1), range("i", 0, nm, false), range("j", 0, nm, false)})};
}

// ================================================================================================================= quaternions
template <typename T> static inline double qabs1(const T* q) { return std::fabs((double)q[0]) + std::fabs((double)q[1]) + std::fabs((double)q[2]) + std::fabs((double)q[3]); }
template <typename T, int K> static bool quat_one(const T* q, const T* p, const T* v, T s, Outcome& o, int& checked) {     // q, p as (w, x, y, z)
  constexpr glm::qualifier A = QS<K>::A, P = QS<K>::P; typedef glm::qua<T, A> QA; typedef glm::qua<T, P> QP;
  QA aq = QA::wxyz(q[0], q[1], q[2], q[3]), ap = QA::wxyz(p[0], p[1], p[2], p[3]); QP pq = QP::wxyz(q[0], q[1], q[2], q[3]), pp = QP::wxyz(p[0], p[1], p[2], p[3]);
  auto zero = [](int) { return 0.0; }; const int S = 4, path = 0; const double nq = qabs1(q), np = qabs1(p), nv3 = std::fabs((double)v[0]) + std::fabs((double)v[1]) + std::fabs((double)v[2]); const double n2 = (double)q[0] * q[0] + (double)q[1] * q[1] + (double)q[2] * q[2] + (double)q[3] * q[3];
  MCHK("quat + quat", 0, aq + ap, pq + pp, pq + pp, EXACT, 0, false, zero) MCHK("quat - quat", 0, aq - ap, pq - pp, pq - pp, EXACT, 0, false, zero) MCHK("quat * scalar", 0, aq * s, pq * s, pq * s, EXACT, 0, false, zero) MCHK("scalar * quat", 0, s * aq, s * pq, s * pq, EXACT, 0, false, zero)
  MCHK("-quat", 0, -aq, -pq, -pq, EXACT, 0, false, zero) MCHK("conjugate", 0, glm::conjugate(aq), glm::conjugate(pq), glm::conjugate(pq), EXACT, 0, false, zero)
  if (s != 0) MCHK("quat / scalar", 0, aq / s, pq / s, pq / s, EXACT, 0, false, zero)
  { QA a1 = aq, a2 = aq, a3 = aq, a4 = aq; QP p1 = pq, p2 = pq, p3 = pq, p4 = pq; a1 *= s; p1 *= s; a2 += ap; p2 += pp; a3 -= ap; p3 -= pp; a4 *= ap; p4 *= pp;     // compound forms route through the compute_quat_* kernels
    MCHK("quat *= scalar", 0, a1, p1, p1, EXACT, 0, false, zero) MCHK("quat += quat", 0, a2, p2, p2, EXACT, 0, false, zero) MCHK("quat -= quat", 0, a3, p3, p3, EXACT, 0, false, zero) MCHK("quat *= quat", 0, a4, p4, p4, TOL, 16, false, [&](int) { return nq * np; })
    if (s != 0) { QA a5 = aq; QP p5 = pq; a5 /= s; p5 /= s; MCHK("quat /= scalar", 0, a5, p5, p5, EXACT, 0, false, zero) } }
  { bool ea = aq == ap, ep = pq == pp, na = aq != ap, np2 = pq != pp, sa = aq == aq; Ctx c{o, "quat == / != quat", 4, K, 0, 0, 0}; checked += 3; if (ea != ep || na != np2 || !sa) return fail(c, 0, (uint64_t)ea | ((uint64_t)na << 1) | ((uint64_t)sa << 2), (uint64_t)ep | ((uint64_t)np2 << 1) | 4, "quaternion comparison verdicts must be identical"); }
  MCHK("dot(quat, quat)", 0, glm::dot(aq, ap), glm::dot(pq, pp), glm::dot(pq, pp), TOL, 8, false, [&](int) { return adot(q, p, 4); })
  MCHK("quat * quat", 0, aq * ap, pq * pp, pq * pp, TOL, 16, false, [&](int) { return nq * np; })
  MCHK("length(quat)", 0, glm::length(aq), glm::length(pq), glm::length(pq), TOL, 8, false, [&](int) { return std::sqrt(n2); })
  if (n2 > 0) { MCHK("normalize(quat)", 0, glm::normalize(aq), glm::normalize(pq), glm::normalize(pq), TOL, 16, false, [&](int) { return 1.0; })
    MCHK("inverse(quat)", 0, glm::inverse(aq), glm::inverse(pq), glm::inverse(pq), TOL, 16, false, [&](int) { return nq / n2; }) }
  MCHK("mix/lerp(quat, quat, a) with a in [0,1]", 0, glm::lerp(aq, ap, (T)0.25), glm::lerp(pq, pp, (T)0.25), glm::lerp(pq, pp, (T)0.25), TOL, 8, false, [&](int) { return nq + np; })
  MCHK("mat3_cast", 0, glm::mat3_cast(aq), glm::mat3_cast(pq), glm::mat3_cast(pq), TOL, 8, false, [&](int) { return 1 + 2 * nq * nq; }) MCHK("mat4_cast", 0, glm::mat4_cast(aq), glm::mat4_cast(pq), glm::mat4_cast(pq), TOL, 8, false, [&](int) { return 1 + 2 * nq * nq; })
  { typedef MK<T, 4, A> M4; typedef MK<T, 3, A> M3; auto pv4 = M4::template p<P>(v); auto pv3 = M3::template p<P>(v);
    // q * v = v + 2 (w (qv x v) + qv x (qv x v)): every term is bounded by |v|_1 (1 + 2 |q|_1 + 2 |q|_1^2)... per component
    auto mg = [&](int) { return (nv3 + std::fabs((double)v[3])) * (1 + 4 * nq * nq); };
    for (int pth = 0; pth < 3; ++pth) { Ctx c{o, "quat * vec4", 4, K, pth, 0, 0}; bool ok = cmp_any(c, aq * M4::a(pth, v), pq * pv4, pq * pv4, TOL, 16, false, mg); checked += c.checked; if (!ok) return false; }
    for (int pth = 0; pth < (int)M3::NP; ++pth) { Ctx c{o, "quat * vec3", 3, K, pth, 0, 0}; bool ok = cmp_any(c, aq * M3::a(pth, v), pq * pv3, pq * pv3, TOL, 16, false, mg); checked += c.checked; if (!ok) return false;
      Ctx c2{o, "vec3 * quat", 3, K, pth, 0, 0}; if (n2 > 0) { ok = cmp_any(c2, M3::a(pth, v) * aq, pv3 * pq, pv3 * pq, TOL, 16, false, [&](int) { double ni = nq / n2; return (nv3 + std::fabs((double)v[3])) * (1 + 8 * ni * ni); }); checked += c2.checked; if (!ok) return false; } }
  }
  return true;
}
template <typename T> static void op_quat(const Case& c, Outcome& o) {
  T q[4], p[4], v[4]; for (int k = 0; k < 4; ++k) { q[k] = val<T>(c.w[k]); p[k] = val<T>(c.w[4 + k]); } for (int k = 0; k < 4; ++k) v[k] = p[(k + 1) & 3] + (T)(k == 2 ? 1 : 0); T s = q[1] != 0 ? q[1] : (T)3; int checked = 0;
  if (!fin_(q[0] + q[1] + q[2] + q[3] + p[0] + p[1] + p[2] + p[3])) { o.nontrivial = false; return; }
  bool ok = quat_one<T, 0>(q, p, v, s, o, checked) && quat_one<T, 2>(q, p, v, s, o, checked) && quat_one<T, 1>(q, p, v, s, o, checked); (void)ok; if (!checked) o.nontrivial = false;
}
template <typename T> static void RQ(Engine& E) {
  Op& op = E.add(std::string("quat <") + TN<T>::n() + ">: + - *s /s -q conjugate == != dot q*q length normalize inverse lerp mat3_cast mat4_cast q*v4 q*v3 v3*q, aligned_{highp,mediump,lowp} vs packed"
#ifdef GLM_FORCE_QUAT_DATA_WXYZ
    " [GLM_FORCE_QUAT_DATA_WXYZ]"
#endif
    , op_quat<T>);
  op.quick = {GRID<T, 4, 8>(), MODV<T, 2>()}; op.thorough = {GRID<T, 5, 8>(), MODV<T, 2>()};
}

// ============================================================================== comparison operators, constructors, helpers
template <typename T, int L, int K> static bool eq_one(uint64_t i, uint64_t j, Outcome& o, int& checked) {
  constexpr glm::qualifier A = QS<K>::A, P = QS<K>::P; typedef MK<T, L, A> M; const std::vector<T>& lat = spec<T>();
  T a[4], b[4]; const int variant = (int)(j % 6); const uint64_t jj = j / 6;            // b = a | a with one lane replaced | unrelated vector
  for (int k = 0; k < 4; ++k) { a[k] = pick<T>(lat, i, k, 0); b[k] = a[k]; } if (variant >= 1 && variant <= 4) b[variant - 1] = pick<T>(lat, jj, variant - 1, 1); if (variant == 5) for (int k = 0; k < 4; ++k) b[k] = pick<T>(lat, jj, k, 1);
  auto pa = M::template p<P>(a), pb = M::template p<P>(b); const bool ep = pa == pb, np = pa != pb; bool anynan = false; for (int k = 0; k < L; ++k) anynan = anynan || is_nan(a[k]) || is_nan(b[k]);
  for (int p1 = 0; p1 < (int)M::NP; ++p1) for (int d = 0; d < 3; ++d) { const int p2 = (p1 + (d == 0 ? 0 : d == 1 ? 1 : 3)) % (int)M::NP;      // the two operands come from the same and from different construction paths
    auto aa = M::a(p1, a), ab = M::a(p2, b); const bool ea = aa == ab, na = aa != ab; checked += 2; Ctx c{o, "operator== / operator!=", L, K, p1 * 8 + p2, anynan ? 1 : 0, 0};
    if (ea != ep || na != np) { char m[160]; std::snprintf(m, sizeof m, "vec%d<%s> ==/!= : aligned_%s gives (%d,%d), packed gives (%d,%d) [operand paths %d,%d]", L, TN<T>::n(), QNAME[K], ea, na, ep, np, p1, p2);
      o.res((uint64_t)ea | ((uint64_t)na << 1)); o.exp((uint64_t)ep | ((uint64_t)np << 1)); o.bad(((anynan ? 1 : (p1 | p2) ? 6 : 0)) * 8 + (L - 3) * 3 + K, m); return false; } }
  return true;
}
template <typename T> static void op_eq(const Case& c, Outcome& o) { int checked = 0; uint64_t i = c.w[0], j = c.w[1]; o.cls((int)(j % 6 == 0 ? 0 : j % 6 == 5 ? 2 : 1));
  bool ok = eq_one<T, 4, 0>(i, j, o, checked) && eq_one<T, 3, 0>(i, j, o, checked) && eq_one<T, 4, 2>(i, j, o, checked) && eq_one<T, 3, 2>(i, j, o, checked) && eq_one<T, 4, 1>(i, j, o, checked) && eq_one<T, 3, 1>(i, j, o, checked); (void)ok; }

// value-preserving check of one produced component against the scalar the pure path stores there
#define CHK1(NAME, LANE, GOT, WANT) { typedef typename std::decay<decltype(WANT)>::type R_; Ctx c_{o, NAME, LL, K, path, 0, 0}; bool ok_ = lane_cmp<R_>(c_, LANE, (R_)(GOT), (R_)(WANT), (R_)(WANT), EXACT, false, 0, 0); checked += c_.checked; if (!ok_) return false; }
#define CHKV(NAME, VEC, N, ...) { auto r_ = VEC; const decltype(+r_[0]) w_[] = {__VA_ARGS__}; for (int q_ = 0; q_ < N; ++q_) CHK1(NAME, q_, r_[q_], w_[q_]) }
template <typename T, int K> static bool ctor_one(const T* a, Outcome& o, int& checked) {
  constexpr glm::qualifier A = QS<K>::A, P = QS<K>::P; typedef glm::vec<4, T, A> V4; typedef glm::vec<3, T, A> V3; typedef glm::vec<2, T, A> V2; typedef glm::vec<4, T, P> P4; typedef glm::vec<3, T, P> P3; const T x = a[0], y = a[1], z = a[2], w = a[3];
  { const int LL = 4, path = 0; CHKV("vec4(x,y,z,w)", V4(x, y, z, w), 4, x, y, z, w) CHKV("vec4(s)", V4(x), 4, x, x, x, x) CHKV("vec4(packed vec4)", V4(P4(x, y, z, w)), 4, x, y, z, w) CHKV("packed vec4(aligned vec4)", P4(V4(x, y, z, w)), 4, x, y, z, w)
    CHKV("vec4(vec2, vec2)", V4(V2(x, y), V2(z, w)), 4, x, y, z, w) CHKV("vec4(vec2, z, w)", V4(V2(x, y), z, w), 4, x, y, z, w) CHKV("vec4(x, vec2, w)", V4(x, V2(y, z), w), 4, x, y, z, w) CHKV("vec4 copy + assignment", [&]() { V4 t(y); V4 u(V4(x, y, z, w)); t = u; return t; }(), 4, x, y, z, w)
    CHKV("splatX", glm::splatX(V4(x, y, z, w)), 4, x, x, x, x) CHKV("splatY", glm::splatY(V4(x, y, z, w)), 4, y, y, y, y) CHKV("splatZ", glm::splatZ(V4(x, y, z, w)), 4, z, z, z, z) CHKV("splatW", glm::splatW(V4(x, y, z, w)), 4, w, w, w, w)
    CHKV("vec4[i] / .xyzw writes", [&]() { V4 t(w); t[0] = x; t.y = y; t[2] = z; return t; }(), 4, x, y, z, w) }
  for (int path = 0; path < NPATH3; ++path) { const int LL = 3; V3 v3 = mk3<T, A>(path, a);
    CHKV("vec3 construction path", v3, 3, x, y, z) CHKV("vec4(vec3, w)", V4(v3, w), 4, x, y, z, w) CHKV("vec4(x, vec3)", V4(w, v3), 4, w, x, y, z) CHKV("packed vec3(aligned vec3)", P3(v3), 3, x, y, z) CHKV("vec3 copy + assignment", [&]() { V3 t(w); V3 u(v3); t = u; return t; }(), 3, x, y, z)
    CHKV("xyz0", glm::xyz0(v3), 4, x, y, z, (T)0) CHKV("xyz1", glm::xyz1(v3), 4, x, y, z, (T)1) CHKV("xyzz", glm::xyzz(v3), 4, x, y, z, z) CHKV("splatX(vec3)", glm::splatX(v3), 3, x, x, x) CHKV("splatY(vec3)", glm::splatY(v3), 3, y, y, y) CHKV("splatZ(vec3)", glm::splatZ(v3), 3, z, z, z)
    CHKV("vec2(vec3)", V2(v3), 2, x, y) CHKV("vec3(vec4)", V3(V4(v3, w)), 3, x, y, z)
#ifndef C03_NO_INT_XYZ
    CHKV("xyz(vec4)", glm::xyz(V4(v3, w)), 3, x, y, z)
#else
    if (!std::is_integral<T>::value) { CHKV("xyz(vec4)", glm::xyz(V4(v3, w)), 3, x, y, z) }
#endif
  }
  return true;
}
template <typename T> static void op_ctor(const Case& c, Outcome& o) { const std::vector<T>& lat = spec<T>(); T a[4]; for (int k = 0; k < 4; ++k) a[k] = pick<T>(lat, c.w[0] + (k == 3 ? c.w[1] : 0), k, 0); int checked = 0;
  bool ok = ctor_one<T, 0>(a, o, checked) && ctor_one<T, 2>(a, o, checked) && ctor_one<T, 1>(a, o, checked); (void)ok; }
// element-type conversions between aligned vectors (and the int-argument constructors of float vectors): same value as the static_cast the pure path performs
template <typename T, typename U> static inline bool conv_ok(T v) { if (std::is_floating_point<T>::value && std::is_integral<U>::value) { double d = (double)v; return d == d && d > (std::is_signed<U>::value ? -2147483000.0 : -0.5) && d < (std::is_signed<U>::value ? 2147483000.0 : 4294967000.0); } return true; }
template <typename T, typename U, int K> static bool conv_one(const T* a, Outcome& o, int& checked) {
  constexpr glm::qualifier A = QS<K>::A; for (int k = 0; k < 4; ++k) if (!conv_ok<T, U>(a[k])) return true;
  for (int path = 0; path < NPATH3; ++path) { const int LL = 3; CHKV("vec3<U>(vec3<T>)", (glm::vec<3, U, A>(mk3<T, A>(path, a))), 3, (U)a[0], (U)a[1], (U)a[2]) if (path < NPATH4) { const int LL = 4; CHKV("vec4<U>(vec4<T>)", (glm::vec<4, U, A>(mk4<T, A>(path, a))), 4, (U)a[0], (U)a[1], (U)a[2], (U)a[3]) } }
  { const int path = 0; { const int LL = 4; CHKV("vec4<U>(T,T,T,T)", (glm::vec<4, U, A>(a[0], a[1], a[2], a[3])), 4, (U)a[0], (U)a[1], (U)a[2], (U)a[3]) CHKV("vec4<U>(T)", (glm::vec<4, U, A>(a[0])), 4, (U)a[0], (U)a[0], (U)a[0], (U)a[0]) } { const int LL = 3; CHKV("vec3<U>(T,T,T)", (glm::vec<3, U, A>(a[0], a[1], a[2])), 3, (U)a[0], (U)a[1], (U)a[2]) } }
  return true;
}
template <typename T, typename U> static void op_conv(const Case& c, Outcome& o) { const std::vector<T>& lat = spec<T>(); T a[4]; for (int k = 0; k < 4; ++k) a[k] = pick<T>(lat, c.w[0], k, 0); int checked = 0;
  bool ok = conv_one<T, U, 0>(a, o, checked) && conv_one<T, U, 2>(a, o, checked) && conv_one<T, U, 1>(a, o, checked); (void)ok; if (!checked) o.nontrivial = false; }
// mix(x, y, bvec): selection
template <typename T, int L, int K> static bool mixb_one(const T* a, const T* b, unsigned m, Outcome& o, int& checked) {
  constexpr glm::qualifier A = QS<K>::A; typedef MK<T, L, A> M; glm::vec<L, bool, A> sel; for (int k = 0; k < L; ++k) sel[k] = (m >> k) & 1;
  for (int path = 0; path < (int)M::NP; ++path) { const int LL = L; auto r = glm::mix(M::a(path, a), M::a(path, b), sel); for (int k = 0; k < L; ++k) CHK1("mix(x, y, bvec)", k, r[k], ((m >> k) & 1) ? b[k] : a[k]) }
  return true;
}
template <typename T> static void op_mixb(const Case& c, Outcome& o) { const std::vector<T>& lat = spec<T>(); T a[4], b[4]; for (int k = 0; k < 4; ++k) { a[k] = pick<T>(lat, c.w[0], k, 0); b[k] = pick<T>(lat, c.w[1], k, 1); } unsigned m = (unsigned)c.w[2]; int checked = 0;
  bool ok = mixb_one<T, 4, 0>(a, b, m, o, checked) && mixb_one<T, 3, 0>(a, b, m, o, checked) && mixb_one<T, 4, 2>(a, b, m, o, checked) && mixb_one<T, 3, 2>(a, b, m, o, checked) && mixb_one<T, 4, 1>(a, b, m, o, checked) && mixb_one<T, 3, 1>(a, b, m, o, checked); (void)ok; }
// consumers of vec3 values that were produced by the library itself (cross product, xyz of an arithmetic result): the 4th lane then holds rounding noise / NaN
template <typename T, int K> static bool prod_one(const T (*v)[4], Outcome& o, int& checked) {
  constexpr glm::qualifier A = QS<K>::A, P = QS<K>::P; typedef glm::vec<3, T, A> V3; typedef glm::vec<4, T, A> V4; typedef glm::vec<3, T, P> P3; const bool lowp = K == 2 && std::is_same<T, float>::value;
  for (int src = 0; src < 3; ++src) { const int path = 10 + src, S = 3;
    V3 ca = src == 0 ? glm::cross(mk3<T, A>(0, v[0]), mk3<T, A>(0, v[1])) : src == 1 ? glm::xyz(V4(v[0][0], v[0][1], v[0][2], v[0][3]) / V4(v[1][0], v[1][1], v[1][2], (T)0)) : glm::xyz(V4(v[0][0], v[0][1], v[0][2], v[0][3]) * V4(v[1][0], v[1][1], v[1][2], std::numeric_limits<T>::max()));
    if (!fin_(ca.x) || !fin_(ca.y) || !fin_(ca.z)) continue; const T cc[4] = {ca.x, ca.y, ca.z, 0}; P3 cp(ca.x, ca.y, ca.z); V3 c0 = mk3<T, A>(0, cc); P3 pb(v[1][0], v[1][1], v[1][2]); V3 ab = mk3<T, A>(0, v[1]); auto zero = [](int) { return 0.0; };
    { bool e = ca == c0, n = ca != c0; ++checked; Ctx c{o, "== / != on a library-produced vec3", 3, K, path, 6, 0}; if (!e || n) return fail(c, 0, (uint64_t)e | ((uint64_t)n << 1), 1, "a vec3 must compare equal to a vec3 with the same x, y, z"); }
    MCHK("dot on a library-produced vec3", 6, glm::dot(ca, ab), glm::dot(cp, pb), glm::dot(cp, pb), TOL, 8, false, [&](int) { return adot(cc, v[1], 3); })
    MCHK("length on a library-produced vec3", 6, glm::length(ca), glm::length(cp), glm::length(cp), TOL, 8, false, [&](int) { return std::sqrt(adot(cc, cc, 3)); })
    if (adot(cc, cc, 3) > 0) MCHK("normalize on a library-produced vec3", 6, glm::normalize(ca), glm::normalize(cp), glm::normalize(glm::vec<3, T, glm::packed_highp>(ca.x, ca.y, ca.z)), TOL, 16, lowp, [&](int k) { return std::fabs((double)cc[k]) / std::sqrt(adot(cc, cc, 3)); })
    MCHK("arithmetic on a library-produced vec3", 6, ca * ab + ca - ab, cp * pb + cp - pb, cp * pb + cp - pb, EXACT, 0, false, zero)
    MCHK("cross on a library-produced vec3", 6, glm::cross(ca, ab), glm::cross(cp, pb), glm::cross(cp, pb), TOL, 4, false, [&](int k) { int i = (k + 1) % 3, j = (k + 2) % 3; return std::fabs((double)cc[i] * v[1][j]) + std::fabs((double)v[1][i] * cc[j]); })
    MCHK("min/max/abs on a library-produced vec3", 6, glm::max(glm::min(ca, ab), glm::abs(ca)), glm::max(glm::min(cp, pb), glm::abs(cp)), glm::max(glm::min(cp, pb), glm::abs(cp)), EXACT, 0, false, zero)
  }
  return true;
}
template <typename T> static void op_prod(const Case& c, Outcome& o) { T v[2][4]; for (int n = 0; n < 2; ++n) for (int k = 0; k < 4; ++k) v[n][k] = val<T>(c.w[n * 4 + k]); int checked = 0;
  bool ok = prod_one<T, 0>(v, o, checked) && prod_one<T, 2>(v, o, checked) && prod_one<T, 1>(v, o, checked); (void)ok; if (!checked) o.nontrivial = false; }

// ===================================================================== intrinsic kernels of glm/simd/*.h that no vec/mat/quat operation routes through
// (glm_mat4_mul, glm_mat4_mul_vec4, glm_vec4_mul_mat4, glm_mat4_determinant_highp/_lowp, glm_mat4_inverse_lowp, glm_mat4_add/sub, glm_vec4_sign/roundEven/clamp/mix/step/nan/inf)
// compared with the packed operation of the same name.  Operands are loaded with _mm_set_ps, results read with _mm_storeu_ps.
#if PART(12)
static inline void ld4(const float (*m)[4], __m128* out) { for (int c = 0; c < 4; ++c) out[c] = _mm_set_ps(m[c][3], m[c][2], m[c][1], m[c][0]); }
static inline glm::mat4 st4(const __m128* in) { glm::mat4 r; for (int c = 0; c < 4; ++c) { float t[4]; _mm_storeu_ps(t, in[c]); for (int k = 0; k < 4; ++k) r[c][k] = t[k]; } return r; }
static inline glm::vec4 stv(__m128 in) { float t[4]; _mm_storeu_ps(t, in); return glm::vec4(t[0], t[1], t[2], t[3]); }
static void op_kernel_mat(const Case& cs, Outcome& o) {
  typedef float T; T a[4][4], b[4][4], v[4], s; mat_inputs<T>(cs, a, b, v, s); int checked = 0; const int S = 4, K = 0, path = 0; __m128 ma[4], mb[4], mo[4]; ld4(a, ma); ld4(b, mb); __m128 mv = _mm_set_ps(v[3], v[2], v[1], v[0]);
  glm::mat4 pa = mkMP<T, 4, glm::packed_highp>(a), pb = mkMP<T, 4, glm::packed_highp>(b); glm::vec4 pv(v[0], v[1], v[2], v[3]); auto zero = [](int) { return 0.0; };
  long double la[4][4], tmp[4][4]; tolong<T, 4>(a, la); const long double det = ldet(la, 4, false), per = ldet(la, 4, true);
#define KCHK(NAME, KIND, A_, P_, MODE, CC, LOWPF, ...) { Ctx c{o, NAME, S, K, path, KIND, 0, true}; auto ra_ = A_; auto rp_ = P_; bool ok = cmp_any(c, ra_, rp_, rp_, MODE, CC, LOWPF, __VA_ARGS__); checked += c.checked; if (!ok) return; }
  glm_mat4_add(ma, mb, mo); KCHK("glm_mat4_add", 0, st4(mo), pa + pb, EXACT, 0, false, zero) glm_mat4_sub(ma, mb, mo); KCHK("glm_mat4_sub", 1, st4(mo), pa - pb, EXACT, 0, false, zero)
  glm_mat4_mul(ma, mb, mo); KCHK("glm_mat4_mul", 2, st4(mo), pa * pb, TOL, 16, false, [&](int l) { double m = 0; for (int q = 0; q < 4; ++q) m += std::fabs((double)a[q][l % 4] * (double)b[l / 4][q]); return m; })
  KCHK("glm_mat4_mul_vec4", 3, stv(glm_mat4_mul_vec4(ma, mv)), pa * pv, TOL, 16, false, [&](int r) { double m = 0; for (int q = 0; q < 4; ++q) m += std::fabs((double)a[q][r] * (double)v[q]); return m; })
  KCHK("glm_vec4_mul_mat4", 4, stv(glm_vec4_mul_mat4(mv, ma)), pv * pa, TOL, 16, false, [&](int cc) { double m = 0; for (int q = 0; q < 4; ++q) m += std::fabs((double)a[cc][q] * (double)v[q]); return m; })
  KCHK("glm_mat4_determinant_highp", 5, _mm_cvtss_f32(glm_mat4_determinant_highp(ma)), glm::determinant(pa), TOL, 16, false, [&](int) { return (double)per; })
  KCHK("glm_mat4_determinant_lowp", 6, _mm_cvtss_f32(glm_mat4_determinant_lowp(ma)), glm::determinant(pa), TOL, 16, false, [&](int) { return (double)per; })
  if (fabsl(det) > 256 * unit<T>() * per) { glm_mat4_inverse_lowp(ma, mo); KCHK("glm_mat4_inverse_lowp", 7, st4(mo), glm::inverse(pa), TOL, 16, true, [&](int l) { minor_of<T, 4>(a, l % 4, l / 4, tmp); long double pm = ldet(tmp, 3, true), cf = fabsl(ldet(tmp, 3, false)); return (double)(pm / fabsl(det) + cf * per / (det * det)); }) }
  if (!checked) o.nontrivial = false;
}
static void op_kernel_vec(const Case& cs, Outcome& o) {
  typedef float T; const std::vector<T>& lat = spec<T>(); T x[4], y[4], z[4]; for (int k = 0; k < 4; ++k) { x[k] = pick<T>(lat, cs.w[0], k, 0); y[k] = pick<T>(lat, cs.w[1], k, 1); z[k] = pick<T>(lat, cs.w[2], k, 2); } int checked = 0; const int S = 4, K = 0, path = 0;
  __m128 mx = _mm_set_ps(x[3], x[2], x[1], x[0]), my = _mm_set_ps(y[3], y[2], y[1], y[0]), mz = _mm_set_ps(z[3], z[2], z[1], z[0]); glm::vec4 px(x[0], x[1], x[2], x[3]), py(y[0], y[1], y[2], y[3]), pz(z[0], z[1], z[2], z[3]); auto zero = [](int) { return 0.0; };
  bool nan = false, fin = true, ordered = true; for (int k = 0; k < 4; ++k) { nan = nan || is_nan(x[k]) || is_nan(y[k]) || is_nan(z[k]); fin = fin && fin_(x[k]) && fin_(y[k]) && fin_(z[k]); ordered = ordered && !(y[k] > z[k]); }
  KCHK("glm_vec4_sign", 8 + (nan ? 1 : 0), stv(glm_vec4_sign(mx)), glm::sign(px), EXACT, 0, false, zero) KCHK("glm_vec4_roundEven", 10 + (nan ? 1 : 0), stv(glm_vec4_roundEven(mx)), glm::roundEven(px), EXACT, 0, false, zero)
  if (ordered || nan) KCHK("glm_vec4_clamp", 12 + (nan ? 1 : 0), stv(glm_vec4_clamp(mx, my, mz)), glm::clamp(px, py, pz), EXACT, 0, false, zero)
  { glm::vec4 t_ = glm::mix(px, py, pz); fin = fin && fin_(t_.x + t_.y + t_.z + t_.w) && fin_(x[0] * z[0] + x[1] * z[1] + x[2] * z[2] + x[3] * z[3]); }
  if (fin) KCHK("glm_vec4_mix", 14, stv(glm_vec4_mix(mx, my, mz)), glm::mix(px, py, pz), TOL, 8, false, [&](int k) { return std::fabs((double)x[k] * (1.0 - z[k])) + std::fabs((double)y[k] * z[k]) + std::fabs((double)x[k]); })
  KCHK("glm_vec4_step", 15 + (nan ? 1 : 0), stv(glm_vec4_step(mx, my)), glm::step(px, py), EXACT, 0, false, zero)
  { glm::vec4 n = stv(glm_vec4_nan(mx)), i = stv(glm_vec4_inf(mx)); Ctx c{o, "glm_vec4_nan / glm_vec4_inf (all-ones mask where the component is NaN / infinite)", 4, 0, 0, 17, 0, true}; for (int k = 0; k < 4; ++k) { ++checked; bool gn = b32(n[k]) == 0xffffffffu, gi = b32(i[k]) == 0xffffffffu, wn = is_nan(x[k]), wi = !fin_(x[k]) && !is_nan(x[k]);
      if (gn != wn) { c.kind = 17; fail(c, k, b32(n[k]), wn ? 0xffffffffu : 0, "glm_vec4_nan mask"); return; } if (gi != wi) { c.kind = 18; fail(c, k, b32(i[k]), wi ? 0xffffffffu : 0, "glm_vec4_inf mask"); return; } } }
  if (!checked) o.nontrivial = false;
}
#endif

// ======================================================================================= operator swizzles (part 13 only: GLM_FORCE_SWIZZLE)
#if defined(GLM_FORCE_SWIZZLE)
template <typename T, int K> static bool swz_one(const T* a, Outcome& o, int& checked) {
  constexpr glm::qualifier A = QS<K>::A; typedef glm::vec<4, T, A> V4; typedef glm::vec<3, T, A> V3; typedef glm::vec<2, T, A> V2; const T x = a[0], y = a[1], z = a[2], w = a[3];
  for (int path = 0; path < NPATH3; ++path) { V4 v = mk4<T, A>(path % NPATH4, a); V3 c3 = mk3<T, A>(path, a);
    { const int LL = 4; CHKV("vec4.wzyx", V4(v.wzyx), 4, w, z, y, x) CHKV("vec4.xxxx", V4(v.xxxx), 4, x, x, x, x) CHKV("vec4.yzwx", V4(v.yzwx), 4, y, z, w, x) CHKV("vec4.zyx", V3(v.zyx), 3, z, y, x) CHKV("vec4.rgba", V4(v.rgba), 4, x, y, z, w) CHKV("vec4.abgr", V4(v.abgr), 4, w, z, y, x)
      CHKV("vec4.wzyx = vec4", [&]() { V4 t(x); t.wzyx = v; return t; }(), 4, w, z, y, x) CHKV("vec4.zw = vec2", [&]() { V4 t(v); t.zw = V2(x, y); return t; }(), 4, x, y, x, y) }
    { const int LL = 3; CHKV("vec3.zyx", V3(c3.zyx), 3, z, y, x) CHKV("vec3.xxyy", V4(c3.xxyy), 4, x, x, y, y) CHKV("vec3.yyy", V3(c3.yyy), 3, y, y, y) CHKV("vec3.zxy = vec3", [&]() { V3 t(w); t.zxy = c3; return t; }(), 3, y, z, x) CHKV("vec3.zzzx", V4(c3.zzzx), 4, z, z, z, x) }
  }
  return true;
}
// two-component results: float and int only (_swizzle_base1<2, uint, Q, ..., true> has no fallback, two-component swizzles of aligned uvec3/uvec4 are ill-formed)
template <typename T, int K> static bool swz2_one(const T* a, Outcome& o, int& checked) {
  constexpr glm::qualifier A = QS<K>::A; typedef glm::vec<4, T, A> V4; typedef glm::vec<3, T, A> V3; typedef glm::vec<2, T, A> V2; const T x = a[0], y = a[1], z = a[2], w = a[3]; (void)z;
  for (int path = 0; path < NPATH3; ++path) { V4 v = mk4<T, A>(path % NPATH4, a); V3 c3 = mk3<T, A>(path, a); { const int LL = 4; CHKV("vec4.wx", V2(v.wx), 2, w, x) } { const int LL = 3; CHKV("vec3.yx", V2(c3.yx), 2, y, x) } }
  return true;
}
template <typename T> static void op_swz(const Case& c, Outcome& o) { const std::vector<T>& lat = spec<T>(); T a[4]; for (int k = 0; k < 4; ++k) a[k] = pick<T>(lat, c.w[0], k, 0); int checked = 0;
  bool ok = swz_one<T, 0>(a, o, checked) && swz_one<T, 2>(a, o, checked) && swz_one<T, 1>(a, o, checked); (void)ok; }
template <typename T> static void op_swz2(const Case& c, Outcome& o) { const std::vector<T>& lat = spec<T>(); T a[4]; for (int k = 0; k < 4; ++k) a[k] = pick<T>(lat, c.w[0], k, 0); int checked = 0;
  bool ok = swz2_one<T, 0>(a, o, checked) && swz2_one<T, 2>(a, o, checked) && swz2_one<T, 1>(a, o, checked); (void)ok; }
#endif

// ================================================================================================================ registration
template <class OP, typename T, int N, int SH> static void RL3(Engine& E) {   // vec3-only registration of a lane-wise op whose vec4 form is ill-formed on the unchanged tree
  struct H { static void fn(const Case& c, Outcome& o) { const std::vector<T>& lat = spec<T>(); int checked = 0; uint64_t idx[3] = {c.w[0], N > 1 ? c.w[1] : 0, N > 2 ? c.w[2] : 0};
    bool ok = lw_one<OP, T, 3, 0, N, SH>(lat, lat, idx, o, checked) && lw_one<OP, T, 3, 2, N, SH>(lat, lat, idx, o, checked) && lw_one<OP, T, 3, 1, N, SH>(lat, lat, idx, o, checked); (void)ok; if (!checked) o.nontrivial = false; } };
  Op& op = E.add(std::string(OP::name()) + " <" + TN<T>::n() + "> vec3 only (the aligned vec4 form does not compile in this configuration) x aligned_{highp,mediump,lowp} vs packed", H::fn);
  std::vector<Domain> d; for (int n = 0; n < N; ++n) d.push_back(DL<T>(0)); op.quick = {N == 1 ? d[0] : product("SPEC^" + std::to_string(N), d)};
}
template <typename T> static void reg_round_select(Engine& E) {     // float / double
  RL<F_abs, T, 1, 0, 0>(E); RL<F_sign, T, 1, 0, 0>(E); RL<F_floor, T, 1, 0, 0>(E); RL<F_ceil, T, 1, 0, 0>(E); RL<F_trunc, T, 1, 0, 0>(E); RL<F_round, T, 1, 0, 0>(E); RL<F_roundEven, T, 1, 0, 0>(E); RL<F_fract, T, 1, 0, 0>(E); RL<F_isnan, T, 1, 0, 0>(E); RL<F_isinf, T, 1, 0, 0>(E);
  RL<F_min, T, 2, 0, 0>(E); RL<F_min, T, 2, 2, 0>(E); RL<F_max, T, 2, 0, 0>(E); RL<F_max, T, 2, 2, 0>(E); RL<F_step, T, 2, 0, 0>(E); RL<F_step, T, 2, 1, 0>(E); RL<F_clamp, T, 3, 0, 0>(E); RL<F_clamp, T, 3, 6, 0>(E);
  RL<F_lessThan, T, 2, 0, 0>(E); RL<F_lessThanEqual, T, 2, 0, 0>(E); RL<F_greaterThan, T, 2, 0, 0>(E); RL<F_greaterThanEqual, T, 2, 0, 0>(E); RL<F_equal, T, 2, 0, 0>(E); RL<F_notEqual, T, 2, 0, 0>(E);
}
template <typename T> static void reg_math(Engine& E) {             // float / double
  RL<F_sqrt, T, 1, 0, 0>(E); RL<F_inversesqrt, T, 1, 0, 0>(E); RL<F_exp, T, 1, 0, 0>(E); RL<F_log, T, 1, 0, 0>(E); RL<F_exp2, T, 1, 0, 0>(E); RL<F_log2, T, 1, 0, 0>(E); RL<F_sin, T, 1, 0, 0>(E); RL<F_cos, T, 1, 0, 0>(E); RL<F_atan, T, 1, 0, 0>(E); RL<F_radians, T, 1, 0, 0>(E); RL<F_degrees, T, 1, 0, 0>(E); RL<F_pow, T, 2, 0, 0>(E);
  RL<F_mod, T, 2, 0, 1>(E); RL<F_mod, T, 2, 2, 1>(E); RL<F_mix, T, 3, 0, 1>(E); RL<F_mix, T, 3, 4, 1>(E); RL<F_smoothstep, T, 3, 0, 1>(E); RL<F_smoothstep, T, 3, 3, 1>(E);
#ifdef C03_NO_DOUBLE_FMA
  if (std::is_same<T, double>::value) { RL3<F_fma, T, 3, 0>(E); return; }
#endif
  RL<F_fma, T, 3, 0, 1>(E); RL<F_fma, T, 3, 0, 0>(E);
}
template <typename T> static void reg_arith(Engine& E) {            // every T
  RL<O_add, T, 2, 0, 0>(E); RL<O_add, T, 2, 2, 0>(E); RL<O_add, T, 2, 1, 0>(E); RL<O_sub, T, 2, 0, 0>(E); RL<O_sub, T, 2, 2, 0>(E); RL<O_sub, T, 2, 1, 0>(E); RL<O_mul, T, 2, 0, 0>(E); RL<O_mul, T, 2, 2, 0>(E); RL<O_mul, T, 2, 1, 0>(E);
  RL<O_div, T, 2, 0, 0>(E); RL<O_div, T, 2, 2, 0>(E); RL<O_div, T, 2, 1, 0>(E); RL<C_adda, T, 2, 0, 0>(E); RL<C_adda, T, 2, 2, 0>(E); RL<C_suba, T, 2, 0, 0>(E); RL<C_suba, T, 2, 2, 0>(E); RL<C_mula, T, 2, 0, 0>(E); RL<C_mula, T, 2, 2, 0>(E);
  RL<U_neg, T, 1, 0, 0>(E); RL<U_incdec, T, 1, 0, 0>(E);
  { Op& op = E.add(std::string("operator== / operator!= <") + TN<T>::n() + "> vec3 (operand path pairs)/vec4 x aligned_{highp,mediump,lowp} vs packed", op_eq<T>); size_t n = spec<T>().size(); op.quick = {product("SPEC x (SPEC x {equal, lane k differs (k=0..3), unrelated})", {range("i", 0, n, false), range("j", 0, n * 6, false)})}; op.classes = {"equal operands", "one lane differs", "unrelated operands"}; }
  { Op& op = E.add(std::string("constructors, copies, xyz0/xyz1/xyzz/xyz/splat helpers <") + TN<T>::n() + "> aligned_{highp,mediump,lowp}", op_ctor<T>); size_t n = spec<T>().size(); op.quick = {product("SPEC^2", {range("i", 0, n, false), range("j", 0, n, false)})}; }
  { Op& op = E.add(std::string("mix(x, y, bvec) <") + TN<T>::n() + "> vec3(8 operand paths)/vec4 x aligned_{highp,mediump,lowp}", op_mixb<T>); size_t n = spec<T>().size(); op.quick = {product("SPEC^2 x masks", {range("i", 0, n, false), range("j", 0, n, false), range("mask", 0, 16, true)})}; }
}
template <typename T> static void reg_int(Engine& E) {              // int / uint (bitwise, remainder, shifts, relational)
  RL<O_rem, T, 2, 0, 0>(E); RL<O_rem, T, 2, 2, 0>(E); RL<O_and, T, 2, 0, 0>(E); RL<O_and, T, 2, 2, 0>(E); RL<O_or, T, 2, 0, 0>(E); RL<O_or, T, 2, 2, 0>(E); RL<O_xor, T, 2, 0, 0>(E); RL<O_xor, T, 2, 2, 0>(E); RL<O_shl, T, 2, 0, 2>(E); RL<O_shl, T, 2, 2, 2>(E); RL<O_shr, T, 2, 0, 2>(E); RL<O_shr, T, 2, 2, 2>(E);
  RL<C_rema, T, 2, 0, 0>(E); RL<C_anda, T, 2, 2, 0>(E); RL<C_ora, T, 2, 0, 0>(E); RL<C_xora, T, 2, 2, 0>(E); RL<C_shla, T, 2, 2, 2>(E); RL<C_shra, T, 2, 0, 2>(E); RL<U_not, T, 1, 0, 0>(E);
  RL<F_lessThan, T, 2, 0, 0>(E); RL<F_greaterThanEqual, T, 2, 0, 0>(E); RL<F_equal, T, 2, 0, 0>(E); RL<F_notEqual, T, 2, 0, 0>(E); RL<F_findLSB, T, 1, 0, 0>(E);
}
template <typename T> static void reg_int_guarded(Engine& E) {
#ifndef C03_NO_INT_MINMAX
  RL<F_min, T, 2, 0, 0>(E); RL<F_min, T, 2, 2, 0>(E); RL<F_max, T, 2, 0, 0>(E); RL<F_max, T, 2, 2, 0>(E); RL<F_clamp, T, 3, 0, 0>(E); RL<F_clamp, T, 3, 6, 0>(E);
#else
  RL3<F_min, T, 2, 0>(E); RL3<F_max, T, 2, 0>(E); RL3<F_clamp, T, 3, 0>(E);
#endif
#ifndef C03_NO_INT4_BITFUNCS
  RL<F_bitCount, T, 1, 0, 0>(E); RL<F_bitfieldReverse, T, 1, 0, 0>(E); RL<F_findMSB, T, 1, 0, 0>(E);
#else
  RL3<F_bitCount, T, 1, 0>(E); RL3<F_bitfieldReverse, T, 1, 0>(E); RL3<F_findMSB, T, 1, 0>(E);
#endif
}
template <typename T> static void reg_geo(Engine& E) {
  RG<G_dot, T>(E, true); RG<G_length, T>(E, false); RG<G_distance, T>(E, true); RG<G_cross, T>(E, true); RG<G_normalize, T>(E, false); RG<G_reflect, T>(E, true);
  { Op& op = E.add(std::string("faceforward <") + TN<T>::n() + "> (branch agreement) vec3/vec4 x aligned_{highp,mediump,lowp} vs packed", op_faceforward<T>); op.quick = {GRID<T, 4, 8>(), MODV<T, 2>()}; op.thorough = {GRID<T, 5, 8>(), MODV<T, 2>()}; op.classes = {"dot < 0", "dot == 0", "dot > 0"}; }
  { Op& op = E.add(std::string("refract <") + TN<T>::n() + "> (branch agreement + value) vec3/vec4 x aligned_{highp,mediump,lowp} vs packed", op_refract<T>); op.quick = {product("unit vectors^2 x (eta list + critical eta and 6 neighbours)", {range("I", 0, 32, false), range("N", 0, 32, false), range("eta", 0, etas<T>().size() + NCRIT, false)})}; op.classes = {"refraction", "total internal reflection"}; }
  { Op& op = E.add(std::string("consumers of library-produced vec3 values <") + TN<T>::n() + "> (cross / xyz(vec4 quotient) / xyz(vec4 product): 4th lane = noise, NaN, inf)", op_prod<T>); op.quick = {GRID<T, 4, 8>(), MODV<T, 2>()}; }
}

int main(int argc, char** argv) {
  Engine E; E.property = "C03";
  E.assumptions = {"compiled with -ffp-contract=off: the compiler does not fuse a*b+c on its own (GLM_FORCE_FMA is the only source of fused operations)",
    "the packed_* types of an intrinsics build run the generic (pure) code; packed@ISA == GLM_FORCE_PURE is checked separately by digest",
    "float results are compared as values (+0 == -0, all NaNs identified); NaN operands of min/max/clamp are inside the documented formula 'y < x ? y : x'",
    "signed overflow, division by zero, INT_MIN/-1, abs(INT_MIN) and out-of-range shift counts are outside the operators' domains (skipped)",
    "lowp: results may deviate by 2^-11 (relative) from the exact value wherever the operation divides or takes a (reciprocal) square root, on operands for which rcp/rsqrt are specified (|x| in [1e-30, 1e30])",
    "cells that do not compile on the unchanged tree are excluded by macro (C03_NO_INT_MINMAX below SSE4.1, C03_NO_INT4_BITFUNCS, C03_NO_DOUBLE_FMA at AVX2 without -mfma, C03_NO_INT_XYZ, double and two-component uint swizzles); -DC03_TRY_ALL re-enables them"};
#if PART(0)
  reg_round_select<float>(E);
#endif
#if PART(1)
  reg_arith<float>(E);
#endif
#if PART(2)
  reg_math<float>(E);
  { Op& op = E.add("element-type conversions float -> int, int-argument constructors of aligned vectors", op_conv<float, int>); op.quick = {DL<float>(0)}; } { Op& op = E.add("element-type conversions float -> uint", op_conv<float, glm::uint>); op.quick = {DL<float>(0)}; } { Op& op = E.add("element-type conversions float -> double", op_conv<float, double>); op.quick = {DL<float>(0)}; }
  { Op& op = E.add("floatBitsToInt <float>", op_lw<F_floatBitsToInt, float, 1, 0, 0>); op.quick = {DL<float>(0)}; } { Op& op = E.add("floatBitsToUint <float>", op_lw<F_floatBitsToUint, float, 1, 0, 0>); op.quick = {DL<float>(0)}; }
#endif
#if PART(3)
  reg_round_select<double>(E);
#endif
#if PART(4)
  reg_arith<double>(E);
#endif
#if PART(5)
  reg_math<double>(E); { Op& op = E.add("element-type conversions double -> float", op_conv<double, float>); op.quick = {DL<double>(0)}; } { Op& op = E.add("element-type conversions double -> int", op_conv<double, int>); op.quick = {DL<double>(0)}; }
#endif
#if PART(6)
  reg_arith<int>(E); RL<F_abs, int, 1, 0, 0>(E); RL<F_sign, int, 1, 0, 0>(E);
  { Op& op = E.add("element-type conversions int -> float (CTOR_VECF_INT)", op_conv<int, float>); op.quick = {DL<int>(0)}; } { Op& op = E.add("element-type conversions int -> uint", op_conv<int, glm::uint>); op.quick = {DL<int>(0)}; } { Op& op = E.add("element-type conversions int -> double", op_conv<int, double>); op.quick = {DL<int>(0)}; }
  { Op& op = E.add("intBitsToFloat <int>", op_lw<F_intBitsToFloat, int, 1, 0, 0>); op.quick = {DL<int>(0)}; }
#endif
#if PART(7)
  reg_int<int>(E); reg_int_guarded<int>(E);
#endif
#if PART(8)
  reg_arith<glm::uint>(E);
  { Op& op = E.add("element-type conversions uint -> float", op_conv<glm::uint, float>); op.quick = {DL<glm::uint>(0)}; } { Op& op = E.add("element-type conversions uint -> int", op_conv<glm::uint, int>); op.quick = {DL<glm::uint>(0)}; }
  { Op& op = E.add("uintBitsToFloat <uint>", op_lw<F_uintBitsToFloat, glm::uint, 1, 0, 0>); op.quick = {DL<glm::uint>(0)}; }
#endif
#if PART(9)
  reg_int<glm::uint>(E); reg_int_guarded<glm::uint>(E);
#endif
#if PART(10)
  reg_geo<float>(E); reg_geo<double>(E);
#endif
#if PART(11)
  RM<float, 4>(E); RM<float, 3>(E); RM<double, 4>(E); RM<double, 3>(E); RQ<float>(E); RQ<double>(E);
#endif
#if PART(12)
  { Op& op = E.add("kernel: glm_mat4_add/sub/mul, glm_mat4_mul_vec4, glm_vec4_mul_mat4, glm_mat4_determinant_highp/_lowp, glm_mat4_inverse_lowp (not reached by any vec/mat/quat operation) vs packed mat4", op_kernel_mat);
    size_t nm = modv<float>().size(); op.quick = {product("{0,1}^16 patterns x {raw, +3I, tagged}", {range("mode0", 0, 1), range("pattern", 0, 65536), range("variant", 0, 3)}), product("MOD lattice matrices^2", {range("mode1", 1, 1), range("i", 0, nm, false), range("j", 0, nm, false)})}; }
  { Op& op = E.add("kernel: glm_vec4_sign/roundEven/clamp/mix/step/nan/inf (not reached by any vec/mat/quat operation) vs packed vec4 function of the same name", op_kernel_vec); op.quick = {product("SPEC^3", {DL<float>(0), DL<float>(0), DL<float>(0)})}; }
#endif
#if defined(GLM_FORCE_SWIZZLE)
  { Op& op = E.add("operator swizzles <float> (read, write, vec3<->vec4 widths) aligned_{highp,mediump,lowp}", op_swz<float>); op.quick = {DL<float>(0)}; } { Op& op = E.add("operator swizzles <int>", op_swz<int>); op.quick = {DL<int>(0)}; } { Op& op = E.add("operator swizzles <uint>", op_swz<glm::uint>); op.quick = {DL<glm::uint>(0)}; }
  { Op& op = E.add("two-component operator swizzles <float>", op_swz2<float>); op.quick = {DL<float>(0)}; } { Op& op = E.add("two-component operator swizzles <int>", op_swz2<int>); op.quick = {DL<int>(0)}; }
#endif
  return E.main(argc, argv);
}
