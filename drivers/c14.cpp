// C14 — ULP stepping and epsilon/ULP comparisons.  Explicit state graph: states = float bit patterns,
// transitions = nextFloat / prevFloat executed on the implementation and compared with integer arithmetic
// on the IEEE total order (reference model), every transition validated.
#define GLM_ENABLE_EXPERIMENTAL
#include <glm/glm.hpp>
#include <glm/ext/scalar_ulp.hpp>
#include <glm/ext/vector_ulp.hpp>
#include <glm/ext/scalar_relational.hpp>
#include <glm/ext/vector_relational.hpp>
#include <glm/ext/matrix_relational.hpp>
#include <glm/ext/quaternion_relational.hpp>
#include <glm/gtc/ulp.hpp>
#include <glm/gtc/epsilon.hpp>
#include <glm/gtc/quaternion.hpp>
#include "glmx.hpp"
#include <cfloat>
using namespace glmx;

enum { KF_SCALAR_SIGN = 0, KF_EPS_STRICT = 1 };

template <typename F> struct FT;
template <> struct FT<float> { typedef int32_t I; typedef int DI; static float get(uint64_t b) { return f32(b); } static uint64_t bits(float f) { return b32(f); } static int64_t ord(float f) { return ord32(f); }
  static float from_ord(int64_t o) { if (o > 0x7f800000ll) o = 0x7f800000ll; if (o < -0x7f800000ll) o = -0x7f800000ll; uint32_t m = (uint32_t)(o < 0 ? -o : o); return f32(o < 0 ? (m | 0x80000000u) : m); } static constexpr int64_t INF = 0x7f800000ll; };
template <> struct FT<double> { typedef int64_t I; typedef glm::int64 DI; static double get(uint64_t b) { return f64(b); } static uint64_t bits(double f) { return b64(f); } static int64_t ord(double f) { return ord64(f); }
  static double from_ord(int64_t o) { if (o > 0x7ff0000000000000ll) o = 0x7ff0000000000000ll; if (o < -0x7ff0000000000000ll) o = -0x7ff0000000000000ll; uint64_t m = (uint64_t)(o < 0 ? -o : o); return f64(o < 0 ? (m | 0x8000000000000000ull) : m); } static constexpr int64_t INF = 0x7ff0000000000000ll; };
template <typename F> static inline bool finite(F x) { return x - x == 0; }

// --------------------------------------------------------------- state graph: one state, both transitions
template <typename F> static void op_step(const Case& c, Outcome& o) {
  F x = FT<F>::get(c.w[0]); if (!finite(x)) { o.nontrivial = false; return; }
  int64_t ox = FT<F>::ord(x); o.cls(ox == 0 ? 0 : std::fabs((double)x) < (sizeof(F) == 4 ? (double)FLT_MIN : DBL_MIN) ? 1 : x < 0 ? 2 : 3);
  F nx = glm::nextFloat(x), px = glm::prevFloat(x); F wn = FT<F>::from_ord(ox + 1), wp = FT<F>::from_ord(ox - 1);
  o.res(FT<F>::bits(nx), FT<F>::bits(px)); o.exp(FT<F>::bits(wn), FT<F>::bits(wp));
  if (!(nx == wn)) { o.bad(1, "nextFloat(x) is not the smallest representable value greater than x"); return; }
  if (!(px == wp)) { o.bad(2, "prevFloat(x) is not the largest representable value smaller than x"); return; }
  if (!(std::nextafter(x, std::numeric_limits<F>::infinity()) == wn) || !(std::nextafter(x, -std::numeric_limits<F>::infinity()) == wp)) { o.bad(95, "ORACLE: integer successor disagrees with libm nextafter"); return; }
  if (!(nx > x) || !(px < x)) { o.bad(3, "stepping is not strictly monotone"); return; }
  if (finite(nx) && !(glm::prevFloat(nx) == x)) { o.bad(4, "prevFloat(nextFloat(x)) != x"); return; }
  if (finite(px) && !(glm::nextFloat(px) == x)) { o.bad(5, "nextFloat(prevFloat(x)) != x"); return; }
  // gtc twins
  if (!(glm::next_float(x) == wn)) { o.res(FT<F>::bits(glm::next_float(x))); o.bad(6, "gtc next_float(x)"); return; }
  if (!(glm::prev_float(x) == wp)) { o.res(FT<F>::bits(glm::prev_float(x))); o.bad(7, "gtc prev_float(x)"); return; }
  // distance of one step
  if (finite(nx) && glm::floatDistance(x, nx) != 1) { o.res((uint64_t)glm::floatDistance(x, nx)); o.exp(1); o.bad(8, "floatDistance(x, nextFloat(x)) != 1"); return; }
  if (finite(px) && glm::floatDistance(px, x) != 1) { o.res((uint64_t)glm::floatDistance(px, x)); o.exp(1); o.bad(9, "floatDistance(prevFloat(x), x) != 1"); return; }
}
// n-step overloads = n single steps; floatDistance(x, nextFloat(x,n)) = n; vector overloads
template <typename F> static void op_nstep(const Case& c, Outcome& o) {
  F x = FT<F>::get(c.w[0]); int n = (int)c.w[1]; if (!finite(x)) { o.nontrivial = false; return; }
  int64_t ox = FT<F>::ord(x); if (ox + n >= FT<F>::INF || ox - n <= -FT<F>::INF) { o.nontrivial = false; return; }
  o.cls((ox < 0 && ox + n >= 0) || (ox > 0 && ox - n <= 0) ? 1 : 0);
  F up = glm::nextFloat(x, n), dn = glm::prevFloat(x, n), wu = FT<F>::from_ord(ox + n), wd = FT<F>::from_ord(ox - n);
  o.res(FT<F>::bits(up), FT<F>::bits(dn)); o.exp(FT<F>::bits(wu), FT<F>::bits(wd));
  if (!(up == wu)) { o.bad(1, "nextFloat(x, n) is not n single steps up"); return; }
  if (!(dn == wd)) { o.bad(2, "prevFloat(x, n) is not n single steps down"); return; }
  if (!(glm::next_float(x, n) == wu) || !(glm::prev_float(x, n) == wd)) { o.bad(3, "gtc next_float/prev_float(x, n)"); return; }
  int64_t d1 = (int64_t)glm::floatDistance(x, up), d2 = (int64_t)glm::floatDistance(dn, x), d3 = (int64_t)glm::float_distance(x, up), d4 = (int64_t)glm::floatDistance(up, x);
  o.res((uint64_t)d1, (uint64_t)d2); o.exp((uint64_t)n, (uint64_t)n);
  if (d1 != n) { o.bad(4, "floatDistance(x, nextFloat(x, n)) != n"); return; }
  if (d2 != n) { o.bad(5, "floatDistance(prevFloat(x, n), x) != n"); return; }
  if (d3 != n || d4 != n) { o.bad(6, "float_distance / symmetric floatDistance != n"); return; }
  // vector overloads: lane k steps from x by the same n (int) and by per-lane counts
  glm::vec<4, F> v(x, wu, wd, (F)1), vu = glm::nextFloat(v, n), vd = glm::prevFloat(v, n), v1 = glm::nextFloat(v), p1 = glm::prevFloat(v);
  glm::vec<4, int> cnt(n, 1, 0, 2); glm::vec<4, F> vc = glm::nextFloat(v, cnt), pc = glm::prevFloat(v, cnt);
  for (int k = 0; k < 4; ++k) { int64_t ok = FT<F>::ord(v[k]);
    if (!(vu[k] == FT<F>::from_ord(ok + n)) || !(vd[k] == FT<F>::from_ord(ok - n)) || !(v1[k] == FT<F>::from_ord(ok + 1)) || !(p1[k] == FT<F>::from_ord(ok - 1)) || !(vc[k] == FT<F>::from_ord(ok + cnt[k])) || !(pc[k] == FT<F>::from_ord(ok - cnt[k])))
      { o.res(FT<F>::bits(vu[k]), k); o.exp(FT<F>::bits(FT<F>::from_ord(ok + n))); o.bad(7, "vector nextFloat/prevFloat overload: wrong component"); return; } }
  auto fd = glm::floatDistance(v, vu); for (int k = 0; k < 4; ++k) if (finite(vu[k]) && (int64_t)fd[k] != n) { o.res((uint64_t)fd[k], k); o.exp(n); o.bad(8, "vector floatDistance overload"); return; }
}

// ------------------------------------------------------------------------------- ULP comparisons
template <typename F> static void op_ulpeq(const Case& c, Outcome& o) {
  F x = FT<F>::get(c.w[0]); if (!finite(x)) { o.nontrivial = false; return; }
  static const int DS[] = {0, 1, 2, 3, 4, 7, 8, 63, 64, 65}; static const int KS[] = {0, 1, 2, 4, 64};
  int d = DS[c.w[1] % 10]; bool down = c.w[1] >= 10; int k = KS[c.w[2]];
  int64_t ox = FT<F>::ord(x), oy = ox + (down ? -d : d); if (oy >= FT<F>::INF || oy <= -FT<F>::INF) { o.nontrivial = false; return; }
  F y = FT<F>::from_ord(oy); if (oy == 0 && (c.w[1] & 1)) y = -y;      // exercise both zeros
  bool want = d <= k; bool cross = std::signbit(x) != std::signbit(y);
  o.cls(cross ? (want ? 2 : 3) : (want ? 0 : 1));
  bool g = glm::equal(x, y, k), gn = glm::notEqual(x, y, k); o.res(g, gn); o.exp(want, !want);
  bool scalar_bad = g != want || gn == want;
  // vector / matrix overloads first (they are not subject to the scalar known finding)
#define VEQ(L) { glm::vec<L, F> a(x), b(y); glm::vec<L, F> a2(a), b2(b); if (L > 1) { a2[L - 1] = (F)1; b2[L - 1] = (F)1; } \
    glm::vec<L, bool> e = glm::equal(a, b, k), ne = glm::notEqual(a, b, k), e2 = glm::equal(a2, b2, glm::vec<L, int>(k)); \
    for (int i = 0; i < L; ++i) { bool wi = (L > 1 && i == L - 1) ? true : want; if (e[i] != want || ne[i] == want || e2[i] != wi) { o.res(e[i], i); o.exp(want); o.bad(10 + L, "vector equal/notEqual(x, y, ULPs): not 'at most ULPs representable values apart'"); return; } } }
  VEQ(1) VEQ(2) VEQ(3) VEQ(4)
#define MEQ(C, R) { glm::mat<C, R, F> a((F)1), b((F)1); a[C - 1][R - 1] = x; b[C - 1][R - 1] = y; a[0][1] = y; b[0][1] = y; glm::vec<C, bool> e = glm::equal(a, b, k), ne = glm::notEqual(a, b, k); \
    for (int i = 0; i < C; ++i) { bool wi = i == C - 1 ? want : true; if (e[i] != wi || ne[i] == wi) { o.res(e[i], i); o.exp(wi); o.bad(20 + C * 4 + R, "matrix equal/notEqual(a, b, ULPs): column verdict wrong"); return; } } }
  MEQ(2, 2) MEQ(3, 3) MEQ(4, 4) MEQ(2, 3) MEQ(4, 2) MEQ(3, 4)
  if (scalar_bad) { if (cross && g == false && gn == true) o.kf = KF_SCALAR_SIGN; o.bad(1, "scalar equal/notEqual(x, y, ULPs): not 'at most ULPs representable values apart' (+0 == -0)"); return; }
}

// ------------------------------------------------------------------------------- epsilon comparisons
template <typename F> static void op_epseq(const Case& c, Outcome& o) {
  F x = FT<F>::get(c.w[0]), y = FT<F>::get(c.w[1]), eps = FT<F>::get(c.w[2]);
  if (x != x || y != y) { o.nontrivial = false; return; }
  F diff = std::fabs(x - y); bool want = diff <= eps, wantn = diff > eps; bool edge = diff == eps;    // in the type's own arithmetic, as GLM documents
  o.cls(edge ? 2 : want ? 0 : 1); o.exp(want, wantn);
  { bool g = glm::equal(x, y, eps), gn = glm::notEqual(x, y, eps); o.res(g, gn); if (g != want || gn != wantn) { o.bad(1, "scalar equal/notEqual(x, y, epsilon): not |x-y| <= epsilon"); return; } }
#define VEPS(L) { glm::vec<L, F> a(x), b(y); glm::vec<L, bool> e = glm::equal(a, b, eps), ne = glm::notEqual(a, b, eps), e2 = glm::equal(a, b, glm::vec<L, F>(eps)), ne2 = glm::notEqual(a, b, glm::vec<L, F>(eps)); \
    for (int i = 0; i < L; ++i) if (e[i] != want || ne[i] != wantn || e2[i] != want || ne2[i] != wantn) { o.res(e[i], ne[i]); o.bad(10 + L, "vector equal/notEqual(x, y, epsilon)"); return; } }
  VEPS(1) VEPS(2) VEPS(3) VEPS(4)
  { glm::mat<3, 3, F> a((F)1), b((F)1); a[2][1] = x; b[2][1] = y; glm::vec<3, bool> e = glm::equal(a, b, eps), ne = glm::notEqual(a, b, eps); bool w0 = (F)0 <= eps;
    if (e[2] != (want && w0) || ne[2] != (wantn || !w0)) { o.res(e[2], ne[2]); o.bad(20, "matrix equal/notEqual(a, b, epsilon): column verdict wrong"); return; } }
  // gtc epsilonEqual family and quaternion equal(epsilon): documented with a strict '<' -> known finding at |x-y| == epsilon
  { bool g = glm::epsilonEqual(x, y, eps), gn = glm::epsilonNotEqual(x, y, eps); glm::vec<3, F> a(x), b(y); glm::vec<3, bool> e = glm::epsilonEqual(a, b, eps), ne = glm::epsilonNotEqual(a, b, eps), e2 = glm::epsilonEqual(a, b, glm::vec<3, F>(eps));
    glm::qua<F> qa(x, x, x, x), qb(y, y, y, y); glm::vec<4, bool> qe = glm::equal(qa, qb, eps), qn = glm::notEqual(qa, qb, eps);
    bool allok = g == want && gn == wantn; for (int i = 0; i < 3; ++i) allok = allok && e[i] == want && ne[i] == wantn && e2[i] == want; for (int i = 0; i < 4; ++i) allok = allok && qe[i] == want && qn[i] == wantn;
    if (!allok) { bool legacy = edge && g == false && gn == true; for (int i = 0; i < 3; ++i) legacy = legacy && !e[i] && ne[i] && !e2[i]; for (int i = 0; i < 4; ++i) legacy = legacy && !qe[i] && qn[i];
      o.res(g, gn); if (legacy) o.kf = KF_EPS_STRICT; o.bad(30, "epsilonEqual/epsilonNotEqual/quaternion equal(epsilon): not |x-y| <= epsilon"); return; } }
}

int main(int argc, char** argv) {
  Engine E; E.property = "C14"; E.kf_ids = {"KF-C14-scalar-ulp-equal-sign", "KF-C14-epsilon-strict"};
  E.assumptions = {"reference model = integer arithmetic on the IEEE total order (sign-magnitude bits mapped to a signed line, +0 and -0 identified), cross-checked with libm nextafter on every state", "epsilon comparisons are judged on |x-y| evaluated in the operand type (the arithmetic GLM documents), NaN operands excluded"};
  Domain e32 = F32_EDGE(), e64q = F64_EDGE(false);
  const std::vector<std::string> sc = {"zero", "subnormal", "negative-normal", "positive-normal"};
  { Op& op = E.add("step-graph<float>: nextFloat/prevFloat transitions", op_step<float>); op.quick = {e32}; op.thorough = {F32_ALL()}; op.classes = sc; }
  { Op& op = E.add("step-graph<double>: nextFloat/prevFloat transitions", op_step<double>); op.quick = {e64q}; op.thorough = {F64_EDGE(true)}; op.classes = sc; }
  Domain ns = list("N{0,1,2,3,7,64}", {0, 1, 2, 3, 7, 64}, false);
  // states near zero so that chains cross it, plus the EDGE lattice
  std::vector<uint64_t> z32, z64; for (uint64_t m = 0; m < 80; ++m) { z32.push_back(m); z32.push_back(m | 0x80000000u); z64.push_back(m); z64.push_back(m | (1ull << 63)); }
  Domain nz32 = list("F32_NEAR_ZERO(+-0..79 ulp)", z32), nz64 = list("F64_NEAR_ZERO(+-0..79 ulp)", z64);
  { Op& op = E.add("n-step<float>", op_nstep<float>); op.quick = {product("F32_NEAR_ZERO x N", {nz32, ns}), product("F32_EDGE x N", {e32, ns})}; op.classes = {"same-side", "crosses-zero"}; }
  { Op& op = E.add("n-step<double>", op_nstep<double>); op.quick = {product("F64_NEAR_ZERO x N", {nz64, ns}), product("F64_EDGE_reduced x N", {e64q, ns})}; op.thorough = {product("F64_NEAR_ZERO x N", {nz64, ns}), product("F64_EDGE x N", {F64_EDGE(true), ns})}; op.classes = {"same-side", "crosses-zero"}; }
  Domain dd = range("DIST{0,1,2,3,4,7,8,63,64,65} x {up,down}", 0, 20, true), kk = range("MAXULPS{0,1,2,4,64}", 0, 5, true);
  const std::vector<std::string> uc = {"same-sign-equal", "same-sign-unequal", "across-zero-equal", "across-zero-unequal"};
  { Op& op = E.add("equal/notEqual(ULPs)<float>", op_ulpeq<float>); op.quick = {product("F32_NEAR_ZERO x DIST x MAXULPS", {nz32, dd, kk}), product("F32_EDGE x DIST x MAXULPS", {e32, dd, kk})}; op.classes = uc; }
  { Op& op = E.add("equal/notEqual(ULPs)<double>", op_ulpeq<double>); op.quick = {product("F64_NEAR_ZERO x DIST x MAXULPS", {nz64, dd, kk}), product("F64_EDGE_reduced x DIST x MAXULPS", {e64q, dd, kk})}; op.classes = uc; }
  { Domain sp = F32_SPEC(); Domain eps = list("EPS32", {b32(0.f), b32(FLT_MIN), b32(1.1920929e-7f), b32(0.5f), b32(1.f), b32(2.f), b32(FLT_MAX), b32(1e-20f), b32(0.75f), b32(1.00000012f)});
    Op& op = E.add("equal/notEqual/epsilonEqual(epsilon)<float>", op_epseq<float>); op.quick = {product("F32_SPEC^2 x EPS", {sp, sp, eps})}; op.classes = {"within", "beyond", "exactly-epsilon"}; }
  { Domain sp = F64_SPEC(); Domain eps = list("EPS64", {b64(0.), b64(DBL_MIN), b64(2.220446049250313e-16), b64(0.5), b64(1.), b64(2.), b64(DBL_MAX), b64(1e-200), b64(0.75)});
    Op& op = E.add("equal/notEqual/epsilonEqual(epsilon)<double>", op_epseq<double>); op.quick = {product("F64_SPEC^2 x EPS", {sp, sp, eps})}; op.classes = {"within", "beyond", "exactly-epsilon"}; }
  return E.main(argc, argv);
}
