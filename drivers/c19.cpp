// C19 — colour-space conversions are mutually inverse and range-preserving.
//   * integer rgb2YCoCgR/YCoCgR2rgb: exactly lossless on every triple of the element type's colour depth
//     (all 2^24 8-bit triples on u8/i16/i32 carriers, lattices of 16-bit triples on u16/i32/u32/i64);
//   * convertLinearToSRGB/convertSRGBToLinear (default and explicit gamma in [1,3]): monotone, fix 0 and 1,
//     [0,1] -> [0,1], alpha untouched, mutually inverse within the accuracy of the curve constants;
//   * rgbColor/hsvColor, rgb2YCoCg/YCoCg2rgb (and the floating YCoCg-R pair): round trips on the RGB cube,
//     hue in [0,360) for non-grey colours, saturation/value in [0,1];
//   * saturation(): grey stays the same grey, weights (0.2126,0.7152,0.0722); luminosity(): documented weights.
#define GLM_ENABLE_EXPERIMENTAL
#include <glm/glm.hpp>
#include <glm/gtc/type_precision.hpp>
#include <glm/gtc/color_space.hpp>
#include <glm/gtx/color_space.hpp>
#include <glm/gtx/color_space_YCoCg.hpp>
#include "glmx.hpp"
#include <cfloat>
#include <type_traits>
using namespace glmx;

enum { KF_GAMMA_TOE = 0, KF_HUE360 = 1 };

template <typename F> struct FT;
template <> struct FT<float> { typedef double W; static float get(uint64_t b) { return f32(b); } static uint64_t bits(float f) { return b32(f); } static constexpr int MANT = 24; };
template <> struct FT<double> { typedef long double W; static double get(uint64_t b) { return f64(b); } static uint64_t bits(double f) { return b64(f); } static constexpr int MANT = 53; };
template <typename F> static inline typename FT<F>::W unit() { return std::ldexp((typename FT<F>::W)1, -FT<F>::MANT); }   // u = 2^-24 / 2^-53
template <typename F> static inline F nxt(F x) { return std::nextafter(x, std::numeric_limits<F>::infinity()); }
template <typename F> static inline F prv(F x) { return std::nextafter(x, -std::numeric_limits<F>::infinity()); }

// scratch-build only (-DC19_MEASURE): track the largest observed error per slot and print it at exit
#ifdef C19_MEASURE
#include <atomic>
static std::atomic<uint64_t> g_meas[32];
static const char* g_measname[32];
static void meas(int slot, const char* name, long double v) { g_measname[slot] = name; double d = (double)v; if (!(d == d)) return; uint64_t nb = b64(d), ob = g_meas[slot].load(); while (f64(ob) < d && !g_meas[slot].compare_exchange_weak(ob, nb)) {} }
struct MeasDump { ~MeasDump() { for (int i = 0; i < 32; ++i) if (g_measname[i]) std::fprintf(stderr, "MEAS %-44s %.6g\n", g_measname[i], f64(g_meas[i].load())); } } g_measdump;
#define MEAS(slot, name, v) meas(slot, name, v)
#else
#define MEAS(slot, name, v) ((void)0)
#endif

// =========================================================================== integer YCoCg-R (lifting, exactly lossless)
template <typename T> static void op_ycocgr_int(const Case& c, Outcome& o) {
  typedef glm::vec<3, T, glm::defaultp> V; typedef typename std::make_unsigned<T>::type U;
  const T r = (T)(U)c.w[0], g = (T)(U)c.w[1], b = (T)(U)c.w[2];
  o.cls(c.w[0] < c.w[2] ? 0 : c.w[0] == c.w[2] ? 1 : 2);
  const V in(r, g, b); const V y = glm::rgb2YCoCgR(in); const V back = glm::YCoCgR2rgb(y);
  o.res(((uint64_t)(U)back.x << 32) | (uint64_t)(uint32_t)(U)back.y, (uint64_t)(U)back.z); o.exp(((uint64_t)(U)r << 32) | (uint64_t)(uint32_t)(U)g, (uint64_t)(U)b);
  if (!(back.x == r && back.y == g && back.z == b)) { o.bad(back.x != r ? 1 : back.y != g ? 2 : 3, "YCoCgR2rgb(rgb2YCoCgR(c)) != c: the integer lifting pair is not lossless"); return; }
}

// ============================================================================================================== sRGB
// Legacy model of the transfer curves as shipped (fixed gamma-2.4 toe: slope 12.92, breakpoints 0.0031308 / 0.04045),
// used ONLY to attribute violations of the explicit-gamma overloads to the recorded finding, never as the oracle.
template <typename F> struct Legacy {
  typedef typename FT<F>::W W;
  static W enc(F x, F invg) { return x < (F)0.0031308 ? (W)12.92 * (W)x : (W)1.055 * std::pow((W)x, (W)invg) - (W)0.055; }
  static W dec(F s, F g) { return s <= (F)0.04045 ? (W)s / (W)12.92 : std::pow(((W)s + (W)0.055) / (W)1.055, (W)g); }
  static bool enc_match(F got, F x, F invg) { W l = enc(x, invg); return std::fabs((W)got - l) <= 32 * unit<F>() * (std::fabs(l) + (W)0.11) + (W)std::numeric_limits<F>::min(); }
  static bool dec_match(F got, F s, F g) { W l = dec(s, g); return std::fabs((W)got - l) <= 32 * unit<F>() * std::fabs(l) + (W)std::numeric_limits<F>::min(); }
};
// alpha "tag" values: arbitrary numbers that no colour computation would reproduce
template <typename F> static inline F alpha_tag(uint64_t key) {
  static const double tags[] = {0.0, 1.0, 0.5, -0.0, 0.123456789, 0.987654321, -3.5, 7.25, 1e30, 1e-30, 255.0, 0.0031308, 0.04045, -1.0};
  return (F)tags[(key ^ (key >> 7) ^ (key >> 19)) % (sizeof tags / sizeof tags[0])];
}

// words: x, xn (two neighbouring points of the grid, x <= xn, both in [0,1]) [, gamma as double bits]
template <int L, typename F, bool EXPL, glm::qualifier Q = glm::defaultp> static void op_srgb(const Case& c, Outcome& o) {
  typedef typename FT<F>::W W; typedef glm::vec<L, F, Q> V;
  const F x = FT<F>::get(c.w[0]), xn = FT<F>::get(c.w[1]); const F gamma = EXPL ? (F)f64(c.w[2]) : (F)2.4;
  if (!(x >= 0 && xn >= x && xn <= 1) || !(gamma >= 1 && gamma <= 3)) { o.nontrivial = false; return; }
  o.cls(x < (F)0.0031308 ? 0 : x <= (F)0.04045 ? 1 : 2);
  const W u = unit<F>(); const int nc = L == 4 ? 3 : L;
  // "accuracy of the transfer-curve constants": the encoder exponent is published to five decimals (0.41666 for 1/2.4),
  // so g(f(x)) = x^(1-e) with e <= 2.4e-5 and sup|x^(1-e) - x| = e/exp(1) = 8.8e-6; the breakpoint constants (0.0031308,
  // 0.04045, 12.92; five/four significant digits) displace the branch switch by < 1e-7.  4x that + rounding of the formula.
  const W RT = 4 * (W)2.4e-5 / (W)2.718281828459045 + 64 * u;
  const W FIX = 16 * u;             // f(0)=0, f(1)=1 "within rounding": 1.055-0.055, (1+0.055)/1.055 and pow(.,gamma<=3) each cost <= ~3u
  const F alpha = alpha_tag<F>(c.w[0]);
  const F la[4] = {x, xn, (F)(1 - x), alpha}, lb[4] = {xn, (F)(1 - x), x, alpha};
  V A, B; for (int k = 0; k < L; ++k) { A[k] = la[k]; B[k] = lb[k]; } if (L == 4) { A[L - 1] = alpha; B[L - 1] = alpha; }
  auto ENC = [&](const V& v) -> V { return EXPL ? glm::convertLinearToSRGB(v, gamma) : glm::convertLinearToSRGB(v); };
  auto DEC = [&](const V& v) -> V { return EXPL ? glm::convertSRGBToLinear(v, gamma) : glm::convertSRGBToLinear(v); };
  const V P[2] = {A, B}; V E[2], D[2], DE[2], ED[2];
  for (int h = 0; h < 2; ++h) { E[h] = ENC(P[h]); D[h] = DEC(P[h]); DE[h] = DEC(E[h]); ED[h] = ENC(D[h]); }
  o.res(FT<F>::bits(E[0][0]), FT<F>::bits(D[0][0]));
  // attribution: every value of this case is what the fixed-toe legacy curves give (explicit-gamma overloads only)
  auto attribute = [&]() { if (!EXPL) return; const F invg = (F)1 / gamma;
    for (int h = 0; h < 2; ++h) for (int k = 0; k < nc; ++k) { const F v = P[h][k];
      if (!Legacy<F>::enc_match(E[h][k], v, invg) || !Legacy<F>::dec_match(D[h][k], v, gamma) || !Legacy<F>::dec_match(DE[h][k], E[h][k], gamma) || !Legacy<F>::enc_match(ED[h][k], D[h][k], invg)) return; }
    o.kf = KF_GAMMA_TOE; };
  char m[160];
#define SRGB_BAD(CLS, ...) { std::snprintf(m, sizeof m, __VA_ARGS__); attribute(); o.bad(CLS, m); return; }
  for (int h = 0; h < 2; ++h) for (int k = 0; k < nc; ++k) { const F v = P[h][k], e = E[h][k], d = D[h][k];
    if (!(e >= 0 && e <= 1)) { o.res(FT<F>::bits(e), FT<F>::bits(v)); SRGB_BAD(1, "convertLinearToSRGB(%.9g) = %.9g leaves [0,1] (gamma %.4g)", (double)v, (double)e, (double)gamma) }
    if (!(d >= 0 && d <= 1)) { o.res(FT<F>::bits(d), FT<F>::bits(v)); SRGB_BAD(2, "convertSRGBToLinear(%.9g) = %.9g leaves [0,1] (gamma %.4g)", (double)v, (double)d, (double)gamma) }
    if (v == 0 || v == 1) { MEAS(0, "srgb |f(0)-0|,|f(1)-1| [u]", std::max(std::fabs((W)e - v), std::fabs((W)d - v)) / u);
      if (!(std::fabs((W)e - (W)v) <= FIX)) { o.res(FT<F>::bits(e)); o.exp(FT<F>::bits(v)); SRGB_BAD(5, "convertLinearToSRGB does not fix %g: got %.9g (gamma %.4g)", (double)v, (double)e, (double)gamma) }
      if (!(std::fabs((W)d - (W)v) <= FIX)) { o.res(FT<F>::bits(d)); o.exp(FT<F>::bits(v)); SRGB_BAD(6, "convertSRGBToLinear does not fix %g: got %.9g (gamma %.4g)", (double)v, (double)d, (double)gamma) } } }
  // monotone: x <= xn  =>  f(x) <= f(xn).  Slack: 4u of rounding on the two evaluations, plus the accuracy of the curve constants
  // at the branch switch: the two published breakpoints are the same point of the curve only to 0.04045 - 12.92*0.0031308 = 6.4e-8
  // (the IEC 61966-2-1 curve itself steps down by 2.9e-8 there), 4x that on the sRGB side and /12.92 on the linear side.
  { const F ex = E[0][0], exn = E[1][0], dx = D[0][0], dxn = D[1][0]; const W GAP = 4 * (W)6.4e-8;
    if (!((W)exn >= (W)ex - 4 * u * std::fabs((W)ex) - GAP)) { o.res(FT<F>::bits(ex), FT<F>::bits(exn)); SRGB_BAD(3, "convertLinearToSRGB not monotone: f(%.9g)=%.9g > f(%.9g)=%.9g (gamma %.4g)", (double)x, (double)ex, (double)xn, (double)exn, (double)gamma) }
    if (!((W)dxn >= (W)dx - 4 * u * std::fabs((W)dx) - GAP / (W)12.92)) { o.res(FT<F>::bits(dx), FT<F>::bits(dxn)); SRGB_BAD(4, "convertSRGBToLinear not monotone: g(%.9g)=%.9g > g(%.9g)=%.9g (gamma %.4g)", (double)x, (double)dx, (double)xn, (double)dxn, (double)gamma) } }
  // mutually inverse
  for (int h = 0; h < 2; ++h) for (int k = 0; k < nc; ++k) { const F v = P[h][k];
    const W e1 = std::fabs((W)DE[h][k] - (W)v), e2 = std::fabs((W)ED[h][k] - (W)v);
    if (e1 <= RT) MEAS(EXPL ? 3 : 1, EXPL ? "srgb(gamma) |dec(enc(x))-x|" : "srgb(default) |dec(enc(x))-x|", e1);
    if (e2 <= RT) MEAS(EXPL ? 4 : 2, EXPL ? "srgb(gamma) |enc(dec(s))-s|" : "srgb(default) |enc(dec(s))-s|", e2);
    if (!(e1 <= RT)) { o.res(FT<F>::bits(DE[h][k]), FT<F>::bits(E[h][k])); o.exp(FT<F>::bits(v)); SRGB_BAD(8, "convertSRGBToLinear(convertLinearToSRGB(%.9g)) = %.9g (gamma %.4g)", (double)v, (double)DE[h][k], (double)gamma) }
    if (!(e2 <= RT)) { o.res(FT<F>::bits(ED[h][k]), FT<F>::bits(D[h][k])); o.exp(FT<F>::bits(v)); SRGB_BAD(9, "convertLinearToSRGB(convertSRGBToLinear(%.9g)) = %.9g (gamma %.4g)", (double)v, (double)ED[h][k], (double)gamma) } }
  // alpha: bit-identical through both conversions
  if (L == 4) for (int h = 0; h < 2; ++h) {
    if (FT<F>::bits(E[h][L - 1]) != FT<F>::bits(alpha)) { o.res(FT<F>::bits(E[h][L - 1])); o.exp(FT<F>::bits(alpha)); o.bad(7, "convertLinearToSRGB(vec4) changed alpha"); return; }
    if (FT<F>::bits(D[h][L - 1]) != FT<F>::bits(alpha)) { o.res(FT<F>::bits(D[h][L - 1])); o.exp(FT<F>::bits(alpha)); o.bad(7, "convertSRGBToLinear(vec4) changed alpha"); return; } }
#undef SRGB_BAD
}

// =============================================================================================================== HSV
// words: r, g, b (bits of F) in [0,1]
template <typename F> static void op_hsv_of_rgb(const Case& c, Outcome& o) {
  typedef typename FT<F>::W W; typedef glm::vec<3, F, glm::defaultp> V; const W u = unit<F>();
  const F r = FT<F>::get(c.w[0]), g = FT<F>::get(c.w[1]), b = FT<F>::get(c.w[2]);
  if (!(r >= 0 && r <= 1 && g >= 0 && g <= 1 && b >= 0 && b <= 1)) { o.nontrivial = false; return; }
  const F mx = std::max(r, std::max(g, b)), mn = std::min(r, std::min(g, b)); const bool grey = mx == mn;
  o.cls(grey ? 0 : mx == r ? 1 : mx == g ? 2 : 3);
  const V hsv = glm::hsvColor(V(r, g, b)); const V back = glm::rgbColor(hsv);
  o.res(FT<F>::bits(hsv.x), FT<F>::bits(hsv.y)); char m[160];
  if (!(hsv.y >= 0 && hsv.y <= 1)) { o.res(FT<F>::bits(hsv.y)); o.bad(2, "hsvColor: saturation outside [0,1]"); return; }
  if (!(hsv.z >= 0 && hsv.z <= 1)) { o.res(FT<F>::bits(hsv.z)); o.bad(3, "hsvColor: value outside [0,1]"); return; }
  if (!grey && !(hsv.x >= 0 && hsv.x < 360)) {
    // legacy model of the recorded finding: red is the (epsilon-)maximum, g < b, and h = 60(g-b)/delta is so small a negative
    // number that fl(h + 360) rounds up to 360 (half an ulp below 360 is 2^(8-p))
    if (hsv.x == 360 && g < b && (W)mx - (W)r <= (W)std::numeric_limits<F>::epsilon() && (W)60 * ((W)b - (W)g) / ((W)mx - (W)mn) <= std::ldexp((W)1, 8 - FT<F>::MANT) * (1 + 8 * u)) o.kf = KF_HUE360;
    std::snprintf(m, sizeof m, "hsvColor(%.9g,%.9g,%.9g): hue %.9g outside [0,360) for a non-grey colour", (double)r, (double)g, (double)b, (double)hsv.x);
    o.res(FT<F>::bits(hsv.x)); o.bad(1, m); return; }
  // round trip.  Error budget per channel: hue carries <= ~3 roundings at magnitude <= 360 (-> 360u.. /60 = 6u each in the
  // sector fraction), the product h*(1/60) two more at magnitude 6, p/q/o three more at magnitude <= 1: ~16u a priori; 64u allowed.
  const W TOL = 64 * u; const F in[3] = {r, g, b};
  for (int k = 0; k < 3; ++k) { const W e = std::fabs((W)back[k] - (W)in[k]); MEAS(8, "hsv |rgbColor(hsvColor(c))-c| [u]", e <= TOL ? e / u : 0);
    if (!(e <= TOL)) { std::snprintf(m, sizeof m, "rgbColor(hsvColor(%.9g,%.9g,%.9g)) channel %d = %.9g", (double)r, (double)g, (double)b, k, (double)back[k]);
      o.res(FT<F>::bits(back[k]), (uint64_t)k); o.exp(FT<F>::bits(in[k])); o.bad(4, m); return; } }
}
// words: h in [0,360), s, v in [0,1]
template <typename F> static void op_rgb_of_hsv(const Case& c, Outcome& o) {
  typedef typename FT<F>::W W; typedef glm::vec<3, F, glm::defaultp> V; const W u = unit<F>();
  const F h = FT<F>::get(c.w[0]), s = FT<F>::get(c.w[1]), v = FT<F>::get(c.w[2]);
  if (!(h >= 0 && h < 360 && s >= 0 && s <= 1 && v >= 0 && v <= 1)) { o.nontrivial = false; return; }
  const bool achrom = s == 0 || v == 0; o.cls(achrom ? 0 : 1 + std::min(5, (int)((W)h / 60)));
  const V rgb = glm::rgbColor(V(h, s, v)); o.res(FT<F>::bits(rgb.x), FT<F>::bits(rgb.y)); char m[160];
  for (int k = 0; k < 3; ++k) if (!(rgb[k] >= 0 && rgb[k] <= 1)) { o.res(FT<F>::bits(rgb[k]), (uint64_t)k); o.bad(1, "rgbColor: channel outside [0,1] for s,v in [0,1]"); return; }
  const V back = glm::hsvColor(rgb);
  if (!(back.y >= 0 && back.y <= 1) || !(back.z >= 0 && back.z <= 1)) { o.res(FT<F>::bits(back.y), FT<F>::bits(back.z)); o.bad(2, "hsvColor(rgbColor(hsv)): saturation/value outside [0,1]"); return; }
  // value is copied into the maximum channel; saturation = delta/value with delta carrying ~4 roundings
  if (!(std::fabs((W)back.z - (W)v) <= 4 * u)) { o.res(FT<F>::bits(back.z)); o.exp(FT<F>::bits(v)); o.bad(3, "hsvColor(rgbColor(hsv)): value not restored"); return; }
  if (v == 0) return;
  MEAS(9, "hsv |s'-s| [u]", std::fabs((W)back.y - (W)s) / u);
  if (!(std::fabs((W)back.y - (W)s) <= 32 * u)) { o.res(FT<F>::bits(back.y)); o.exp(FT<F>::bits(s)); o.bad(4, "hsvColor(rgbColor(hsv)): saturation not restored"); return; }
  if (s == 0) return;
  const bool nongrey = !(rgb.x == rgb.y && rgb.y == rgb.z);
  if (nongrey && !(back.x >= 0 && back.x < 360)) {
    const F mx = std::max(rgb.x, std::max(rgb.y, rgb.z)), mn = std::min(rgb.x, std::min(rgb.y, rgb.z));
    if (back.x == 360 && rgb.y < rgb.z && (W)mx - (W)rgb.x <= (W)std::numeric_limits<F>::epsilon() && (W)60 * ((W)rgb.z - (W)rgb.y) / ((W)mx - (W)mn) <= std::ldexp((W)1, 8 - FT<F>::MANT) * (1 + 8 * u)) o.kf = KF_HUE360;
    std::snprintf(m, sizeof m, "hsvColor(rgbColor(%.9g,%.9g,%.9g)): hue %.9g outside [0,360)", (double)h, (double)s, (double)v, (double)back.x);
    o.res(FT<F>::bits(back.x)); o.exp(FT<F>::bits(h)); o.bad(5, m); return; }
  // hue, compared on the circle.  The channels carry <= ~8u*v of error, the hue formula divides their differences by delta = s*v
  // and multiplies by 60; the hue itself is rounded at magnitude <= 360 (input product h/60 and output sum): c*u*(360 + 60/s), c = 16.
  W dh = std::fabs((W)back.x - (W)h); if (dh > 180) dh = 360 - dh;
  const W HT = 16 * u * (360 + 60 / (W)s); MEAS(10, "hsv |h'-h| / (u*(360+60/s))", dh / (u * (360 + 60 / (W)s)));
  if (!(dh <= HT)) { std::snprintf(m, sizeof m, "hsvColor(rgbColor(%.9g,%.9g,%.9g)): hue came back as %.9g", (double)h, (double)s, (double)v, (double)back.x);
    o.res(FT<F>::bits(back.x)); o.exp(FT<F>::bits(h)); o.bad(6, m); return; }
}

// ====================================================================================== floating YCoCg / YCoCg-R
template <typename F> static void op_ycocg_float(const Case& c, Outcome& o) {
  typedef typename FT<F>::W W; typedef glm::vec<3, F, glm::defaultp> V; const W u = unit<F>();
  const F r = FT<F>::get(c.w[0]), g = FT<F>::get(c.w[1]), b = FT<F>::get(c.w[2]);
  if (!(r >= 0 && r <= 1 && g >= 0 && g <= 1 && b >= 0 && b <= 1)) { o.nontrivial = false; return; }
  o.cls(r == g && g == b ? 0 : 1); const V in(r, g, b); char m[160];
  // every term is a channel scaled by a power of two (exact); each of Y, Co, Cg costs <= 2 roundings of sums of magnitude <= 1,
  // the inverse 2 more: <= ~6u absolute a priori; 16u allowed
  const W TOL = 16 * u;
  const V y = glm::rgb2YCoCg(in), back = glm::YCoCg2rgb(y), y2 = glm::rgb2YCoCg(back);
  o.res(FT<F>::bits(back.x), FT<F>::bits(back.y));
  for (int k = 0; k < 3; ++k) { const W e = std::fabs((W)back[k] - (W)in[k]); MEAS(12, "YCoCg |back-c| [u]", e / u);
    if (!(e <= TOL)) { std::snprintf(m, sizeof m, "YCoCg2rgb(rgb2YCoCg(%.9g,%.9g,%.9g)) channel %d = %.9g", (double)r, (double)g, (double)b, k, (double)back[k]); o.res(FT<F>::bits(back[k]), (uint64_t)k); o.exp(FT<F>::bits(in[k])); o.bad(1, m); return; } }
  for (int k = 0; k < 3; ++k) { const W e = std::fabs((W)y2[k] - (W)y[k]);
    if (!(e <= 2 * TOL)) { o.res(FT<F>::bits(y2[k]), (uint64_t)k); o.exp(FT<F>::bits(y[k])); o.bad(2, "rgb2YCoCg(YCoCg2rgb(y)) != y for y = rgb2YCoCg(c)"); return; } }
  const V yr = glm::rgb2YCoCgR(in), backr = glm::YCoCgR2rgb(yr);
  for (int k = 0; k < 3; ++k) { const W e = std::fabs((W)backr[k] - (W)in[k]); MEAS(13, "YCoCgR(float) |back-c| [u]", e / u);
    if (!(e <= TOL)) { std::snprintf(m, sizeof m, "YCoCgR2rgb(rgb2YCoCgR(%.9g,%.9g,%.9g)) channel %d = %.9g", (double)r, (double)g, (double)b, k, (double)backr[k]); o.res(FT<F>::bits(backr[k]), (uint64_t)k); o.exp(FT<F>::bits(in[k])); o.bad(3, m); return; } }
}

// ================================================================================================ saturation / luminosity
// words: r, g, b, s
template <typename F> static void op_saturation(const Case& c, Outcome& o) {
  typedef typename FT<F>::W W; typedef glm::vec<3, F, glm::defaultp> V3; typedef glm::vec<4, F, glm::defaultp> V4; const W u = unit<F>();
  const F r = FT<F>::get(c.w[0]), g = FT<F>::get(c.w[1]), b = FT<F>::get(c.w[2]), s = FT<F>::get(c.w[3]);
  const bool grey = r == g && g == b; o.cls(grey ? 0 : 1); char m[160];
  const W wt[3] = {(W)0.2126L, (W)0.7152L, (W)0.0722L}; const F in[3] = {r, g, b};
  const W lum = wt[0] * r + wt[1] * g + wt[2] * b, lmag = wt[0] * std::fabs((W)r) + wt[1] * std::fabs((W)g) + wt[2] * std::fabs((W)b);
  const V3 o3 = glm::saturation(s, V3(r, g, b)); const V4 o4 = glm::saturation(s, V4(r, g, b, (F)0.75)); const glm::mat<4, 4, F, glm::defaultp> M = glm::saturation(s);
  o.res(FT<F>::bits(o3.r), FT<F>::bits(o3.g));
  for (int k = 0; k < 3; ++k) {
    // out_k = (1-s)*L + s*c_k, L = 0.2126 r + 0.7152 g + 0.0722 b; weights, 1-s, (1-s)*w, +s, then a matrix row of products and sums: ~8 roundings a priori, 16u * sum|terms|
    const W want = (1 - (W)s) * lum + (W)s * in[k], tol = 16 * u * (std::fabs(1 - (W)s) * lmag + std::fabs((W)s * in[k])) + (W)std::numeric_limits<F>::min();
    const W mv = (W)M[0][k] * r + (W)M[1][k] * g + (W)M[2][k] * b;
    MEAS(16, "saturation |out-ref|/(u*sum|terms|)", std::fabs((W)o3[k] - want) / (tol / 16));
    if (grey && !(std::fabs((W)o3[k] - (W)in[k]) <= tol && std::fabs((W)o4[k] - (W)in[k]) <= tol && std::fabs(mv - (W)in[k]) <= tol)) {
      std::snprintf(m, sizeof m, "saturation(%.6g) moved the grey level %.9g to %.9g (channel %d)", (double)s, (double)r, (double)o3[k], k); o.res(FT<F>::bits(o3[k]), FT<F>::bits(o4[k])); o.exp(FT<F>::bits(in[k])); o.bad(1, m); return; }
    if (!(std::fabs((W)o3[k] - want) <= tol)) { std::snprintf(m, sizeof m, "saturation(%.6g, vec3) channel %d = %.9g, (1-s)*dot(c,(0.2126,0.7152,0.0722)) + s*c = %.9g", (double)s, k, (double)o3[k], (double)want); o.res(FT<F>::bits(o3[k]), (uint64_t)k); o.exp(FT<F>::bits((F)want)); o.bad(2, m); return; }
    if (!(std::fabs((W)o4[k] - want) <= tol)) { std::snprintf(m, sizeof m, "saturation(%.6g, vec4) channel %d = %.9g, want %.9g", (double)s, k, (double)o4[k], (double)want); o.res(FT<F>::bits(o4[k]), (uint64_t)k); o.exp(FT<F>::bits((F)want)); o.bad(3, m); return; }
    if (!(std::fabs(mv - want) <= tol)) { std::snprintf(m, sizeof m, "saturation(%.6g) matrix row %d applied to the colour = %.9g, want %.9g", (double)s, k, (double)mv, (double)want); o.res(FT<F>::bits((F)mv), (uint64_t)k); o.exp(FT<F>::bits((F)want)); o.bad(4, m); return; } }
}
// words: r, g, b
template <typename F> static void op_luminosity(const Case& c, Outcome& o) {
  typedef typename FT<F>::W W; typedef glm::vec<3, F, glm::defaultp> V3; const W u = unit<F>();
  const F r = FT<F>::get(c.w[0]), g = FT<F>::get(c.w[1]), b = FT<F>::get(c.w[2]); o.cls(r == g && g == b ? 0 : 1);
  // documented: "associating ratios (0.33, 0.59, 0.11) to RGB canals"; constants rounded to F, three products, two sums: ~4 roundings a priori, 16u * sum|terms|
  const W want = (W)0.33L * r + (W)0.59L * g + (W)0.11L * b, tol = 16 * u * std::fabs(want) + (W)std::numeric_limits<F>::min();
  const F got = glm::luminosity(V3(r, g, b)); o.res(FT<F>::bits(got)); o.exp(FT<F>::bits((F)want)); MEAS(17, "luminosity |got-ref|/(u*ref)", want != 0 ? std::fabs((W)got - want) / (u * want) : 0);
  if (!(std::fabs((W)got - want) <= tol)) { char m[160]; std::snprintf(m, sizeof m, "luminosity(%.9g,%.9g,%.9g) = %.9g, dot(c,(0.33,0.59,0.11)) = %.9g", (double)r, (double)g, (double)b, (double)got, (double)want); o.bad(1, m); return; }
}

// ====================================================================================================== domains
template <typename F> static std::vector<uint64_t> bitsof(const std::vector<F>& v) { std::vector<uint64_t> r; for (F x : v) r.push_back(FT<F>::bits(x)); return r; }
// sorted grid of [0,1]: k/n, a second grid of the toe [0,1/16] (both breakpoints inside), +-2 ulp around both breakpoints, 0 and 1
template <typename F> static Domain srgb_pairs(unsigned n, unsigned ntoe) {
  std::set<F> s; for (unsigned k = 0; k <= n; ++k) s.insert((F)((double)k / n)); for (unsigned k = 0; k <= ntoe; ++k) s.insert((F)((double)k / ntoe / 16));
  for (F bp : {(F)0.0031308, (F)0.04045, (F)0, (F)1, (F)0.5}) { F a = bp, b = bp; s.insert(bp); for (int i = 0; i < 2; ++i) { a = prv(a); b = nxt(b); if (a >= 0) s.insert(a); if (b <= 1) s.insert(b); } }
  s.insert(std::numeric_limits<F>::min());
  std::vector<F> v(s.begin(), s.end()); std::vector<uint64_t> flat; for (size_t i = 0; i + 1 < v.size(); ++i) { flat.push_back(FT<F>::bits(v[i])); flat.push_back(FT<F>::bits(v[i + 1])); }
  return rows("SRGB_GRID pairs(k/" + std::to_string(n) + ", toe k/" + std::to_string(16 * ntoe) + ", breakpoints 0.0031308/0.04045 +-2ulp, 0, 1)", 2, flat);
}
// every pair of consecutive floats in [0,1] (complete)
static void all_float_pairs(uint64_t i, uint64_t* w) { w[0] = i; w[1] = i + 1; }
// k/n lattice with both neighbours of every point
template <typename F> static std::vector<F> lattice_nb(unsigned n, bool neighbours) {
  std::set<F> s; for (unsigned k = 0; k <= n; ++k) { F x = (F)((double)k / n); s.insert(x); if (neighbours) { if (k > 0) s.insert(prv(x)); if (k < n) s.insert(nxt(x)); } } return std::vector<F>(s.begin(), s.end());
}
template <typename F> static Domain cube(const std::string& nm, const std::vector<F>& v) { Domain d = list(nm, bitsof(v)); return product(nm + "^3", {d, d, d}); }
template <typename F> static Domain surface8() {   // the 8-bit colours c/255 on the surface of the RGB cube
  std::vector<uint64_t> flat; for (int r = 0; r < 256; ++r) for (int g = 0; g < 256; ++g) for (int b = 0; b < 256; ++b) { if (!(r == 0 || r == 255 || g == 0 || g == 255 || b == 0 || b == 255)) { b = 254; continue; }
    flat.push_back(FT<F>::bits((F)r / 255)); flat.push_back(FT<F>::bits((F)g / 255)); flat.push_back(FT<F>::bits((F)b / 255)); }
  return rows("RGB8 cube surface (c/255)", 3, flat, true);
}
template <typename F> static void all_rgb8(uint64_t i, uint64_t* w) { w[0] = FT<F>::bits((F)((i >> 16) & 255) / 255); w[1] = FT<F>::bits((F)((i >> 8) & 255) / 255); w[2] = FT<F>::bits((F)(i & 255) / 255); }
template <typename F> static Domain hue_domain(unsigned n, unsigned nsv) {
  std::set<F> hs; for (unsigned k = 0; k < n; ++k) hs.insert((F)(360.0 * k / n));
  for (int k = 0; k <= 6; ++k) { F hb = (F)(60 * k), a = hb, b = hb; if (k < 6) hs.insert(hb); for (int i = 0; i < 2; ++i) { a = prv(a); b = nxt(b); if (a >= 0) hs.insert(a); if (b < 360) hs.insert(b); } }
  std::set<F> svs; for (unsigned k = 0; k <= nsv; ++k) svs.insert((F)((double)k / nsv)); for (unsigned k = 0; k <= 10; ++k) svs.insert((F)((double)k / 10));   // dyadic and non-dyadic levels
  std::vector<F> h(hs.begin(), hs.end()), sv(svs.begin(), svs.end());
  Domain dh = list("HUE(360k/" + std::to_string(n) + ", sector boundaries +-2ulp)", bitsof(h)), ds = list("SV(k/" + std::to_string(nsv) + ", k/10)", bitsof(sv));
  return product(dh.name + " x SV^2", {dh, ds, ds});
}
static std::vector<uint64_t> depth16_values(unsigned n) {   // lattice of 16-bit levels plus byte/half/full-scale edges
  std::set<uint64_t> s; for (unsigned k = 0; k <= n; ++k) s.insert((uint64_t)((65535ull * k + n / 2) / n));
  for (uint64_t e : {0ull, 1ull, 2ull, 3ull, 127ull, 128ull, 254ull, 255ull, 256ull, 257ull, 32766ull, 32767ull, 32768ull, 32769ull, 65533ull, 65534ull, 65535ull, 0x5555ull, 0xAAAAull, 0x00FFull, 0xFF00ull}) s.insert(e);
  return std::vector<uint64_t>(s.begin(), s.end());
}

template <int L, typename F> static void reg_srgb(Engine& E, const char* tn, const Domain& pq, const Domain& pt, const Domain& gq, const Domain& gt, bool allfloats) {
  const std::string t = std::string("vec") + std::to_string(L) + "<" + tn + ">"; const std::vector<std::string> cl = {"x below 0.0031308", "x in [0.0031308, 0.04045]", "x above 0.04045"};
  { Op& op = E.add("convertLinearToSRGB/convertSRGBToLinear " + t + " default gamma", op_srgb<L, F, false>); op.quick = {pq}; op.thorough = {pt}; op.classes = cl;
    if (allfloats) op.thorough.push_back(func("every pair of consecutive floats in [0,1]", 0x3f800000ull, 2, all_float_pairs, true)); }
  { Op& op = E.add("convertLinearToSRGB/convertSRGBToLinear " + t + " explicit gamma", op_srgb<L, F, true>); op.quick = {product(pq.name + " x " + gq.name, {pq, gq})}; op.thorough = {product(pt.name + " x " + gt.name, {pt, gt})}; op.classes = cl; }
  // the other qualifiers run the same generic code and owe the same results; the one deliberate approximation, convertLinearToSRGB(vec<3, float, lowp>) with the
  // default gamma (Ian Taylor's sqrt fit), is not held to the curve and is left out
  { Op& op = E.add("convertLinearToSRGB/convertSRGBToLinear " + t + " mediump, default gamma", op_srgb<L, F, false, glm::mediump>); op.quick = {pq}; op.classes = cl; }
  if (!(L == 3 && sizeof(F) == 4)) { Op& op = E.add("convertLinearToSRGB/convertSRGBToLinear " + t + " lowp, default gamma", op_srgb<L, F, false, glm::lowp>); op.quick = {pq}; op.classes = cl; }
  { Op& op = E.add("convertLinearToSRGB/convertSRGBToLinear " + t + " lowp, explicit gamma", op_srgb<L, F, true, glm::lowp>); op.quick = {product(pq.name + " x " + gq.name, {pq, gq})}; op.classes = cl; }
}
template <typename F> static void reg_float(Engine& E, const char* tn, bool allfloats) {
  const std::string t = tn;
  std::vector<uint64_t> gq, gt; for (double g : {1.0, 1.8, 2.2, 2.4, 3.0}) { gq.push_back(b64(g)); gt.push_back(b64(g)); } for (int k = 0; k <= 32; ++k) gt.push_back(b64(1.0 + k / 16.0));
  const Domain dgq = list("GAMMA{1,1.8,2.2,2.4,3}", gq, false), dgt = list("GAMMA{1+k/16, 1.8, 2.2, 2.4}", gt, false);
  const Domain pq = srgb_pairs<F>(16384, 16384), pt = srgb_pairs<F>(65536, 65536);
  reg_srgb<1, F>(E, tn, pq, pt, dgq, dgt, allfloats); reg_srgb<2, F>(E, tn, pq, pt, dgq, dgt, false); reg_srgb<3, F>(E, tn, pq, pt, dgq, dgt, false); reg_srgb<4, F>(E, tn, pq, pt, dgq, dgt, false);
  const Domain lat = cube<F>("LATTICE(k/16 with both float neighbours)", lattice_nb<F>(16, true)), latt = cube<F>("LATTICE(k/64 with both float neighbours)", lattice_nb<F>(64, true));
  { Op& op = E.add("rgbColor(hsvColor(rgb)) <" + t + ">", op_hsv_of_rgb<F>); const Domain all8 = func("all 2^24 8-bit colours c/255", 1ull << 24, 3, all_rgb8<F>, true);
    if (allfloats) op.quick = {all8, lat}; else op.quick = {surface8<F>(), lat}; op.thorough = {all8, latt}; op.classes = {"grey", "red is max", "green is max", "blue is max"}; }
  { Op& op = E.add("hsvColor(rgbColor(hsv)) <" + t + ">", op_rgb_of_hsv<F>); op.quick = {hue_domain<F>(3600, 8)}; op.thorough = {hue_domain<F>(36000, 16)};
    op.classes = {"achromatic", "sector 0", "sector 1", "sector 2", "sector 3", "sector 4", "sector 5"}; }
  { Op& op = E.add("rgb2YCoCg/YCoCg2rgb, rgb2YCoCgR/YCoCgR2rgb <" + t + ">", op_ycocg_float<F>); op.quick = {lat}; op.thorough = {latt}; op.classes = {"grey", "coloured"}; }
  // saturation / luminosity: 17^3 lattice and the 256-level grey ramp
  { std::vector<F> l17 = lattice_nb<F>(16, false); std::vector<uint64_t> flat;
    for (F r : l17) for (F g : l17) for (F b : l17) { flat.push_back(FT<F>::bits(r)); flat.push_back(FT<F>::bits(g)); flat.push_back(FT<F>::bits(b)); }
    for (int k = 0; k < 256; ++k) for (int j = 0; j < 3; ++j) flat.push_back(FT<F>::bits((F)k / 255));
    const Domain col = rows("LATTICE(k/16)^3 + grey ramp k/255", 3, flat);
    std::vector<F> sv; for (double s : {0.0, 0.25, 0.5, 0.75, 1.0, 1.5, 2.0, -0.5}) sv.push_back((F)s);
    { Op& op = E.add("saturation <" + t + ">", op_saturation<F>); op.quick = {product(col.name + " x S{0,.25,.5,.75,1,1.5,2,-.5}", {col, list("S", bitsof(sv))})}; op.classes = {"grey", "coloured"}; }
    { Op& op = E.add("luminosity <" + t + ">", op_luminosity<F>); op.quick = {col}; op.classes = {"grey", "coloured"}; } }
}
template <typename T> static void reg_int(Engine& E, const char* tn, int depth) {
  const std::string t = tn; Op& op = E.add(std::string("YCoCgR2rgb(rgb2YCoCgR(c)) <") + t + "> " + std::to_string(depth) + "-bit colours", op_ycocgr_int<T>);
  op.classes = {"r < b", "r == b", "r > b"};
  if (depth <= 8) { Domain lv = range("LEVEL" + std::to_string(depth), 0, 1ull << depth, true); op.quick = {product("all 2^" + std::to_string(3 * depth) + " " + std::to_string(depth) + "-bit RGB triples", {lv, lv, lv})}; }
  else { Domain q = list("LEVEL16(65535k/64 + edges)", depth16_values(64)), th = list("LEVEL16(65535k/256 + edges)", depth16_values(256));
    op.quick = {product(q.name + "^3", {q, q, q})}; op.thorough = {product(th.name + "^3", {th, th, th})}; }
}

int main(int argc, char** argv) {
  Engine E; E.property = "C19"; E.kf_ids = {"KF-C19-srgb-explicit-gamma-toe", "KF-C19-hsv-hue-360"};
  E.assumptions = {"sRGB round-trip tolerance 4*(2.4e-5/e)+64u: the encoder exponent 0.41666 is 1/2.4 to five decimals, so dec(enc(x)) = x^(1-e), e <= 2.4e-5",
                   "default qualifier only (the lowp vec3<float> convertLinearToSRGB approximation is not claimed by the property)",
                   "luminosity: documented ratios (0.33,0.59,0.11) take precedence over grey preservation (they sum to 1.03)",
                   "grey colours: hue is not constrained (statement: hue in [0,360) for non-grey colours)"};
  // integer YCoCg-R: the element types whose range is the colour depth (u8, u16), and wider / signed carriers of 8- and 16-bit data
  reg_int<glm::uint8>(E, "u8", 8); reg_int<glm::int16>(E, "i16", 8); reg_int<glm::uint16>(E, "u16", 8); reg_int<glm::int32>(E, "i32", 8); reg_int<glm::uint32>(E, "u32", 8); reg_int<glm::int64>(E, "i64", 8);
  reg_int<glm::int8>(E, "i8", 7);
  reg_int<glm::uint16>(E, "u16", 16); reg_int<glm::int32>(E, "i32", 16); reg_int<glm::uint32>(E, "u32", 16); reg_int<glm::int64>(E, "i64", 16);
  reg_float<float>(E, "float", true); reg_float<double>(E, "double", false);
  return E.main(argc, argv);
}
