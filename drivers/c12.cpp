// C12 — geometric functions satisfy Euclidean identities on vec1..4 (float, double) and the scalar genType overloads.
// Every domain is an explicit finite set of vectors (small-integer grids, TAG vectors, 2^+-20 scalings, unit vectors on an
// angle ladder, lane-wise ulp nudges of parallel / antiparallel pairs); references are evaluated in the next wider type
// from the formulas of the statement, tolerances are c*u*sum|terms| with c derived from the formula (factor 4 safety).
#define GLM_ENABLE_EXPERIMENTAL
#include <glm/glm.hpp>
#include <glm/gtc/vec1.hpp>
#include <glm/gtx/norm.hpp>
#include <glm/gtx/projection.hpp>
#include <glm/gtx/perpendicular.hpp>
#include <glm/gtx/orthonormalize.hpp>
#include <glm/gtx/vector_angle.hpp>
#include <glm/gtx/closest_point.hpp>
#include <glm/gtx/normal.hpp>
#include <glm/gtx/exterior_product.hpp>
#include <glm/gtx/mixed_product.hpp>
#include "glmx.hpp"
#include <cfloat>
#include <climits>
using namespace glmx;

enum { KF_SCALAR_REFRACT_NAN = 0 };

// LE(err, tol): tolerance comparison; a -DC12_MEASURE build records the largest err/tol per comparison site (development aid only)
#ifdef C12_MEASURE
static double g_ratio[256]; static const char* g_site[256];
template <typename A, typename B> static inline bool le_rec(A a, B b, int id, const char* txt) { double r = b > 0 ? (double)(a / b) : (a == 0 ? 0.0 : 1e300); if (r > g_ratio[id]) { g_ratio[id] = r; g_site[id] = txt; } return a <= b; }
#define LE(a, b) le_rec((a), (b), __COUNTER__, #a " <= " #b)
#else
#define LE(a, b) ((a) <= (b))
#endif
template <typename F> struct FT;
template <> struct FT<float> { typedef double W; enum { MANT = 24 }; static float get(uint64_t b) { return f32(b); } static uint64_t bits(float f) { return b32(f); }
  static double u() { return 5.9604644775390625e-8; } static double lo2() { return std::ldexp((double)FLT_MIN, 30); } static double hi2() { return (double)FLT_MAX / 64; } };
template <> struct FT<double> { typedef long double W; enum { MANT = 53 }; static double get(uint64_t b) { return f64(b); } static uint64_t bits(double f) { return b64(f); }
  static long double u() { return 1.1102230246251565404e-16L; } static long double lo2() { return std::ldexp((long double)DBL_MIN, 60); } static long double hi2() { return (long double)DBL_MAX / 64; } };
#define TW typedef typename FT<F>::W W; const W u = FT<F>::u(); (void)u
template <typename F> static inline bool finite(F x) { return x - x == 0; }
template <typename F, int L> static inline glm::vec<L, F> ld(const uint64_t* w) { glm::vec<L, F> v; for (int k = 0; k < L; ++k) v[k] = FT<F>::get(w[k]); return v; }
// squared norm in the wide type; in-domain = finite and (zero or squared norm neither overflows nor underflows)
template <typename F, int L> static inline typename FT<F>::W n2(const glm::vec<L, F>& v) { typename FT<F>::W s = 0; for (int k = 0; k < L; ++k) s += (typename FT<F>::W)v[k] * v[k]; return s; }
template <typename F> static inline bool n2ok(typename FT<F>::W s) { return s == 0 || (s >= FT<F>::lo2() && s <= FT<F>::hi2()); }
template <typename F, int L> static inline bool dom(const glm::vec<L, F>& v) { for (int k = 0; k < L; ++k) if (!finite(v[k])) return false; return n2ok<F>(n2<F, L>(v)); }
template <typename F, int L> static inline void rec(Outcome& o, const glm::vec<L, F>& g) { for (int k = 0; k < L; ++k) o.got[k] = FT<F>::bits(g[k]); o.ngot = L; }
template <typename F, int L, typename WV> static inline void recw(Outcome& o, const WV* w) { for (int k = 0; k < L; ++k) o.want[k] = FT<F>::bits((F)w[k]); o.nwant = L; }
template <typename F> static inline void rec1(Outcome& o, F g, typename FT<F>::W w) { o.res(FT<F>::bits(g)); o.exp(FT<F>::bits((F)w)); }
template <typename W> static inline W aW(W x) { return x < 0 ? -x : x; }

// ------------------------------------------------------------------------------------------------ vector sets
static const long double TAGS[6][4] = {{2, 3, 5, 7}, {11, 13, 17, 19}, {-3, 5, -7, 11}, {0.1L, -0.7L, 1.0L / 3, 0.9L}, {1.5L, -0.25L, 3.75L, -6.5L}, {1, -2, 2, -1}};
template <typename F> static void push(std::vector<uint64_t>& r, const long double* v, int L, long double s = 1) { for (int k = 0; k < L; ++k) r.push_back(FT<F>::bits((F)((F)v[k] * (F)s))); }
static Domain dedup_rows(const std::string& name, int words, const std::vector<uint64_t>& flat) {
  std::set<std::vector<uint64_t>> seen; std::vector<uint64_t> out;
  for (size_t i = 0; i + words <= flat.size(); i += words) { std::vector<uint64_t> row(flat.begin() + i, flat.begin() + i + words); if (seen.insert(row).second) out.insert(out.end(), row.begin(), row.end()); }
  return rows(name, words, out);
}
// GRID(A)^L u TAG vectors u 2^+-20 scalings
template <typename F> static Domain vset(int L, const std::vector<long double>& A, bool scaled, const std::string& name) {
  std::vector<uint64_t> r; uint64_t n = 1; for (int k = 0; k < L; ++k) n *= A.size();
  for (uint64_t i = 0; i < n; ++i) { long double v[4]; uint64_t t = i; for (int k = L - 1; k >= 0; --k) { v[k] = A[t % A.size()]; t /= A.size(); } push<F>(r, v, L); }
  for (int t = 0; t < 6; ++t) push<F>(r, TAGS[t], L);
  if (scaled) for (int t = 0; t < 6; ++t) { if (t == 4) continue; push<F>(r, TAGS[t], L, 1048576.0L); push<F>(r, TAGS[t], L, 1.0L / 1048576.0L); }
  return dedup_rows(name + "(" + std::to_string(L) + ")", L, r);
}
template <typename F> static Domain VSET(int L) { return vset<F>(L, {-2, -1, 0, 1, 2}, true, "{-2..2}^L+TAG+2^+-20"); }
template <typename F> static Domain VSUB(int L) { return vset<F>(L, {-1, 0, 2}, true, "{-1,0,2}^L+TAG+2^+-20"); }
template <typename F> static Domain VTAG(int L) { return vset<F>(L, {1}, true, "TAG+2^+-20"); }
// unit vectors: normalised {-1,0,1}^L, TAGs, angle ladders in the (0,1) and (0,L-1) planes (normalised in long double, rounded once)
template <typename F> static Domain UNIT(int L, bool fine) {
  std::vector<uint64_t> r; auto addn = [&](const long double* v) { long double s = 0; for (int k = 0; k < L; ++k) s += v[k] * v[k]; if (s == 0) return; s = sqrtl(s); long double q[4]; for (int k = 0; k < L; ++k) q[k] = v[k] / s; push<F>(r, q, L); };
  uint64_t n = 1; for (int k = 0; k < L; ++k) n *= 3;
  for (uint64_t i = 0; i < n; ++i) { long double v[4]; uint64_t t = i; for (int k = L - 1; k >= 0; --k) { v[k] = (long double)(t % 3) - 1; t /= 3; } addn(v); }
  for (int t = 0; t < 4; ++t) addn(TAGS[t]);
  if (L >= 2) { const long double pi = 3.14159265358979323846264338327950288L; std::vector<long double> th; int steps = fine ? 96 : 24;
    for (int k = 0; k < steps; ++k) th.push_back(2 * pi * k / steps);
    for (int j = 1; j <= (fine ? 7 : 4); ++j) { long double e = powl(10.0L, -j); th.push_back(e); th.push_back(pi / 2 - e); th.push_back(pi / 2 + e); th.push_back(pi - e); th.push_back(-e); }
    for (long double t : th) { long double v[4] = {cosl(t), 0, 0, 0}; v[1] = sinl(t); addn(v); if (L >= 3) { long double w[4] = {cosl(t), 0, 0, 0}; w[L - 1] = sinl(t); addn(w); } } }
  return dedup_rows(std::string(fine ? "UNITfine" : "UNIT") + "(" + std::to_string(L) + ")", L, r);
}
// nearly degenerate pairs: b = s*a with one lane moved by k ulps (s in {1,-1,2,-0.5}: parallel / antiparallel), both orders
template <typename F> static F nudge(F x, int k) { F t = k > 0 ? std::numeric_limits<F>::infinity() : -std::numeric_limits<F>::infinity(); for (int i = 0; i < (k < 0 ? -k : k); ++i) x = std::nextafter(x, t); return x; }
template <typename F> static Domain NEAR(int L) {
  std::vector<uint64_t> r; const long double ones[4] = {1, 1, 1, 1}; const long double* bases[6] = {TAGS[0], TAGS[2], TAGS[3], TAGS[4], TAGS[5], ones};
  const long double sc[3] = {1, 1048576.0L, 1.0L / 1048576.0L}; const long double fs[4] = {1, -1, 2, -0.5L}; const int ks[10] = {1, -1, 2, -2, 3, -3, 17, -17, 1024, -1024};
  for (int bi = 0; bi < 6; ++bi) for (int si = 0; si < 3; ++si) for (int fi = 0; fi < 4; ++fi) for (int lane = 0; lane < L; ++lane) for (int ki = 0; ki < 10; ++ki) {
    F a[4], b[4]; for (int k = 0; k < L; ++k) { a[k] = (F)((F)bases[bi][k] * (F)sc[si]); b[k] = (F)(a[k] * (F)fs[fi]); } b[lane] = nudge<F>(b[lane], ks[ki]);
    for (int k = 0; k < L; ++k) r.push_back(FT<F>::bits(a[k])); for (int k = 0; k < L; ++k) r.push_back(FT<F>::bits(b[k]));
    for (int k = 0; k < L; ++k) r.push_back(FT<F>::bits(b[k])); for (int k = 0; k < L; ++k) r.push_back(FT<F>::bits(a[k])); }
  return dedup_rows("NEAR(b = s*a +- k ulp in one lane)(" + std::to_string(L) + ")", 2 * L, r);
}
// ------------------------------------------------------------------------------------------------ dot / length / distance
// gamma bounds (x4 safety): dot L*u*S ; length (L/2+1)u ; distance ((L+2)/2+1)u ; length2 L*u ; distance2 (L+2)u
template <typename F, int L> static void op_dot(const Case& c, Outcome& o) {
  TW; auto a = ld<F, L>(c.w), b = ld<F, L>(c.w + L); if (!dom<F, L>(a) || !dom<F, L>(b)) { o.nontrivial = false; return; }
  W d = 0, S = 0, aa = n2<F, L>(a), dd = 0; for (int k = 0; k < L; ++k) { W p = (W)a[k] * (W)b[k]; d += p; S += aW(p); W t = (W)a[k] - (W)b[k]; dd += t * t; }
  o.cls(d == 0 ? 0 : 1);
  { F g = glm::dot(a, b); rec1<F>(o, g, d); if (!LE(aW((W)g - d), 4 * L * u * S)) { o.bad(1, "dot(a,b) is not the sum of component products within rounding"); return; } }
  { F g = glm::length(a); W r = std::sqrt(aa); rec1<F>(o, g, r); if (!LE(aW((W)g - r), (2 * L + 4) * u * r)) { o.bad(2, "length(v) != sqrt(dot(v,v)) within rounding"); return; } }
  { F g = glm::length2(a); rec1<F>(o, g, aa); if (!LE(aW((W)g - aa), 4 * L * u * aa)) { o.bad(3, "gtx length2(v) != dot(v,v) within rounding"); return; } }
  if (!n2ok<F>(dd)) return;
  { F g = glm::distance(a, b); W r = std::sqrt(dd); rec1<F>(o, g, r); if (!LE(aW((W)g - r), (2 * L + 8) * u * r)) { o.bad(4, "distance(a,b) != length(a-b) within rounding"); return; } }
  { F g = glm::distance2(a, b); rec1<F>(o, g, dd); if (!LE(aW((W)g - dd), (4 * L + 8) * u * dd)) { o.bad(5, "gtx distance2(a,b) != dot(a-b,a-b) within rounding"); return; } }
}
// gtx/norm on vec3: l1Norm, l2Norm, lMaxNorm, lxNorm (one and two argument forms); word 6 = Depth
template <typename F> static void op_norm3(const Case& c, Outcome& o) {
  TW; auto a = ld<F, 3>(c.w), b = ld<F, 3>(c.w + 3); unsigned p = (unsigned)c.w[6]; if (!dom<F, 3>(a) || !dom<F, 3>(b)) { o.nontrivial = false; return; }
  W l1 = 0, l1d = 0, mx = 0, mxd = 0, aa = n2<F, 3>(a), dd = 0, df[3]; for (int k = 0; k < 3; ++k) { W x = aW((W)a[k]); df[k] = aW((W)b[k] - (W)a[k]); l1 += x; l1d += df[k]; if (x > mx) mx = x; if (df[k] > mxd) mxd = df[k]; dd += df[k] * df[k]; }
  o.cls(p == 2 ? 1 : 0);
  { F g = glm::l1Norm(a); rec1<F>(o, g, l1); if (!LE(aW((W)g - l1), 8 * u * l1)) { o.bad(1, "l1Norm(v) != sum |v_i|"); return; } }
  { F g = glm::l1Norm(a, b); rec1<F>(o, g, l1d); if (!LE(aW((W)g - l1d), 12 * u * l1d)) { o.bad(2, "l1Norm(a,b) != sum |b_i-a_i|"); return; } }
  { F g = glm::l2Norm(a); W r = std::sqrt(aa); rec1<F>(o, g, r); if (!LE(aW((W)g - r), 10 * u * r)) { o.bad(3, "l2Norm(v) != sqrt(dot(v,v))"); return; } }
  if (n2ok<F>(dd)) { F g = glm::l2Norm(a, b); W r = std::sqrt(dd); rec1<F>(o, g, r); if (!LE(aW((W)g - r), 14 * u * r)) { o.bad(4, "l2Norm(a,b) != length(b-a)"); return; } }
  { F g = glm::lMaxNorm(a); rec1<F>(o, g, mx); if (!((W)g == mx)) { o.bad(5, "lMaxNorm(v) != max |v_i|"); return; } }
  { F g = glm::lMaxNorm(a, b); rec1<F>(o, g, mxd); if (!LE(aW((W)g - mxd), 4 * u * mxd)) { o.bad(6, "lMaxNorm(a,b) != max |b_i-a_i|"); return; } }
  // lxNorm = (sum |x_i|^p)^(1/p): pow is assumed faithful (<= 1 ulp); 1/p is rounded, which costs u*|ln S|/p
  const W lo = std::sqrt(FT<F>::lo2()), hi = FT<F>::hi2();
  { W S = 0; bool ok = true; for (int k = 0; k < 3; ++k) { W t = std::pow(aW((W)a[k]), (W)p); if (a[k] != 0 && (t < lo || t > hi)) ok = false; S += t; }
    if (ok) { F g = glm::lxNorm(a, p); W r = S == 0 ? 0 : std::pow(S, 1 / (W)p); rec1<F>(o, g, r); W tol = S == 0 ? 0 : 4 * u * (4 + aW(std::log(S)) / p) * r;
      if (!LE(aW((W)g - r), tol)) { o.bad(7, "lxNorm(v,p) != (sum |v_i|^p)^(1/p)"); return; } } }
  { W S = 0; bool ok = true; for (int k = 0; k < 3; ++k) { W t = std::pow(df[k], (W)p); if (df[k] != 0 && (t < lo || t > hi)) ok = false; S += t; }
    if (ok) { F g = glm::lxNorm(a, b, p); W r = S == 0 ? 0 : std::pow(S, 1 / (W)p); rec1<F>(o, g, r); W tol = S == 0 ? 0 : 4 * u * (6 + aW(std::log(S)) / p) * r;
      if (!LE(aW((W)g - r), tol)) { o.bad(8, "lxNorm(a,b,p) != (sum |b_i-a_i|^p)^(1/p)"); return; } } }
}
// ------------------------------------------------------------------------------------------------ normalize
// v*inversesqrt(dot): dot L*u rel, sqrt+div 2u + L/2 u, product u -> (L/2+3)u per component
template <typename F, int L> static void op_normalize(const Case& c, Outcome& o) {
  TW; auto v = ld<F, L>(c.w); W aa = n2<F, L>(v); if (!dom<F, L>(v) || aa == 0) { o.nontrivial = false; return; }
  W len = std::sqrt(aa), r[L], gg = 0; auto g = glm::normalize(v); rec<F, L>(o, g); for (int k = 0; k < L; ++k) { r[k] = (W)v[k] / len; gg += (W)g[k] * g[k]; } recw<F, L>(o, r);
  o.cls(aW(aa - 1) <= 4 * u ? 0 : 1);
  for (int k = 0; k < L; ++k) if (!LE(aW((W)g[k] - r[k]), (2 * L + 12) * u * aW(r[k]))) { o.bad(1, "normalize(v) != v/length(v) within rounding"); return; }
  if (!LE(aW(std::sqrt(gg) - 1), (2 * L + 12) * u)) { o.bad(2, "normalize(v) is not of unit length"); return; }
  for (int k = 0; k < L; ++k) if ((v[k] > 0 && !(g[k] > 0)) || (v[k] < 0 && !(g[k] < 0)) || (v[k] == 0 && !(g[k] == 0))) { o.bad(3, "normalize(v) is not a positive multiple of v"); return; }
}
// ------------------------------------------------------------------------------------------------ cross products
template <typename F> static void op_cross3(const Case& c, Outcome& o) {
  TW; auto a = ld<F, 3>(c.w), b = ld<F, 3>(c.w + 3); if (!dom<F, 3>(a) || !dom<F, 3>(b)) { o.nontrivial = false; return; }
  W r[3], m[3]; for (int i = 0; i < 3; ++i) { int j = (i + 1) % 3, k = (i + 2) % 3; W p = (W)a[j] * b[k], q = (W)b[j] * a[k]; r[i] = p - q; m[i] = aW(p) + aW(q); }
  auto g = glm::cross(a, b), h = glm::cross(b, a); rec<F, 3>(o, g); recw<F, 3>(o, r); o.cls(r[0] == 0 && r[1] == 0 && r[2] == 0 ? 0 : 1);
  for (int i = 0; i < 3; ++i) if (!LE(aW((W)g[i] - r[i]), 8 * u * m[i])) { o.bad(1, "cross(a,b) is not the determinant formula within rounding"); return; }
  W da = 0, db = 0, ta = 0, tb = 0; for (int i = 0; i < 3; ++i) { da += (W)g[i] * a[i]; db += (W)g[i] * b[i]; ta += aW((W)a[i]) * m[i]; tb += aW((W)b[i]) * m[i]; }
  if (!LE(aW(da), 8 * u * ta)) { o.bad(2, "cross(a,b) is not orthogonal to a"); return; }
  if (!LE(aW(db), 8 * u * tb)) { o.bad(3, "cross(a,b) is not orthogonal to b"); return; }
  for (int i = 0; i < 3; ++i) if (!(g[i] == -h[i])) { o.bad(4, "cross(a,b) != -cross(b,a)"); return; }
}
template <typename F> static void op_cross2(const Case& c, Outcome& o) {
  TW; auto a = ld<F, 2>(c.w), b = ld<F, 2>(c.w + 2); if (!dom<F, 2>(a) || !dom<F, 2>(b)) { o.nontrivial = false; return; }
  W p = (W)a[0] * b[1], q = (W)b[0] * a[1], r = p - q; F g = glm::cross(a, b), h = glm::cross(b, a); rec1<F>(o, g, r); o.cls(r == 0 ? 0 : 1);
  if (!LE(aW((W)g - r), 8 * u * (aW(p) + aW(q)))) { o.bad(1, "gtx cross(vec2,vec2) != a.x*b.y - b.x*a.y"); return; }
  if (!(g == -h)) { o.bad(2, "gtx cross(vec2 a,b) != -cross(b,a)"); return; }
}
// mixedProduct = det[a b c] (cross 2u, product u, two sums 2u -> 5u, c = 16 is 3.2x that bound); triangleNormal
template <typename F> static void op_triple(const Case& c, Outcome& o) {
  TW; auto a = ld<F, 3>(c.w), b = ld<F, 3>(c.w + 3), d = ld<F, 3>(c.w + 6); if (!dom<F, 3>(a) || !dom<F, 3>(b) || !dom<F, 3>(d)) { o.nontrivial = false; return; }
  W det = 0, S = 0; for (int i = 0; i < 3; ++i) { int j = (i + 1) % 3, k = (i + 2) % 3; W p = (W)a[j] * b[k] * d[i], q = (W)b[j] * a[k] * d[i]; det += p - q; S += aW(p) + aW(q); }
  { F g = glm::mixedProduct(a, b, d); rec1<F>(o, g, det); if (!LE(aW((W)g - det), 16 * u * S)) { o.bad(1, "mixedProduct(a,b,c) != dot(cross(a,b),c) = det[a b c]"); return; } }
  // triangleNormal(p1,p2,p3) = normalize(cross(p1-p2, p1-p3)) for non-degenerate triangles
  W e1[3], e2[3], n[3], m[3], nn = 0, mm = 0, s1 = 0, s2 = 0; for (int i = 0; i < 3; ++i) { e1[i] = (W)a[i] - b[i]; e2[i] = (W)a[i] - d[i]; s1 += e1[i] * e1[i]; s2 += e2[i] * e2[i]; }
  for (int i = 0; i < 3; ++i) { int j = (i + 1) % 3, k = (i + 2) % 3; W p = e1[j] * e2[k], q = e2[j] * e1[k]; n[i] = p - q; m[i] = aW(p) + aW(q); nn += n[i] * n[i]; mm += m[i] * m[i]; }
  if (nn == 0 || !n2ok<F>(s1) || !n2ok<F>(s2) || !n2ok<F>(nn) || mm > nn * 1048576) { o.cls(0); return; }
  o.cls(1); W len = std::sqrt(nn), tol = 4 * u * (3 + 8 * std::sqrt(mm / nn)), r[3]; auto g = glm::triangleNormal(a, b, d); rec<F, 3>(o, g); for (int i = 0; i < 3; ++i) r[i] = n[i] / len; recw<F, 3>(o, r);
  for (int i = 0; i < 3; ++i) if (!LE(aW((W)g[i] - r[i]), tol)) { o.bad(2, "triangleNormal is not the unit normal of the triangle (right-handed)"); return; }
  W o1 = 0, o2 = 0, a1 = 0, a2 = 0; for (int i = 0; i < 3; ++i) { o1 += (W)g[i] * e1[i]; o2 += (W)g[i] * e2[i]; a1 += aW(e1[i]); a2 += aW(e2[i]); }
  if (!LE(aW(o1), tol * a1) || !LE(aW(o2), tol * a2)) { o.bad(3, "triangleNormal is not orthogonal to the triangle edges"); return; }
}
// ------------------------------------------------------------------------------------------------ reflect
// I - 2 dot(N,I) N : dot L*u*S, product u, subtraction u -> (L+2)u*T_i with T_i = |I_i| + 2|N_i| S.  For unit N (|N|^2 = 1 +- 4u):
// ||T||_2 <= 3|I|, so |R| and reflect(R,N) are within (3(L+2)+4)u|I| (x4, x2 for the second application) of |I| and I.
template <typename F, int L> static void op_reflect(const Case& c, Outcome& o) {
  TW; auto I = ld<F, L>(c.w), N = ld<F, L>(c.w + L); if (!dom<F, L>(I) || !dom<F, L>(N)) { o.nontrivial = false; return; }
  W d = 0, S = 0, ii = n2<F, L>(I), nn = n2<F, L>(N); for (int k = 0; k < L; ++k) { W p = (W)N[k] * I[k]; d += p; S += aW(p); }
  if (S != 0 && !(S * S * nn <= FT<F>::hi2() && S * S * nn >= FT<F>::lo2() * FT<F>::lo2())) { o.nontrivial = false; return; }
  auto g = glm::reflect(I, N); rec<F, L>(o, g); W r[L]; for (int k = 0; k < L; ++k) r[k] = (W)I[k] - 2 * d * N[k]; recw<F, L>(o, r);
  bool unit = aW(nn - 1) <= 4 * u; o.cls(unit ? 0 : 1);
  for (int k = 0; k < L; ++k) if (!LE(aW((W)g[k] - r[k]), (4 * L + 8) * u * (aW((W)I[k]) + 2 * aW((W)N[k]) * S))) { o.bad(1, "reflect(I,N) != I - 2 dot(N,I) N within rounding"); return; }
  if (!unit) return;
  W li = std::sqrt(ii), tol = 4 * u * (3 * (L + 2) + 4) * li, lg = std::sqrt(n2<F, L>(g));
  if (!LE(aW(lg - li), tol)) { o.bad(2, "reflect(I,N) does not preserve length for unit N"); return; }
  auto h = glm::reflect(g, N); rec<F, L>(o, h); for (int k = 0; k < L; ++k) o.want[k] = FT<F>::bits(I[k]);
  for (int k = 0; k < L; ++k) if (!LE(aW((W)h[k] - (W)I[k]), 2 * tol)) { o.bad(3, "reflect(reflect(I,N),N) != I for unit N"); return; }
}
// ------------------------------------------------------------------------------------------------ faceforward
// sign of dot(Nref,I): decided exactly when every product and every partial sum is exact in F in any summation order (all products
// multiples of a common quantum q, sum|p| < 2^MANT q); otherwise only when |d| exceeds 4 L u S.  Undecided inputs accept N or -N.
template <typename F> static inline int lowbit(F p) { int e; F m = std::frexp(p, &e); long long M = (long long)std::ldexp((double)(m < 0 ? -m : m), FT<F>::MANT); return e - FT<F>::MANT + __builtin_ctzll((unsigned long long)M); }
// error-free transformations: is the F product / sum exact?
template <typename F> static inline bool xmul(F a, F b, F& p) { p = a * b; return finite(p) && std::fma(a, b, -p) == 0 && !(p == 0 && a != 0 && b != 0); }
template <typename F> static inline bool xadd(F a, F b, F& s) { s = a + b; F bb = s - a; return finite(s) && (a - (s - bb)) + (b - bb) == 0; }
template <typename F, int L> static int dotsign(const glm::vec<L, F>& a, const glm::vec<L, F>& b, bool& decided, bool* isexact = nullptr) {
  TW; bool exact = true; int q = INT_MAX; W d = 0, S = 0;
  for (int k = 0; k < L; ++k) { F p = a[k] * b[k]; if (std::fma(a[k], b[k], -p) != 0 || (p == 0 && a[k] != 0 && b[k] != 0)) exact = false; if (p != 0) { int lb = lowbit<F>(p); if (lb < q) q = lb; } W pw = (W)a[k] * (W)b[k]; d += pw; S += aW(pw); }
  if (exact && S != 0 && !(std::ldexp(S, -q) < std::ldexp((W)1, FT<F>::MANT))) exact = false;
  if (isexact) *isexact = exact;
  if (exact) { decided = true; return d < 0 ? -1 : d > 0 ? 1 : 0; }   // d is exact here: W has at least MANT bits
  decided = aW(d) > 4 * L * u * S + L * (W)std::numeric_limits<F>::denorm_min(); return d < 0 ? -1 : 1;   // second term: products that underflow
}
template <typename F, int L> static void op_faceforward(const Case& c, Outcome& o) {
  auto N = ld<F, L>(c.w), I = ld<F, L>(c.w + L), R = ld<F, L>(c.w + 2 * L); for (int k = 0; k < L; ++k) if (!finite(N[k]) || !finite(I[k]) || !finite(R[k])) { o.nontrivial = false; return; }
  bool decided; int s = dotsign<F, L>(R, I, decided); auto g = glm::faceforward(N, I, R); rec<F, L>(o, g);
  if (!decided) { o.cls(3); for (int k = 0; k < L; ++k) if (!(g[k] == N[k]) && !(g[k] == -N[k])) { o.bad(2, "faceforward returns neither N nor -N"); return; } return; }
  o.cls(s < 0 ? 0 : s == 0 ? 1 : 2); for (int k = 0; k < L; ++k) o.want[k] = FT<F>::bits(s < 0 ? N[k] : -N[k]); o.nwant = L;
  for (int k = 0; k < L; ++k) if (!(g[k] == (s < 0 ? N[k] : -N[k]))) { o.bad(1, "faceforward(N,I,Nref) must be N if dot(Nref,I) < 0 and -N otherwise"); return; }
}
// ------------------------------------------------------------------------------------------------ refract
// eta selector: 0..6 fixed ratios, 7..9 the critical ratio 1/sqrt(1-d^2) of this (I,N) pair rounded to F and its two neighbours
template <typename F> static F eta_of(uint64_t sel, typename FT<F>::W d) {
  static const long double fixed[7] = {0.1L, 0.5L, 1 / 1.33L, 1, 1.33L, 2, 3}; if (sel < 7) return (F)fixed[sel];
  typename FT<F>::W s = 1 - d * d; F e = (s > 0 && s >= 1e-4) ? (F)(1 / std::sqrt(s)) : (F)1.5;
  return sel == 7 ? nudge<F>(e, -1) : sel == 9 ? nudge<F>(e, 1) : e;
}
// k = 1 - eta^2 (1 - d^2).  Rounding of the F evaluation of k is bounded by ek; |k| <= 4 ek is the "critical band" in which either
// branch is accepted.  Outside: k < 0 -> exactly the zero vector; k > 0 -> eta I - (eta d + sqrt k) N within rounding.
// For unit I, N additionally Snell's law in vector form: T - (T.N)N = eta (I - (I.N)N), |T| = 1, T.N <= 0.
template <typename F, int L, typename CALL> static void refract_core(const Case& c, Outcome& o, CALL call) {
  TW; auto I = ld<F, L>(c.w), N = ld<F, L>(c.w + L); if (!dom<F, L>(I) || !dom<F, L>(N)) { o.nontrivial = false; return; }
  W d = 0, S = 0, ii = n2<F, L>(I), nn = n2<F, L>(N); for (int k = 0; k < L; ++k) { W p = (W)N[k] * I[k]; d += p; S += aW(p); }
  F etaf = eta_of<F>(c.w[2 * L], d); W eta = etaf; if (!(eta > 0) || !(eta * eta * (1 + S * S) * (1 + nn) <= FT<F>::hi2())) { o.nontrivial = false; return; }
  W omd = 1 - d * d, k = 1 - eta * eta * omd, ek = u * (2 + eta * eta * (4 + 4 * aW(omd) + 2 * L * S * aW(d) + 2 * d * d)), band = 4 * ek;
  // if every intermediate of k is exact in F (in either association of eta*eta*(1-d*d)) the branch is decided exactly: band = 0
  bool dec, ex = false; dotsign<F, L>(N, I, dec, &ex); { F dF = (F)d, t1, t2, t3, t4, t5, t6; ex = ex && xmul<F>(dF, dF, t1) && xadd<F>((F)1, -t1, t2) && xmul<F>(etaf, etaf, t3) && xmul<F>(t3, t2, t4) && xmul<F>(etaf, t2, t5) && xadd<F>((F)1, -t4, t6); }
  if (ex) band = 0;
  glm::vec<L, F> g = call(I, N, etaf); rec<F, L>(o, g); bool zero = true; for (int i = 0; i < L; ++i) if (!(g[i] == 0)) zero = false;
  if (k < -band) { o.cls(1); for (int i = 0; i < L; ++i) o.want[i] = 0; o.nwant = L; if (!zero) { if (L == 1 && g[0] != g[0]) o.kf = -2; o.bad(1, "refract: total internal reflection (k < 0) must return exactly the zero vector"); } return; }
  bool crit = !ex && !(k > band); o.cls(crit ? 2 : 0); if (crit && zero) return;
  W smax = crit ? std::sqrt(k + band + band) : 0, sq = crit ? smax / 2 : std::sqrt(k), sqerr = crit ? smax / 2 : ex ? 0 : band / sq, r[L], tol[L];
  for (int i = 0; i < L; ++i) { r[i] = eta * I[i] - (eta * d + sq) * N[i]; tol[i] = 4 * u * (2 * aW(eta * I[i]) + aW((W)N[i]) * (eta * L * S + 4 * (aW(eta * d) + sq))) + aW((W)N[i]) * sqerr; } recw<F, L>(o, r);
  for (int i = 0; i < L; ++i) if (!(crit ? LE(aW((W)g[i] - r[i]), tol[i]) /* band: by construction up to 1 */ : LE(aW((W)g[i] - r[i]), tol[i]))) { if (L == 1 && crit && g[0] != g[0]) o.kf = -2; o.bad(2, "refract: not eta I - (eta dot(N,I) + sqrt(k)) N within rounding"); return; }
  if (crit || !LE(aW(ii - 1), 4 * u) || !LE(aW(nn - 1), 4 * u)) return;
  W tn = 0, tt = 0, tnt = 0, ttt = 0; for (int i = 0; i < L; ++i) { tn += (W)g[i] * N[i]; tt += (W)g[i] * g[i]; tnt += aW((W)N[i]) * tol[i]; ttt += aW(r[i]) * tol[i]; }
  W scale = eta * (1 + aW(d)) + sq;
  for (int i = 0; i < L; ++i) { W tp = (W)g[i] - tn * N[i], ip = eta * ((W)I[i] - d * N[i]); if (!LE(aW(tp - ip), tol[i] + aW((W)N[i]) * tnt + 8 * u * scale)) { o.bad(3, "refract: Snell's law (eta sin(theta_i) = sin(theta_t), coplanarity) violated for unit I, N"); return; } }
  if (!LE(aW(tt - 1), 2 * ttt + 16 * u * (1 + scale * scale))) { o.bad(4, "refract: refracted vector of unit I, N is not of unit length"); return; }
  if (!(tn <= tnt + 4 * u)) { o.bad(5, "refract: refracted vector does not point away from N"); return; }
}
// ------------------------------------------------------------------------------------------------ proj / perp
// proj = d/nn * n : d abs err L u S, nn rel L u, division u, product u -> u |n_i|/nn (L S + (L+2)|d|) ; perp adds u(|x_i| + |P_i|)
template <typename F, int L> static void op_projperp(const Case& c, Outcome& o) {
  TW; auto x = ld<F, L>(c.w), n = ld<F, L>(c.w + L); W nn = n2<F, L>(n); if (!dom<F, L>(x) || !dom<F, L>(n) || nn == 0) { o.nontrivial = false; return; }
  W d = 0, S = 0; for (int k = 0; k < L; ++k) { W p = (W)x[k] * n[k]; d += p; S += aW(p); } if (S != 0 && !n2ok<F>(S)) { o.nontrivial = false; return; }
  W P[L], Q[L], tp[L], tq[L]; bool par = true; for (int k = 0; k < L; ++k) { P[k] = d / nn * n[k]; Q[k] = (W)x[k] - P[k]; tp[k] = 4 * u * aW((W)n[k]) / nn * (L * S + (L + 3) * aW(d)); tq[k] = tp[k] + 4 * u * (aW((W)x[k]) + aW(P[k])); if (Q[k] != 0) par = false; }
  o.cls(d == 0 ? 0 : par ? 1 : 2);
  auto g = glm::proj(x, n); rec<F, L>(o, g); recw<F, L>(o, P);
  for (int k = 0; k < L; ++k) if (!LE(aW((W)g[k] - P[k]), tp[k])) { o.bad(1, "proj(x,n) != dot(x,n)/dot(n,n) n within rounding"); return; }
  auto h = glm::perp(x, n); rec<F, L>(o, h); recw<F, L>(o, Q);
  for (int k = 0; k < L; ++k) if (!LE(aW((W)h[k] - Q[k]), tq[k])) { o.bad(2, "perp(x,n) != x - proj(x,n) within rounding"); return; }
  W hn = 0, th = 0; for (int k = 0; k < L; ++k) { hn += (W)h[k] * n[k]; th += aW((W)n[k]) * tq[k]; }
  if (!LE(aW(hn), th)) { o.bad(3, "perp(x,n) is not orthogonal to n"); return; }
  for (int k = 0; k < L; ++k) if (!LE(aW((W)g[k] + (W)h[k] - (W)x[k]), tp[k] + tq[k])) { o.bad(4, "proj(x,n) + perp(x,n) != x"); return; }
}
template <typename F, int L> static void op_refract(const Case& c, Outcome& o) { refract_core<F, L>(c, o, [](const glm::vec<L, F>& I, const glm::vec<L, F>& N, F eta) { return glm::refract(I, N, eta); }); if (o.kf == -2) o.kf = -1; }
// scalar genType overload; legacy model of the recorded candidate defect: NaN (sqrt(k) * 0) whenever k < 0
template <typename F> static void op_refract_scalar(const Case& c, Outcome& o) {
  refract_core<F, 1>(c, o, [](const glm::vec<1, F>& I, const glm::vec<1, F>& N, F eta) { return glm::vec<1, F>(glm::refract(I.x, N.x, eta)); });
  if (o.kf == -2) o.kf = KF_SCALAR_REFRACT_NAN;
}
// ------------------------------------------------------------------------------------------------ orthonormalize
// vec3 form, unit y: normalize(x - y dot(y,x)).  Rounding of the difference is ~10u|x| per component, amplified by cond = |x|/|x_perp|.
template <typename F> static void op_orthov(const Case& c, Outcome& o) {
  TW; auto x = ld<F, 3>(c.w), y = ld<F, 3>(c.w + 3); W xx = n2<F, 3>(x), yy = n2<F, 3>(y); if (!dom<F, 3>(x) || xx == 0 || !LE(aW(yy - 1), 4 * u)) { o.nontrivial = false; return; }
  W d = 0; for (int k = 0; k < 3; ++k) d += (W)x[k] * y[k]; W xp[3], pp = 0; for (int k = 0; k < 3; ++k) { xp[k] = (W)x[k] - d / yy * y[k]; pp += xp[k] * xp[k]; }
  if (!(pp * 1048576 >= xx)) { o.cls(0); o.nontrivial = false; return; }   // x (nearly) parallel to y: degenerate
  o.cls(d == 0 ? 1 : 2); W cond = std::sqrt(xx / pp), tol = 4 * u * (10 * cond + 5), len = std::sqrt(pp), r[3]; for (int k = 0; k < 3; ++k) r[k] = xp[k] / len;
  auto g = glm::orthonormalize(x, y); rec<F, 3>(o, g); recw<F, 3>(o, r); W gy = 0, gg = 0, gx = 0; for (int k = 0; k < 3; ++k) { gy += (W)g[k] * y[k]; gg += (W)g[k] * g[k]; gx += (W)g[k] * x[k]; }
  for (int k = 0; k < 3; ++k) if (!LE(aW((W)g[k] - r[k]), tol)) { o.bad(1, "orthonormalize(x,y) != normalize(x - y dot(y,x)) for unit y"); return; }
  if (!LE(aW(gy), 3 * tol)) { o.bad(2, "orthonormalize(x,y) is not orthogonal to y"); return; }
  if (!LE(aW(std::sqrt(gg) - 1), 3 * tol)) { o.bad(3, "orthonormalize(x,y) is not of unit length"); return; }
  if (!(gx > 0)) { o.bad(4, "orthonormalize(x,y) does not keep the side of x"); return; }
}
// mat3 form: Gram-Schmidt of the columns.  cond = max |c_j| / |c_j perpendicular to the previous columns|; errors of q1 feed into q2 -> cond^2
template <typename F> static void op_orthom(const Case& c, Outcome& o) {
  TW; glm::mat<3, 3, F> m; W cw[3][3]; for (int j = 0; j < 3; ++j) { auto v = ld<F, 3>(c.w + 3 * j); if (!dom<F, 3>(v)) { o.nontrivial = false; return; } m[j] = v; for (int k = 0; k < 3; ++k) cw[j][k] = v[k]; }
  W q[3][3], cond = 1; for (int j = 0; j < 3; ++j) { W t[3] = {cw[j][0], cw[j][1], cw[j][2]}, cc = 0, pp = 0; for (int k = 0; k < 3; ++k) cc += t[k] * t[k];
    for (int i = 0; i < j; ++i) { W dd = 0; for (int k = 0; k < 3; ++k) dd += q[i][k] * cw[j][k]; for (int k = 0; k < 3; ++k) t[k] -= dd * q[i][k]; }
    for (int k = 0; k < 3; ++k) pp += t[k] * t[k]; if (cc == 0 || !(pp * 65536 >= cc)) { o.cls(0); o.nontrivial = false; return; }   // singular / nearly singular
    W len = std::sqrt(pp); for (int k = 0; k < 3; ++k) q[j][k] = t[k] / len; W cj = std::sqrt(cc / pp); if (cj > cond) cond = cj; }
  o.cls(cond == 1 ? 1 : 2); W tol = 4 * u * (16 * cond * cond + 8); auto r = glm::orthonormalize(m);
  for (int j = 0; j < 3; ++j) for (int k = 0; k < 3; ++k) { o.got[3 * j + k] = FT<F>::bits(r[j][k]); o.want[3 * j + k] = FT<F>::bits((F)q[j][k]); } o.ngot = o.nwant = 9;
  for (int i = 0; i < 3; ++i) for (int j = 0; j < 3; ++j) { W gij = 0; for (int k = 0; k < 3; ++k) gij += (W)r[i][k] * r[j][k]; if (!LE(aW(gij - (i == j ? 1 : 0)), 3 * tol)) { o.bad(1, "orthonormalize(mat3): columns are not orthonormal"); return; } }
  for (int j = 0; j < 3; ++j) for (int k = 0; k < 3; ++k) if (!LE(aW((W)r[j][k] - q[j][k]), tol)) { o.bad(2, "orthonormalize(mat3) is not the Gram-Schmidt basis of the columns"); return; }
}
// ------------------------------------------------------------------------------------------------ angle / orientedAngle (unit arguments)
// compared through the cosine (well conditioned): dot L u, |x||y| = 1 +- 4u, acos + final rounding 2u -> (L+6)u, x4
template <typename F, int L> static bool angle_ok(const glm::vec<L, F>& x, const glm::vec<L, F>& y, F got) {
  TW; W d = 0; for (int k = 0; k < L; ++k) d += (W)x[k] * y[k]; W cr = d / std::sqrt(n2<F, L>(x) * n2<F, L>(y)); if (cr > 1) cr = 1; if (cr < -1) cr = -1;
  const W pi = 3.14159265358979323846264338327950288L; W a = aW((W)got); return a <= pi * (1 + 2 * u) && LE(aW(std::cos(a) - cr), 4 * (L + 6) * u);
}
template <typename F, int L> static void op_angle(const Case& c, Outcome& o) {
  TW; auto x = ld<F, L>(c.w), y = ld<F, L>(c.w + L); if (!LE(aW(n2<F, L>(x) - 1), 4 * u) || !LE(aW(n2<F, L>(y) - 1), 4 * u)) { o.nontrivial = false; return; }
  W d = 0; for (int k = 0; k < L; ++k) d += (W)x[k] * y[k]; o.cls(aW(d) >= 1 - 8 * u ? 0 : d == 0 ? 1 : 2);
  F g = glm::angle(x, y); rec1<F>(o, g, std::acos(d > 1 ? (W)1 : d < -1 ? (W)-1 : d)); if (!(g >= 0) || !angle_ok<F, L>(x, y, g)) { o.bad(1, "angle(x,y) is not the angle in [0,pi] between the unit vectors"); return; }
  if (L == 2) { glm::vec<2, F> x2(x[0], x[L - 1]), y2(y[0], y[L - 1]), yr(y[L - 1], -y[0]); F h = glm::orientedAngle(x2, y2); o.res(FT<F>::bits(h));
    if (!angle_ok<F, 2>(x2, y2, h)) { o.bad(2, "|orientedAngle(x,y)| is not the angle between the unit vectors"); return; }
    bool dec; int s = dotsign<F, 2>(x2, yr, dec);   // x.x*y.y - x.y*y.x
    if (dec && s != 0 && !((W)h * s >= 0)) { o.bad(3, "orientedAngle(vec2): sign is not that of the rotation from x to y"); return; } }
}
template <typename F> static void op_oangle3(const Case& c, Outcome& o) {
  TW; auto x = ld<F, 3>(c.w), y = ld<F, 3>(c.w + 3), r = ld<F, 3>(c.w + 6); if (!LE(aW(n2<F, 3>(x) - 1), 4 * u) || !LE(aW(n2<F, 3>(y) - 1), 4 * u) || !dom<F, 3>(r)) { o.nontrivial = false; return; }
  W det = 0, S = 0; for (int i = 0; i < 3; ++i) { int j = (i + 1) % 3, k = (i + 2) % 3; W p = (W)x[j] * y[k] * r[i], q = (W)y[j] * x[k] * r[i]; det += p - q; S += aW(p) + aW(q); }
  F h = glm::orientedAngle(x, y, r); o.res(FT<F>::bits(h)); bool dec = aW(det) > 16 * u * S; o.cls(!dec ? 2 : det < 0 ? 0 : 1);
  if (!angle_ok<F, 3>(x, y, h)) { o.bad(1, "|orientedAngle(x,y,ref)| is not the angle between the unit vectors"); return; }
  if (dec && !((W)h * (det < 0 ? -1 : 1) >= 0)) { o.bad(2, "orientedAngle(x,y,ref): sign is not that of dot(ref, cross(x,y))"); return; }
}
// ------------------------------------------------------------------------------------------------ closestPointOnLine
// interior projections must be the orthogonal projection on the line a-b; outside [a,b] the end point (segment reading, what the
// code documents in its comments) or the projection on the unbounded line (header wording) are both accepted.
template <typename F, int L> static void op_closest(const Case& c, Outcome& o) {
  TW; auto p = ld<F, L>(c.w), a = ld<F, L>(c.w + L), b = ld<F, L>(c.w + 2 * L); if (!dom<F, L>(p) || !dom<F, L>(a) || !dom<F, L>(b)) { o.nontrivial = false; return; }
  W dd = 0, vv = 0, t = 0, am = 0, dv[L], vw[L]; for (int k = 0; k < L; ++k) { dv[k] = (W)b[k] - a[k]; vw[k] = (W)p[k] - a[k]; dd += dv[k] * dv[k]; vv += vw[k] * vw[k]; t += dv[k] * vw[k]; if (aW((W)a[k]) > am) am = aW((W)a[k]); }
  if (dd == 0 || !n2ok<F>(dd) || !n2ok<F>(vv)) { o.nontrivial = false; return; }
  t /= dd; W tc = t < 0 ? 0 : t > 1 ? 1 : t, ql[L], qs[L], qm = am; for (int k = 0; k < L; ++k) { ql[k] = a[k] + t * dv[k]; qs[k] = a[k] + tc * dv[k]; if (aW(ql[k]) > qm) qm = aW(ql[k]); }
  o.cls(t <= 0 ? 0 : t >= 1 ? 2 : 1); W tol = 4 * u * ((2 * L + 8) * std::sqrt(vv) + am + qm);
  auto g = glm::closestPointOnLine(p, a, b); rec<F, L>(o, g); recw<F, L>(o, qs); bool oks = true, okl = true;
  for (int k = 0; k < L; ++k) { if (!LE(aW((W)g[k] - qs[k]), tol)) oks = false; if (!LE(aW((W)g[k] - ql[k]), tol)) okl = false; }
  if (!oks && !okl) { o.bad(1, "closestPointOnLine is not the closest point of the line through a and b"); return; }
}
// ------------------------------------------------------------------------------------------------ scalar genType overloads
template <typename F> static void op_scalar(const Case& c, Outcome& o) {
  TW; F x = FT<F>::get(c.w[0]), y = FT<F>::get(c.w[1]), z = FT<F>::get(c.w[2]); if (!finite(x) || !finite(y) || !finite(z)) { o.nontrivial = false; return; }
  W xy = (W)x * y, df = (W)x - y; o.cls(xy == 0 ? 0 : 1);
  { bool dec; int s = dotsign<F, 1>(glm::vec<1, F>(z), glm::vec<1, F>(y), dec); F g = glm::faceforward(x, y, z), w = s < 0 ? x : -x; rec1<F>(o, g, w);
    if (dec ? !(g == w) : !(g == x || g == -x)) { o.bad(6, "scalar faceforward(N,I,Nref) must be N if Nref*I < 0 and -N otherwise"); return; } }
  if (!n2ok<F>((W)x * x) || !n2ok<F>((W)y * y) || !n2ok<F>(df * df)) return;   // remaining identities: squared norms must not underflow
  { F g = glm::dot(x, y); rec1<F>(o, g, xy); if (!LE(aW((W)g - xy), 4 * u * aW(xy))) { o.bad(1, "scalar dot(x,y) != x*y"); return; } }
  { F g = glm::length(x); rec1<F>(o, g, aW((W)x)); if (!((W)g == aW((W)x))) { o.bad(2, "scalar length(x) != |x|"); return; } }
  { F g = glm::distance(x, y); rec1<F>(o, g, aW(df)); if (!LE(aW((W)g - aW(df)), 4 * u * aW(df))) { o.bad(3, "scalar distance(x,y) != |x-y|"); return; } }
  { F g = glm::length2(x); rec1<F>(o, g, (W)x * x); if (!LE(aW((W)g - (W)x * x), 4 * u * (W)x * x)) { o.bad(4, "scalar length2(x) != x*x"); return; } }
  { F g = glm::distance2(x, y); rec1<F>(o, g, df * df); if (!LE(aW((W)g - df * df), 12 * u * df * df)) { o.bad(5, "scalar distance2(x,y) != (x-y)^2"); return; } }
  { F g = glm::reflect(x, y); W r = (W)x - 2 * xy * y, T = aW((W)x) + 2 * aW(xy * y); rec1<F>(o, g, r); if (!LE(aW((W)g - r), 12 * u * T)) { o.bad(7, "scalar reflect(I,N) != I - 2 N I N"); return; }
    if (y == 1 || y == -1) { if (!(g == -x)) { o.bad(8, "scalar reflect(I,+-1) != -I"); return; } if (!(glm::reflect(g, y) == x)) { o.bad(9, "scalar reflect is not an involution for N = +-1"); return; } } }
  if (y != 0) { F g = glm::proj(x, y), h = glm::perp(x, y); rec1<F>(o, g, (W)x);   // proj(x,n) = x*n/(n*n)*n = x, perp = 0
    if (!LE(aW((W)g - (W)x), 16 * u * aW((W)x))) { o.bad(10, "scalar proj(x,n) != x"); return; } if (!LE(aW((W)h), 20 * u * aW((W)x))) { o.res(FT<F>::bits(h)); o.bad(11, "scalar perp(x,n) != 0"); return; } }
  if ((x == 1 || x == -1) && (y == 1 || y == -1)) { F g = glm::angle(x, y); if (!angle_ok<F, 1>(glm::vec<1, F>(x), glm::vec<1, F>(y), g) || !(g >= 0)) { o.res(FT<F>::bits(g)); o.bad(12, "scalar angle(+-1,+-1) is not 0 / pi"); return; } }
}
// ------------------------------------------------------------------------------------------------ registration
// faceforward specials: dot(Nref,I) exactly 0 by cancellation, +-min-subnormal, and one ulp either side of a cancelling pair
template <typename F> static Domain FFSPEC(int L) {
  std::vector<uint64_t> r; const F dm = std::numeric_limits<F>::denorm_min(); const F xs[4] = {(F)1, (F)3, (F)0.1L, (F)1048576};
  auto row = [&](const F* I, const F* R) { for (int k = 0; k < L; ++k) r.push_back(FT<F>::bits(I[k])); for (int k = 0; k < L; ++k) r.push_back(FT<F>::bits(R[k])); };
  for (int lane = 0; lane < L; ++lane) for (int s = 0; s < 2; ++s) for (int t = 0; t < 2; ++t) { F I[4] = {0, 0, 0, 0}, R[4] = {0, 0, 0, 0}; I[lane] = s ? -dm : dm; R[lane] = t ? (F)-1 : (F)1; row(I, R);
    if (L >= 2) { I[(lane + 1) % L] = 5; row(I, R); R[(lane + 1) % L] = 0; I[lane] = 0; row(I, R); } }
  if (L >= 2) for (F x : xs) for (int k = -2; k <= 2; ++k) for (int s = 0; s < 2; ++s) { F I[4] = {x, nudge<F>(-x, k), 0, 0}, R[4] = {s ? (F)-1 : (F)1, s ? (F)-1 : (F)1, 0, 0}; I[L - 1] = I[1]; if (L > 2) I[1] = 0; R[L - 1] = R[1]; if (L > 2) R[1] = 0; row(I, R); R[0] *= 3; R[L - 1] *= 3; row(I, R); }
  return dedup_rows("FFSPEC(dot exactly 0 / +-denorm_min / cancelling pair +-2 ulp)(" + std::to_string(L) + ")", 2 * L, r);
}
template <typename F, int L> static void regL(Engine& E, const std::string& t) {
  const std::string s = "<" + t + "," + std::to_string(L) + ">";
  Domain V = VSET<F>(L), VS = VSUB<F>(L), VT = VTAG<F>(L), U = UNIT<F>(L, false), UF = UNIT<F>(L, true), NR = NEAR<F>(L), SEL = range("ETA(7 fixed + critical-1ulp,critical,critical+1ulp)", 0, 10, true);
  Domain PAIRS = product(V.name + "^2", {V, V});
  Domain VB = vset<F>(L, {-3, -2, -1, -0.5L, 0, 0.5L, 1, 2, 3}, true, "{-3..3,+-0.5}^L+TAG+2^+-20"), PB = product(VB.name + "^2", {VB, VB});   // thorough tier
  { Op& op = E.add("dot/length/distance/length2/distance2" + s, op_dot<F, L>); op.quick = {PAIRS, NR}; op.thorough = {PB, NR}; op.classes = {"orthogonal", "general"}; }
  { Op& op = E.add("normalize" + s, op_normalize<F, L>); op.quick = {V, U, NR}; op.thorough = {V, UF, NR}; op.classes = {"unit-input", "non-unit-input"}; }
  { Op& op = E.add("reflect" + s, op_reflect<F, L>); op.quick = {PAIRS, NR, product(V.name + " x " + U.name, {V, U})}; op.thorough = {PB, NR, product(VB.name + " x " + UF.name, {VB, UF})}; op.classes = {"unit-N", "general-N"}; }
  { Op& op = E.add("refract" + s, op_refract<F, L>); op.quick = {product(U.name + "^2 x ETA", {U, U, SEL}), product(V.name + " x " + VT.name + " x ETA", {V, VT, SEL}), product("NEAR x ETA", {NR, SEL})};
    op.thorough = {product(UF.name + "^2 x ETA", {UF, UF, SEL}), product(V.name + "^2 x ETA", {V, V, SEL}), product("NEAR x ETA", {NR, SEL})};
    op.classes = L == 1 ? std::vector<std::string>{"refraction", "total-internal-reflection"} : std::vector<std::string>{"refraction", "total-internal-reflection", "critical-band"}; }
  { Op& op = E.add("faceforward" + s, op_faceforward<F, L>); op.quick = {product(VT.name + " x " + V.name + "^2", {VT, V, V}), product(VT.name + " x NEAR", {VT, NR}), product(VT.name + " x FFSPEC", {VT, FFSPEC<F>(L)})};
    { std::vector<uint64_t> n3; push<F>(n3, TAGS[0], L); push<F>(n3, TAGS[3], L); push<F>(n3, TAGS[5], L); Domain NT = rows("3 TAG normals", L, n3); op.thorough = op.quick; op.thorough.push_back(product("3 TAG normals x " + VB.name + "^2", {NT, VB, VB})); }
    op.classes = {"dot<0", "dot==0", "dot>0"}; }
  { Op& op = E.add("proj/perp" + s, op_projperp<F, L>); op.quick = {PAIRS, NR}; op.thorough = {PB, NR}; op.classes = {"orthogonal", "parallel", "general"}; }
  { Op& op = E.add("angle" + std::string(L == 2 ? "/orientedAngle" : "") + s, op_angle<F, L>); op.quick = {product(U.name + "^2", {U, U})}; op.thorough = {product(UF.name + "^2", {UF, UF})}; op.classes = L == 1 ? std::vector<std::string>{"parallel-or-antiparallel"} : std::vector<std::string>{"parallel-or-antiparallel", "orthogonal", "general"}; }
}
template <typename F> static void reg(Engine& E, const std::string& t) {
  regL<F, 1>(E, t); regL<F, 2>(E, t); regL<F, 3>(E, t); regL<F, 4>(E, t);
  Domain B3 = vset<F>(3, {-3, -2, -1, -0.5L, 0, 0.5L, 1, 2, 3}, true, "{-3..3,+-0.5}^L+TAG+2^+-20"), B2 = vset<F>(2, {-3, -2, -1, -0.5L, 0, 0.5L, 1, 2, 3}, true, "{-3..3,+-0.5}^L+TAG+2^+-20");
  Domain V3 = VSET<F>(3), S3 = VSUB<F>(3), T3 = VTAG<F>(3), U3 = UNIT<F>(3, false), N3 = NEAR<F>(3), V2 = VSET<F>(2), N2 = NEAR<F>(2), DEPTH = range("Depth 1..4", 1, 4, true);
  { Op& op = E.add("gtx/norm l1Norm/l2Norm/lMaxNorm/lxNorm<" + t + ",3>", op_norm3<F>); op.quick = {product(V3.name + "^2 x Depth", {V3, V3, DEPTH}), product("NEAR x Depth", {N3, DEPTH})}; op.thorough = {product(B3.name + "^2 x Depth", {B3, B3, DEPTH}), product("NEAR x Depth", {N3, DEPTH})}; op.classes = {"depth!=2", "depth==2"}; }
  { Op& op = E.add("cross<" + t + ",3>", op_cross3<F>); op.quick = {product(V3.name + "^2", {V3, V3}), N3}; op.thorough = {product(B3.name + "^2", {B3, B3}), N3}; op.classes = {"parallel", "general"}; }
  { Op& op = E.add("gtx cross<" + t + ",2>", op_cross2<F>); op.quick = {product(V2.name + "^2", {V2, V2}), N2}; op.thorough = {product(B2.name + "^2", {B2, B2}), N2}; op.classes = {"parallel", "general"}; }
  { Op& op = E.add("mixedProduct/triangleNormal<" + t + ">", op_triple<F>); op.quick = {product(S3.name + "^3", {S3, S3, S3}), product("NEAR x " + T3.name, {N3, T3})}; op.thorough = {product(V3.name + "^3", {V3, V3, V3}), product("NEAR x " + T3.name, {N3, T3})}; op.classes = {"degenerate-triangle", "triangle"}; }
  { Op& op = E.add("orthonormalize(vec3,vec3)<" + t + ">", op_orthov<F>); op.quick = {product(V3.name + " x " + U3.name, {V3, U3}), product(U3.name + "^2", {U3, U3})}; { Domain UF3 = UNIT<F>(3, true); op.thorough = {product(B3.name + " x " + UF3.name, {B3, UF3}), product(UF3.name + "^2", {UF3, UF3})}; } op.classes = {"parallel(skipped)", "already-orthogonal", "general"}; }
  { std::vector<uint64_t> a3, a5; for (long double v : {-1.0L, 0.0L, 1.0L}) a3.push_back(FT<F>::bits((F)v)); for (long double v : {-2.0L, -1.0L, 0.0L, 1.0L, 2.0L}) a5.push_back(FT<F>::bits((F)v));
    Domain A3 = list("{-1,0,1}", a3, true), A5 = list("{-2..2}", a5, true); Op& op = E.add("orthonormalize(mat3)<" + t + ">", op_orthom<F>);
    op.quick = {product("{-1,0,1}^9", {A3, A3, A3, A3, A3, A3, A3, A3, A3}), product(T3.name + "^3", {T3, T3, T3})}; op.thorough = {product("{-2..2}^9", {A5, A5, A5, A5, A5, A5, A5, A5, A5}), product(T3.name + "^3", {T3, T3, T3})};
    op.classes = {"singular(skipped)", "already-orthogonal", "general"}; }
  { Op& op = E.add("orientedAngle(vec3,vec3,ref)<" + t + ">", op_oangle3<F>); op.quick = {product(U3.name + "^2 x " + T3.name, {U3, U3, T3})}; { Domain UF3 = UNIT<F>(3, true); op.thorough = {product(UF3.name + "^2 x " + T3.name, {UF3, UF3, T3})}; } op.classes = {"negative", "positive", "ref-in-plane"}; }
  { Op& op = E.add("closestPointOnLine<" + t + ",2>", op_closest<F, 2>); op.quick = {product(V2.name + "^3", {V2, V2, V2}), product(V2.name + " x NEAR", {V2, N2})}; op.thorough = {product(B2.name + "^3", {B2, B2, B2}), product(B2.name + " x NEAR", {B2, N2})}; op.classes = {"before-a", "interior", "beyond-b"}; }
  { Op& op = E.add("closestPointOnLine<" + t + ",3>", op_closest<F, 3>); op.quick = {product(S3.name + "^3", {S3, S3, S3}), product(S3.name + " x NEAR", {S3, N3})}; op.thorough = {product(V3.name + "^3", {V3, V3, V3}), product(V3.name + " x NEAR", {V3, N3})}; op.classes = {"before-a", "interior", "beyond-b"}; }
  // scalar genType overloads
  std::vector<uint64_t> sv; for (long double v : {0.0L, 0.5L, 1.0L, 2.0L, 3.0L, 0.1L, 0.7L, 1.0L / 3, 1.33L, 1 / 1.33L, 0.99L, 1048576.0L, 1.0L / 1048576, 7.0L}) { sv.push_back(FT<F>::bits((F)v)); sv.push_back(FT<F>::bits((F)-v)); }
  sv.push_back(FT<F>::bits(std::numeric_limits<F>::denorm_min())); sv.push_back(FT<F>::bits(-std::numeric_limits<F>::denorm_min()));
  Domain SV = list("SCALARS(" + t + ")", sv);
  { Op& op = E.add("scalar dot/length/distance/length2/distance2/faceforward/reflect/proj/perp/angle<" + t + ">", op_scalar<F>); op.quick = {product("SCALARS^3", {SV, SV, SV})}; op.classes = {"zero-product", "general"}; }
  { Op& op = E.add("scalar refract<" + t + ">", op_refract_scalar<F>); op.quick = {product("SCALARS^2 x ETA", {SV, SV, range("ETA(7 fixed + critical-1ulp,critical,critical+1ulp)", 0, 10, true)})}; op.classes = {"refraction", "total-internal-reflection"}; }
}

int main(int argc, char** argv) {
  Engine E; E.property = "C12"; E.kf_ids = {"KF-C12-scalar-refract-nan"};
  E.assumptions = {"references evaluated in double (for float) / 80-bit long double (for double) from the formulas of the statement; tolerances are c*u*sum|terms| with c = 4 x the forward error bound of the formula",
    "unit vectors are unit to within 4u; degenerate inputs (zero vectors for normalize/proj, a == b, singular or cond > 2^8 matrices, x parallel to y) are skipped",
    "sign decisions (faceforward, orientedAngle) are demanded only when the exact sign of the dot / triple product is certain: exactly representable arithmetic or |d| > 4 L u sum|terms|",
    "closestPointOnLine: outside the segment both the end point and the projection on the unbounded line are accepted", "libm pow assumed faithful for lxNorm"};
  reg<float>(E, "float"); reg<double>(E, "double");
#ifdef C12_MEASURE
  int rc = E.main(argc, argv); for (int i = 0; i < 256; ++i) if (g_site[i]) std::fprintf(stderr, "MEASURE %3d max err/tol = %.4f  %s\n", i, g_ratio[i], g_site[i]); return rc;
#else
  return E.main(argc, argv);
#endif
}
