// C09 — translate/rotate/scale/shear/lookAt/decompose build the transforms they name.
// Every result is compared with the named elementary transform evaluated entrywise in long double
// (f(M,p) ~ M*E(p), ABS-of-terms tolerances), lookAt by its geometric definition for the configured
// handedness, decompose/recompose by round trip over composed P*T*R*K*S matrices.
// Compile the same source with and without -DGLM_FORCE_LEFT_HANDED (lookAt dispatch).
// -DC09_RECOMPOSE_DOUBLE additionally instantiates glm::recompose<double> (does not compile on the current tree).
// -DC09_MEASURE prints the measured maximum error/unit per tolerance slot on stderr at exit (development aid only).
#define GLM_ENABLE_EXPERIMENTAL
#include <glm/glm.hpp>
#include <glm/ext/matrix_transform.hpp>
#include <glm/gtc/quaternion.hpp>
#include <glm/gtx/transform.hpp>
#include <glm/gtx/transform2.hpp>
#include <glm/gtx/rotate_vector.hpp>
#include <glm/gtx/rotate_normalized_axis.hpp>
#include <glm/gtx/matrix_transform_2d.hpp>
#include <glm/gtx/matrix_decompose.hpp>
#include <glm/gtx/matrix_interpolation.hpp>
#include "glmx.hpp"
#include <array>
#include <cfloat>
using namespace glmx;

typedef long double L;
enum { KF_DECOMPOSE_W = 0 };

#ifdef GLM_FORCE_LEFT_HANDED
static const int CONFIG_VIEW_SIGN = +1;   // view direction maps to +z
#else
static const int CONFIG_VIEW_SIGN = -1;   // view direction maps to -z
#endif

template <typename F> struct FT;
template <> struct FT<float> { enum { MANT = 24 }; static uint64_t bits(float f) { return b32(f); } };
template <> struct FT<double> { enum { MANT = 53 }; static uint64_t bits(double f) { return b64(f); } };
template <typename F> static inline L U() { return ldexpl(1.0L, -(int)FT<F>::MANT); }
template <typename F> struct G {
  typedef glm::mat<4, 4, F, glm::defaultp> M4; typedef glm::mat<3, 3, F, glm::defaultp> M3;
  typedef glm::vec<2, F, glm::defaultp> V2; typedef glm::vec<3, F, glm::defaultp> V3; typedef glm::vec<4, F, glm::defaultp> V4;
  typedef glm::qua<F, glm::defaultp> Q;
};

// ---------------------------------------------------------------------------------- measurement (development aid)
enum { S_TRANSLATE, S_TRANSLATE2D, S_ROTATE, S_ROTATE_SLOW, S_ROTATE_NA, S_ROTATE_GTX, S_AAMATRIX, S_ROTVEC, S_ROTQUAT, S_ROTATE2D, S_ROTXYZ, S_SCALE, S_SCALE2D, S_SCALEBIAS,
       S_SHEAR, S_SHEAR_SLOW, S_SHEARN, S_PROJ, S_LOOK_ORTHO, S_LOOK_EYE, S_LOOK_DIR, S_LOOK_UP, S_DEC_GLM, S_DEC_GLM_P, S_DEC_REF, S_DEC_REF_P, S_DEC_LEGACY, S_DEC_LEGACY_P, S_AXISANGLE, S_INTERP, S_INTERP_T, S_ORIENT, S_ORIENT_MAP, S_NSLOT };
#ifdef C09_MEASURE
static std::atomic<uint64_t> g_meas[2][S_NSLOT];
static const char* g_slotname[S_NSLOT] = {"translate", "translate2d", "rotate", "rotate_slow", "rotateNormalizedAxis", "gtx rotate", "axisAngleMatrix", "rotate(vec)", "rotateNormalizedAxis(quat)", "rotate2d", "rotateXYZ", "scale", "scale2d", "scaleBias",
  "shear", "shear_slow", "shearX/Y nD", "proj", "lookAt ortho", "lookAt eye", "lookAt dir", "lookAt up", "decompose+glm::recompose", "  (perspective row)", "decompose+ref recompose", "  (perspective row)", "decompose legacy M/w", "  (perspective row)", "axisAngle", "interpolate rot", "interpolate trans", "orientation ortho", "orientation map"};
template <typename F> static inline void meas(int slot, L err, L unit) { if (!(unit > 0)) return; uint64_t b = b64((double)(err / unit)); std::atomic<uint64_t>& a = g_meas[sizeof(F) == 8][slot]; uint64_t old = a.load(); while (b > old && !a.compare_exchange_weak(old, b)) {} }
struct MeasDump { ~MeasDump() { for (int t = 0; t < 2; ++t) for (int s = 0; s < S_NSLOT; ++s) if (g_meas[t][s].load()) std::fprintf(stderr, "MEASURE %-6s %-28s max err/unit = %.3f\n", t ? "double" : "float", g_slotname[s], f64(g_meas[t][s].load())); } } g_measdump;
#else
template <typename F> static inline void meas(int, L, L) {}
#endif

// ------------------------------------------------------------------------------------------ wide 4x4 (column major a[col][row])
struct W4 { L a[4][4]; };
static W4 wident() { W4 r; for (int c = 0; c < 4; ++c) for (int k = 0; k < 4; ++k) r.a[c][k] = c == k ? 1 : 0; return r; }
static W4 wmul(const W4& A, const W4& B) { W4 r; for (int c = 0; c < 4; ++c) for (int k = 0; k < 4; ++k) { L s = 0; for (int j = 0; j < 4; ++j) s += A.a[j][k] * B.a[c][j]; r.a[c][k] = s; } return r; }
static W4 wabsm(const W4& A) { W4 r; for (int c = 0; c < 4; ++c) for (int k = 0; k < 4; ++k) r.a[c][k] = fabsl(A.a[c][k]); return r; }
static W4 wtranspose(const W4& A) { W4 r; for (int c = 0; c < 4; ++c) for (int k = 0; k < 4; ++k) r.a[c][k] = A.a[k][c]; return r; }
template <int N, typename F> static W4 toW(const glm::mat<N, N, F, glm::defaultp>& m) { W4 r = wident(); for (int c = 0; c < N; ++c) for (int k = 0; k < N; ++k) r.a[c][k] = (L)m[c][k]; return r; }
template <int N, typename F> static glm::mat<N, N, F, glm::defaultp> fromW(const W4& w) { glm::mat<N, N, F, glm::defaultp> m; for (int c = 0; c < N; ++c) for (int k = 0; k < N; ++k) m[c][k] = (F)w.a[c][k]; return m; }
static L det3(const W4& m) { return m.a[0][0] * (m.a[1][1] * m.a[2][2] - m.a[2][1] * m.a[1][2]) - m.a[1][0] * (m.a[0][1] * m.a[2][2] - m.a[2][1] * m.a[0][2]) + m.a[2][0] * (m.a[0][1] * m.a[1][2] - m.a[1][1] * m.a[0][2]); }

// entrywise comparison |got - ref| <= c*u*mag ; entries in `exactmask` (bit col*4+row) must be equal as values
template <int N, typename F> static bool chk(Outcome& o, const glm::mat<N, N, F, glm::defaultp>& g, const W4& ref, const W4& mag, L c, unsigned exactmask, int vc, const char* what, int slot) {
  const L u = U<F>();
  for (int cc = 0; cc < N; ++cc) for (int rr = 0; rr < N; ++rr) {
    L got = (L)g[cc][rr], want = ref.a[cc][rr], err = fabsl(got - want); bool ex = (exactmask >> (cc * 4 + rr)) & 1;
    L tol = ex ? 0 : c * u * mag.a[cc][rr]; if (!ex) meas<F>(slot, err, u * mag.a[cc][rr]);
    if (!(err <= tol)) { o.res(FT<F>::bits(g[cc][rr]), (uint64_t)(cc * 4 + rr)); o.exp(FT<F>::bits((F)want)); o.bad(vc, what); return false; }
  }
  return true;
}

// ------------------------------------------------------------------------------------------ base matrices M
// 0: I, 1: TAG (distinct primes), 2: an affine TRS, 3: a projective matrix, 4..35: DEV_1(I, {-2,3})
enum { NBASE = 36 };
static void base_entries(int idx, double e[16]) {
  static const double I[16] = {1, 0, 0, 0, 0, 1, 0, 0, 0, 0, 1, 0, 0, 0, 0, 1};
  static const double TAG[16] = {2, 3, 5, 7, 11, 13, 17, 19, 23, 29, 31, 37, 41, 43, 47, 53};
  static const double TRS[16] = {1.5, 2, 0, 0, -2, 1.5, 0, 0, 0, 0, 0.5, 0, 1, 2, 3, 1};
  static const double PRJ[16] = {1.25, 0, 0, 0, 0, 2.5, 0, 0, 0.25, -0.5, -1.5, -1, 0.5, 0, -0.75, 0};
  const double* s = idx == 1 ? TAG : idx == 2 ? TRS : idx == 3 ? PRJ : I;
  for (int k = 0; k < 16; ++k) e[k] = s[k];
  if (idx >= 4) { int k = (idx - 4) / 2; e[k] = ((idx - 4) & 1) ? 3 : -2; }
}
static bool base_int(int idx) { return idx != 2 && idx != 3; }
template <typename F> static typename G<F>::M4 baseM(int idx) { double e[16]; base_entries(idx, e); typename G<F>::M4 m; for (int c = 0; c < 4; ++c) for (int k = 0; k < 4; ++k) m[c][k] = (F)e[c * 4 + k]; return m; }
// 3x3 companion: rows/columns 0,1,3 of the 4x4 (keeps the translation column)
template <typename F> static typename G<F>::M3 baseM3(int idx) { double e[16]; base_entries(idx, e); static const int mp[3] = {0, 1, 3}; typename G<F>::M3 m; for (int c = 0; c < 3; ++c) for (int k = 0; k < 3; ++k) m[c][k] = (F)e[mp[c] * 4 + mp[k]]; return m; }
template <typename F> static bool small_dyadic(F x) { L y = 2 * (L)x; return y == nearbyintl(y) && fabsl(y) <= 128; }

// ------------------------------------------------------------------------------------------ reference elementary matrices
struct Rod { W4 R, T; };   // rotation and the magnitude of the terms of each entry
// Rodrigues: R = c I + (1-c) n n^T + s [n]x  for unit n (n is used as given)
static Rod rodrigues(const L n[3], L ang) {
  Rod r; r.R = wident(); r.T = wident(); L c = cosl(ang), s = sinl(ang), t = 1 - c;
  const L K[3][3] = {{0, -n[2], n[1]}, {n[2], 0, -n[0]}, {-n[1], n[0], 0}};   // [row][col]
  for (int i = 0; i < 3; ++i) for (int j = 0; j < 3; ++j) {
    r.R.a[j][i] = (i == j ? c : 0) + t * n[i] * n[j] + s * K[i][j];
    r.T.a[j][i] = (i == j ? fabsl(c) : 0) + (1 + fabsl(c)) * fabsl(n[i] * n[j]) + fabsl(s * K[i][j]);
  }
  return r;
}
static bool wnormalize(const L v[3], L n[3]) { L l = sqrtl(v[0] * v[0] + v[1] * v[1] + v[2] * v[2]); if (!(l > 0)) return false; for (int i = 0; i < 3; ++i) n[i] = v[i] / l; return true; }
static void wcross(const L a[3], const L b[3], L r[3]) { r[0] = a[1] * b[2] - a[2] * b[1]; r[1] = a[2] * b[0] - a[0] * b[2]; r[2] = a[0] * b[1] - a[1] * b[0]; }
static L wdot(const L a[3], const L b[3]) { return a[0] * b[0] + a[1] * b[1] + a[2] * b[2]; }

// ========================================================================================== translate
template <typename F> static void op_translate(const Case& c, Outcome& o) {
  typedef G<F> T; const int mi = (int)c.w[0]; const F v[3] = {(F)f64(c.w[1]), (F)f64(c.w[2]), (F)f64(c.w[3])};
  const bool ex = base_int(mi) && small_dyadic(v[0]) && small_dyadic(v[1]) && small_dyadic(v[2]); o.cls(ex ? 0 : 1);
  typename T::M4 M = baseM<F>(mi); typename T::V3 vv(v[0], v[1], v[2]);
  W4 Mw = toW<4>(M), E = wident(); for (int i = 0; i < 3; ++i) E.a[3][i] = v[i];
  W4 ref = wmul(Mw, E), mag = wmul(wabsm(Mw), wabsm(E));
  if (!chk<4, F>(o, glm::translate(M, vv), ref, mag, ex ? 0 : 8, 0x0FFF, 1, "translate(M,v) != M*T(v)", S_TRANSLATE)) return;
  if (mi == 0 && !chk<4, F>(o, glm::translate(vv), E, wabsm(E), 0, 0xFFFF, 2, "gtx translate(v) is not the translation matrix T(v)", S_TRANSLATE)) return;
  typename T::M3 M3 = baseM3<F>(mi); W4 M3w = toW<3>(M3), E2 = wident(); E2.a[2][0] = v[0]; E2.a[2][1] = v[1];
  if (!chk<3, F>(o, glm::translate(M3, typename T::V2(v[0], v[1])), wmul(M3w, E2), wmul(wabsm(M3w), wabsm(E2)), ex ? 0 : 8, 0x0077, 3, "2d translate(M,v) != M*T(v)", S_TRANSLATE2D)) return;
  // extractMatrixRotation: the upper-left 3x3 block bordered by the identity
  W4 X = wident(); for (int cc = 0; cc < 3; ++cc) for (int rr = 0; rr < 3; ++rr) X.a[cc][rr] = Mw.a[cc][rr];
  if (!chk<4, F>(o, glm::extractMatrixRotation(M), X, wabsm(X), 0, 0xFFFF, 4, "extractMatrixRotation(M) is not the 3x3 block of M bordered by identity", S_TRANSLATE)) return;
}

// ========================================================================================== scale
// scaleBias is called through non-inlined wrappers on a poisoned stack / destination so that an entry the function leaves
// unwritten shows up as NaN deterministically (a witness must replay identically).
static void __attribute__((noinline)) poison_stack() { volatile unsigned char buf[8192]; for (int i = 0; i < 8192; ++i) buf[i] = 0xFF; }
template <typename F> static void __attribute__((noinline)) call_scaleBias(F s, F b, typename G<F>::M4* out) { *out = glm::scaleBias<F, glm::defaultp>(s, b); }
template <typename F> static void __attribute__((noinline)) call_scaleBiasM(const typename G<F>::M4* m, F s, F b, typename G<F>::M4* out) { *out = glm::scaleBias(*m, s, b); }
template <typename F> static typename G<F>::M4 poisoned_scaleBias(const typename G<F>::M4* m, F s, F b) {
  typename G<F>::M4 r; std::memset((void*)&r, 0xFF, sizeof r); __asm__ volatile("" : : "r"(&r) : "memory"); poison_stack();
  if (m) call_scaleBiasM<F>(m, s, b, &r); else call_scaleBias<F>(s, b, &r); __asm__ volatile("" : : "r"(&r) : "memory"); return r;
}
template <typename F> static void op_scale(const Case& c, Outcome& o) {
  typedef G<F> T; const int mi = (int)c.w[0]; const F v[3] = {(F)f64(c.w[1]), (F)f64(c.w[2]), (F)f64(c.w[3])};
  const bool ex = base_int(mi) && small_dyadic(v[0]) && small_dyadic(v[1]) && small_dyadic(v[2]); o.cls(ex ? 0 : 1);
  typename T::M4 M = baseM<F>(mi); typename T::V3 vv(v[0], v[1], v[2]);
  W4 Mw = toW<4>(M), E = wident(); for (int i = 0; i < 3; ++i) E.a[i][i] = v[i];
  W4 ref = wmul(Mw, E), mag = wmul(wabsm(Mw), wabsm(E));
  if (!chk<4, F>(o, glm::scale(M, vv), ref, mag, ex ? 0 : 4, 0xF000, 1, "scale(M,v) != M*diag(v,1)", S_SCALE)) return;
  if (!chk<4, F>(o, glm::scale_slow(M, vv), ref, mag, ex ? 0 : 4, 0xF000, 2, "scale_slow(M,v) != M*diag(v,1)", S_SCALE)) return;
  if (mi == 0 && !chk<4, F>(o, glm::scale(vv), E, wabsm(E), 0, 0xFFFF, 3, "gtx scale(v) is not diag(v,1)", S_SCALE)) return;
  typename T::M3 M3 = baseM3<F>(mi); W4 M3w = toW<3>(M3), E2 = wident(); E2.a[0][0] = v[0]; E2.a[1][1] = v[1];
  if (!chk<3, F>(o, glm::scale(M3, typename T::V2(v[0], v[1])), wmul(M3w, E2), wmul(wabsm(M3w), wabsm(E2)), ex ? 0 : 4, 0x0700, 4, "2d scale(M,v) != M*diag(v,1)", S_SCALE2D)) return;
  // scaleBias(s,b): uniform scale s and translation (b,b,b)
  W4 SB = wident(); for (int i = 0; i < 3; ++i) { SB.a[i][i] = v[0]; SB.a[3][i] = v[1]; }
  if (mi == 0 && !chk<4, F>(o, poisoned_scaleBias<F>(nullptr, v[0], v[1]), SB, wabsm(SB), 0, 0xFFFF, 5, "scaleBias(s,b) is not [s*I | (b,b,b)]", S_SCALEBIAS)) return;
  if (!chk<4, F>(o, poisoned_scaleBias<F>(&M, v[0], v[1]), wmul(Mw, SB), wmul(wabsm(Mw), wabsm(SB)), ex ? 0 : 8, 0, 6, "scaleBias(M,s,b) != M*[s*I | (b,b,b)]", S_SCALEBIAS)) return;
}

// ========================================================================================== shear (ext/matrix_transform)
// documented matrix (glm/ext/matrix_transform.hpp): rows [1 lxy lxz -(lxy+lxz)px], [lyx 1 lyz -(lyx+lyz)py], [lzx lzy 1 -(lzx+lzy)pz], [0 0 0 1]
template <typename F> static void op_shear(const Case& c, Outcome& o) {
  typedef G<F> T; const int mi = (int)c.w[0]; F p[3], l[6]; bool ex = base_int(mi);
  for (int i = 0; i < 3; ++i) { p[i] = (F)f64(c.w[1 + i]); ex = ex && small_dyadic(p[i]); } for (int i = 0; i < 6; ++i) { l[i] = (F)f64(c.w[4 + i]); ex = ex && small_dyadic(l[i]); }
  o.cls(ex ? 0 : 1);
  typename T::M4 M = baseM<F>(mi); W4 Mw = toW<4>(M), S = wident(), SA = wident();
  const L lxy = l[0], lxz = l[1], lyx = l[2], lyz = l[3], lzx = l[4], lzy = l[5];
  S.a[1][0] = lxy; S.a[2][0] = lxz; S.a[0][1] = lyx; S.a[2][1] = lyz; S.a[0][2] = lzx; S.a[1][2] = lzy;
  S.a[3][0] = -(lxy + lxz) * p[0]; S.a[3][1] = -(lyx + lyz) * p[1]; S.a[3][2] = -(lzx + lzy) * p[2];
  SA = wabsm(S); SA.a[3][0] = (fabsl(lxy) + fabsl(lxz)) * fabsl((L)p[0]); SA.a[3][1] = (fabsl(lyx) + fabsl(lyz)) * fabsl((L)p[1]); SA.a[3][2] = (fabsl(lzx) + fabsl(lzy)) * fabsl((L)p[2]);
  W4 ref = wmul(Mw, S), mag = wmul(wabsm(Mw), SA);
  typename T::V3 pp(p[0], p[1], p[2]); typename T::V2 lx(l[0], l[1]), ly(l[2], l[3]), lz(l[4], l[5]);
  if (!chk<4, F>(o, glm::shear(M, pp, lx, ly, lz), ref, mag, ex ? 0 : 16, 0, 1, "shear(M,p,lx,ly,lz) != M*Shear(p,lx,ly,lz)", S_SHEAR)) return;
  if (!chk<4, F>(o, glm::shear_slow(M, pp, lx, ly, lz), ref, mag, ex ? 0 : 16, 0, 2, "shear_slow(M,p,lx,ly,lz) != M*Shear(p,lx,ly,lz)", S_SHEAR_SLOW)) return;
}

// ========================================================================================== gtx shear helpers, proj2D/3D
// The names do not fix whether the named axis is the one that moves or the one that drives (transform2 and
// matrix_transform_2d disagree with each other), so E = f(I,s,t) must be a unit shear linking the named axis with the
// other(s) on one side (row or column form), and f(M,s,t) must be M*E.
template <int N, typename F> static bool unit_shear(Outcome& o, const glm::mat<N, N, F, glm::defaultp>& E, int axis, int a1, F s, int a2, F t, int vc, const char* what) {
  W4 A = wident(), B = wident(); A.a[axis][a1] = s; B.a[a1][axis] = s; if (a2 >= 0) { A.a[axis][a2] = t; B.a[a2][axis] = t; }
  bool okA = true, okB = true; for (int cc = 0; cc < N; ++cc) for (int rr = 0; rr < N; ++rr) { if (!((L)E[cc][rr] == A.a[cc][rr])) okA = false; if (!((L)E[cc][rr] == B.a[cc][rr])) okB = false; }
  if (!okA && !okB) { o.res(FT<F>::bits(E[axis][a1]), FT<F>::bits(E[a1][axis])); o.exp(FT<F>::bits(s)); o.bad(vc, what); return false; }
  return true;
}
template <typename F> static void op_shearN(const Case& c, Outcome& o) {
  typedef G<F> T; const int mi = (int)c.w[0]; const F s = (F)f64(c.w[1]), t = (F)f64(c.w[2]); const bool ex = base_int(mi) && small_dyadic(s) && small_dyadic(t); o.cls(ex ? 0 : 1);
  typename T::M4 M = baseM<F>(mi), I4(1); typename T::M3 M3 = baseM3<F>(mi), I3(1); W4 Mw = toW<4>(M), M3w = toW<3>(M3); const L cc = ex ? 0 : 8;
#define SH3(FN, AX, A1, A2, VC) { typename T::M4 E = glm::FN(I4, s, t); if (!unit_shear<4, F>(o, E, AX, A1, s, A2, t, VC, #FN "(I,s,t) is not a unit shear of the named axis")) return; \
    W4 Ew = toW<4>(E); if (!chk<4, F>(o, glm::FN(M, s, t), wmul(Mw, Ew), wmul(wabsm(Mw), wabsm(Ew)), cc, 0, VC + 1, #FN "(M,s,t) != M*" #FN "(I,s,t)", S_SHEARN)) return; }
#define SH2(FN, AX, A1, VC) { typename T::M3 E = glm::FN(I3, s); if (!unit_shear<3, F>(o, E, AX, A1, s, -1, 0, VC, #FN "(I,s) is not a unit shear of the named axis")) return; \
    W4 Ew = toW<3>(E); if (!chk<3, F>(o, glm::FN(M3, s), wmul(M3w, Ew), wmul(wabsm(M3w), wabsm(Ew)), cc, 0, VC + 1, #FN "(M,s) != M*" #FN "(I,s)", S_SHEARN)) return; }
  SH3(shearX3D, 0, 1, 2, 1) SH3(shearY3D, 1, 0, 2, 3) SH3(shearZ3D, 2, 0, 1, 5)
  SH2(shearX2D, 0, 1, 7) SH2(shearY2D, 1, 0, 9) SH2(shearX, 0, 1, 11) SH2(shearY, 1, 0, 13)
#undef SH3
#undef SH2
}
// proj3D(M,n) = M*(I - n n^T), proj2D on the 2x2 block, for a unit normal n
template <typename F> static void op_proj(const Case& c, Outcome& o) {
  typedef G<F> T; const int mi = (int)c.w[0]; L v[3] = {(L)f64(c.w[1]), (L)f64(c.w[2]), (L)f64(c.w[3])}, nw[3]; if (!wnormalize(v, nw)) { o.nontrivial = false; return; }
  F n[3] = {(F)nw[0], (F)nw[1], (F)nw[2]}; o.cls(0);
  typename T::M4 M = baseM<F>(mi); typename T::M3 M3 = baseM3<F>(mi); W4 Mw = toW<4>(M), M3w = toW<3>(M3), P = wident(), PA = wident(), P2 = wident(), P2A = wident();
  for (int i = 0; i < 3; ++i) for (int j = 0; j < 3; ++j) { L nn = (L)n[i] * (L)n[j]; P.a[j][i] = (i == j ? 1 : 0) - nn; PA.a[j][i] = (i == j ? 1 : 0) + fabsl(nn); if (i < 2 && j < 2) { P2.a[j][i] = P.a[j][i]; P2A.a[j][i] = PA.a[j][i]; } }
  if (!chk<4, F>(o, glm::proj3D(M, typename T::V3(n[0], n[1], n[2])), wmul(Mw, P), wmul(wabsm(Mw), PA), 8, 0, 1, "proj3D(M,n) != M*(I - n n^T)", S_PROJ)) return;
  if (!chk<3, F>(o, glm::proj2D(M3, typename T::V3(n[0], n[1], n[2])), wmul(M3w, P2), wmul(wabsm(M3w), P2A), 8, 0, 2, "proj2D(M,n) != M*(I - n n^T) on the xy block", S_PROJ)) return;
}

// ========================================================================================== rotate family
// Tolerance constant of the Rodrigues builders: normalize() contributes ~4.5u per axis component (dot, sqrt, reciprocal, product), libm
// sin/cos up to 2u, so a term (1-c)*n_i*n_j carries ~14u and the product with M three more roundings: rigorous bound ~17u*sum|terms|.
static const L C_ROT = 24;
template <typename F> static void op_rotate(const Case& c, Outcome& o) {
  typedef G<F> T; const int mi = (int)c.w[0]; const F ax[3] = {(F)f64(c.w[1]), (F)f64(c.w[2]), (F)f64(c.w[3])}; const F ang = (F)f64(c.w[4]); const bool first_axis = c.w[5] != 0;
  L v[3] = {(L)ax[0], (L)ax[1], (L)ax[2]}, n[3]; if (!wnormalize(v, n)) { o.nontrivial = false; return; }
  o.cls(fabsl(v[0] * v[0] + v[1] * v[1] + v[2] * v[2] - 1) < 1e-3L ? 0 : 1);
  typename T::M4 M = baseM<F>(mi); typename T::V3 axis(ax[0], ax[1], ax[2]); W4 Mw = toW<4>(M), MA = wabsm(Mw);
  Rod r = rodrigues(n, (L)ang); W4 ref = wmul(Mw, r.R), mag = wmul(MA, r.T);
  if (!chk<4, F>(o, glm::rotate(M, ang, axis), ref, mag, C_ROT, 0xF000, 1, "rotate(M,a,axis) != M*Rodrigues(a, normalize(axis))", S_ROTATE)) return;
  if (!chk<4, F>(o, glm::rotate_slow(M, ang, axis), ref, mag, C_ROT, 0xF000, 2, "rotate_slow(M,a,axis) != M*Rodrigues(a, normalize(axis))", S_ROTATE_SLOW)) return;
  // rotateNormalizedAxis: axis given already normalised (rounded to F), used as given
  const F nf[3] = {(F)n[0], (F)n[1], (F)n[2]}; const L nl[3] = {(L)nf[0], (L)nf[1], (L)nf[2]}; typename T::V3 naxis(nf[0], nf[1], nf[2]); Rod rn = rodrigues(nl, (L)ang);
  if (!chk<4, F>(o, glm::rotateNormalizedAxis(M, ang, naxis), wmul(Mw, rn.R), wmul(MA, rn.T), 16, 0xF000, 3, "rotateNormalizedAxis(M,a,n) != M*Rodrigues(a,n)", S_ROTATE_NA)) return;
  if (mi != 0) return;
  // helpers that build / apply the bare rotation (checked once per axis and angle)
  if (!chk<4, F>(o, glm::rotate(ang, axis), r.R, r.T, C_ROT, 0xF888, 4, "gtx rotate(a,axis) != Rodrigues(a, normalize(axis))", S_ROTATE_GTX)) return;
  if (!chk<4, F>(o, glm::axisAngleMatrix(axis, ang), r.R, r.T, C_ROT, 0xF888, 5, "axisAngleMatrix(axis,a) != Rodrigues(a, normalize(axis))", S_AAMATRIX)) return;
  { const L u = U<F>(); const F pv[4] = {2, -3, 5, 7}; typename T::V3 g3 = glm::rotate(typename T::V3(pv[0], pv[1], pv[2]), ang, axis); typename T::V4 g4 = glm::rotate(typename T::V4(pv[0], pv[1], pv[2], pv[3]), ang, axis);
    for (int i = 0; i < 4; ++i) { L want = 0, m = 0; for (int j = 0; j < 4; ++j) { want += r.R.a[j][i] * pv[j]; m += r.T.a[j][i] * fabsl((L)pv[j]); }
      if (i < 3) { L e = fabsl((L)g3[i] - (want - r.R.a[3][i] * pv[3])); meas<F>(S_ROTVEC, e, u * m); if (!(e <= 16 * u * m)) { o.res(FT<F>::bits(g3[i]), (uint64_t)i); o.exp(FT<F>::bits((F)(want - r.R.a[3][i] * pv[3]))); o.bad(6, "rotate(vec3,a,axis) != Rodrigues(a,normalize(axis))*v"); return; } }
      L e = fabsl((L)g4[i] - want); meas<F>(S_ROTVEC, e, u * m); if (!(e <= 16 * u * m)) { o.res(FT<F>::bits(g4[i]), (uint64_t)i); o.exp(FT<F>::bits((F)want)); o.bad(7, "rotate(vec4,a,axis) != Rodrigues(a,normalize(axis))*v"); return; } } }
  { // quaternion rotateNormalizedAxis(q,a,n) = q * (cos(a/2), n sin(a/2))
    const L u = U<F>(); const L qs[2][4] = {{1, 0, 0, 0}, {0.5L, -0.5L, 0.5L, 0.5L}};   // w,x,y,z
    for (int k = 0; k < 2; ++k) { typename T::Q q = T::Q::wxyz((F)qs[k][0], (F)qs[k][1], (F)qs[k][2], (F)qs[k][3]); typename T::Q g = glm::rotateNormalizedAxis(q, ang, naxis);
      const L hw = cosl((L)ang / 2), hs = sinl((L)ang / 2), b[4] = {hw, nl[0] * hs, nl[1] * hs, nl[2] * hs}, *a = qs[k];
      const L w4[4] = {a[0] * b[0] - a[1] * b[1] - a[2] * b[2] - a[3] * b[3], a[0] * b[1] + a[1] * b[0] + a[2] * b[3] - a[3] * b[2], a[0] * b[2] - a[1] * b[3] + a[2] * b[0] + a[3] * b[1], a[0] * b[3] + a[1] * b[2] - a[2] * b[1] + a[3] * b[0]};
      const L m4[4] = {fabsl(a[0] * b[0]) + fabsl(a[1] * b[1]) + fabsl(a[2] * b[2]) + fabsl(a[3] * b[3]), fabsl(a[0] * b[1]) + fabsl(a[1] * b[0]) + fabsl(a[2] * b[3]) + fabsl(a[3] * b[2]), fabsl(a[0] * b[2]) + fabsl(a[1] * b[3]) + fabsl(a[2] * b[0]) + fabsl(a[3] * b[1]), fabsl(a[0] * b[3]) + fabsl(a[1] * b[2]) + fabsl(a[2] * b[1]) + fabsl(a[3] * b[0])};
      const F gq[4] = {g.w, g.x, g.y, g.z};
      for (int i = 0; i < 4; ++i) { L e = fabsl((L)gq[i] - w4[i]); meas<F>(S_ROTQUAT, e, u * m4[i]); if (!(e <= 16 * u * m4[i])) { o.res(FT<F>::bits(gq[i]), (uint64_t)i); o.exp(FT<F>::bits((F)w4[i])); o.bad(8, "rotateNormalizedAxis(q,a,n) != q * quat(cos(a/2), n sin(a/2))"); return; } } } }
  if (!first_axis) return;
  // helpers that take only an angle (checked once per angle): rotate(vec2), rotateX/Y/Z
  { const L u = U<F>(); const L cs = cosl((L)ang), sn = sinl((L)ang); const F pv[4] = {2, -3, 5, 7};
    const L ex[3] = {1, 0, 0}, ey[3] = {0, 1, 0}, ez[3] = {0, 0, 1}; Rod rx = rodrigues(ex, (L)ang), ry = rodrigues(ey, (L)ang), rz = rodrigues(ez, (L)ang);
    typename T::V2 g2 = glm::rotate(typename T::V2(pv[0], pv[1]), ang); const L w2[2] = {pv[0] * cs - pv[1] * sn, pv[0] * sn + pv[1] * cs}, m2[2] = {fabsl(pv[0] * cs) + fabsl(pv[1] * sn), fabsl(pv[0] * sn) + fabsl(pv[1] * cs)};
    for (int i = 0; i < 2; ++i) { L e = fabsl((L)g2[i] - w2[i]); meas<F>(S_ROTXYZ, e, u * m2[i]); if (!(e <= 16 * u * m2[i])) { o.res(FT<F>::bits(g2[i]), (uint64_t)i); o.exp(FT<F>::bits((F)w2[i])); o.bad(9, "rotate(vec2,a) is not the counter-clockwise rotation by a"); return; } }
    typename T::V3 v3(pv[0], pv[1], pv[2]); typename T::V4 v4(pv[0], pv[1], pv[2], pv[3]);
    const typename T::V3 g3[3] = {glm::rotateX(v3, ang), glm::rotateY(v3, ang), glm::rotateZ(v3, ang)}; const typename T::V4 g4[3] = {glm::rotateX(v4, ang), glm::rotateY(v4, ang), glm::rotateZ(v4, ang)}; const Rod* rr[3] = {&rx, &ry, &rz};
    for (int k = 0; k < 3; ++k) for (int i = 0; i < 4; ++i) { L want = 0, m = 0; for (int j = 0; j < 4; ++j) { want += rr[k]->R.a[j][i] * pv[j]; m += rr[k]->T.a[j][i] * fabsl((L)pv[j]); }
      L e4 = fabsl((L)g4[k][i] - want), e3 = i < 3 ? fabsl((L)g3[k][i] - want) : 0; meas<F>(S_ROTXYZ, e4, u * m); meas<F>(S_ROTXYZ, e3, u * m);
      if (!(e4 <= 16 * u * m) || !(e3 <= 16 * u * m)) { o.res(FT<F>::bits(g4[k][i]), (uint64_t)(k * 4 + i)); o.exp(FT<F>::bits((F)want)); o.bad(10, "rotateX/Y/Z(v,a) != Rodrigues(a, unit axis)*v"); return; } } }
}
// 2d rotate(M3, a) = M3 * R2(a), every base matrix x every angle
template <typename F> static void op_rotate2d(const Case& c, Outcome& o) {
  typedef G<F> T; const int mi = (int)c.w[0]; const F ang = (F)f64(c.w[1]); o.cls(0);
  typename T::M3 M3 = baseM3<F>(mi); W4 Mw = toW<3>(M3), R = wident(); const L cs = cosl((L)ang), sn = sinl((L)ang); R.a[0][0] = cs; R.a[0][1] = sn; R.a[1][0] = -sn; R.a[1][1] = cs;
  if (!chk<3, F>(o, glm::rotate(M3, ang), wmul(Mw, R), wmul(wabsm(Mw), wabsm(R)), 16, 0x0700, 1, "2d rotate(M,a) != M*R(a)", S_ROTATE2D)) return;
}

// ========================================================================================== lookAt
template <typename F> static bool look_check(Outcome& o, const typename G<F>::M4& Lm, const L eye[3], const L ctr[3], const L up[3], int sign, int vcbase, const char* name) {
  const L u = U<F>(); char msg[160]; W4 W = toW<4>(Lm);
  L d[3] = {ctr[0] - eye[0], ctr[1] - eye[1], ctr[2] - eye[2]}, f[3], un[3], cr[3]; wnormalize(d, f); wnormalize(up, un); wcross(f, un, cr);
  const L sinphi = sqrtl(wdot(cr, cr)), cond = 1 / sinphi, upl = sqrtl(wdot(up, up));
#define LBAD(VC, TXT, GOT, WANT) { std::snprintf(msg, sizeof msg, "%s: %s", name, TXT); o.res(FT<F>::bits((F)(GOT))); o.exp(FT<F>::bits((F)(WANT))); o.bad(vcbase + VC, msg); return false; }
  for (int cc = 0; cc < 4; ++cc) if (!(W.a[cc][3] == (cc == 3 ? 1 : 0))) LBAD(0, "not affine (bottom row must be 0 0 0 1)", W.a[cc][3], cc == 3 ? 1 : 0)
  for (int i = 0; i < 3; ++i) for (int j = 0; j < 3; ++j) { L g = 0; for (int k = 0; k < 3; ++k) g += W.a[k][i] * W.a[k][j]; L e = fabsl(g - (i == j ? 1 : 0)); meas<F>(S_LOOK_ORTHO, e, u * cond);
    if (!(e <= 40 * u * cond)) LBAD(1, "linear part is not orthonormal (not a rigid transform)", g, i == j ? 1 : 0) }
  { L dt = det3(W), e = fabsl(dt - 1); meas<F>(S_LOOK_ORTHO, e, u * cond); if (!(e <= 48 * u * cond)) LBAD(2, "linear part is not a proper rotation (det != +1)", dt, 1) }
  for (int i = 0; i < 3; ++i) { L r = W.a[3][i], m = fabsl(W.a[3][i]); for (int j = 0; j < 3; ++j) { r += W.a[j][i] * eye[j]; m += fabsl(W.a[j][i] * eye[j]); } meas<F>(S_LOOK_EYE, fabsl(r), u * m);
    if (!(fabsl(r) <= 16 * u * m)) LBAD(3, "eye is not mapped to the origin", r, 0) }
  for (int i = 0; i < 3; ++i) { L r = 0; for (int j = 0; j < 3; ++j) r += W.a[j][i] * f[j]; L want = i == 2 ? (L)sign : 0, e = fabsl(r - want); meas<F>(S_LOOK_DIR, e, u * cond);
    if (!(e <= 16 * u * cond)) LBAD(4, sign < 0 ? "view direction is not mapped to -z" : "view direction is not mapped to +z", r, want) }
  { L rx = 0, ry = 0; for (int j = 0; j < 3; ++j) { rx += W.a[j][0] * up[j]; ry += W.a[j][1] * up[j]; } meas<F>(S_LOOK_UP, fabsl(rx), u * cond * upl);
    if (!(fabsl(rx) <= 16 * u * cond * upl)) LBAD(5, "up is not mapped into the y-z plane", rx, 0)
    if (!(ry > 0)) LBAD(6, "up is not in the +y half-plane", ry, upl * sinphi) }
#undef LBAD
  return true;
}
template <typename F> static void op_lookAt(const Case& c, Outcome& o) {
  typedef G<F> T; F e[3], t[3], p[3]; L el[3], tl[3], pl[3];
  for (int i = 0; i < 3; ++i) { e[i] = (F)f64(c.w[i]); t[i] = (F)f64(c.w[3 + i]); p[i] = (F)f64(c.w[6 + i]); el[i] = e[i]; tl[i] = t[i]; pl[i] = p[i]; }
  L d[3] = {tl[0] - el[0], tl[1] - el[1], tl[2] - el[2]}, f[3], un[3], cr[3];
  if (!wnormalize(d, f) || !wnormalize(pl, un)) { o.nontrivial = false; return; } wcross(f, un, cr); if (sqrtl(wdot(cr, cr)) < 1e-3L) { o.nontrivial = false; return; }
  o.cls(0); typename T::V3 eye(e[0], e[1], e[2]), ctr(t[0], t[1], t[2]), up(p[0], p[1], p[2]);
  if (!look_check<F>(o, glm::lookAtRH(eye, ctr, up), el, tl, pl, -1, 10, "lookAtRH")) return;
  if (!look_check<F>(o, glm::lookAtLH(eye, ctr, up), el, tl, pl, +1, 20, "lookAtLH")) return;
  if (!look_check<F>(o, glm::lookAt(eye, ctr, up), el, tl, pl, CONFIG_VIEW_SIGN, 30, CONFIG_VIEW_SIGN < 0 ? "lookAt (right-handed configuration)" : "lookAt (GLM_FORCE_LEFT_HANDED configuration)")) return;
}

// ========================================================================================== decompose / recompose
struct RotEntry { L r[3][3]; };   // [col][row]
static std::vector<RotEntry> g_rot; static size_t g_rot_quick = 0;
static const double SCALEVALS[5] = {-0.5, 0.5, 1, 2, 3};
static const double TRANS[3][3] = {{0, 0, 0}, {1, -2, 3}, {-0.5, 0.25, 4}};
static const double SKEWS[6][3] = {{0, 0, 0}, {0.5, 0, 0}, {0, -1, 0}, {0, 0, 0.5}, {0.5, -1, 0.25}, {-0.75, 0.5, 1}};   // (yz, xz, xy) = Skew.x, .y, .z
// perspective kinds: 0 none; 1 p with p.w chosen so that M[3][3] == 1; 2 p with p.w = 1; 3 another p with p.w = 2
static const double PERSP[4][4] = {{0, 0, 0, 1}, {0.25, -0.5, 0.125, 0}, {0.25, -0.5, 0.125, 1}, {-0.125, 0.25, 0.5, 2}};
static void build_rotations() {
  auto push_axis_angle = [](const L ax[3], L ang) { L n[3]; wnormalize(ax, n); Rod r = rodrigues(n, ang); RotEntry e; for (int c = 0; c < 3; ++c) for (int k = 0; k < 3; ++k) e.r[c][k] = r.R.a[c][k]; g_rot.push_back(e); };
  auto push_quat = [](L w, L x, L y, L z) { L l = sqrtl(w * w + x * x + y * y + z * z); w /= l; x /= l; y /= l; z /= l; RotEntry e;
    e.r[0][0] = 1 - 2 * (y * y + z * z); e.r[0][1] = 2 * (x * y + w * z); e.r[0][2] = 2 * (x * z - w * y);
    e.r[1][0] = 2 * (x * y - w * z); e.r[1][1] = 1 - 2 * (x * x + z * z); e.r[1][2] = 2 * (y * z + w * x);
    e.r[2][0] = 2 * (x * z + w * y); e.r[2][1] = 2 * (y * z - w * x); e.r[2][2] = 1 - 2 * (x * x + y * y); g_rot.push_back(e); };
  const L pi = acosl(-1.0L);
  // quick part: all normalised quaternions over {-1,0,1}^4 (24-cell, 120/180 degree rotations, every branch tie), axis-angle over {-1,0,1}^3 x k*pi/12
  for (int w = -1; w <= 1; ++w) for (int x = -1; x <= 1; ++x) for (int y = -1; y <= 1; ++y) for (int z = -1; z <= 1; ++z) if (w || x || y || z) push_quat(w, x, y, z);
  for (int x = -1; x <= 1; ++x) for (int y = -1; y <= 1; ++y) for (int z = -1; z <= 1; ++z) if (x || y || z) for (int k = -11; k <= 12; ++k) if (k) { const L ax[3] = {(L)x, (L)y, (L)z}; push_axis_angle(ax, k * pi / 12); }
  g_rot_quick = g_rot.size();
  // thorough part: quaternions over {-2..2}^4 not already covered, finer angles, off-lattice axes
  for (int w = -2; w <= 2; ++w) for (int x = -2; x <= 2; ++x) for (int y = -2; y <= 2; ++y) for (int z = -2; z <= 2; ++z) if ((w || x || y || z) && (std::abs(w) == 2 || std::abs(x) == 2 || std::abs(y) == 2 || std::abs(z) == 2)) push_quat(w, x, y, z);
  const L extra[4][3] = {{1, 2, 3}, {-3, 1, 2}, {0.1L, -0.2L, 0.05L}, {2, -1, 0}};
  for (int a = 0; a < 4; ++a) for (int k = -47; k <= 48; ++k) if (k) push_axis_angle(extra[a], k * pi / 48);
  for (int x = -1; x <= 1; ++x) for (int y = -1; y <= 1; ++y) for (int z = -1; z <= 1; ++z) if (x || y || z) for (int k = -47; k <= 48; ++k) if (k % 4) { const L ax[3] = {(L)x, (L)y, (L)z}; push_axis_angle(ax, k * pi / 48); }
}
struct Comp { L s[3], t[3], k[3], p[4]; const RotEntry* R; };
// recompose convention (glm/gtx/matrix_decompose.inl): P * T * R * Kyz(skew.x) * Kxz(skew.y) * Kxy(skew.z) * S ; A is the affine factor T*R*K*S
static void compose(const Comp& cm, W4& M, W4& A) {
  A = wident(); const RotEntry& R = *cm.R;
  for (int i = 0; i < 3; ++i) { A.a[0][i] = R.r[0][i] * cm.s[0]; A.a[1][i] = (R.r[1][i] + cm.k[2] * R.r[0][i]) * cm.s[1]; A.a[2][i] = (R.r[2][i] + cm.k[0] * R.r[1][i] + cm.k[1] * R.r[0][i]) * cm.s[2]; A.a[3][i] = cm.t[i]; }
  W4 P = wident(); for (int j = 0; j < 4; ++j) P.a[j][3] = cm.p[j];
  M = wmul(P, A);
}
static bool winverse(const W4& A, W4& inv) {   // Gauss-Jordan with partial pivoting, on [row][col] copies
  L m[4][8]; for (int r = 0; r < 4; ++r) for (int c = 0; c < 4; ++c) { m[r][c] = A.a[c][r]; m[r][4 + c] = r == c ? 1 : 0; }
  for (int c = 0; c < 4; ++c) { int pv = c; for (int r = c + 1; r < 4; ++r) if (fabsl(m[r][c]) > fabsl(m[pv][c])) pv = r; if (m[pv][c] == 0) return false;
    if (pv != c) for (int k = 0; k < 8; ++k) std::swap(m[pv][k], m[c][k]);
    L d = m[c][c]; for (int k = 0; k < 8; ++k) m[c][k] /= d;
    for (int r = 0; r < 4; ++r) if (r != c) { L f = m[r][c]; if (f != 0) for (int k = 0; k < 8; ++k) m[r][k] -= f * m[c][k]; } }
  for (int r = 0; r < 4; ++r) for (int c = 0; c < 4; ++c) inv.a[c][r] = m[r][4 + c];
  return true;
}
static L frob(const W4& A) { L s = 0; for (int c = 0; c < 4; ++c) for (int r = 0; r < 4; ++r) s += A.a[c][r] * A.a[c][r]; return sqrtl(s); }
// Error unit (to be multiplied by c*u) of every entry of the round trip.  Gram-Schmidt and the matrix->quaternion->matrix step
// act on whole columns, so the unit of the linear block is the column norm times the skew amplification (1 + sum|skew|); the
// translation is copied (one rounding); the perspective row is the solution of a linear system with the affine factor A and
// carries its condition number.
static void dec_units(const Comp& cm, const W4& A, bool persp, W4& UN) {
  const L amp = 1 + fabsl(cm.k[0]) + fabsl(cm.k[1]) + fabsl(cm.k[2]);
  for (int j = 0; j < 3; ++j) { L cn = sqrtl(A.a[j][0] * A.a[j][0] + A.a[j][1] * A.a[j][1] + A.a[j][2] * A.a[j][2]); for (int i = 0; i < 3; ++i) UN.a[j][i] = cn * amp; UN.a[3][j] = fabsl(cm.t[j]); }
  for (int j = 0; j < 4; ++j) UN.a[j][3] = 0;
  if (persp) { W4 inv; winverse(A, inv); const L kappa = frob(A) * frob(inv); for (int j = 0; j < 4; ++j) { L s = 0; for (int k = 0; k < 4; ++k) s += fabsl(cm.p[k] * A.a[j][k]); UN.a[j][3] = kappa * s; } }
}
// Round-trip verdict: `got` (rebuilt matrix) against the matrix Mf handed to decompose, |err| <= DEC_C*u*unit.
// A mismatch that is exactly "M / M[3][3] was rebuilt" (within the same tolerance) is attributed to the known-finding model.
static const L DEC_C = 48;
template <typename F> static bool judge(Outcome& o, const W4& got, const W4& Mf, const W4& UN, int vc, int slot, const char* legacy_msg, const char* bad_msg) {
  const L u = U<F>(), w33 = Mf.a[3][3]; const bool wn1 = w33 != 1; bool ok = true, legacy = wn1; int bc = 0, br = 0;
  for (int cc = 0; cc < 4; ++cc) for (int rr = 0; rr < 4; ++rr) { L e = fabsl(got.a[cc][rr] - Mf.a[cc][rr]), unit = u * UN.a[cc][rr];
    if (!(e <= DEC_C * unit)) { if (ok) { bc = cc; br = rr; } ok = false; } else meas<F>(slot + (rr == 3), e, unit);
    if (wn1) { L el = fabsl(got.a[cc][rr] - Mf.a[cc][rr] / w33), ul = unit / fabsl(w33); if (!(el <= DEC_C * ul)) legacy = false; else meas<F>(S_DEC_LEGACY + (rr == 3), el, ul); } }
  if (ok) return true;
  o.res(FT<F>::bits((F)got.a[bc][br]), (uint64_t)(bc * 4 + br)); o.exp(FT<F>::bits((F)Mf.a[bc][br]));
  if (legacy) { o.kf = KF_DECOMPOSE_W; o.bad(vc, legacy_msg); } else o.bad(vc + 1, bad_msg);
  return false;
}
template <typename F, bool ENABLE> struct Recomp { template <typename V3, typename Q, typename V4> static bool run(Outcome&, const V3&, const Q&, const V3&, const V3&, const V4&, const W4&, const W4&) { return true; } };
template <typename F> struct Recomp<F, true> { template <typename V3, typename Q, typename V4> static bool run(Outcome& o, const V3& sc, const Q& q, const V3& tr, const V3& sk, const V4& pe, const W4& Mf, const W4& UN) {
  typename G<F>::M4 g = glm::recompose(sc, q, tr, sk, pe);
  return judge<F>(o, toW<4>(g), Mf, UN, 4, S_DEC_GLM, "recompose(decompose(M)) == M / M[3][3], not M (decompose normalises by M[3][3] and does not return the factor)", "recompose(decompose(M)) != M"); } };
#ifdef C09_RECOMPOSE_DOUBLE
enum { RECOMPOSE_DOUBLE = 1 };
#else
enum { RECOMPOSE_DOUBLE = 0 };
#endif
template <typename F> static void op_decompose(const Case& c, Outcome& o) {
  typedef G<F> T; Comp cm; cm.R = &g_rot[c.w[0]];
  { uint64_t si = c.w[1]; for (int i = 2; i >= 0; --i) { cm.s[i] = SCALEVALS[si % 5]; si /= 5; } }
  for (int i = 0; i < 3; ++i) { cm.t[i] = TRANS[c.w[2]][i]; cm.k[i] = SKEWS[c.w[3]][i]; } const int pk = (int)c.w[4];
  for (int i = 0; i < 4; ++i) cm.p[i] = PERSP[pk][i]; if (pk == 1) cm.p[3] = 1 - (cm.p[0] * cm.t[0] + cm.p[1] * cm.t[1] + cm.p[2] * cm.t[2]);
  W4 Mw, Aw, UN; compose(cm, Mw, Aw); dec_units(cm, Aw, pk != 0, UN); typename T::M4 M = fromW<4, F>(Mw); W4 Mf = toW<4>(M);   // Mf: the matrix actually handed to decompose
  // outcome class from the inputs: which branch of the matrix->quaternion extraction the effective rotation needs, and the perspective kind
  { L sg[3], dets = cm.s[0] * cm.s[1] * cm.s[2]; for (int i = 0; i < 3; ++i) sg[i] = (cm.s[i] < 0 ? -1 : 1) * (dets < 0 ? -1 : 1);
    L d0 = sg[0] * cm.R->r[0][0], d1 = sg[1] * cm.R->r[1][1], d2 = sg[2] * cm.R->r[2][2], tr = d0 + d1 + d2; int br = 0; if (!(tr > 0)) { br = 1; if (d1 > d0) br = 2; if (d2 > (br == 2 ? d1 : d0)) br = 3; }
    int pc = pk == 0 ? 0 : (Mf.a[3][3] == 1 ? 1 : 2); o.cls(br * 3 + pc); }
  typename T::V3 sc, tr, sk; typename T::V4 pe; typename T::Q q;
  if (!glm::decompose(M, sc, q, tr, sk, pe)) { o.bad(1, "decompose() refused an invertible composed matrix"); return; }
  // (a) reference recompose of the returned components (the only form available for double on the current tree)
  { Comp d; RotEntry re; W4 Rref, dummy; const L qw = q.w, qx = q.x, qy = q.y, qz = q.z;
    re.r[0][0] = 1 - 2 * (qy * qy + qz * qz); re.r[0][1] = 2 * (qx * qy + qw * qz); re.r[0][2] = 2 * (qx * qz - qw * qy);
    re.r[1][0] = 2 * (qx * qy - qw * qz); re.r[1][1] = 1 - 2 * (qx * qx + qz * qz); re.r[1][2] = 2 * (qy * qz + qw * qx);
    re.r[2][0] = 2 * (qx * qz + qw * qy); re.r[2][1] = 2 * (qy * qz - qw * qx); re.r[2][2] = 1 - 2 * (qx * qx + qy * qy);
    d.R = &re; for (int i = 0; i < 3; ++i) { d.s[i] = sc[i]; d.t[i] = tr[i]; d.k[i] = sk[i]; } for (int i = 0; i < 4; ++i) d.p[i] = pe[i];
    compose(d, Rref, dummy);
    if (!judge<F>(o, Rref, Mf, UN, 2, S_DEC_REF, "decompose(): the components rebuild M / M[3][3], not M (the normalisation by M[3][3] is not returned)", "decompose(): the returned components do not rebuild the matrix (P*T*R*Kyz*Kxz*Kxy*S in long double)")) return; }
  // (b) glm::recompose of the returned components
  if (!Recomp<F, sizeof(F) == 4 || RECOMPOSE_DOUBLE>::run(o, sc, q, tr, sk, pe, Mf, UN)) return;
}

// ========================================================================================== axisAngle / interpolate / orientation
template <typename F> static void op_axisAngle(const Case& c, Outcome& o) {
  typedef G<F> T; const L u = U<F>(); L v[3] = {(L)f64(c.w[0]), (L)f64(c.w[1]), (L)f64(c.w[2])}, n[3]; if (!wnormalize(v, n)) { o.nontrivial = false; return; }
  const int kind = (int)c.w[4]; W4 R = wident(); L cond = 1;
  if (kind == 0) { F ang = (F)f64(c.w[3]); L sn = fabsl(sinl((L)ang)); if (sn < 0.25L) { o.nontrivial = false; return; } cond = 1 / sn; R = rodrigues(n, (L)ang).R; }
  else if (kind == 1) { for (int i = 0; i < 3; ++i) for (int j = 0; j < 3; ++j) R.a[j][i] = 2 * n[i] * n[j] - (i == j ? 1 : 0); }   // exact half turn about n
  o.cls(kind);
  typename T::M4 Rf = fromW<4, F>(R); W4 Rw = toW<4>(Rf); typename T::V3 axis(0); F angle = 0; glm::axisAngle(Rf, axis, angle);
  const L al[3] = {(L)axis[0], (L)axis[1], (L)axis[2]}; Rod back = rodrigues(al, (L)angle);
  for (int cc = 0; cc < 3; ++cc) for (int rr = 0; rr < 3; ++rr) { L e = fabsl(back.R.a[cc][rr] - Rw.a[cc][rr]); meas<F>(S_AXISANGLE, e, u * cond);
    if (!(e <= 16 * u * cond)) { o.res(FT<F>::bits(angle), FT<F>::bits(axis[0])); o.exp(FT<F>::bits((F)Rw.a[cc][rr])); o.bad(1 + kind, "axisAngle(R): the rotation about the returned axis by the returned angle is not R"); return; } }
}
template <typename F> static void op_interpolate(const Case& c, Outcome& o) {
  typedef G<F> T; const L u = U<F>(); L va[3], vb[3], na[3], nb[3]; for (int i = 0; i < 3; ++i) { va[i] = (L)f64(c.w[i]); vb[i] = (L)f64(c.w[4 + i]); }
  if (!wnormalize(va, na) || !wnormalize(vb, nb)) { o.nontrivial = false; return; }
  const F alpha = (F)f64(c.w[3]), beta = (F)f64(c.w[7]), dl = (F)f64(c.w[8]); const L t1[3] = {1, -2, 3}, t2[3] = {-4, 0.5L, 2};
  W4 A = rodrigues(na, (L)alpha).R, B = rodrigues(nb, (L)beta).R; for (int i = 0; i < 3; ++i) { A.a[3][i] = t1[i]; B.a[3][i] = t2[i]; }
  typename T::M4 m1 = fromW<4, F>(A), m2 = fromW<4, F>(B); W4 A1 = toW<4>(m1), B1 = toW<4>(m2);
  W4 R1 = A1, R2 = B1; for (int i = 0; i < 3; ++i) { R1.a[3][i] = 0; R2.a[3][i] = 0; } W4 D = wmul(R2, wtranspose(R1));
  L cs = (D.a[0][0] + D.a[1][1] + D.a[2][2] - 1) / 2; if (cs > 1) cs = 1; if (cs < -1) cs = -1; const L th = acosl(cs), sn = sinl(th);
  if (sn < 0.25L) { o.nontrivial = false; return; }   // rotation difference near 0 or pi: axis extraction ill-conditioned
  o.cls(dl == 0 ? 0 : dl == 1 ? 1 : 2);
  L axd[3] = {D.a[1][2] - D.a[2][1], D.a[2][0] - D.a[0][2], D.a[0][1] - D.a[1][0]}, nd[3]; wnormalize(axd, nd);
  W4 ref = wmul(rodrigues(nd, th * (L)dl).R, R1); typename T::M4 g = glm::interpolate(m1, m2, dl);
  for (int cc = 0; cc < 3; ++cc) for (int rr = 0; rr < 3; ++rr) { L e = fabsl((L)g[cc][rr] - ref.a[cc][rr]); meas<F>(S_INTERP, e, u / sn);
    if (!(e <= 32 * u / sn)) { o.res(FT<F>::bits(g[cc][rr]), (uint64_t)(cc * 4 + rr)); o.exp(FT<F>::bits((F)ref.a[cc][rr])); o.bad(1, "interpolate(m1,m2,t): rotation part is not the rotation about the axis of R2*R1^T by t*angle, applied to R1"); return; } }
  for (int i = 0; i < 3; ++i) { L want = A1.a[3][i] + (L)dl * (B1.a[3][i] - A1.a[3][i]), m = fabsl(A1.a[3][i]) + fabsl((L)dl) * (fabsl(B1.a[3][i]) + fabsl(A1.a[3][i])), e = fabsl((L)g[3][i] - want); meas<F>(S_INTERP_T, e, u * m);
    if (!(e <= 8 * u * m)) { o.res(FT<F>::bits(g[3][i]), (uint64_t)(12 + i)); o.exp(FT<F>::bits((F)want)); o.bad(2, "interpolate(m1,m2,t): translation is not the linear blend"); return; } }
  for (int cc = 0; cc < 4; ++cc) if (!((L)g[cc][3] == (cc == 3 ? 1 : 0))) { o.res(FT<F>::bits(g[cc][3]), (uint64_t)(cc * 4 + 3)); o.bad(3, "interpolate(m1,m2,t): bottom row is not 0 0 0 1"); return; }
}
// orientation(Normal, Up): a rotation that takes Up to Normal (unit vectors, not opposite)
template <typename F> static void op_orientation(const Case& c, Outcome& o) {
  typedef G<F> T; const L u = U<F>(); L va[3], vb[3], na[3], nb[3], cr[3]; for (int i = 0; i < 3; ++i) { va[i] = (L)f64(c.w[i]); vb[i] = (L)f64(c.w[3 + i]); }
  if (!wnormalize(va, na) || !wnormalize(vb, nb)) { o.nontrivial = false; return; }
  F nf[3], uf[3]; L nl[3], ul[3]; for (int i = 0; i < 3; ++i) { nf[i] = (F)na[i]; uf[i] = (F)nb[i]; nl[i] = nf[i]; ul[i] = uf[i]; }
  wcross(ul, nl, cr); const L sn = sqrtl(wdot(cr, cr)), cs = wdot(ul, nl); if (cs < 0 && sn < 0.25L) { o.nontrivial = false; return; }   // opposite vectors: no unique rotation
  const bool same = sn < 1e-3L; const L cond = same ? 1 : 1 / sn; if (!same && sn < 0.25L) { o.nontrivial = false; return; } o.cls(same ? 0 : 1);
  typename T::M4 g = glm::orientation(typename T::V3(nf[0], nf[1], nf[2]), typename T::V3(uf[0], uf[1], uf[2])); W4 W = toW<4>(g);
  for (int i = 0; i < 3; ++i) for (int j = 0; j < 3; ++j) { L s = 0; for (int k = 0; k < 3; ++k) s += W.a[k][i] * W.a[k][j]; L e = fabsl(s - (i == j ? 1 : 0)); meas<F>(S_ORIENT, e, u);
    if (!(e <= 40 * u)) { o.res(FT<F>::bits((F)s), (uint64_t)(i * 4 + j)); o.bad(1, "orientation(Normal,Up): not a rotation (linear part not orthonormal)"); return; } }
  for (int i = 0; i < 3; ++i) { L r = 0; for (int j = 0; j < 3; ++j) r += W.a[j][i] * ul[j]; L e = fabsl(r - nl[i]); meas<F>(S_ORIENT_MAP, e, u * cond);
    if (!(e <= 32 * u * cond)) { o.res(FT<F>::bits((F)r), (uint64_t)i); o.exp(FT<F>::bits(nf[i])); o.bad(2, "orientation(Normal,Up) does not take Up to Normal"); return; } }
  for (int cc = 0; cc < 4; ++cc) if (!(W.a[cc][3] == (cc == 3 ? 1 : 0)) || (cc < 3 && !(W.a[3][cc] == 0))) { o.bad(3, "orientation(Normal,Up): not a pure rotation matrix (border must be identity)"); return; }
}
// identity<genType>()
static void op_identity(const Case&, Outcome& o) {
  o.cls(0);
  if (!(glm::identity<glm::mat4>() == glm::mat4(1.f)) || !(glm::identity<glm::dmat4>() == glm::dmat4(1.0)) || !(glm::identity<glm::mat3>() == glm::mat3(1.f)) || !(glm::identity<glm::mat2>() == glm::mat2(1.f)) || !(glm::identity<glm::dmat3>() == glm::dmat3(1.0))) { o.bad(1, "identity<matN>() is not the identity matrix"); return; }
  glm::quat q = glm::identity<glm::quat>(); if (!(q.w == 1.f && q.x == 0.f && q.y == 0.f && q.z == 0.f)) { o.bad(2, "identity<quat>() is not (w=1, 0,0,0)"); return; }
}

// ========================================================================================== registration
static std::vector<uint64_t> vec3rows(const std::vector<std::array<double, 3>>& v) { std::vector<uint64_t> r; for (auto& a : v) for (double x : a) r.push_back(b64(x)); return r; }

template <typename F> static void reg(Engine& E, const char* tn, const Domain& MB, const Domain& VEC3L, const Domain& AXES, const Domain& AXES26, const Domain& ANG_Q, const Domain& ANG_T, const Domain& SH6, const Domain& SHP, const Domain& ST,
                                      const Domain& LOOK_Q, const Domain& LOOK_T, const Domain& AA, const Domain& INTERP, const Domain& ORIENT) {
  const std::string t = std::string("<") + tn + ">";
  { Op& op = E.add("translate / gtx translate / 2d translate / extractMatrixRotation" + t, op_translate<F>); op.quick = {product("M x VEC3L", {MB, VEC3L})}; op.classes = {"exact-data", "rounded-data"}; }
  { Op& op = E.add("scale / scale_slow / gtx scale / 2d scale / scaleBias" + t, op_scale<F>); op.quick = {product("M x VEC3L", {MB, VEC3L})}; op.classes = {"exact-data", "rounded-data"}; }
  { Op& op = E.add("shear / shear_slow" + t, op_shear<F>); op.quick = {product("M x p x {-2,0,0.5,3}^6", {MB, SHP, SH6})}; op.classes = {"exact-data", "rounded-data"}; }
  { Op& op = E.add("shearX/Y/Z3D, shearX/Y2D, 2d shearX/Y" + t, op_shearN<F>); op.quick = {product("M x s x t", {MB, ST, ST})}; op.classes = {"exact-data", "rounded-data"}; }
  { Op& op = E.add("proj2D / proj3D" + t, op_proj<F>); op.quick = {product("M x unit axes", {MB, AXES26})}; op.classes = {"unit-normal"}; }
  { // the last word flags the first axis so that angle-only helpers are evaluated once per angle
    Op& op = E.add("rotate / rotate_slow / rotateNormalizedAxis / gtx rotate / axisAngleMatrix / rotate_vector" + t, op_rotate<F>);
    auto build = [&](const Domain& ang, const char* nm) { std::vector<uint64_t> flat;   // axis-major list of (axis, angle, first-axis flag) rows
      for (uint64_t a = 0; a < AXES.size; ++a) for (uint64_t g = 0; g < ang.size; ++g) { uint64_t w[3]; AXES.at(a, w); uint64_t gw; ang.at(g, &gw); flat.insert(flat.end(), {w[0], w[1], w[2], gw, (uint64_t)(a == 0)}); }
      return product(nm, {MB, rows("axes x angles", 5, flat)}); };
    op.quick = {build(ANG_Q, "M x axes x angles(k*pi/12, |k|<=48, tiny, pi-adjacent)")}; op.thorough = {build(ANG_T, "M x axes x angles(k*pi/96, |k|<=384, tiny, pi-adjacent)")}; op.classes = {"unit-axis", "non-unit-axis"}; }
  { Op& op = E.add("2d rotate" + t, op_rotate2d<F>); op.quick = {product("M x angles", {MB, ANG_Q})}; op.thorough = {product("M x angles(fine)", {MB, ANG_T})}; op.classes = {"all"}; }
  { Op& op = E.add("lookAtRH / lookAtLH / lookAt" + t, op_lookAt<F>); op.quick = {LOOK_Q}; op.thorough = {LOOK_T}; op.classes = {"valid-frame"}; }
  { Op& op = E.add("decompose / recompose" + t, op_decompose<F>);
    op.quick = {product("ROT_quick x scales{-0.5,0.5,1,2,3}^3 x T x skew x perspective", {range("ROT", 0, g_rot_quick), range("SCALE", 0, 125), range("T", 0, 2), range("SKEW", 0, 5), range("PERSP", 0, 4)})};
    op.thorough = {product("ROT x scales{-0.5,0.5,1,2,3}^3 x T x skew x perspective", {range("ROT", 0, g_rot.size()), range("SCALE", 0, 125), range("T", 0, 3), range("SKEW", 0, 6), range("PERSP", 0, 4)})};
    for (const char* b : {"trace>0", "i=0", "i=1", "i=2"}) for (const char* p : {"affine", "perspective,w=1", "perspective,w!=1"}) op.classes.push_back(std::string(b) + "/" + p); }
  { Op& op = E.add("axisAngle" + t, op_axisAngle<F>); op.quick = {AA}; op.classes = {"general", "half-turn", "identity"}; }
  { Op& op = E.add("interpolate" + t, op_interpolate<F>); op.quick = {INTERP}; op.classes = {"t=0", "t=1", "0<t<1"}; }
  { Op& op = E.add("orientation" + t, op_orientation<F>); op.quick = {ORIENT}; op.classes = {"normal==up", "general"}; }
}

int main(int argc, char** argv) {
  Engine E; E.property = "C09"; E.kf_ids = {"KF-C09-decompose-normalises-w"};
  E.assumptions = {"references evaluated entrywise in long double (x87 80-bit) from the documented elementary matrices; tolerances c*u*sum|terms| with u = 2^-24 / 2^-53",
                   "lookAt handedness expectation taken from the GLM_FORCE_LEFT_HANDED macro of this build",
                   "gtx shear helpers: only the structure (unit shear of the named axis, right multiplication) is demanded, the two gtx headers disagree on the orientation",
#ifndef C09_RECOMPOSE_DOUBLE
                   "glm::recompose<double> does not compile on this tree (hard-wired glm::mat4): the double half of decompose is checked against a long double recompose of the returned components only",
#endif
                   "axisAngle/interpolate/orientation/lookAt are checked where the geometric problem is well conditioned (sin of the relevant angle >= 0.25 or tolerance scaled by 1/sin)"};
  build_rotations();
  const double pi = 3.14159265358979323846, eps = FLT_EPSILON;
  Domain MB = range("M", 0, NBASE, true);
  std::vector<std::array<double, 3>> v3; for (int x = -2; x <= 2; ++x) for (int y = -2; y <= 2; ++y) for (int z = -2; z <= 2; ++z) v3.push_back({(double)x, (double)y, (double)z}); v3.push_back({2, 3, 5});
  { size_t n = v3.size(); for (size_t i = 0; i < n; ++i) v3.push_back({v3[i][0] * eps, v3[i][1] * eps, v3[i][2] * eps}); for (size_t i = 0; i < n; ++i) v3.push_back({-v3[i][0] * eps, -v3[i][1] * eps, -v3[i][2] * eps}); }
  Domain VEC3L = rows("VEC3L", 3, vec3rows(v3));
  std::vector<std::array<double, 3>> ax26, axes; for (int x = -1; x <= 1; ++x) for (int y = -1; y <= 1; ++y) for (int z = -1; z <= 1; ++z) if (x || y || z) ax26.push_back({(double)x, (double)y, (double)z});
  axes = ax26; for (auto& a : ax26) axes.push_back({a[0] * 0.5, a[1] * 0.5, a[2] * 0.5}); for (auto& a : ax26) axes.push_back({a[0] * 3, a[1] * 3, a[2] * 3}); axes.push_back({1, 2, 3}); axes.push_back({0.1, -0.2, 0.05});
  Domain AXES = rows("AXES", 3, vec3rows(axes)), AXES26 = rows("AXES26", 3, vec3rows(ax26));
  auto angles = [&](int div, int kmax) { std::vector<uint64_t> a; for (int k = -kmax; k <= kmax; ++k) a.push_back(b64(k * pi / div)); for (int j = 1; j <= 6; ++j) { double d = std::pow(10.0, -j); for (double b : {0.0, pi, -pi}) { a.push_back(b64(b + d)); a.push_back(b64(b - d)); } } return a; };
  Domain ANG_Q = list("ANGLES", angles(12, 48)), ANG_T = list("ANGLES_fine", angles(96, 384));
  const double sh[4] = {-2, 0, 0.5, 3}; std::vector<uint64_t> sh6; for (int i = 0; i < 4096; ++i) { int k = i; for (int j = 0; j < 6; ++j) { sh6.push_back(b64(sh[k & 3])); k >>= 2; } }
  Domain SH6 = rows("{-2,0,0.5,3}^6", 6, sh6, true), SHP = rows("p", 3, vec3rows({{0, 0, 0}, {2, 3, 5}, {-1, 0.5, 2}, {0.1, -0.3, 0.7}}));
  Domain ST = list("s", {b64(-2), b64(0), b64(0.5), b64(3), b64(1), b64(-0.3)});
  auto look = [&](int lo, int hi, const char* nm) { std::vector<std::array<double, 3>> ey, ce, up;
    if (hi - lo == 4) { for (int x = lo; x <= hi; ++x) for (int y = lo; y <= hi; ++y) for (int z = lo; z <= hi; ++z) { ey.push_back({(double)x, (double)y, (double)z}); ce.push_back({(double)x, (double)y, (double)z}); } }
    else { const double e3[3] = {-1, 0, 2}, c3[3] = {-2, 0, 1}; for (double x : e3) for (double y : e3) for (double z : e3) ey.push_back({x, y, z}); for (double x : c3) for (double y : c3) for (double z : c3) ce.push_back({x, y, z}); }
    ey.push_back({2, 3, 5}); ey.push_back({0.5, -1.25, 3}); ce.push_back({7, 11, 13}); ce.push_back({-0.75, 2.5, 0.1}); up = ax26; if (hi - lo == 4) { up.clear(); for (int x = -2; x <= 2; ++x) for (int y = -2; y <= 2; ++y) for (int z = -2; z <= 2; ++z) if (x || y || z) up.push_back({(double)x, (double)y, (double)z}); } up.push_back({0, 2, 0}); up.push_back({0.5, 3, -1});
    return product(nm, {rows("eye", 3, vec3rows(ey)), rows("center", 3, vec3rows(ce)), rows("up", 3, vec3rows(up))}); };
  Domain LOOK_Q = look(0, 0, "eye{-1,0,2}^3+2 x center{-2,0,1}^3+2 x up({-1,0,1}^3 + 2 non-unit)"), LOOK_T = look(-2, 2, "eye{-2..2}^3+2 x center{-2..2}^3+2 x up({-2..2}^3 + 2 non-integer)");
  // axisAngle: (axis, angle, kind) ; kind 0 general angle, 1 exact half turn, 2 identity
  std::vector<uint64_t> aa; for (auto& a : axes) { for (int k = -48; k <= 48; ++k) if (k % 12) aa.insert(aa.end(), {b64(a[0]), b64(a[1]), b64(a[2]), b64(k * pi / 12), 0}); aa.insert(aa.end(), {b64(a[0]), b64(a[1]), b64(a[2]), b64(0), 1}); }
  aa.insert(aa.end(), {b64(1), b64(0), b64(0), b64(0), 2});
  Domain AA = rows("axes x k*pi/12 (sin != 0), exact half turns, identity", 5, aa);
  std::vector<std::array<double, 3>> ax7 = {{1, 0, 0}, {0, 1, 0}, {0, 0, 1}, {1, 1, 0}, {0, -1, 1}, {1, 1, 1}, {-1, 2, 3}};
  std::vector<uint64_t> ip; for (auto& a : ax7) for (int ka = -5; ka <= 6; ++ka) for (auto& b : ax7) for (int kb = -5; kb <= 6; ++kb) for (double dl : {0.0, 0.25, 0.5, 1.0}) ip.insert(ip.end(), {b64(a[0]), b64(a[1]), b64(a[2]), b64(ka * pi / 6), b64(b[0]), b64(b[1]), b64(b[2]), b64(kb * pi / 6), b64(dl)});
  Domain INTERP = rows("(axisA, k*pi/6) x (axisB, k*pi/6) x t{0,.25,.5,1}", 9, ip);
  Domain ORIENT = product("unit axes^2", {AXES26, AXES26});
  reg<float>(E, "float", MB, VEC3L, AXES, AXES26, ANG_Q, ANG_T, SH6, SHP, ST, LOOK_Q, LOOK_T, AA, INTERP, ORIENT);
  reg<double>(E, "double", MB, VEC3L, AXES, AXES26, ANG_Q, ANG_T, SH6, SHP, ST, LOOK_Q, LOOK_T, AA, INTERP, ORIENT);
  { Op& op = E.add("identity<genType>", op_identity); op.quick = {range("ONE", 0, 1, true)}; op.classes = {"all"}; }
  return E.main(argc, argv);
}
