// C10 — inverse / determinant and their gtc/gtx variants satisfy the defining identities.
// Complete small-integer matrix grids (exact __int128 adjugate / Leibniz determinant as the reference), power-of-two
// scaled copies, and near-singular-but-in-range rank-one perturbations M0 + 2^-p * E_ij with the condition number
// computed exactly from the integer adjugate.
#define GLM_ENABLE_EXPERIMENTAL
#include <glm/glm.hpp>
#include <glm/ext/matrix_integer.hpp>
#include <glm/ext/matrix_int2x2.hpp>
#include <glm/ext/matrix_int3x3.hpp>
#include <glm/ext/matrix_int4x4.hpp>
#include <glm/gtc/matrix_inverse.hpp>
#include <glm/gtx/matrix_operation.hpp>
#include <glm/gtx/matrix_query.hpp>
#include <glm/gtx/matrix_factorisation.hpp>
#include "glmx.hpp"
#include <cfloat>
using namespace glmx;

typedef __int128 I128;
typedef long double LD;

template <typename T> struct FT;
template <> struct FT<float> { enum { MANT = 24 }; static uint64_t bits(float f) { return b32(f); } static LD klim() { return 1e4L; } };
template <> struct FT<double> { enum { MANT = 53 }; static uint64_t bits(double f) { return b64(f); } static LD klim() { return 1e8L; } };
template <typename T> static inline LD unit() { return std::ldexp((LD)1, -(int)FT<T>::MANT); }
static inline LD labs_(LD x) { return x < 0 ? -x : x; }
static inline I128 iabs(I128 x) { return x < 0 ? -x : x; }

#ifdef C10_STATS   // development aid only (never defined by the harness): measured maximum of error / tolerance per check kind
#include <atomic>
static std::atomic<uint64_t> g_stat[64];
static const char* g_statname[64];
static inline void stat(int k, const char* name, LD ratio) { if (!(ratio == ratio)) return; double d = (double)ratio; uint64_t b = b64(d > 0 ? d : 0.0), cur = g_stat[k].load(); g_statname[k] = name; while (b > cur && !g_stat[k].compare_exchange_weak(cur, b)) {} }
static void stat_dump() { for (int k = 0; k < 64; ++k) if (g_statname[k]) std::fprintf(stderr, "STAT %-44s max err/tol = %.4g\n", g_statname[k], f64(g_stat[k].load())); }
#define STAT(k, name, r) stat(k, name, r)
#else
#define STAT(k, name, r) ((void)0)
#endif

// ------------------------------------------------------------------ exact integer reference (column-major: a[col][row])
template <int N> struct IM { I128 a[N][N]; };
struct Perms {
  int n[5], p[5][24][4], s[5][24];
  Perms() { for (int N = 1; N <= 4; ++N) { int a[4] = {0, 1, 2, 3}, k = 0; do { int inv = 0; for (int i = 0; i < N; ++i) for (int j = i + 1; j < N; ++j) inv += a[i] > a[j];
        for (int i = 0; i < N; ++i) p[N][k][i] = a[i]; s[N][k] = (inv & 1) ? -1 : 1; ++k; } while (std::next_permutation(a, a + N)); n[N] = k; } }
};
static const Perms PR;
// Leibniz expansion: sum over all permutations of sign * product
template <int N> static I128 idet(const IM<N>& m) { I128 d = 0; for (int k = 0; k < PR.n[N]; ++k) { I128 t = PR.s[N][k]; for (int c = 0; c < N; ++c) t *= m.a[c][PR.p[N][k][c]]; d += t; } return d; }
// sum of the absolute values of the Leibniz terms (permanent of |M|): the scale of the rounding error of any determinant formula
template <int N> static I128 iperm(const IM<N>& m) { I128 d = 0; for (int k = 0; k < PR.n[N]; ++k) { I128 t = 1; for (int c = 0; c < N; ++c) t *= iabs(m.a[c][PR.p[N][k][c]]); d += t; } return d; }
// adjugate: adj(row r, col c) = (-1)^(r+c) * det(M without row c and column r)
template <int N> static void iadj(const IM<N>& m, IM<N>& adj) {
  for (int c = 0; c < N; ++c) for (int r = 0; r < N; ++r) {
    IM<N - 1> mn; int cc = 0;
    for (int c2 = 0; c2 < N; ++c2) { if (c2 == r) continue; int rr = 0; for (int r2 = 0; r2 < N; ++r2) { if (r2 == c) continue; mn.a[cc][rr++] = m.a[c2][r2]; } ++cc; }
    I128 d = idet<N - 1>(mn); adj.a[c][r] = ((r + c) & 1) ? -d : d; }
}
template <int N> static void imul(const IM<N>& A, const IM<N>& B, IM<N>& P) { for (int c = 0; c < N; ++c) for (int r = 0; r < N; ++r) { I128 s = 0; for (int k = 0; k < N; ++k) s += A.a[k][r] * B.a[c][k]; P.a[c][r] = s; } }
template <int N> static LD normInf(const IM<N>& m) { LD b = 0; for (int r = 0; r < N; ++r) { LD s = 0; for (int c = 0; c < N; ++c) s += (LD)iabs(m.a[c][r]); if (s > b) b = s; } return b; }
template <int N> static LD norm1(const IM<N>& m) { LD b = 0; for (int c = 0; c < N; ++c) { LD s = 0; for (int r = 0; r < N; ++r) s += (LD)iabs(m.a[c][r]); if (s > b) b = s; } return b; }

// grid word: base*16+offset ; digit k of the index (least significant first) is entry [k / N][k % N] + (-offset)
static inline uint64_t gridcode(int base, int off) { return (uint64_t)base * 16 + off; }
template <int N> static void decode(uint64_t idx, uint64_t code, IM<N>& m) { const uint64_t base = code / 16; const int off = (int)(code % 16); for (int k = 0; k < N * N; ++k) { m.a[k / N][k % N] = (I128)((int)(idx % base) - off); idx /= base; } }
template <int N> static uint64_t encode(const int* e /*[c*N+r]*/, int base, int off) { uint64_t idx = 0; for (int k = N * N - 1; k >= 0; --k) idx = idx * base + (uint64_t)(e[k] + off); return idx; }

template <int N, typename T> struct Ref {
  typedef glm::mat<N, N, T, glm::defaultp> Mat;
  IM<N> Mi, adj; int e; I128 det, perm; LD kappa, inv[N][N], invmax, mmax; bool sing, unimod; Mat M;
  // M = Mi * 2^e.  false: the oracle itself is inconsistent (reported as ORACLE failure)
  bool init(const IM<N>& mi, int e_, Outcome& o) {
    Mi = mi; e = e_; det = idet<N>(Mi); perm = iperm<N>(Mi); iadj<N>(Mi, adj);
    IM<N> P; imul<N>(adj, Mi, P); for (int c = 0; c < N; ++c) for (int r = 0; r < N; ++r) if (P.a[c][r] != (c == r ? det : (I128)0)) { o.bad(95, "ORACLE: integer adjugate * M != det * I"); return false; }
    imul<N>(Mi, adj, P); for (int c = 0; c < N; ++c) for (int r = 0; r < N; ++r) if (P.a[c][r] != (c == r ? det : (I128)0)) { o.bad(95, "ORACLE: M * integer adjugate != det * I"); return false; }
    mmax = 0; const LD s = std::ldexp((LD)1, e), sinv = std::ldexp((LD)1, -e);   // multiplication by a power of two is exact (no entry leaves the normal range)
    for (int c = 0; c < N; ++c) for (int r = 0; r < N; ++r) { if (iabs(Mi.a[c][r]) >= ((I128)1 << FT<T>::MANT)) { o.bad(96, "ORACLE: matrix entry not representable"); return false; }
      M[c][r] = (T)((LD)Mi.a[c][r] * s); LD a = labs_((LD)M[c][r]); if (a > mmax) mmax = a; }
    sing = det == 0; unimod = e == 0 && (det == 1 || det == -1); kappa = 0; invmax = 0;
    if (!sing) { LD d = (LD)iabs(det); kappa = std::max(normInf<N>(Mi) * normInf<N>(adj), norm1<N>(Mi) * norm1<N>(adj)) / d;
      for (int c = 0; c < N; ++c) for (int r = 0; r < N; ++r) { inv[c][r] = (LD)adj.a[c][r] / (LD)det * sinv; LD a = labs_(inv[c][r]); if (a > invmax) invmax = a; } }
    return true;
  }
  LD detref() const { return std::ldexp((LD)det, e * N); }
  // determinant: every Leibniz term passes through at most 2,5,9 roundings (N = 2,3,4) in a cofactor scheme; 4N leaves room for other orders
  LD dettol() const { return 4 * N * unit<T>() * std::ldexp((LD)perm, e * N); }
  // residual of the defining identity: proportional to the condition number
  LD invtol() const { return 8 * N * unit<T>() * kappa; }
  bool inrange() const { return !sing && kappa <= FT<T>::klim(); }
  bool permlike() const { for (int c = 0; c < N; ++c) { int n = 0; for (int r = 0; r < N; ++r) n += Mi.a[c][r] != 0; if (n != 1) return false; } for (int r = 0; r < N; ++r) { int n = 0; for (int c = 0; c < N; ++c) n += Mi.a[c][r] != 0; if (n != 1) return false; } return true; }
  bool triangular() const { bool up = true, lo = true; for (int c = 0; c < N; ++c) for (int r = 0; r < N; ++r) { if (r > c && Mi.a[c][r] != 0) up = false; if (r < c && Mi.a[c][r] != 0) lo = false; } return up || lo; }
};

// max |X*M - I| (left) or max |M*X - I| evaluated in long double from the returned entries
template <int N, typename T> static LD resid(const glm::mat<N, N, T, glm::defaultp>& X, const glm::mat<N, N, T, glm::defaultp>& M, bool left) {
  LD worst = 0;
  for (int c = 0; c < N; ++c) for (int r = 0; r < N; ++r) { LD s = 0; for (int k = 0; k < N; ++k) s += left ? (LD)X[k][r] * (LD)M[c][k] : (LD)M[k][r] * (LD)X[c][k];
    s -= (c == r) ? 1 : 0; s = labs_(s); if (!(s <= worst)) worst = s; if (s != s) return s; }
  return worst;
}
// entrywise comparison with the exact rational inverse (transposed if tr); returns worst |difference|, records the worst pair
template <int N, typename T> static LD fwd(const glm::mat<N, N, T, glm::defaultp>& X, const Ref<N, T>& R, bool tr, Outcome& o, bool& exact) {
  LD worst = -1; exact = true;
  for (int c = 0; c < N; ++c) for (int r = 0; r < N; ++r) { LD want = tr ? R.inv[r][c] : R.inv[c][r]; LD d = labs_((LD)X[c][r] - want); if (!((LD)X[c][r] == want)) exact = false;
    if (!(d <= worst)) { worst = d; o.res(FT<T>::bits(X[c][r]), (uint64_t)(c * N + r)); o.exp(FT<T>::bits((T)want), (uint64_t)(c * N + r)); } }
  return worst;
}

// ------------------------------------------------------------------ determinant, inverse, inverseTranspose on one matrix
template <int N, typename T> static void check_all(const Ref<N, T>& R, Outcome& o) {
  typedef glm::mat<N, N, T, glm::defaultp> Mat;
  const LD dref = R.detref(), dtol = R.dettol();
  { T g = glm::determinant(R.M); o.res(FT<T>::bits(g)); o.exp(FT<T>::bits((T)dref)); LD err = labs_((LD)g - dref); STAT(0 + N, "determinant vs Leibniz", dtol > 0 ? err / dtol : (err > 0 ? 1e9 : 0));
    if (!(err <= dtol)) { o.bad(1, "determinant(M) differs from the Leibniz expansion by more than 4N u sum|terms|"); return; }
    if (R.unimod && !((LD)g == dref)) { o.bad(2, "determinant of an integer unimodular matrix is not exact"); return; }
    T gt = glm::determinant(glm::transpose(R.M)); o.res(FT<T>::bits(gt)); LD errt = labs_((LD)gt - dref);
    if (!(errt <= dtol) || (R.unimod && !((LD)gt == dref))) { o.bad(3, "determinant(transpose(M)) != determinant(M)"); return; } }
  if (!R.inrange()) return;
  const LD tol = R.invtol(); bool exact;
  { Mat X = glm::inverse(R.M); LD f = fwd<N, T>(X, R, false, o, exact);
    if (R.unimod && !exact) { o.bad(6, "inverse of an integer unimodular matrix is not exact"); return; }
    LD rl = resid<N, T>(X, R.M, true), rr = resid<N, T>(X, R.M, false); STAT(8 + N, "inverse residual (both sides)", std::max(rl, rr) / tol); STAT(12 + N, "inverse forward error / (tol*max|inv|)", f / (tol * R.invmax));
    if (!(rl <= tol)) { o.bad(4, "inverse(M)*M differs from I by more than 8N u cond(M)"); return; }
    if (!(rr <= tol)) { o.bad(5, "M*inverse(M) differs from I by more than 8N u cond(M)"); return; }
    Mat IT = glm::inverseTranspose(R.M); fwd<N, T>(IT, R, true, o, exact);
    if (R.unimod && !exact) { o.bad(10, "inverseTranspose of an integer unimodular matrix is not exact"); return; }
    Mat ITt; for (int c = 0; c < N; ++c) for (int r = 0; r < N; ++r) ITt[c][r] = IT[r][c];
    LD tl = resid<N, T>(ITt, R.M, true), tr = resid<N, T>(ITt, R.M, false); STAT(16 + N, "inverseTranspose residual", std::max(tl, tr) / tol);
    if (!(tl <= tol) || !(tr <= tol)) { o.bad(8, "transpose(inverseTranspose(M)) is not an inverse of M within 8N u cond(M)"); return; }
    // inverseTranspose(M) == transpose(inverse(M)): both are within the forward bound of the exact inverse, so they differ by at most twice that
    Mat Xt = glm::transpose(X); LD worst = 0; for (int c = 0; c < N; ++c) for (int r = 0; r < N; ++r) { LD d = labs_((LD)IT[c][r] - (LD)Xt[c][r]); if (!(d <= worst)) { worst = d; o.res(FT<T>::bits(IT[c][r]), (uint64_t)(c * N + r)); o.exp(FT<T>::bits(Xt[c][r]), (uint64_t)(c * N + r)); } }
    STAT(20 + N, "inverseTranspose vs transpose(inverse)", worst / (2 * tol * R.invmax));
    if (!(worst <= 2 * tol * R.invmax)) { o.bad(9, "inverseTranspose(M) != transpose(inverse(M)) beyond 16N u cond(M) max|inverse|"); return; } }
}

// words: [grid index, grid code, exponent+64]
template <int N, typename T> static void op_main(const Case& c, Outcome& o) {
  IM<N> Mi; decode<N>(c.w[0], c.w[1], Mi); Ref<N, T> R; if (!R.init(Mi, (int)c.w[2] - 64, o)) return;
  const bool um = R.det == 1 || R.det == -1;
  o.cls(R.sing ? 0 : R.permlike() ? 1 : R.triangular() ? 2 : um ? 3 : 4);
  check_all<N, T>(R, o);
}
// words: [grid index, grid code, position c*N+r, p]   M = M0 + 2^-p * E_position
template <int N, typename T> static void op_near(const Case& c, Outcome& o) {
  IM<N> Mi; decode<N>(c.w[0], c.w[1], Mi); const int p = (int)c.w[3], pos = (int)c.w[2];
  for (int cc = 0; cc < N; ++cc) for (int r = 0; r < N; ++r) Mi.a[cc][r] *= ((I128)1 << p);
  Mi.a[pos / N][pos % N] += 1;
  Ref<N, T> R; if (!R.init(Mi, -p, o)) return;
  const LD lim = FT<T>::klim();
  o.cls(R.sing ? 0 : R.kappa <= 100 ? 1 : R.kappa <= lim / 8 ? 2 : R.kappa <= lim ? 3 : 4);
  if (R.sing || R.kappa > lim) o.nontrivial = false;   // outside the quantified domain: only the determinant is checked
  check_all<N, T>(R, o);
}

// ------------------------------------------------------------------ det(A*B) = det(A) det(B)     words: [idxA, gridA, idxB, gridB]
template <int N, typename T> static void op_detmul(const Case& c, Outcome& o) {
  IM<N> A, B, P; decode<N>(c.w[0], c.w[1], A); decode<N>(c.w[2], c.w[3], B); imul<N>(A, B, P);
  Ref<N, T> RA, RB, RP; if (!RA.init(A, 0, o) || !RB.init(B, 0, o) || !RP.init(P, 0, o)) return;
  if (RP.det != RA.det * RB.det) { o.bad(95, "ORACLE: integer determinant is not multiplicative"); return; }
  o.cls(RP.sing ? 1 : 0);
  T da = glm::determinant(RA.M), db = glm::determinant(RB.M), dp = glm::determinant(RP.M); o.res(FT<T>::bits(dp), FT<T>::bits((T)(da * db))); o.exp(FT<T>::bits((T)(LD)RP.det));
  if (!(labs_((LD)dp - (LD)RP.det) <= RP.dettol())) { o.bad(1, "determinant(A*B) differs from the Leibniz expansion of the product"); return; }
  LD tol = RP.dettol() + labs_((LD)RB.det) * RA.dettol() + labs_((LD)RA.det) * RB.dettol() + 2 * unit<T>() * labs_((LD)RP.det);
  if (!(labs_((LD)dp - (LD)da * (LD)db) <= tol)) { o.bad(2, "determinant(A*B) != determinant(A)*determinant(B)"); return; }
  // the product formed by GLM itself
  T dg = glm::determinant(RA.M * RB.M); if (!(labs_((LD)dg - (LD)da * (LD)db) <= tol)) { o.res(FT<T>::bits(dg), FT<T>::bits((T)(da * db))); o.bad(3, "determinant(A*B) (GLM product) != determinant(A)*determinant(B)"); return; }
}

// ------------------------------------------------------------------ affineInverse     words: [idxL, gridL, idxT, gridT(vector grid), k+64]
// M = [ 2^k L | 2^k t ; 0 ... 0 1 ]
template <int N, typename T> static void op_affine(const Case& c, Outcome& o) {
  typedef glm::mat<N, N, T, glm::defaultp> Mat;
  IM<N - 1> L; decode<N - 1>(c.w[0], c.w[1], L); const int k = (int)c.w[4] - 64; const int sh = k < 0 ? -k : k;
  IM<N> Mi; uint64_t ti = c.w[2]; const uint64_t tb = c.w[3] / 16; const int toff = (int)(c.w[3] % 16);
  for (int cc = 0; cc < N; ++cc) for (int r = 0; r < N; ++r) Mi.a[cc][r] = 0;
  for (int cc = 0; cc < N - 1; ++cc) for (int r = 0; r < N - 1; ++r) Mi.a[cc][r] = L.a[cc][r] * (k > 0 ? ((I128)1 << sh) : (I128)1);
  for (int r = 0; r < N - 1; ++r) { Mi.a[N - 1][r] = (I128)((int)(ti % tb) - toff) * (k > 0 ? ((I128)1 << sh) : (I128)1); ti /= tb; }
  Mi.a[N - 1][N - 1] = k < 0 ? ((I128)1 << sh) : (I128)1;
  Ref<N, T> R; if (!R.init(Mi, k < 0 ? k : 0, o)) return;
  if (!R.inrange()) { o.cls(2); o.nontrivial = false; return; }
  o.cls(R.unimod ? 0 : 1);
  const LD tol = R.invtol(); bool exact;
  Mat X = glm::affineInverse(R.M); LD f = fwd<N, T>(X, R, false, o, exact); (void)f;
  if (R.unimod && !exact) { o.bad(13, "affineInverse of an integer unimodular affine matrix is not exact"); return; }
  LD rl = resid<N, T>(X, R.M, true), rr = resid<N, T>(X, R.M, false); STAT(24 + N, "affineInverse residual", std::max(rl, rr) / tol);
  if (!(rl <= tol) || !(rr <= tol)) { o.bad(11, "affineInverse(M) is not an inverse of the affine matrix M within 8N u cond(M)"); return; }
  Mat Y = glm::inverse(R.M); LD worst = 0; for (int cc = 0; cc < N; ++cc) for (int r = 0; r < N; ++r) { LD d = labs_((LD)X[cc][r] - (LD)Y[cc][r]); if (!(d <= worst)) { worst = d; o.res(FT<T>::bits(X[cc][r]), (uint64_t)(cc * N + r)); o.exp(FT<T>::bits(Y[cc][r]), (uint64_t)(cc * N + r)); } }
  STAT(28 + N, "affineInverse vs inverse", worst / (2 * tol * R.invmax));
  if (!(worst <= 2 * tol * R.invmax)) { o.bad(12, "affineInverse(M) != inverse(M) for an affine M beyond 16N u cond(M) max|inverse|"); return; }
}

// ------------------------------------------------------------------ operator/     words: [idx, grid, partner, exponent+64]
static int partner_entry(int p, int c, int r) {   // four fixed small-integer partner matrices / vectors
  switch (p) { case 0: return c == r; case 1: return ((c * 3 + r * 5 + 1) % 5) - 2; case 2: return r <= c ? 1 + ((c + r) & 1) : 0; default: return ((c * 7 + r * 2 + 3) % 7) - 3; }
}
static int partner_vec(int p, int k) { static const int v[4][4] = {{1, 0, 0, 0}, {1, -2, 3, -1}, {0, 2, -1, 3}, {-3, 1, 2, 2}}; return v[p][k]; }
template <int N, typename T> static void op_div(const Case& c, Outcome& o) {
  typedef glm::mat<N, N, T, glm::defaultp> Mat; typedef glm::vec<N, T, glm::defaultp> Vec;
  IM<N> Mi; decode<N>(c.w[0], c.w[1], Mi); Ref<N, T> R; if (!R.init(Mi, (int)c.w[3] - 64, o)) return; const int p = (int)c.w[2];
  if (!R.inrange()) { o.nontrivial = false; return; }
  o.cls(R.unimod ? 0 : 1);
  Mat A; Vec v; for (int cc = 0; cc < N; ++cc) { v[cc] = (T)partner_vec(p, cc); for (int r = 0; r < N; ++r) A[cc][r] = (T)partner_entry(p, cc, r); }
  const LD ktol = R.invtol();
  // A / M = A * inverse(M)
  { LD want[N][N], smax = 0; for (int cc = 0; cc < N; ++cc) for (int r = 0; r < N; ++r) { LD s = 0, a = 0; for (int k = 0; k < N; ++k) { LD t = (LD)A[k][r] * R.inv[cc][k]; s += t; a += labs_(t); } want[cc][r] = s; if (a > smax) smax = a; }
    Mat G = A / R.M, H = A; H /= R.M; LD worst = 0; bool exact = true;
    for (int cc = 0; cc < N; ++cc) for (int r = 0; r < N; ++r) { LD d = labs_((LD)G[cc][r] - want[cc][r]); if (!((LD)G[cc][r] == want[cc][r])) exact = false; if (!(d <= worst)) { worst = d; o.res(FT<T>::bits(G[cc][r]), (uint64_t)(cc * N + r)); o.exp(FT<T>::bits((T)want[cc][r]), (uint64_t)(cc * N + r)); }
      if (!(G[cc][r] == H[cc][r])) { o.res(FT<T>::bits(H[cc][r]), (uint64_t)(cc * N + r)); o.exp(FT<T>::bits(G[cc][r]), (uint64_t)(cc * N + r)); o.bad(24, "A /= M differs from A / M"); return; } }
    STAT(32 + N, "mat / mat", worst / (ktol * smax));
    if (!(worst <= ktol * smax)) { o.bad(21, "A / M != A * inverse(M) within 8N u cond(M) sum|terms|"); return; }
    if (R.unimod && !exact) { o.bad(25, "A / M with integer A and integer unimodular M is not exact"); return; } }
  // aliasing: M /= M must equal M / M (the divisor is read by reference: it must not be consumed while the result is being stored), which is I within the inverse bound
  { Mat G = R.M / R.M, H = R.M; H /= H; LD amax = 0; for (int cc = 0; cc < N; ++cc) for (int r = 0; r < N; ++r) for (int k = 0; k < N; ++k) { LD a = labs_((LD)R.M[k][r] * R.inv[cc][k]); if (a > amax) amax = a; }
    for (int cc = 0; cc < N; ++cc) for (int r = 0; r < N; ++r) {
      if (!(G[cc][r] == H[cc][r])) { o.res(FT<T>::bits(H[cc][r]), (uint64_t)(cc * N + r)); o.exp(FT<T>::bits(G[cc][r]), (uint64_t)(cc * N + r)); o.bad(26, "M /= M (divisor aliases the dividend) differs from M / M"); return; }
      LD d = labs_((LD)G[cc][r] - (cc == r ? 1 : 0)); if (!(d <= ktol * N * amax) || (R.unimod && d != 0)) { o.res(FT<T>::bits(G[cc][r]), (uint64_t)(cc * N + r)); o.exp(FT<T>::bits((T)(cc == r ? 1 : 0)), (uint64_t)(cc * N + r)); o.bad(27, "M / M is not the identity within the inverse bound"); return; } } }
  // M / v = inverse(M) * v ;  v / M = v * inverse(M)
  { Vec g1 = R.M / v, g2 = v / R.M; LD smax = 0, w1[N], w2[N];
    for (int r = 0; r < N; ++r) { LD s = 0, a = 0; for (int cc = 0; cc < N; ++cc) { LD t = R.inv[cc][r] * (LD)v[cc]; s += t; a += labs_(t); } w1[r] = s; if (a > smax) smax = a; }
    for (int cc = 0; cc < N; ++cc) { LD s = 0, a = 0; for (int r = 0; r < N; ++r) { LD t = (LD)v[r] * R.inv[cc][r]; s += t; a += labs_(t); } w2[cc] = s; if (a > smax) smax = a; }
    for (int k = 0; k < N; ++k) { LD d1 = labs_((LD)g1[k] - w1[k]), d2 = labs_((LD)g2[k] - w2[k]); STAT(36 + N, "mat / vec, vec / mat", std::max(d1, d2) / (ktol * smax));
      if (!(d1 <= ktol * smax) || (R.unimod && !((LD)g1[k] == w1[k]))) { o.res(FT<T>::bits(g1[k]), (uint64_t)k); o.exp(FT<T>::bits((T)w1[k]), (uint64_t)k); o.bad(22, "M / v != inverse(M) * v"); return; }
      if (!(d2 <= ktol * smax) || (R.unimod && !((LD)g2[k] == w2[k]))) { o.res(FT<T>::bits(g2[k]), (uint64_t)k); o.exp(FT<T>::bits((T)w2[k]), (uint64_t)k); o.bad(23, "v / M != v * inverse(M)"); return; } } }
}

// ------------------------------------------------------------------ gtx adjugate: adjugate(M) * M = det(M) * I     words: [idx, grid, exponent+64]
template <int N, typename T> static void op_adjugate(const Case& c, Outcome& o) {
  IM<N> Mi; decode<N>(c.w[0], c.w[1], Mi); Ref<N, T> R; if (!R.init(Mi, (int)c.w[2] - 64, o)) return; o.cls(R.sing ? 0 : 1);
  glm::mat<N, N, T, glm::defaultp> G = glm::adjugate(R.M);
  for (int cc = 0; cc < N; ++cc) for (int r = 0; r < N; ++r) { LD want = std::ldexp((LD)R.adj.a[cc][r], R.e * (N - 1));   // all products are small integers times a power of two: any formula is exact
    if (!((LD)G[cc][r] == want)) { o.res(FT<T>::bits(G[cc][r]), (uint64_t)(cc * N + r)); o.exp(FT<T>::bits((T)want), (uint64_t)(cc * N + r)); o.bad(31, "adjugate(M) is not the matrix with adjugate(M)*M = determinant(M)*I"); return; } }
  // gtx/matrix_factorisation helpers: fliplr reverses the column order, flipud the row order (pure copies)
  { glm::mat<N, N, T, glm::defaultp> FL = glm::fliplr(R.M), FU = glm::flipud(R.M);
    for (int cc = 0; cc < N; ++cc) for (int r = 0; r < N; ++r) if (!(FL[cc][r] == R.M[N - 1 - cc][r]) || !(FU[cc][r] == R.M[cc][N - 1 - r])) { o.res(FT<T>::bits(FL[cc][r]), (uint64_t)(cc * N + r)); o.bad(32, "fliplr / flipud: not the matrix with its columns / rows in reverse order"); return; } }
}

// ------------------------------------------------------------------ gtx diagonalCxR     words: [index into {-2..2}^4 (values scaled by 0.5)]
template <glm::length_t C, glm::length_t R_, typename T, typename V> static bool diag_ok(const glm::mat<C, R_, T, glm::defaultp>& m, const V& v, int n, Outcome& o, int which) {
  for (int c = 0; c < C; ++c) for (int r = 0; r < R_; ++r) { T want = (c == r) ? (c < n ? v[c] : (T)1) : (T)0;
    if (c == r && c >= n) continue;   // a diagonal slot beyond the vector does not exist for these shapes (min(C,R) == length of v)
    if (!(m[c][r] == want)) { o.res(FT<T>::bits(m[c][r]), (uint64_t)(which * 100 + c * 4 + r)); o.exp(FT<T>::bits(want)); o.bad(41, "diagonalCxR(v): not v on the diagonal and 0 elsewhere"); return false; } }
  return true;
}
template <typename T> static void op_diagonal(const Case& c, Outcome& o) {
  uint64_t i = c.w[0]; T e[4]; bool zero = false; for (int k = 0; k < 4; ++k) { e[k] = (T)((int)(i % 5) - 2) * (T)0.5; zero = zero || e[k] == 0; i /= 5; } o.cls(zero ? 1 : 0);
  glm::vec<2, T, glm::defaultp> v2(e[0], e[1]); glm::vec<3, T, glm::defaultp> v3(e[0], e[1], e[2]); glm::vec<4, T, glm::defaultp> v4(e[0], e[1], e[2], e[3]);
  if (!diag_ok(glm::diagonal2x2(v2), v2, 2, o, 22) || !diag_ok(glm::diagonal2x3(v2), v2, 2, o, 23) || !diag_ok(glm::diagonal2x4(v2), v2, 2, o, 24) || !diag_ok(glm::diagonal3x2(v2), v2, 2, o, 32) ||
      !diag_ok(glm::diagonal3x3(v3), v3, 3, o, 33) || !diag_ok(glm::diagonal3x4(v3), v3, 3, o, 34) || !diag_ok(glm::diagonal4x2(v2), v2, 2, o, 42) || !diag_ok(glm::diagonal4x3(v3), v3, 3, o, 43) ||
      !diag_ok(glm::diagonal4x4(v4), v4, 4, o, 44)) return;
  // a diagonal matrix: determinant = product of the diagonal, inverse = reciprocal diagonal (all exact for these dyadic values up to the reciprocal)
  T d = glm::determinant(glm::diagonal4x4(v4)); o.res(FT<T>::bits(d)); o.exp(FT<T>::bits(e[0] * e[1] * e[2] * e[3])); if (!(d == e[0] * e[1] * e[2] * e[3])) { o.bad(42, "determinant(diagonal4x4(v)) != product of v"); return; }
}

// ------------------------------------------------------------------ gtx qr_decompose / rq_decompose (square, non-singular)     words: [idx, grid]
template <int N, typename T> static void op_qr(const Case& c, Outcome& o) {
  typedef glm::mat<N, N, T, glm::defaultp> Mat;
  IM<N> Mi; decode<N>(c.w[0], c.w[1], Mi); Ref<N, T> R; if (!R.init(Mi, 0, o)) return;
  if (!R.inrange()) { o.cls(1); o.nontrivial = false; return; } o.cls(0);
  const LD u = unit<T>(), tprod = 16 * N * u * R.mmax * N, torth = 16 * N * u * R.kappa;
  for (int which = 0; which < 2; ++which) {
    Mat q, r; if (which == 0) glm::qr_decompose(R.M, q, r); else glm::rq_decompose(R.M, r, q);
    LD eprod = 0, eorth = 0, etri = 0;
    for (int cc = 0; cc < N; ++cc) for (int rr = 0; rr < N; ++rr) {
      LD s = 0, g = 0; for (int k = 0; k < N; ++k) { s += which == 0 ? (LD)q[k][rr] * (LD)r[cc][k] : (LD)r[k][rr] * (LD)q[cc][k];       // q*r or r*q
                                                    g += which == 0 ? (LD)q[cc][k] * (LD)q[rr][k] : (LD)q[k][cc] * (LD)q[k][rr]; }    // columns (qr) / rows (rq) of q
      LD d = labs_(s - (LD)R.M[cc][rr]); if (!(d <= eprod)) eprod = d; LD h = labs_(g - (cc == rr ? 1 : 0)); if (!(h <= eorth)) eorth = h;
      if (rr > cc) { LD t = labs_((LD)r[cc][rr]); if (!(t <= etri)) etri = t; } }
    STAT(40 + N, "qr/rq product", eprod / tprod); STAT(44 + N, "qr/rq orthonormality", eorth / torth);
    o.res(FT<T>::bits((T)eprod), FT<T>::bits((T)eorth));
    if (!(eprod <= tprod)) { o.bad(51 + 10 * which, which ? "rq_decompose: r*q != in" : "qr_decompose: q*r != in"); return; }
    if (!(eorth <= torth)) { o.bad(52 + 10 * which, which ? "rq_decompose: rows of q not orthonormal within 16N u cond" : "qr_decompose: columns of q not orthonormal within 16N u cond"); return; }
    if (!(etri <= tprod)) { o.bad(53 + 10 * which, which ? "rq_decompose: r not upper triangular" : "qr_decompose: r not upper triangular"); return; } }
}

// ------------------------------------------------------------------ gtx matrix_query predicates on integer matrices     words: [idx, grid]
template <int N, typename T> static void op_query(const Case& c, Outcome& o) {
  IM<N> Mi; decode<N>(c.w[0], c.w[1], Mi); Ref<N, T> R; if (!R.init(Mi, 0, o)) return; const T eps = (T)0.01;
  bool null = true, ident = true; for (int cc = 0; cc < N; ++cc) for (int r = 0; r < N; ++r) { if (Mi.a[cc][r] != 0) null = false; if (Mi.a[cc][r] != (cc == r ? 1 : 0)) ident = false; }
  // integer vectors have length 0, 1 or >= sqrt(2): with epsilon = 0.01 the predicates are decided by the integer structure
  bool normalized = true; for (int k = 0; k < N; ++k) { I128 sc = 0, sr = 0; for (int j = 0; j < N; ++j) { sc += Mi.a[k][j] * Mi.a[k][j]; sr += Mi.a[j][k] * Mi.a[j][k]; } if (sc != 1 || sr != 1) normalized = false; }
  IM<N> Tm, P; for (int cc = 0; cc < N; ++cc) for (int r = 0; r < N; ++r) Tm.a[cc][r] = Mi.a[r][cc]; imul<N>(Mi, Tm, P);
  bool orth = true; for (int cc = 0; cc < N; ++cc) for (int r = 0; r < N; ++r) if (P.a[cc][r] != (cc == r ? 1 : 0)) orth = false;
  o.cls(null ? 0 : ident ? 1 : orth ? 2 : 3);
  bool g0 = glm::isNull(R.M, eps), g1 = glm::isIdentity(R.M, eps), g2 = glm::isNormalized(R.M, eps), g3 = glm::isOrthogonal(R.M, eps);
  o.res((uint64_t)(g0 | (g1 << 1) | (g2 << 2) | (g3 << 3))); o.exp((uint64_t)(null | (ident << 1) | (normalized << 2) | (orth << 3)));
  if (g0 != null) { o.bad(61, "isNull(M, 0.01) on an integer matrix"); return; } if (g1 != ident) { o.bad(62, "isIdentity(M, 0.01) on an integer matrix"); return; }
  if (g2 != normalized) { o.bad(63, "isNormalized(M, 0.01) on an integer matrix"); return; } if (g3 != orth) { o.bad(64, "isOrthogonal(M, 0.01) on an integer matrix"); return; }
  if (R.inrange()) { T tol = (T)(2 * R.invtol() + 4 * N * unit<T>() * R.kappa);   // + rounding of the GLM product itself
    if (!glm::isIdentity(glm::inverse(R.M) * R.M, tol)) { o.bad(65, "isIdentity(inverse(M)*M, 2*(8N u cond)) is false"); return; }
    if (!glm::isNull(glm::inverse(R.M) * R.M - glm::mat<N, N, T, glm::defaultp>(1), (T)(N * tol))) { o.bad(66, "isNull(inverse(M)*M - I) is false"); return; } }
}

// ------------------------------------------------------------------ ext/matrix_integer determinant / transpose on int matrices     words: [idx, grid]
template <int N> static void op_idet(const Case& c, Outcome& o) {
  IM<N> Mi; decode<N>(c.w[0], c.w[1], Mi); I128 d = idet<N>(Mi); o.cls(d == 0 ? 0 : 1);
  glm::mat<N, N, int, glm::defaultp> M; for (int cc = 0; cc < N; ++cc) for (int r = 0; r < N; ++r) M[cc][r] = (int)Mi.a[cc][r];
  int g = glm::determinant(M), gt = glm::determinant(glm::transpose(M)); o.res((uint64_t)(int64_t)g, (uint64_t)(int64_t)gt); o.exp((uint64_t)(int64_t)d);
  if ((I128)g != d) { o.bad(71, "determinant of an int matrix is not the Leibniz expansion"); return; } if ((I128)gt != d) { o.bad(72, "determinant(transpose(M)) != determinant(M) for an int matrix"); return; }
}


// ------------------------------------------------------------------ large 4x4 grid {-1,0,1,2}^16, float, light-weight reference     words: [index base 4]
// determinant against the integer Leibniz value; inverse through the two defining identities with the condition number taken
// from the returned inverse itself (||M|| ||X||, equal to cond(M) up to a factor 1 +- u cond); |det| = 1: X*M = I exactly.
static void op_light4(const Case& c, Outcome& o) {
  int e[4][4]; uint64_t idx = c.w[0]; for (int k = 0; k < 16; ++k) { e[k / 4][k % 4] = (int)(idx & 3) - 1; idx >>= 2; }
  long long det = 0, perm = 0; for (int k = 0; k < 24; ++k) { const int* p = PR.p[4][k]; long long t = (long long)e[0][p[0]] * e[1][p[1]] * e[2][p[2]] * e[3][p[3]]; det += PR.s[4][k] * t; perm += t < 0 ? -t : t; }
  o.cls(det == 0 ? 0 : (det == 1 || det == -1) ? 1 : 2);
  glm::mat4 M; for (int cc = 0; cc < 4; ++cc) for (int r = 0; r < 4; ++r) M[cc][r] = (float)e[cc][r];
  const double u = std::ldexp(1.0, -24);
  float g = glm::determinant(M); o.res(b32(g)); o.exp(b32((float)det)); if (!(std::fabs((double)g - (double)det) <= 16 * u * (double)perm)) { o.bad(1, "determinant(M) differs from the Leibniz expansion by more than 4N u sum|terms|"); return; }
  if ((det == 1 || det == -1) && !((double)g == (double)det)) { o.bad(2, "determinant of an integer unimodular matrix is not exact"); return; }
  if (det == 0) return;
  glm::mat4 X = glm::inverse(M); double ni = 0, n1 = 0, xi = 0, x1 = 0;
  for (int a = 0; a < 4; ++a) { double s1 = 0, s2 = 0, s3 = 0, s4 = 0; for (int b = 0; b < 4; ++b) { s1 += std::fabs((double)M[b][a]); s2 += std::fabs((double)M[a][b]); s3 += std::fabs((double)X[b][a]); s4 += std::fabs((double)X[a][b]); }
    ni = std::max(ni, s1); n1 = std::max(n1, s2); xi = std::max(xi, s3); x1 = std::max(x1, s4); }
  const double kappa = std::max(ni * xi, n1 * x1), tol = 32 * u * kappa; double rl = 0, rr = 0;
  for (int cc = 0; cc < 4; ++cc) for (int r = 0; r < 4; ++r) { double a = 0, b = 0; for (int k = 0; k < 4; ++k) { a += (double)X[k][r] * (double)M[cc][k]; b += (double)M[k][r] * (double)X[cc][k]; }
    a = std::fabs(a - (cc == r)); b = std::fabs(b - (cc == r)); if (!(a <= rl)) rl = a; if (!(b <= rr)) rr = b; }
  o.res(b64(rl), b64(rr)); o.exp(b64(tol));
  if (!(kappa <= 1e4)) { o.bad(7, "inverse(M): ||M|| ||inverse(M)|| exceeds any condition number possible on this grid"); return; }
  if (!(rl <= tol)) { o.bad(4, "inverse(M)*M differs from I by more than 8N u cond(M)"); return; }
  if (!(rr <= tol)) { o.bad(5, "M*inverse(M) differs from I by more than 8N u cond(M)"); return; }
  if ((det == 1 || det == -1) && !(rl == 0 && rr == 0)) { o.bad(6, "inverse of an integer unimodular matrix is not exact"); return; }
}

// =========================================================================================================== registration
static uint64_t ipow(uint64_t b, int e) { uint64_t r = 1; while (e-- > 0) r *= b; return r; }
static Domain grid(int N, int base, int off, const char* set) {
  char nm[96]; std::snprintf(nm, sizeof nm, "SMALLMAT(%d,%s)", N, set);
  Domain g = product(nm, {range("index", 0, ipow(base, N * N), true), list("grid", {gridcode(base, off)}, true)}); g.name = nm; return g;
}
static Domain gridstride(int N, int base, int off, const char* set, uint64_t stride) {
  char nm[128]; std::snprintf(nm, sizeof nm, "SMALLMAT(%d,%s) every %llu-th", N, set, (unsigned long long)stride);
  Domain g = product(nm, {range("index", 0, (ipow(base, N * N) + stride - 1) / stride, false, stride), list("grid", {gridcode(base, off)}, true)}); g.name = nm; return g;
}
static Domain exps(std::vector<int> ks) { std::vector<uint64_t> v; std::string nm = "2^{"; for (size_t i = 0; i < ks.size(); ++i) { v.push_back((uint64_t)(ks[i] + 64)); nm += (i ? "," : "") + std::to_string(ks[i]); } return list(nm + "}", v, true); }
static Domain plist(const char* what, std::vector<int> ps) { std::vector<uint64_t> v; std::string nm = std::string(what) + "{"; for (size_t i = 0; i < ps.size(); ++i) { v.push_back((uint64_t)ps[i]); nm += (i ? "," : "") + std::to_string(ps[i]); } return list(nm + "}", v, true); }
static Domain named(Domain d, const std::string& n) { d.name = n; return d; }
static Domain X(std::vector<Domain> subs) { std::string n; for (size_t i = 0; i < subs.size(); ++i) n += (i ? " x " : "") + subs[i].name; return product(n, subs); }

template <int N, typename T> static void reg(Engine& E, const char* tn) {
  const std::string t = std::string("<") + std::to_string(N) + "," + tn + ">"; const bool fl = sizeof(T) == 4;
  const Domain g5 = grid(N, 5, 2, "{-2..2}"), g3 = grid(N, 3, 1, "{-1,0,1}"), g2 = grid(N, 2, 0, "{0,1}");
  const Domain small = N == 2 ? g5 : N == 3 ? g3 : g2;          // the reduced grid used where a second factor multiplies the size
  const Domain full = N == 4 ? g2 : g5, fullT = N == 4 ? g3 : g5;   // quick / thorough complete grids
  const Domain sc = exps({-20, 0, 20});
  const Domain pos = named(range("pos", 0, N * N, true), "E_ij all positions");
  const std::vector<int> pall = fl ? std::vector<int>{3, 4, 5, 6, 7, 8, 9, 10} : std::vector<int>{8, 12, 16, 20, 24};
  const std::vector<int> pq = N == 4 ? (fl ? std::vector<int>{3, 7, 10} : std::vector<int>{8, 16, 24}) : pall;
  { Op& op = E.add("determinant/inverse/inverseTranspose" + t, op_main<N, T>); op.quick = {X({full, sc})}; op.thorough = {X({fullT, exps({0})}), X({full, exps({-20, 20})})};
    op.classes = {"singular (determinant only)", "permutation-like", "triangular", "unimodular", "general non-singular"}; }
  { Op& op = E.add("near-singular M0+2^-p*E_ij: determinant/inverse/inverseTranspose" + t, op_near<N, T>);
    op.quick = {X({small, pos, plist("p=", pq)})}; op.thorough = {X({N == 3 ? g3 : N == 2 ? g5 : g2, pos, plist("p=", pall)})};
    op.classes = {"singular (skipped)", "cond<=100", "100<cond<=limit/8", "limit/8<cond<=limit", "cond>limit (determinant only)"}; }
  { Op& op = E.add("determinant(A*B)=determinant(A)*determinant(B)" + t, op_detmul<N, T>);
    const Domain B = N == 2 ? g5 : N == 3 ? gridstride(3, 5, 2, "{-2..2}", 30011) : gridstride(4, 3, 1, "{-1,0,1}", 2000003);
    const Domain BT = N == 2 ? g5 : N == 3 ? gridstride(3, 5, 2, "{-2..2}", 3001) : gridstride(4, 3, 1, "{-1,0,1}", 200003);
    op.quick = {X({small, B})}; op.thorough = {X({small, BT})}; op.classes = {"product non-singular", "product singular"}; }
  { Op& op = E.add("operator/ (mat/mat, mat/=mat, mat/vec, vec/mat)" + t, op_div<N, T>); const Domain pr = named(range("partner", 0, 4, true), "4 partner matrices/vectors");
    op.quick = {X({small, pr, sc})}; op.thorough = {X({N == 4 ? g2 : g5, pr, sc})}; op.classes = {"unimodular", "general non-singular"}; }
  { Op& op = E.add("gtx adjugate" + t, op_adjugate<N, T>); op.quick = {X({full, exps({0})}), X({small, exps({-20, 20})})}; op.thorough = {X({fullT, exps({0})}), X({full, exps({-20, 20})})}; op.classes = {"singular", "non-singular"}; }
  { Op& op = E.add("gtx qr_decompose/rq_decompose" + t, op_qr<N, T>); op.quick = {small}; op.thorough = {full}; op.classes = {"non-singular", "singular (skipped)"}; }
  { Op& op = E.add("gtx matrix_query isNull/isIdentity/isNormalized/isOrthogonal" + t, op_query<N, T>); op.quick = {full}; op.thorough = {fullT}; op.classes = {"null", "identity", "orthogonal", "other"}; }
}
template <int N, typename T> static void reg_affine(Engine& E, const char* tn) {
  const std::string t = std::string("<") + std::to_string(N) + "," + tn + ">"; const bool fl = sizeof(T) == 4;
  const Domain L = N == 3 ? grid(2, 5, 2, "{-2..2}") : grid(3, 3, 1, "{-1,0,1}"), LT = N == 3 ? L : grid(3, 5, 2, "{-2..2}");
  const Domain tr = N == 3 ? X({named(range("t", 0, 25, true), "t in {-2..2}^2"), named(list("tgrid", {gridcode(5, 2)}, true), "5/2")})
                           : X({named(range("t", 0, 27, true), "t in {-1,0,1}^3"), named(list("tgrid", {gridcode(3, 1)}, true), "3/1")});
  const Domain sc = fl ? exps({-8, 0, 8}) : exps({-20, 0, 20});
  const Domain tr4 = X({named(list("t", {0, 5, 13, 21}), "t in 4 of {-1,0,1}^3"), named(list("tgrid", {gridcode(3, 1)}, true), "3/1")});
  Op& op = E.add("affineInverse" + t, op_affine<N, T>); op.quick = {X({L, tr, sc})}; if (N == 4) op.thorough = {X({L, tr, sc}), X({LT, tr4, sc})};
  op.classes = {"unimodular", "general in-range", "singular or cond>limit (skipped)"};
}

int main(int argc, char** argv) {
#ifdef C10_STATS
  std::atexit(stat_dump);
#endif
  Engine E; E.property = "C10";
  E.assumptions = {"reference = exact integer Leibniz determinant and cofactor adjugate in __int128, self-checked by adj*M = M*adj = det*I on every case",
                   "condition number = max(1-norm, inf-norm) condition number computed from the integer adjugate; matrices beyond 1e4 (float) / 1e8 (double) only have their determinant checked",
                   "residuals and forward errors evaluated in 80-bit long double from the returned entries (error of that evaluation <= 2^-62 relative, >= 500x below every tolerance)",
                   "exactness is demanded only for unscaled integer matrices with determinant +-1; everything else uses 4N u sum|Leibniz terms| (determinant) or 8N u cond (inverse identities)"};
  reg<2, float>(E, "float"); reg<3, float>(E, "float"); reg<4, float>(E, "float");
  reg<2, double>(E, "double"); reg<3, double>(E, "double"); reg<4, double>(E, "double");
  reg_affine<3, float>(E, "float"); reg_affine<4, float>(E, "float"); reg_affine<3, double>(E, "double"); reg_affine<4, double>(E, "double");
  { Op& op = E.add("gtx diagonalCxR<float>", op_diagonal<float>); op.quick = {range("{-1,-.5,0,.5,1}^4", 0, 625, true)}; op.classes = {"no zero component", "some zero component"}; }
  { Op& op = E.add("gtx diagonalCxR<double>", op_diagonal<double>); op.quick = {range("{-1,-.5,0,.5,1}^4", 0, 625, true)}; op.classes = {"no zero component", "some zero component"}; }
  { Op& op = E.add("ext/matrix_integer determinant<2,int>", op_idet<2>); op.quick = {grid(2, 5, 2, "{-2..2}")}; op.classes = {"singular", "non-singular"}; }
  { Op& op = E.add("ext/matrix_integer determinant<3,int>", op_idet<3>); op.quick = {grid(3, 5, 2, "{-2..2}")}; op.classes = {"singular", "non-singular"}; }
  { Op& op = E.add("ext/matrix_integer determinant<4,int>", op_idet<4>); op.quick = {grid(4, 2, 0, "{0,1}")}; op.thorough = {grid(4, 3, 1, "{-1,0,1}")}; op.classes = {"singular", "non-singular"}; }
  { Op& op = E.add("determinant/inverse, large grid<4,float>", op_light4); op.quick = {range("SMALLMAT(4,{-1,0,1,2}) every 4099-th", 0, ((1ull << 32) + 4098) / 4099, false, 4099)};
    op.thorough = {range("SMALLMAT(4,{-1,0,1,2})", 0, 1ull << 32, true)}; op.classes = {"singular (determinant only)", "unimodular", "general non-singular"}; }
  return E.main(argc, argv);
}
