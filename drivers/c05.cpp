// C05 — GLSL integer / bitfield functions are exact: complete 8/16/32-bit sweeps, lattices for 64-bit.
#define GLM_ENABLE_EXPERIMENTAL
#include <glm/glm.hpp>
#include <glm/integer.hpp>
#include <glm/gtc/type_precision.hpp>
#include "glmx.hpp"
#include <type_traits>
using namespace glmx;

enum { KF_USUBBORROW = 0 };

// ------------------------------------------------- bit-at-a-time reference model (from the GLSL text in glm/integer.hpp)
static inline uint64_t wmask(int w) { return w == 64 ? ~0ull : ((1ull << w) - 1); }
static int ref_bitCount(uint64_t p, int w) { int n = 0; for (int i = 0; i < w; ++i) n += (p >> i) & 1; return n; }
static int ref_findLSB(uint64_t p, int w) { for (int i = 0; i < w; ++i) if ((p >> i) & 1) return i; return -1; }
static int ref_findMSB(uint64_t p, int w, bool sgn) {
  // unsigned / non-negative: most significant 1 bit; negative: most significant 0 bit; 0 and -1 give -1
  bool neg = sgn && ((p >> (w - 1)) & 1);
  for (int i = w - 1; i >= 0; --i) if ((((p >> i) & 1) != 0) != neg) return i;
  return -1;
}
static uint64_t ref_reverse(uint64_t p, int w) { uint64_t r = 0; for (int i = 0; i < w; ++i) if ((p >> i) & 1) r |= 1ull << (w - 1 - i); return r; }
static uint64_t ref_extract(uint64_t p, int w, bool sgn, int off, int bits) {
  uint64_t r = 0; if (bits == 0) return 0;
  for (int i = 0; i < bits; ++i) if ((p >> (off + i)) & 1) r |= 1ull << i;
  if (sgn && ((r >> (bits - 1)) & 1)) for (int i = bits; i < w; ++i) r |= 1ull << i;   // sign extension
  return r;
}
static uint64_t ref_insert(uint64_t base, uint64_t ins, int w, int off, int bits) {
  uint64_t r = 0;
  for (int j = 0; j < w; ++j) { uint64_t bit = (j >= off && j < off + bits) ? (ins >> (j - off)) & 1 : (base >> j) & 1; r |= bit << j; }
  return r;
}
template <typename T> static inline uint64_t pat(T v) { return (uint64_t)(typename std::make_unsigned<T>::type)v; }
template <typename T> static inline T val(uint64_t p) { return (T)(typename std::make_unsigned<T>::type)p; }
// deterministic companions for the other vector lanes: all different from x and from each other in general
static inline uint64_t lane(uint64_t x, int k, int w) {
  uint64_t m = wmask(w); x &= m;
  switch (k) { case 0: return x; case 1: return ~x & m; case 2: return ((x << 3) | (x >> (w - 3))) & m; default: return (x * 0x9E3779B97F4A7C15ull + 0x7F4A7C15ull) & m; }
}

// oracle self-check against compiler builtins
static bool oracle_ok(uint64_t p, int w) {
  if (ref_bitCount(p, w) != __builtin_popcountll(p)) return false;
  if (ref_findLSB(p, w) != (p ? __builtin_ctzll(p) : -1)) return false;
  if (ref_findMSB(p, w, false) != (p ? 63 - __builtin_clzll(p) : -1)) return false;
  return true;
}

static thread_local bool g_scalar_only = false;
#define VEC_LANES(L, EXPR_CALL, REFEXPR, CLS, WHAT)                                                              \
  if (!g_scalar_only) { glm::vec<L, T> v; for (int k = 0; k < L; ++k) v[k] = val<T>(lane(x, k, w));                                   \
    auto r = EXPR_CALL;                                                                                           \
    for (int k = 0; k < L; ++k) { uint64_t xl = lane(x, k, w); (void)xl; int64_t want = (int64_t)(REFEXPR);       \
      if ((int64_t)r[k] != want) { o.res((uint64_t)(int64_t)r[k], (uint64_t)k); o.exp((uint64_t)want); o.bad(CLS + L, WHAT " vec overload: wrong component"); return; } } }

template <typename T> static void op_bitCount(const Case& c, Outcome& o) {
  const int w = sizeof(T) * 8; uint64_t x = c.w[0] & wmask(w);
  if (!oracle_ok(x, w)) { o.bad(95, "ORACLE: loop reference disagrees with compiler builtins"); return; }
  int got = glm::bitCount(val<T>(x)), want = ref_bitCount(x, w); o.res((uint64_t)(int64_t)got); o.exp((uint64_t)(int64_t)want); o.cls(x == 0 ? 0 : x == wmask(w) ? 1 : 2);
  if (got != want) { o.bad(1, "bitCount scalar"); return; }
  VEC_LANES(1, glm::bitCount(v), ref_bitCount(xl, w), 10, "bitCount") VEC_LANES(2, glm::bitCount(v), ref_bitCount(xl, w), 10, "bitCount")
  VEC_LANES(3, glm::bitCount(v), ref_bitCount(xl, w), 10, "bitCount") VEC_LANES(4, glm::bitCount(v), ref_bitCount(xl, w), 10, "bitCount")
}
template <typename T> static void op_findLSB(const Case& c, Outcome& o) {
  const int w = sizeof(T) * 8; uint64_t x = c.w[0] & wmask(w);
  int got = glm::findLSB(val<T>(x)), want = ref_findLSB(x, w); o.res((uint64_t)(int64_t)got); o.exp((uint64_t)(int64_t)want); o.cls(x == 0 ? 0 : x == wmask(w) ? 1 : 2);
  if (got != want) { o.bad(1, "findLSB scalar"); return; }
  VEC_LANES(1, glm::findLSB(v), ref_findLSB(xl, w), 10, "findLSB") VEC_LANES(2, glm::findLSB(v), ref_findLSB(xl, w), 10, "findLSB")
  VEC_LANES(3, glm::findLSB(v), ref_findLSB(xl, w), 10, "findLSB") VEC_LANES(4, glm::findLSB(v), ref_findLSB(xl, w), 10, "findLSB")
}
template <typename T> static void op_findMSB(const Case& c, Outcome& o) {
  const int w = sizeof(T) * 8; const bool sg = std::is_signed<T>::value; uint64_t x = c.w[0] & wmask(w);
  int got = glm::findMSB(val<T>(x)), want = ref_findMSB(x, w, sg); o.res((uint64_t)(int64_t)got); o.exp((uint64_t)(int64_t)want);
  o.cls(x == 0 ? 0 : x == wmask(w) ? 1 : (sg && (x >> (w - 1))) ? 3 : 2);
  if (got != want) { o.bad(sg && (x >> (w - 1)) ? 2 : 1, "findMSB scalar"); return; }
  VEC_LANES(1, glm::findMSB(v), ref_findMSB(xl, w, sg), 10, "findMSB") VEC_LANES(2, glm::findMSB(v), ref_findMSB(xl, w, sg), 10, "findMSB")
  VEC_LANES(3, glm::findMSB(v), ref_findMSB(xl, w, sg), 10, "findMSB") VEC_LANES(4, glm::findMSB(v), ref_findMSB(xl, w, sg), 10, "findMSB")
}
template <typename T> static void op_reverse(const Case& c, Outcome& o) {
  const int w = sizeof(T) * 8; uint64_t x = c.w[0] & wmask(w);
  uint64_t got = pat(glm::bitfieldReverse(val<T>(x))), want = ref_reverse(x, w); o.res(got); o.exp(want); o.cls(x == 0 ? 0 : x == wmask(w) ? 1 : (x >> (w - 1)) ? 3 : 2);
  if (got != want) { o.bad(1, "bitfieldReverse scalar"); return; }
#define REVL(L) if (!g_scalar_only) { glm::vec<L, T> v; for (int k = 0; k < L; ++k) v[k] = val<T>(lane(x, k, w)); glm::vec<L, T> r = glm::bitfieldReverse(v); \
    for (int k = 0; k < L; ++k) if (pat(r[k]) != ref_reverse(lane(x, k, w), w)) { o.res(pat(r[k]), k); o.exp(ref_reverse(lane(x, k, w), w)); o.bad(10 + L, "bitfieldReverse vec overload: wrong component"); return; } }
  REVL(1) REVL(2) REVL(3) REVL(4)
}
template <typename T> static void op_extract(const Case& c, Outcome& o) {
  const int w = sizeof(T) * 8; const bool sg = std::is_signed<T>::value; uint64_t x = c.w[0] & wmask(w); int off = (int)(c.w[1] / 128), bits = (int)(c.w[1] % 128);
  uint64_t got = pat(glm::bitfieldExtract(val<T>(x), off, bits)), want = ref_extract(x, w, sg, off, bits); o.res(got); o.exp(want);
  bool signext = sg && bits > 0 && bits < w && ((x >> (off + bits - 1)) & 1);
  o.cls(bits == 0 ? 0 : bits == w ? 1 : signext ? 3 : 2);
  if (got != want) { o.bad(signext ? 2 : 1, "bitfieldExtract scalar"); return; }
#define EXTL(L) { glm::vec<L, T> v; for (int k = 0; k < L; ++k) v[k] = val<T>(lane(x, k, w)); glm::vec<L, T> r = glm::bitfieldExtract(v, off, bits); \
    for (int k = 0; k < L; ++k) if (pat(r[k]) != ref_extract(lane(x, k, w), w, sg, off, bits)) { o.res(pat(r[k]), k); o.exp(ref_extract(lane(x, k, w), w, sg, off, bits)); o.bad(10 + L, "bitfieldExtract vec overload: wrong component"); return; } }
  EXTL(1) EXTL(2) EXTL(3) EXTL(4)
}
template <typename T> static void op_insert(const Case& c, Outcome& o) {
  const int w = sizeof(T) * 8; uint64_t b = c.w[0] & wmask(w), in = c.w[1] & wmask(w); int off = (int)(c.w[2] / 128), bits = (int)(c.w[2] % 128);
  uint64_t got = pat(glm::bitfieldInsert(val<T>(b), val<T>(in), off, bits)), want = ref_insert(b, in, w, off, bits); o.res(got); o.exp(want);
  o.cls(bits == 0 ? 0 : bits == w ? 1 : 2);
  if (got != want) { o.bad(1, "bitfieldInsert scalar"); return; }
#define INSL(L) { glm::vec<L, T> vb, vi; for (int k = 0; k < L; ++k) { vb[k] = val<T>(lane(b, k, w)); vi[k] = val<T>(lane(in, (k + 1) & 3, w)); } glm::vec<L, T> r = glm::bitfieldInsert(vb, vi, off, bits); \
    for (int k = 0; k < L; ++k) { uint64_t wk = ref_insert(lane(b, k, w), lane(in, (k + 1) & 3, w), w, off, bits); if (pat(r[k]) != wk) { o.res(pat(r[k]), k); o.exp(wk); o.bad(10 + L, "bitfieldInsert vec overload: wrong component"); return; } } }
  INSL(1) INSL(2) INSL(3) INSL(4)
}

// ---- 32-bit extended arithmetic
static void op_uaddCarry(const Case& c, Outcome& o) {
  uint32_t x = (uint32_t)c.w[0], y = (uint32_t)c.w[1]; glm::uint carry = 77; glm::uint r = glm::uaddCarry(x, y, carry);
  unsigned __int128 s = (unsigned __int128)x + y; uint32_t wr = (uint32_t)s, wc = (uint32_t)(s >> 32);
  o.res(r, carry); o.exp(wr, wc); o.cls(wc ? 1 : 0);
  if (r != wr || carry != wc) { o.bad(1, "uaddCarry scalar: sum modulo 2^32 / carry"); return; }
#define ADDL(L) { glm::vec<L, glm::uint> vx, vy, vc(77u); for (int k = 0; k < L; ++k) { vx[k] = (uint32_t)lane(x, k, 32); vy[k] = (uint32_t)lane(y, (k * 3) & 3, 32); } glm::vec<L, glm::uint> vr = glm::uaddCarry(vx, vy, vc); \
    for (int k = 0; k < L; ++k) { uint64_t t = (uint64_t)vx[k] + vy[k]; if (vr[k] != (uint32_t)t || vc[k] != (uint32_t)(t >> 32)) { o.res(vr[k], vc[k]); o.exp((uint32_t)t, t >> 32); o.bad(10 + L, "uaddCarry vec overload"); return; } } }
  ADDL(1) ADDL(2) ADDL(3) ADDL(4)
  // the carry output may be the same object as an operand (GLSL copies `in` arguments at the call, so uaddCarry(t, c, c) is well defined there)
  { glm::uint a = x, cy = y; glm::uint r1 = glm::uaddCarry(a, cy, cy); glm::uint b = y, cx = x; glm::uint r2 = glm::uaddCarry(cx, b, cx);
    if (r1 != wr || cy != wc || r2 != wr || cx != wc) { o.res(r1, cy); o.exp(wr, wc); o.bad(2, "uaddCarry scalar with the carry output aliasing an operand"); return; } }
#define ADDA(L) { glm::vec<L, glm::uint> vx, vy; for (int k = 0; k < L; ++k) { vx[k] = (uint32_t)lane(x, k, 32); vy[k] = (uint32_t)lane(y, (k * 3) & 3, 32); } glm::vec<L, glm::uint> ox = vx, oy = vy, c1 = vy, c2 = vx; glm::vec<L, glm::uint> r1 = glm::uaddCarry(vx, c1, c1), r2 = glm::uaddCarry(c2, vy, c2); \
    for (int k = 0; k < L; ++k) { uint64_t t = (uint64_t)ox[k] + oy[k]; if (r1[k] != (uint32_t)t || c1[k] != (uint32_t)(t >> 32) || r2[k] != (uint32_t)t || c2[k] != (uint32_t)(t >> 32)) { o.res(r1[k], c1[k]); o.exp((uint32_t)t, t >> 32); o.bad(20 + L, "uaddCarry vec overload with the carry output aliasing an operand"); return; } } }
  ADDA(1) ADDA(2) ADDA(3) ADDA(4)
}
static void op_usubBorrow(const Case& c, Outcome& o) {
  uint32_t x = (uint32_t)c.w[0], y = (uint32_t)c.w[1]; glm::uint bor = 77; glm::uint r = glm::usubBorrow(x, y, bor);
  uint32_t wr = x - y, wb = x < y ? 1u : 0u;    // GLSL: x - y if non-negative, 2^32 + x - y otherwise
  o.res(r, bor); o.exp(wr, wb); o.cls(wb ? 1 : 0);
  if (r != wr || bor != wb) {
    // legacy model of the recorded defect: difference computed as y - x (mod 2^32), borrow correct
    if (bor == wb && r == (uint32_t)(y - x) && x != y) o.kf = KF_USUBBORROW;
    o.bad(1, "usubBorrow scalar: difference modulo 2^32 / borrow"); return; }
#define SUBL(L) { glm::vec<L, glm::uint> vx, vy, vc(77u); for (int k = 0; k < L; ++k) { vx[k] = (uint32_t)lane(x, k, 32); vy[k] = (uint32_t)lane(y, (k * 3) & 3, 32); } glm::vec<L, glm::uint> vr = glm::usubBorrow(vx, vy, vc); \
    for (int k = 0; k < L; ++k) { uint32_t d = vx[k] - vy[k], b = vx[k] < vy[k]; if (vr[k] != d || vc[k] != b) { o.res(vr[k], vc[k]); o.exp(d, b); \
      if (vc[k] == b && vr[k] == (uint32_t)(vy[k] - vx[k]) && vx[k] != vy[k]) o.kf = KF_USUBBORROW; o.bad(10 + L, "usubBorrow vec overload"); return; } } }
  SUBL(1) SUBL(2) SUBL(3) SUBL(4)
  // borrow output aliasing an operand (the operands are read by reference; GLSL copies them at the call)
  { glm::uint a = x, cy = y; glm::uint r1 = glm::usubBorrow(a, cy, cy); glm::uint b = y, cx = x; glm::uint r2 = glm::usubBorrow(cx, b, cx);
    if (r1 != wr || cy != wb || r2 != wr || cx != wb) { o.res(r1, cy); o.exp(wr, wb);
      if (cy == wb && cx == wb && r1 == (uint32_t)(y - x) && r2 == (uint32_t)(y - x) && x != y) o.kf = KF_USUBBORROW;
      o.bad(2, "usubBorrow scalar with the borrow output aliasing an operand"); return; } }
#define SUBA(L) { glm::vec<L, glm::uint> vx, vy; for (int k = 0; k < L; ++k) { vx[k] = (uint32_t)lane(x, k, 32); vy[k] = (uint32_t)lane(y, (k * 3) & 3, 32); } glm::vec<L, glm::uint> ox = vx, oy = vy, c1 = vy, c2 = vx; glm::vec<L, glm::uint> r1 = glm::usubBorrow(vx, c1, c1), r2 = glm::usubBorrow(c2, vy, c2); \
    for (int k = 0; k < L; ++k) { uint32_t d = ox[k] - oy[k], b = ox[k] < oy[k]; if (r1[k] != d || c1[k] != b || r2[k] != d || c2[k] != b) { o.res(r1[k], c1[k]); o.exp(d, b); \
      if (c1[k] == b && c2[k] == b && r1[k] == (uint32_t)(oy[k] - ox[k]) && r2[k] == (uint32_t)(oy[k] - ox[k]) && ox[k] != oy[k]) o.kf = KF_USUBBORROW; o.bad(20 + L, "usubBorrow vec overload with the borrow output aliasing an operand"); return; } } }
  SUBA(1) SUBA(2) SUBA(3) SUBA(4)
}
static void op_umulExtended(const Case& c, Outcome& o) {
  uint32_t x = (uint32_t)c.w[0], y = (uint32_t)c.w[1]; glm::uint msb = 77, lsb = 77; glm::umulExtended(x, y, msb, lsb);
  unsigned __int128 p = (unsigned __int128)x * y; o.res(msb, lsb); o.exp((uint32_t)(p >> 32), (uint32_t)p); o.cls((uint32_t)(p >> 32) ? 1 : 0);
  if (msb != (uint32_t)(p >> 32) || lsb != (uint32_t)p) { o.bad(1, "umulExtended scalar"); return; }
#define UML(L) { glm::vec<L, glm::uint> vx, vy, vm(77u), vl(77u); for (int k = 0; k < L; ++k) { vx[k] = (uint32_t)lane(x, k, 32); vy[k] = (uint32_t)lane(y, (k * 3) & 3, 32); } glm::umulExtended(vx, vy, vm, vl); \
    for (int k = 0; k < L; ++k) { uint64_t t = (uint64_t)vx[k] * vy[k]; if (vm[k] != (uint32_t)(t >> 32) || vl[k] != (uint32_t)t) { o.res(vm[k], vl[k]); o.exp(t >> 32, (uint32_t)t); o.bad(10 + L, "umulExtended vec overload"); return; } } }
  UML(1) UML(2) UML(3) UML(4)
  { glm::uint a = x, b = y; glm::umulExtended(a, b, a, b); glm::uint a2 = x, b2 = y; glm::umulExtended(a2, b2, b2, a2);
    if (a != (uint32_t)(p >> 32) || b != (uint32_t)p || b2 != (uint32_t)(p >> 32) || a2 != (uint32_t)p) { o.res(a, b); o.exp((uint32_t)(p >> 32), (uint32_t)p); o.bad(2, "umulExtended scalar with the outputs aliasing the operands"); return; } }
#define UMA(L) { glm::vec<L, glm::uint> vx, vy; for (int k = 0; k < L; ++k) { vx[k] = (uint32_t)lane(x, k, 32); vy[k] = (uint32_t)lane(y, (k * 3) & 3, 32); } glm::vec<L, glm::uint> ox = vx, oy = vy; glm::umulExtended(vx, vy, vx, vy); \
    for (int k = 0; k < L; ++k) { uint64_t t = (uint64_t)ox[k] * oy[k]; if (vx[k] != (uint32_t)(t >> 32) || vy[k] != (uint32_t)t) { o.res(vx[k], vy[k]); o.exp(t >> 32, (uint32_t)t); o.bad(20 + L, "umulExtended vec overload with the outputs aliasing the operands"); return; } } }
  UMA(1) UMA(2) UMA(3) UMA(4)
}
static void op_imulExtended(const Case& c, Outcome& o) {
  int32_t x = (int32_t)(uint32_t)c.w[0], y = (int32_t)(uint32_t)c.w[1]; int msb = 77, lsb = 77; glm::imulExtended(x, y, msb, lsb);
  __int128 p = (__int128)x * y; uint32_t wm = (uint32_t)(uint64_t)((int64_t)p >> 32), wl = (uint32_t)(uint64_t)(int64_t)p;
  o.res((uint32_t)msb, (uint32_t)lsb); o.exp(wm, wl); o.cls(p < 0 ? 1 : 0);
  if ((uint32_t)msb != wm || (uint32_t)lsb != wl) { o.bad(1, "imulExtended scalar"); return; }
#define IML(L) { glm::vec<L, int> vx, vy, vm(77), vl(77); for (int k = 0; k < L; ++k) { vx[k] = (int32_t)(uint32_t)lane((uint32_t)x, k, 32); vy[k] = (int32_t)(uint32_t)lane((uint32_t)y, (k * 3) & 3, 32); } glm::imulExtended(vx, vy, vm, vl); \
    for (int k = 0; k < L; ++k) { int64_t t = (int64_t)vx[k] * vy[k]; if ((uint32_t)vm[k] != (uint32_t)(uint64_t)(t >> 32) || (uint32_t)vl[k] != (uint32_t)(uint64_t)t) { o.res((uint32_t)vm[k], (uint32_t)vl[k]); o.exp((uint32_t)(uint64_t)(t >> 32), (uint32_t)(uint64_t)t); o.bad(10 + L, "imulExtended vec overload"); return; } } }
  IML(1) IML(2) IML(3) IML(4)
  { int a = x, b = y; glm::imulExtended(a, b, a, b); int a2 = x, b2 = y; glm::imulExtended(a2, b2, b2, a2);
    if ((uint32_t)a != wm || (uint32_t)b != wl || (uint32_t)b2 != wm || (uint32_t)a2 != wl) { o.res((uint32_t)a, (uint32_t)b); o.exp(wm, wl); o.bad(2, "imulExtended scalar with the outputs aliasing the operands"); return; } }
#define IMA(L) { glm::vec<L, int> vx, vy; for (int k = 0; k < L; ++k) { vx[k] = (int32_t)(uint32_t)lane((uint32_t)x, k, 32); vy[k] = (int32_t)(uint32_t)lane((uint32_t)y, (k * 3) & 3, 32); } glm::vec<L, int> ox = vx, oy = vy; glm::imulExtended(vx, vy, vx, vy); \
    for (int k = 0; k < L; ++k) { int64_t t = (int64_t)ox[k] * oy[k]; if ((uint32_t)vx[k] != (uint32_t)(uint64_t)(t >> 32) || (uint32_t)vy[k] != (uint32_t)(uint64_t)t) { o.res((uint32_t)vx[k], (uint32_t)vy[k]); o.exp((uint32_t)(uint64_t)(t >> 32), (uint32_t)(uint64_t)t); o.bad(20 + L, "imulExtended vec overload with the outputs aliasing the operands"); return; } } }
  IMA(1) IMA(2) IMA(3) IMA(4)
}

static std::vector<uint64_t> small_values(int w) {
  uint64_t m = wmask(w); std::vector<uint64_t> v = {0, m, 1, 1ull << (w - 1), m >> 1, 0x5555555555555555ull & m, 0xAAAAAAAAAAAAAAAAull & m, 0x0123456789ABCDEFull & m, 0xFEDCBA9876543210ull & m, 2, m - 1, 0x00FF00FF00FF00FFull & m, 0x8000000000000001ull >> (64 - w) | 1};
  return v;
}

template <void (*F)(const Case&, Outcome&)> static void scalar_only(const Case& c, Outcome& o) { g_scalar_only = true; F(c, o); g_scalar_only = false; }
template <typename T> static void reg(Engine& E, const char* tn) {
  const int w = sizeof(T) * 8; std::string t = tn;
  Domain all = w <= 16 ? INT_ALL(w) : INT_EDGE(w);
  Domain full32 = w == 32 ? range("INT32_ALL(2^32 patterns)", 0, 1ull << 32, true) : all;
  Domain sm = list("INT" + std::to_string(w) + "_SMALL", small_values(w));
  const std::vector<std::string> zc = {"zero", "all-ones", "other"};
  { Op& op = E.add("bitCount<" + t + ">", op_bitCount<T>); op.quick = {all}; op.classes = zc; }
  { Op& op = E.add("findLSB<" + t + ">", op_findLSB<T>); op.quick = {all}; op.classes = zc; }
  { Op& op = E.add("findMSB<" + t + ">", op_findMSB<T>); op.quick = {all}; op.classes = std::is_signed<T>::value ? std::vector<std::string>{"zero", "all-ones", "non-negative", "negative"} : zc; }
  { Op& op = E.add("bitfieldReverse<" + t + ">", op_reverse<T>); op.quick = {all}; op.classes = {"zero", "all-ones", "top-bit-clear", "top-bit-set"}; }
  if (w == 32) {   // thorough only: the complete 2^32 pattern space through the scalar overloads (the vector overloads are lifted from them and swept on the lattices above)
    { Op& op = E.add("bitCount<" + t + "> scalar, all 2^32", scalar_only<op_bitCount<T>>); op.thorough = {full32}; }
    { Op& op = E.add("findLSB<" + t + "> scalar, all 2^32", scalar_only<op_findLSB<T>>); op.thorough = {full32}; }
    { Op& op = E.add("findMSB<" + t + "> scalar, all 2^32", scalar_only<op_findMSB<T>>); op.thorough = {full32}; }
    { Op& op = E.add("bitfieldReverse<" + t + "> scalar, all 2^32", scalar_only<op_reverse<T>>); op.thorough = {full32}; } }
  { Op& op = E.add("bitfieldExtract<" + t + ">", op_extract<T>); op.quick = {product(all.name + " x " + OFFBITS(w).name, {all, OFFBITS(w)})};
    op.classes = std::is_signed<T>::value ? std::vector<std::string>{"bits=0", "bits=width", "field", "field-with-sign-extension"} : std::vector<std::string>{"bits=0", "bits=width", "field"}; }
  { Op& op = E.add("bitfieldInsert<" + t + ">", op_insert<T>);
    if (w == 8) op.quick = {product("INT8_ALL x INT8_ALL x OFFBITS8", {all, all, OFFBITS(w)})};
    else {
      // quick: every (offset,bits) x {all values (16-bit) | single bits, runs from either end, patterns (32/64-bit)} x 4 companion patterns, both roles
      std::vector<uint64_t> mv = small_values(w); for (int i = 0; i < w; ++i) { mv.push_back(1ull << i); mv.push_back(wmask(i + 1)); mv.push_back(wmask(w) & ~wmask(i)); }
      Domain med = w == 16 ? all : list("INT" + std::to_string(w) + "_MED(bits,runs,patterns)", mv);
      Domain sm4 = list("INT" + std::to_string(w) + "_4PAT", {0, wmask(w), 0x5555555555555555ull & wmask(w), 0x0123456789ABCDEFull & wmask(w)});
      op.quick = {product(med.name + " x 4PAT x OFFBITS", {med, sm4, OFFBITS(w)}), product("4PAT x " + med.name + " x OFFBITS", {sm4, med, OFFBITS(w)})};
      op.thorough = {product(all.name + " x SMALL x OFFBITS", {all, sm, OFFBITS(w)}), product("SMALL x " + all.name + " x OFFBITS", {sm, all, OFFBITS(w)})};
      if (w == 16) op.thorough.push_back(product("INT16_EDGE^2 x OFFBITS16", {INT_EDGE(16), INT_EDGE(16), OFFBITS(16)})); }
    op.classes = {"bits=0", "bits=width", "field"}; }
}

int main(int argc, char** argv) {
  Engine E; E.property = "C05"; E.kf_ids = {"KF-C05-usubBorrow"};
  E.assumptions = {"reference = bit-at-a-time loops written from the GLSL text quoted in glm/integer.hpp; cross-checked against __builtin_popcountll/ctzll/clzll on every enumerated input"};
  reg<glm::int8>(E, "i8"); reg<glm::uint8>(E, "u8"); reg<glm::int16>(E, "i16"); reg<glm::uint16>(E, "u16");
  reg<glm::int32>(E, "i32"); reg<glm::uint32>(E, "u32"); reg<glm::int64>(E, "i64"); reg<glm::uint64>(E, "u64");
  { // the other builtin 64-bit pair (long where glm::int64 is long long and vice versa: which one int64 names depends on the language level)
    typedef std::conditional<std::is_same<glm::int64, long>::value, long long, long>::type oi64; typedef std::conditional<std::is_same<glm::uint64, unsigned long>::value, unsigned long long, unsigned long>::type ou64;
    reg<oi64>(E, "i64-other-builtin"); reg<ou64>(E, "u64-other-builtin"); }   // configuration-independent names: the differential check (C15) pairs operations by name
  // extended 32-bit arithmetic: EDGE x EDGE and all half-word boundary combinations
  std::vector<uint64_t> hw; { const uint32_t h[6] = {0, 1, 0x7FFF, 0x8000, 0xFFFE, 0xFFFF}; for (uint32_t a : h) for (uint32_t b : h) hw.push_back((a << 16) | b); }
  Domain e32 = INT_EDGE(32), hwd = list("HALFWORD_BOUNDARIES", hw);
  std::vector<Domain> pairs = {product("INT32_EDGE^2", {e32, e32}), product("HALFWORD_BOUNDARIES^2", {hwd, hwd})};
  { Op& op = E.add("uaddCarry", op_uaddCarry); op.quick = pairs; op.classes = {"no-carry", "carry"}; }
  { Op& op = E.add("usubBorrow", op_usubBorrow); op.quick = pairs; op.classes = {"no-borrow", "borrow"}; }
  { Op& op = E.add("umulExtended", op_umulExtended); op.quick = pairs; op.classes = {"msb=0", "msb!=0"}; }
  { Op& op = E.add("imulExtended", op_imulExtended); op.quick = pairs; op.classes = {"product>=0", "product<0"}; }
  return E.main(argc, argv);
}
