#!/usr/bin/env python3
# tools/seedall.py [Cxx ...] — run every seeded change in /verif/seeded against its property's quick check (apply to /repo, run, undo),
# record the outcome in seeded/<id>/meta.json and seeded/RESULTS.md.  Usage: python3 tools/seedall.py            (all seeds)
import json, os, subprocess, sys, glob, time
os.environ['GLMX_EVIDENCE_DIR'] = '/verif/build/seed_evidence'   # runs against a modified tree are not evidence
os.chdir('/verif')
# the seeds are applied to a scratch worktree of /repo's HEAD (never to /repo itself), and the checks are pointed at it with GLMX_REPO
SEEDREPO = os.environ.get('SEED_REPO', '/tmp/glmx_seedrepo')
def fresh_seedrepo():
    head = subprocess.run(['git', '-C', '/repo', 'rev-parse', 'HEAD'], capture_output=True, text=True).stdout.strip()
    if not os.path.isdir(SEEDREPO):
        subprocess.check_call(['git', '-C', '/repo', 'worktree', 'add', '--detach', SEEDREPO, head], stdout=subprocess.DEVNULL, stderr=subprocess.DEVNULL)
    subprocess.check_call(['git', '-C', SEEDREPO, 'checkout', '-q', '--', '.']); subprocess.check_call(['git', '-C', SEEDREPO, 'checkout', '-q', '--detach', head])
fresh_seedrepo()
os.environ['GLMX_REPO'] = SEEDREPO
only = set(sys.argv[1:])
rows = []
for d in sorted(glob.glob('seeded/*/')):
    sid = os.path.basename(d.rstrip('/'))
    meta = json.load(open(d + 'meta.json')); prop = meta['property']
    if meta.get('obsolete') or (only == {'--new'} and meta.get('last_result')) or (only and only != {'--new'} and prop not in only and sid not in only):
        if os.path.exists(d + 'meta.json') and meta.get('last_result'):
            rows.append((sid, prop, meta['last_result'], meta.get('caught_by', '')))
        continue
    st = subprocess.run(['git', '-C', SEEDREPO, 'status', '--porcelain', '--untracked-files=no'], capture_output=True, text=True).stdout.strip()
    assert not st, 'seed worktree has uncommitted changes'
    a = subprocess.run(['git', '-C', SEEDREPO, 'apply', os.path.abspath(d + 'patch.diff')], capture_output=True, text=True)
    if a.returncode != 0:
        res, caught = 'PATCH-DOES-NOT-APPLY', a.stderr.strip()[:200]
    else:
        try:
            t = time.time()
            checks = [prop] + [c for c in meta.get('also_run', [])]
            res, caught = 'MISSED', ''
            for c in checks:
                r = subprocess.run(['./check', c, '--tier', 'quick'], capture_output=True, text=True)
                out = r.stdout.splitlines()
                if r.returncode == 1 and any(l.startswith('VIOLATION') for l in out):
                    res = 'DETECTED'; w = [l.strip() for l in out if l.startswith('  ')][:1]
                    caught = f"{c}: " + (w[0][:220] if w else '')
                    break
                if r.returncode == 2:
                    res = 'ENGINE-ERROR'; caught = r.stderr[-300:]
            if meta.get('kind', '').startswith('benign'):
                res = {'MISSED': 'NO-ALARM (as required)', 'DETECTED': 'FALSE-ALARM'}.get(res, res)
            meta['seconds'] = round(time.time() - t, 1)
        finally:
            subprocess.check_call(['git', '-C', SEEDREPO, 'checkout', '--', '.'])
    meta['last_result'] = res; meta['caught_by'] = caught
    meta['detected_by'] = [caught.split(':')[0]] if res in ('DETECTED', 'FALSE-ALARM') else []
    meta['what_was_run'] = f"scratch worktree of /repo HEAD + git apply seeded/{sid}/patch.diff; GLMX_REPO=<worktree> ./check {prop} --tier quick   (repo HEAD {subprocess.run(['git','-C','/repo','rev-parse','--short','HEAD'],capture_output=True,text=True).stdout.strip()})"
    json.dump(meta, open(d + 'meta.json', 'w'), indent=1)
    rows.append((sid, prop, res, caught)); print(sid, res, caught[:120], flush=True)
with open('seeded/RESULTS.md', 'w') as f:
    f.write('# Seeded property-breaking changes and which check catches them\n\nEach change was produced by an independent sub-agent that saw only the property text, was confirmed in a scratch worktree\n(the full 185-test suite still passes with it, its demonstration fails with it and passes without), and is re-run here with tools/seedall.py.\nSeeds labelled r1/r2 are *benign refactors* (semantics-preserving maintenance changes that keep the property true): the required verdict for them is NO-ALARM.\n\n| seed | property | quick check verdict | first witness |\n|---|---|---|---|\n')
    for sid, prop, res, caught in rows:
        f.write(f"| {sid} | {prop} | {res} | {caught.replace('|', '/')[:200]} |\n")
print(sum(1 for r in rows if r[2] == 'DETECTED'), 'breaking changes detected,', sum(1 for r in rows if r[2].startswith('NO-ALARM')), 'benign refactors without alarm, of', len(rows))
