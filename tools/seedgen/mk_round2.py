import json,sys,os,subprocess
props={json.loads(l)['id']:json.loads(l) for l in open('/verif/properties.jsonl')}
mode=sys.argv[1]
for pid in sys.argv[2:]:
    p=props[pid]
    d=f'/tmp/seed2/{pid}-{mode}'
    os.makedirs(d+'/out',exist_ok=True)
    if not os.path.exists(d+'/wt'):
        subprocess.check_call(['git','-C','/repo','worktree','add','--detach',d+'/wt','HEAD'],stdout=subprocess.DEVNULL,stderr=subprocess.DEVNULL)
    common=f"""You work ONLY inside `{d}/` . Your scratch git worktree of the library g-truc/glm (header-only C++
math library; headers under `glm/`, tests under `test/`) is `{d}/wt`. Do NOT read or write anything
under `/repo`, `/verif`, `/root`, or any other directory of `/tmp` except the two README files named below. There is no network.

## The property (this is all you are told about what must hold)

**{p['title']}**

{p['statement']}

Quantified over: {p['quantifier']['text']}

Code it is anchored in (paths relative to the worktree): {', '.join(p['anchors']['files'])}

## How to build and run the existing tests
```
cmake -G Ninja -S {d}/wt -B {d}/wt/_build -DCMAKE_BUILD_TYPE=RelWithDebInfo -DCMAKE_CXX_FLAGS=-Wno-error -DGLM_BUILD_TESTS=ON
cmake --build {d}/wt/_build -j6
ctest --test-dir {d}/wt/_build -j6 --timeout 900
```
All 185 tests must pass (`100% tests passed, 0 tests failed out of 185`).
"""
    if mode=='break':
        body=f"""# Task: seed realistic property-breaking changes into a C++ library (second round)

{common}
## What to produce

TWO independent changes (call them `c` and `d`) to the library sources under `{d}/wt/glm/`, each of which BREAKS the property
above while (1) still compiling (whole test suite builds) and (2) still passing the ENTIRE existing test suite, unedited.
Each change must be *realistic* (a slip a maintainer could make in a refactor, optimisation, cleanup or "fix") and must need
*something specific to manifest* (an unusual input, one overload / length / element type / qualifier, one configuration macro,
a multi-step sequence, two cooperating sites) - not something ordinary use would expose at once. Keep each patch small.
Do not touch `test/`, CMake files or docs. No give-away comments. The two changes must touch different functions/mechanisms
AND must differ in kind and location from the first-round changes described in `/tmp/seed/{pid}/out/a/README.md` and
`/tmp/seed/{pid}/out/b/README.md` (read those two files only to avoid duplicates). Prefer corners the first round did not
touch: other functions named in the statement, other element types (double, 64-bit, 8-bit), other vector lengths, other
configurations/macros, boundary inputs (ties, zeros of either sign, extremes, exact thresholds), aliasing / multi-step use.

For each change write `demo.cpp` (single file, `main` returns 0 on success, non-zero + message on failure) that FAILS with the
change and PASSES on the unmodified tree; compile like `g++ -std=c++17 -O2 -I{d}/wt demo.cpp -o demo` (add flags if needed and say which).

## Deliverables
```
{d}/out/c/patch.diff   # `git -C {d}/wt diff` with only change c applied (must apply with `git apply` to a clean checkout)
{d}/out/c/demo.cpp
{d}/out/c/README.md    # what the change is, why it breaks the property, exactly what is needed for it to manifest, the exact demo compile command, the ctest summary line
{d}/out/d/...          # same for change d
```
Verify yourself: clean tree => demo passes; patch applied => suite builds, 185/185 pass, demo fails. Finish with the worktree clean
(`git -C {d}/wt checkout -- .`), delete `{d}/wt/_build` and demo binaries. Summarise both changes in 3-4 lines each in your final message.
"""
    else:
        body=f"""# Task: write BENIGN refactorings of a C++ library that keep a stated property intact

{common}
## What to produce

TWO independent changes (call them `r1` and `r2`) to the library sources under `{d}/wt/glm/`, in the files listed above, each of
which is a *legitimate maintenance change that KEEPS the property above TRUE* but changes the code substantially enough that a
brittle checker (one that pins today's exact bits, today's code paths or today's unspecified behaviour) might raise a false alarm.
Examples: restructure a function (early returns, helper extraction, loop instead of unrolled code or vice versa), replace an
expression by a mathematically equivalent one whose floating-point result may differ in the last bit *where the property only
promises a rounding tolerance* (e.g. reassociate a 3-term sum, use fma-free Horner form, multiply by a reciprocal constant
where the statement allows rounding error, compute a dot product in a different order), change what is returned for inputs
OUTSIDE the documented domain (NaN payloads, sign of zero where the statement does not prescribe it, behaviour at singular
inputs), change dispatch structure (call a sibling overload instead of duplicating code), change internal helper names/signatures.
Do NOT change anything the property statement fixes exactly (it says which results must be identical and which only within
rounding). Each change must compile, pass all 185 tests, and you must ARGUE in the README why the property still holds after it
(refer to the statement's wording). Keep each patch moderate (5-40 lines). Do not touch `test/`, CMake files or docs.

For each change also write `demo.cpp` that exercises the changed function(s) on a few hundred inputs and checks the property's
claims for them (with tolerances where the statement allows them); it must PASS both on the unmodified tree and with the change.

## Deliverables
```
{d}/out/r1/patch.diff  {d}/out/r1/demo.cpp  {d}/out/r1/README.md   (what changed, why the property still holds, which results changed in the last bit if any)
{d}/out/r2/...
```
Finish with the worktree clean, delete `{d}/wt/_build` and demo binaries. Summarise both changes in 3-4 lines each in your final message.
"""
    open(d+'/TASK.md','w').write(body)
    print(pid,mode,'ok')
