#!/usr/bin/env python3
# tools/seedgen/mk_round3.py <break|benign> <Cxx ...> — prepare /tmp/seed5/<Cxx>-<mode>/ (scratch worktree of /repo HEAD, TASK.md,
# and for break tasks the READMEs of the earlier seeds of that property, so the new ones differ from them).  The task text contains
# the property text only; nothing of /verif's machinery.
import json, sys, os, subprocess, glob, shutil
props = {json.loads(l)['id']: json.loads(l) for l in open('/verif/properties.jsonl')}
mode = sys.argv[1]
labels = {'break': ('i', 'j'), 'benign': ('r5', 'r6')}[mode]
for pid in sys.argv[2:]:
    p = props[pid]
    d = f'/tmp/seed5/{pid}-{mode}'
    os.makedirs(d + '/out', exist_ok=True)
    if not os.path.exists(d + '/wt'):
        subprocess.check_call(['git', '-C', '/repo', 'worktree', 'add', '--detach', d + '/wt', 'HEAD'], stdout=subprocess.DEVNULL, stderr=subprocess.DEVNULL)
    prior = []
    if mode == 'benign':
        os.makedirs(d + '/prior', exist_ok=True)
        for r in sorted(glob.glob(f'/verif/seeded/{pid}-r[0-9]/README.md')):
            n = os.path.basename(os.path.dirname(r)); shutil.copy(r, f'{d}/prior/{n}.md')
    if mode == 'break':
        os.makedirs(d + '/prior', exist_ok=True)
        for r in sorted(glob.glob(f'/verif/seeded/{pid}-[a-z]/README.md')):
            n = os.path.basename(os.path.dirname(r)); shutil.copy(r, f'{d}/prior/{n}.md'); prior.append(f'{d}/prior/{n}.md')
    common = f"""You work ONLY inside `{d}/` . Your scratch git worktree of the library g-truc/glm (header-only C++
math library; headers under `glm/`, tests under `test/`) is `{d}/wt`. Do NOT read or write anything
under `/repo`, `/verif`, `/root`, or any other directory of `/tmp`. There is no network.

## The property (this is all you are told about what must hold)

**{p['title']}**

{p['statement']}

Quantified over: {p['quantifier']['text']}

Code it is anchored in (paths relative to the worktree): {', '.join(p['anchors']['files'])}

## How to build and run the existing tests
```
cmake -G Ninja -S {d}/wt -B {d}/wt/_build -DCMAKE_BUILD_TYPE=RelWithDebInfo -DCMAKE_CXX_FLAGS=-Wno-error -DGLM_BUILD_TESTS=ON
cmake --build {d}/wt/_build -j4
ctest --test-dir {d}/wt/_build -j4 --timeout 900
```
All 185 tests must pass (`100% tests passed, 0 tests failed out of 185`). NEVER use `git stash` (the stash is shared between all
worktrees of this repository and other people work in parallel): save work with `git diff > file` and restore with
`git checkout -- .` / `git apply file`.
"""
    if mode == 'break':
        body = f"""# Task: seed realistic property-breaking changes into a C++ library (fifth round)

{common}
## What to produce

TWO independent changes (call them `{labels[0]}` and `{labels[1]}`) to the library sources under `{d}/wt/glm/`, each of which BREAKS the property
above while (1) still compiling (whole test suite builds) and (2) still passing the ENTIRE existing test suite, unedited.
Each change must be *realistic* (a slip a maintainer could make in a refactor, optimisation, cleanup or "fix") and must need
*something specific to manifest*: an unusual input (a boundary value, a tie, a zero of one sign, an extreme, an exact threshold),
one particular overload / vector length / matrix shape / element type / qualifier, one configuration macro or instruction-set
level, a multi-step sequence of operations (aliasing, compound assignment after a conversion, a value produced by one function
and consumed by another), or two cooperating sites that each look fine alone - NOT something ordinary use would expose at once.
Keep each patch small. Do not touch `test/`, CMake files or docs. No give-away comments.
This round, prefer the kinds of slip that earlier rounds used least: (1) two cooperating sites that each look fine alone (a helper whose
contract is subtly changed plus one caller that relied on the old contract; a declaration/definition or header/inl pair drifting apart;
a macro whose expansion changes one user); (2) a change that only shows in a multi-step use (the result of one GLM function fed to
another, an object modified in place and then read, aliasing between an argument and the result object, compound assignment after a
conversion); (3) a rarely compiled branch of an `#if` ladder (a language level, a configuration macro, an instruction-set level, an
element type or vector length that has its own specialisation); (4) exact thresholds of a branch visible in the code.

Earlier rounds already produced the changes described in: {', '.join(prior) if prior else '(none)'} .
Read those files first. Your two changes must touch different functions/mechanisms from each other AND must differ in kind and
location from all of them. Prefer what they left untouched: other functions named in the statement, other element types
(double, 64-bit, 8-bit, bool), other lengths/shapes, other configurations/macros/ISA levels, rarely used overloads (scalar-vector
mixes, vec1, compound assignment, out-parameter forms), inputs at exact thresholds of branches visible in the code.

For each change write `demo.cpp` (single file, `main` returns 0 on success, non-zero + message on failure) that FAILS with the
change and PASSES on the unmodified tree; compile like `g++ -std=c++17 -O2 -DGLM_ENABLE_EXPERIMENTAL -I{d}/wt demo.cpp -o demo`
(add flags if needed and say exactly which in the README, one line starting with `FLAGS:`).

## Deliverables
```
{d}/out/{labels[0]}/patch.diff   # `git -C {d}/wt diff` with only that change applied (must apply with `git apply` to a clean checkout)
{d}/out/{labels[0]}/demo.cpp
{d}/out/{labels[0]}/README.md    # what the change is, why it breaks the property, exactly what is needed for it to manifest, a line `FLAGS: ...` with extra demo compile flags (may be empty), the ctest summary line
{d}/out/{labels[1]}/...          # same for the second change
```
Verify yourself: clean tree => demo passes; patch applied => suite builds, 185/185 pass, demo fails. Finish with the worktree clean
(`git -C {d}/wt checkout -- .`), delete `{d}/wt/_build` and demo binaries. Summarise both changes in 3-4 lines each in your final message.
"""
    else:
        body = f"""# Task: write BENIGN refactorings of a C++ library that keep a stated property intact

{common}
## What to produce

TWO independent changes (call them `r1` and `r2`) to the library sources under `{d}/wt/glm/`, in the files listed above, each of
which is a *legitimate maintenance change that KEEPS the property above TRUE* but changes the code substantially enough that a
brittle checker (one that pins today's exact bits, today's code paths or today's unspecified behaviour) might raise a false alarm.
Examples: restructure a function (early returns, helper extraction, loop instead of unrolled code or vice versa), replace an
expression by a mathematically equivalent one whose floating-point result may differ in the last bit *where the property only
promises a rounding tolerance* (reassociate a 3-term sum, Horner form, multiply by a reciprocal constant where the statement
allows rounding error, compute a dot product in a different order), change what is returned for inputs OUTSIDE the documented
domain (NaN payloads, sign of zero where the statement does not prescribe it, behaviour at singular or out-of-range inputs),
change dispatch structure (call a sibling overload instead of duplicating code), replace a bit trick by an equivalent one,
change internal helper names/signatures. If the files listed above (or the headers they include) contain a configuration-specific path - a SIMD kernel (`glm/simd/*.h`, `*_simd.inl`,
aligned-qualifier specialisations), a pre-C++11 fallback branch (`#if !GLM_HAS_CXX11_STL`, `!GLM_HAS_INITIALIZER_LISTS`), a quaternion-order
or handedness `#if` - make at least one of the two changes there (state the demo flags that compile it). Earlier benign rounds produced the
changes described in the `prior/` directory next to this file, if it exists: do something different.
Do NOT change anything the property statement fixes exactly (it says which results
must be identical and which only within rounding). Each change must compile, pass all 185 tests, and you must ARGUE in the
README why the property still holds after it (refer to the statement's wording). Keep each patch moderate (5-40 lines).
Do not touch `test/`, CMake files or docs.

For each change also write `demo.cpp` that exercises the changed function(s) on a few hundred inputs and checks the property's
claims for them (with tolerances where the statement allows them); it must PASS both on the unmodified tree and with the change.
Compile like `g++ -std=c++17 -O2 -DGLM_ENABLE_EXPERIMENTAL -I{d}/wt demo.cpp -o demo`; extra flags go on a README line starting with `FLAGS:`.

## Deliverables
```
{d}/out/r1/patch.diff  {d}/out/r1/demo.cpp  {d}/out/r1/README.md   (what changed, why the property still holds, which results changed in the last bit if any, `FLAGS:` line)
{d}/out/r2/...
```
Finish with the worktree clean, delete `{d}/wt/_build` and demo binaries. Summarise both changes in 3-4 lines each in your final message.
"""
    open(d + '/TASK.md', 'w').write(body)
    print(pid, mode, 'ok', d)
