#!/bin/sh
# usage: confirm_round3.sh <Cxx> <break|benign> <label>   — flags come from the README line "FLAGS: ..."
p=$1; mode=$2; x=$3
d=/tmp/seed5/$p-$mode
flags=$(grep -m1 '^FLAGS:' $d/out/$x/README.md | sed 's/^FLAGS://; s/`//g; s/(none)//; s/none//')
cd /verif
if [ "$mode" = benign ]; then export SEED_BENIGN=1; fi
SEED_DIR=$d python3 tools/confirm_seed.py $p $x $flags > $d/confirm_$x.log 2>&1
echo "$p-$x ($mode) flags=[$flags]: confirmed=$(grep -c '"confirmed": true' $d/confirm_$x.log)"
