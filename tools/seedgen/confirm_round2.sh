#!/bin/sh
# usage: confirm.sh <Cxx> <mode break|benign> <label> [flags...]
p=$1; mode=$2; x=$3; shift 3
cd /verif
if [ "$mode" = benign ]; then export SEED_BENIGN=1; fi
SEED_DIR=/tmp/seed2/$p-$mode python3 tools/confirm_seed.py $p $x "$@" > /tmp/seed2/$p-$mode/confirm_$x.log 2>&1
echo "$p-$x ($mode): confirmed=$(grep -c '"confirmed": true' /tmp/seed2/$p-$mode/confirm_$x.log)"
