#!/usr/bin/env python3
# tools/trybuild.py <prop-with-table> [tier] — compile every (driver, config) of a differential table, report failures only
import sys, os
sys.path.insert(0, '/verif'); import glmxpy as G, props
from concurrent.futures import ThreadPoolExecutor
spec = props.PROPS[sys.argv[1]]; tier = sys.argv[2] if len(sys.argv) > 2 else 'quick'
table = spec['table_' + tier]; cfgs = [spec.get('baseline', 'default')] + spec['configs_' + tier]
jobs = []
for c in cfgs:
    for (src, parts, libs, flags) in table:
        if c in spec.get('not_instantiable', {}).get(src, {}): continue
        for k in (parts if parts is not None else [None]):
            fl = tuple(flags) + ((f'-DGLMX_PART={k}',) if k is not None else ())
            tag = os.path.splitext(os.path.basename(src))[0] + (f'p{k}' if k is not None else '')
            jobs.append((src, c, fl, tag, (), tuple(libs)))
G.tree_hash()
def one(j):
    try:
        G.build(*j); return None
    except G.EngineError as e:
        return (j[0], j[1], j[2])
import io, contextlib
with ThreadPoolExecutor(max_workers=16) as ex:
    res = list(ex.map(one, jobs))
bad = [r for r in res if r]
print(len(jobs), 'builds,', len(bad), 'failed'); [print('  FAILED', *b) for b in bad]
