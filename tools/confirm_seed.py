#!/usr/bin/env python3
# tools/confirm_seed.py <Cxx> <a|b> [extra demo compile flags...]
# Independently confirms a sub-agent's seeded change in its scratch worktree (/tmp/seed/<Cxx>/wt):
#   clean tree: demo passes; with patch: whole suite builds, 185/185 ctest pass, demo fails.
# On success copies patch.diff, demo.cpp, README.md + meta.json to /verif/seeded/<Cxx>-<x>/.
import subprocess, sys, os, json, shutil, re, time
prop, x = sys.argv[1], sys.argv[2]
flags = sys.argv[3:]
cxx = 'g++'
if flags and flags[0].startswith('CXX='):
    cxx = flags[0][4:]; flags = flags[1:]
d = os.environ.get('SEED_DIR', f'/tmp/seed/{prop}'); wt = d + '/wt'; o = f'{d}/out/{x}'
def sh(cmd, **kw): return subprocess.run(cmd, shell=True, capture_output=True, text=True, **kw)
assert sh(f'git -C {wt} status --porcelain --untracked-files=no').stdout.strip() == '', 'worktree not clean'
demo_cmd = f'{cxx} -std=c++17 -O2 -DGLM_ENABLE_EXPERIMENTAL -I{wt} {" ".join(flags)} {o}/demo.cpp -o {d}/demo_bin'
log = {}
r = sh(demo_cmd); assert r.returncode == 0, 'demo does not compile on clean tree: ' + r.stderr[-2000:]
r = sh(f'{d}/demo_bin'); log['demo_clean_exit'] = r.returncode
assert sh(f'git -C {wt} apply {o}/patch.diff').returncode == 0, 'patch does not apply'
try:
    t = time.time()
    r = sh(f'cmake -G Ninja -S {wt} -B {wt}/_build -DCMAKE_BUILD_TYPE=RelWithDebInfo -DCMAKE_CXX_FLAGS=-Wno-error -DGLM_BUILD_TESTS=ON && cmake --build {wt}/_build -j8')
    log['suite_builds'] = r.returncode == 0
    r = sh(f'ctest --test-dir {wt}/_build -j8 --timeout 900')
    m = re.search(r'(\d+)% tests passed, (\d+) tests failed out of (\d+)', r.stdout)
    log['ctest'] = m.group(0) if m else r.stdout[-300:]
    log['suite_s'] = round(time.time() - t, 1)
    r = sh(demo_cmd); log['demo_compiles_patched'] = r.returncode == 0
    r = sh(f'{d}/demo_bin'); log['demo_patched_exit'] = r.returncode; log['demo_patched_out'] = (r.stdout + r.stderr)[-400:]
finally:
    sh(f'git -C {wt} checkout -- .'); shutil.rmtree(f'{wt}/_build', ignore_errors=True)
    if os.path.exists(f'{d}/demo_bin'): os.remove(f'{d}/demo_bin')
benign = os.environ.get('SEED_BENIGN') == '1'
ok = log['demo_clean_exit'] == 0 and log['suite_builds'] and log['ctest'].startswith('100% tests passed, 0 tests failed out of 185') and ((log['demo_patched_exit'] == 0) if benign else (log['demo_patched_exit'] != 0))
log['confirmed'] = ok; log['demo_compile_cmd'] = demo_cmd.replace(wt, '<glm tree>').replace(o + '/', '').replace(d + '/demo_bin', 'demo')
print(json.dumps(log, indent=1))
if ok:
    dst = f'/verif/seeded/{prop}-{x}'; os.makedirs(dst, exist_ok=True)
    for f in ('patch.diff', 'demo.cpp', 'README.md'): shutil.copy(f'{o}/{f}', dst)
    json.dump({'property': prop, 'seed': f'{prop}-{x}', 'kind': 'benign-refactor (must NOT be reported)' if benign else 'property-breaking', 'origin': 'independent sub-agent given only the property text and a scratch worktree',
               'needs_to_manifest': 'see README.md (written by the sub-agent)', 'confirmation': log, 'detected_by': []}, open(dst + '/meta.json', 'w'), indent=1)
sys.exit(0 if ok else 1)
