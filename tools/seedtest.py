#!/usr/bin/env python3
# tools/seedtest.py <patch.diff> <Cxx> [quick|thorough] — apply a seeded change to a scratch worktree of /repo's HEAD (never to /repo
# itself), point the check at it with GLMX_REPO, run it, undo the change.  Evidence goes to build/seed_evidence.
import subprocess, sys, os
os.environ['GLMX_EVIDENCE_DIR'] = '/verif/build/seed_evidence'   # runs against a modified tree are not evidence
patch, prop = sys.argv[1], sys.argv[2]
tier = sys.argv[3] if len(sys.argv) > 3 else 'quick'
SEEDREPO = os.environ.get('SEED_REPO', '/tmp/glmx_seedrepo2')
head = subprocess.run(['git', '-C', '/repo', 'rev-parse', 'HEAD'], capture_output=True, text=True).stdout.strip()
if not os.path.isdir(SEEDREPO):
    subprocess.check_call(['git', '-C', '/repo', 'worktree', 'add', '--detach', SEEDREPO, head], stdout=subprocess.DEVNULL, stderr=subprocess.DEVNULL)
subprocess.check_call(['git', '-C', SEEDREPO, 'checkout', '-q', '--', '.']); subprocess.check_call(['git', '-C', SEEDREPO, 'checkout', '-q', '--detach', head])
os.environ['GLMX_REPO'] = SEEDREPO
subprocess.check_call(['git', '-C', SEEDREPO, 'apply', os.path.abspath(patch)])
try:
    r = subprocess.run(['./check', prop, '--tier', tier], cwd='/verif', capture_output=True, text=True)
    out = r.stdout.strip().splitlines()
    for l in out[-12:]:
        print('   ', l[:400])
    print(f'RESULT {prop} {tier} {patch}: exit={r.returncode} ->', 'DETECTED' if r.returncode == 1 and any(x.startswith('VIOLATION') for x in out) else ('ENGINE-ERROR' if r.returncode == 2 else 'MISSED'))
    if r.returncode == 2: print(r.stderr[-1500:])
finally:
    subprocess.check_call(['git', '-C', SEEDREPO, 'checkout', '--', '.'])
