#!/usr/bin/env python3
# tools/seedtest.py <patch.diff> <Cxx> [quick|thorough] — apply a seeded change to /repo, run the check, always undo it.
import subprocess, sys, os
os.environ['GLMX_EVIDENCE_DIR'] = '/verif/build/seed_evidence'   # runs against a modified tree are not evidence
patch, prop = sys.argv[1], sys.argv[2]
tier = sys.argv[3] if len(sys.argv) > 3 else 'quick'
st = subprocess.run(['git', '-C', '/repo', 'status', '--porcelain', '--untracked-files=no'], capture_output=True, text=True).stdout.strip()
if st:
    print('refusing: /repo has uncommitted changes:\n' + st); sys.exit(3)
subprocess.check_call(['git', '-C', '/repo', 'apply', os.path.abspath(patch)])
try:
    r = subprocess.run(['./check', prop, '--tier', tier], cwd='/verif', capture_output=True, text=True)
    out = r.stdout.strip().splitlines()
    for l in out[-12:]:
        print('   ', l)
    print(f'RESULT {prop} {tier} {patch}: exit={r.returncode} ->', 'DETECTED' if r.returncode == 1 and any(x.startswith('VIOLATION') for x in out) else ('ENGINE-ERROR' if r.returncode == 2 else 'MISSED'))
    if r.returncode == 2: print(r.stderr[-1500:])
finally:
    subprocess.check_call(['git', '-C', '/repo', 'checkout', '--', '.'])
