#!/bin/sh
# rebuild and run the pinned 185-test baseline on /repo's working tree; prints the ctest summary line
cmake --build /repo/_build -j16 2>&1 | grep -E "error|FAILED" | head -5
ctest --test-dir /repo/_build -j16 --timeout 900 2>&1 | grep -E "tests passed|Failed|\*\*\*" | head
