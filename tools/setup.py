#!/usr/bin/env python3
# setup_cmd: offline; verifies the toolchain and pre-creates scratch directories.  Drivers are (re)built by each check
# from /repo's current working tree, so there is nothing GLM-dependent to build here.
import os, shutil, subprocess, sys
root = os.path.dirname(os.path.dirname(os.path.abspath(__file__)))
for d in ('build', 'build/out', 'evidence', 'replay'):
    os.makedirs(os.path.join(root, d), exist_ok=True)
ok = True
for tool in ('g++', 'clang++', 'python3'):
    if not shutil.which(tool):
        print('missing tool', tool); ok = False
r = subprocess.run(['g++', '-std=c++17', '-fsyntax-only', '-I', os.path.join(root, 'engine'), '-x', 'c++', '-'], input='#include "glmx.hpp"\nint main(){}\n', text=True)
ok = ok and r.returncode == 0
print('setup ok' if ok else 'setup FAILED'); sys.exit(0 if ok else 1)
