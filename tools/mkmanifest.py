#!/usr/bin/env python3
# regenerates MANIFEST.json from props.py (single source of truth) and validates it
import json, os, sys
sys.path.insert(0, os.path.join(os.path.dirname(__file__), '..'))
import props
ids = [json.loads(l)['id'] for l in open('/verif/properties.jsonl')]
checks, na = [], []
for pid in ids:
    s = props.PROPS.get(pid)
    if not s or s.get('disabled'):
        na.append({'property_id': pid, 'reason': (s or {}).get('disabled', 'check not built yet in this revision of /verif (see DESIGN.md section 10 for the construction order)')})
        continue
    c = {'property_id': pid, 'quick_cmd': f'./check {pid} --tier quick', 'thorough_cmd': f'./check {pid} --tier thorough',
         'evidence_file': f'/verif/evidence/{pid}.json', 'replay_cmd_template': f'./check {pid} --replay {{path}}', 'engine': 'glmx',
         'level_claimed': {'category': s['level'], 'text': s['text'], 'design_ref': f'DESIGN.md section 4, {pid}'},
         'level_note': s.get('note', 'Trusted base: the compilers and IEEE arithmetic of this host with contraction pinned off, glibc libm, libquadmath, the reference models in /verif/drivers (each cross-checked against an independent second oracle where one exists).'),
         'technique': s['technique']}
    checks.append(c)
m = {'version': 1,
     'setup_cmd': 'python3 tools/setup.py',
     'hooks': {'guard': 'GLM_VERIF_HOOKS', 'enable': 'no source hooks are needed: every entry point is a public template/inline function; drivers compile /repo headers directly with -I/repo',
               'baseline_off_cmd': 'cmake --build /repo/_build -j16 && ctest --test-dir /repo/_build -j8 --timeout 900', 'source_commits': [], 'add_only': True},
     'engines': [{'name': 'glmx', 'path': '/verif/engine', 'serves_properties': [c['property_id'] for c in checks],
                  'kind_free_text': 'stateless bounded exhaustive explorer over the real implementation: enumerates every index of explicitly named finite domains (bit patterns, lattices, operation sequences, generated programs, build configurations), reference model as oracle on every case, deterministic reduction, self-replay of every witness'}],
     'checks': checks,
     'notes': 'All checks rebuild their drivers from /repo (or $GLMX_REPO) working-tree headers on every run (content-hash keyed cache in /verif/build). known_findings.json is read-only at run time.',
     'not_applicable': na}
json.dump(m, open('/verif/MANIFEST.json', 'w'), indent=1)
try:
    import jsonschema
    jsonschema.validate(m, json.load(open('/root/.vp/MANIFEST.schema.json')))
    print('MANIFEST valid;', len(checks), 'checks,', len(na), 'not_applicable')
except ImportError:
    print('jsonschema not importable; wrote MANIFEST without validation')
