#!/bin/sh
# tools/thorough_all.sh [tier] [props...] — run every registered check of a tier to completion, one after the other; prints seconds and exit status per property
tier=${1:-thorough}; shift
props=${*:-C01 C02 C03 C04 C05 C06 C07 C08 C09 C10 C11 C12 C13 C14 C15 C16 C17 C18 C19 C20}
cd "$(dirname "$0")/.."
for p in $props; do
  s=$(date +%s)
  ./check $p --tier $tier > /tmp/_thor_$p.log 2>&1; rc=$?
  e=$(date +%s)
  echo "== $p tier=$tier exit=$rc seconds=$((e-s))"
  grep -E "^(VIOLATION|KNOWN-FINDING|ENGINE-ERROR|OK|PASS|RESULT)" /tmp/_thor_$p.log | head -20
  tail -3 /tmp/_thor_$p.log
  rm -f /tmp/_thor_$p.log
done
